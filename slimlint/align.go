package main

import (
	"fmt"
	"go/token"
	"math/bits"
	"sort"
	"strings"

	"golang.org/x/tools/go/ssa"
)

// checkCutAlignment (<id>.align): the builder cuts labels out of the keys with
// bmtree.PathsOf/PathOf(key, position, wordsize); the readers address a label
// of w bits at a position that is a multiple of w (a 257-bit node is indexed by
// the whole byte under the cursor, a 17-bit node by a half byte). Wherever the
// position handed to the cut is aligned by a constant mask (x & ^m, x &^ m),
// the mask must clear at least log2(w) low bits for every word size w that can
// reach the same call together with it.
//
// "Together" is decided per phi edge: position and word size are followed
// through phis and through the results of trie helpers down to their leaves
// (mask operations for the position, constants for the word size), and each
// leaf remembers which edge it took at every join it passed. Two leaves can
// meet at the call only if they took the same edge at every join (basic block)
// they have in common. An alignment after the join of the word sizes has no
// join in common with them and must therefore serve all of them — which is
// exactly the slip "one alignment for both node sizes, written with the
// constant of the smaller one".
//
// The rule judges constant masks only. A position aligned in another way
// (x - x&m with a computed m, a helper of another package) is not judged; the
// evidence lists how many (mask, word size) pairs were judged.
type alignLeaf struct {
	v     ssa.Value
	edges map[*ssa.BasicBlock]int // join block -> edge taken
	rets  map[*ssa.Function]int   // helper -> index of the return taken
}

func (l alignLeaf) compatible(o alignLeaf) bool {
	for b, e := range l.edges {
		if oe, ok := o.edges[b]; ok && oe != e {
			return false
		}
	}
	for f, i := range l.rets {
		if oi, ok := o.rets[f]; ok && oi != i {
			return false
		}
	}
	return true
}

func alignLeaves(v ssa.Value) []alignLeaf {
	var out []alignLeaf
	var walk func(v ssa.Value, edges map[*ssa.BasicBlock]int, rets map[*ssa.Function]int, depth int)
	walk = func(v ssa.Value, edges map[*ssa.BasicBlock]int, rets map[*ssa.Function]int, depth int) {
		if depth > 12 || len(out) > 64 {
			out = append(out, alignLeaf{v: nil, edges: edges, rets: rets})
			return
		}
		switch x := v.(type) {
		case *ssa.Phi:
			if _, seen := edges[x.Block()]; seen {
				// a second phi of a join already passed: take the same edge
				walk(x.Edges[edges[x.Block()]], edges, rets, depth+1)
				return
			}
			for i, e := range x.Edges {
				ne := map[*ssa.BasicBlock]int{}
				for k, val := range edges {
					ne[k] = val
				}
				ne[x.Block()] = i
				walk(e, ne, rets, depth+1)
			}
			return
		case *ssa.Convert:
			if isIntType(x.Type()) && isIntType(x.X.Type()) {
				walk(x.X, edges, rets, depth+1)
				return
			}
		case *ssa.Extract:
			if call, ok := x.Tuple.(*ssa.Call); ok {
				if g := calleeOf(call); g != nil && trieScope(g) && len(g.Blocks) > 0 {
					if _, seen := rets[g]; !seen {
						for ri, ret := range returnsOf(g) {
							if x.Index >= len(ret.Results) {
								continue
							}
							nr := map[*ssa.Function]int{}
							for k, val := range rets {
								nr[k] = val
							}
							nr[g] = ri
							walk(ret.Results[x.Index], edges, nr, depth+1)
						}
						return
					}
					rs := returnsOf(g)
					if ri := rets[g]; ri < len(rs) && x.Index < len(rs[ri].Results) {
						walk(rs[ri].Results[x.Index], edges, rets, depth+1)
						return
					}
				}
			}
		case *ssa.Call:
			if g := calleeOf(x); g != nil && trieScope(g) && len(g.Blocks) > 0 && g.Signature.Results().Len() == 1 {
				if _, seen := rets[g]; !seen {
					for ri, ret := range returnsOf(g) {
						nr := map[*ssa.Function]int{}
						for k, val := range rets {
							nr[k] = val
						}
						nr[g] = ri
						walk(ret.Results[0], edges, nr, depth+1)
					}
					return
				}
			}
		}
		out = append(out, alignLeaf{v: v, edges: edges, rets: rets})
	}
	walk(v, map[*ssa.BasicBlock]int{}, map[*ssa.Function]int{}, 0)
	return out
}

// maskAlignment: v is x & c or x &^ c with a constant c: the number of low bits the operation clears.
func maskAlignment(v ssa.Value) (int, bool) {
	bo, ok := v.(*ssa.BinOp)
	if !ok {
		return 0, false
	}
	var c int64
	switch bo.Op {
	case token.AND:
		k, ok := constInt(bo.Y)
		if !ok {
			if k, ok = constInt(bo.X); !ok {
				return 0, false
			}
		}
		c = k
	case token.AND_NOT:
		k, ok := constInt(bo.Y)
		if !ok {
			return 0, false
		}
		c = ^k
	default:
		return 0, false
	}
	if c >= 0 {
		return 0, false // keeps low bits: a field extraction, not an alignment
	}
	return bits.TrailingZeros64(uint64(c)), true
}

func checkCutAlignment(p *Program, r *Report, rule string) {
	saved := r.curRule
	defer func() { r.curRule = saved }()
	r.Rule(rule, "SSA phi-edge pairing", "a constant alignment of the label cut position clears log2(word size) bits for every word size it can meet", 0)
	entry := p.Trie.Func("NewSlimTrie")
	if entry == nil {
		r.Unk("label cut position", "", "trie.NewSlimTrie not found")
		return
	}
	var fs []*ssa.Function
	for f := range trieReach(entry) {
		if trieScope(f) && len(f.Blocks) > 0 {
			fs = append(fs, f)
		}
	}
	sort.Slice(fs, func(i, j int) bool { return funcID(fs[i]) < funcID(fs[j]) })
	type judged struct{ pos, detail string }
	nCalls, nPairs := 0, 0
	var bad []string
	var first token.Pos
	seenMask := map[string]bool{}
	for _, f := range fs {
		for _, c := range callsIn(f) {
			call, ok := c.(*ssa.Call)
			if !ok || len(call.Call.Args) < 3 {
				continue
			}
			id := funcID(calleeOf(call))
			if id != idPathsOf && id != idPathOf {
				continue
			}
			nCalls++
			if first == token.NoPos {
				first = call.Pos()
			}
			r.Func(shortFn(f))
			posLeaves := alignLeaves(call.Call.Args[1])
			wLeaves := alignLeaves(call.Call.Args[2])
			for _, pl := range posLeaves {
				if pl.v == nil {
					continue
				}
				al, ok := maskAlignment(pl.v)
				if !ok {
					continue
				}
				for _, wl := range wLeaves {
					if wl.v == nil {
						continue
					}
					w, ok := constInt(wl.v)
					if !ok || w <= 0 || !pl.compatible(wl) {
						continue
					}
					key := fmt.Sprintf("%s|%d|%d", p.Pos(pl.v.Pos()), al, w)
					if seenMask[key] {
						continue
					}
					seenMask[key] = true
					nPairs++
					if int64(1)<<uint(al) < w {
						bad = append(bad, fmt.Sprintf("the position aligned at %s to %d bit(s) reaches the cut at %s together with word size %d: labels of %d bits are cut at positions that are not multiples of %d, while the readers address them by whole words", p.Pos(pl.v.Pos()), 1<<uint(al), p.Pos(call.Pos()), w, w, w))
					}
				}
			}
		}
	}
	if nCalls == 0 {
		r.Unk("label cut position", "", "no call of bmtree.PathsOf/PathOf under NewSlimTrie (anchor not found)")
		return
	}
	sort.Strings(bad)
	r.Check(len(bad) == 0, "alignment of the label cut position", p.Pos(first), fmt.Sprintf("%d cut call(s); %d (constant mask, word size) pair(s) that can meet, each mask clears at least log2(word size) bits", nCalls, nPairs),
		strings.Join(firstN(dedupStrings(bad), 2), "; "))
	if nPairs == 0 {
		r.Note("%s: no constant alignment mask reaches a label cut — positions aligned in another way are not judged by this rule", rule)
	}
}
