package main

import (
	"fmt"
	"go/token"
	"go/types"
	"sort"
	"strings"

	"golang.org/x/tools/go/ssa"
)

// shape fields of the wire message: everything that fixes node numbering,
// labels, step positions and values. Stated on protobuf names.
var shapeFields = []string{
	"Slim.BigInnerCnt", "Slim.ShortSize", "Slim.ShortTable", "Slim.NodeTypeBM", "Slim.Inners", "Slim.ShortBM", "Slim.Leaves",
	"Slim.InnerPrefixes.EltCnt", "Slim.InnerPrefixes.PresenceBM",
}

var prefixOptLabels = []string{"opt:InnerPrefix", "opt:LeafPrefix", "opt:Complete"}

func matchesField(path, field string) bool {
	return path == field || strings.HasPrefix(path, field+".")
}

func flowProblems(bf *builderFlow, r *Report, rule string) bool {
	if len(bf.problems) > 0 {
		for _, pr := range bf.problems {
			r.Unk("builder analysis", "", pr)
		}
		return true
	}
	return false
}

func checkC13(p *Program, r *Report) {
	r.Explanation = "Decided for all key/value lists: in the abstract wire message returned by the builder (labelled information-flow analysis of NewSlimTrie, context-cloned, field-sensitive, with transitive termination-insensitive control dependence) no shape field — BigInnerCnt, ShortSize, ShortTable, NodeTypeBM.*, Inners.*, ShortBM.*, Leaves.*, InnerPrefixes.EltCnt, InnerPrefixes.PresenceBM.* — carries, by data or control flow, a label of option InnerPrefix, LeafPrefix or Complete. Hence the trie shape (node numbering, labels, step positions, retained keys, values) is the same in all modes with equal DedupValue and the prefix options only add payload: the mechanism behind monotonicity. (complete) on the guarded summary, with store effects, of the option normalisation under NewSlimTrie: on every path on which Complete can be true the final value of InnerPrefix and LeafPrefix is a pointer to true whatever the caller supplied, and no flag is left nil."
	r.NotCovered = "That the payload is only used to reject on the query side (equality of cursor positions between prefix and step mode is a data invariant). Whether a trie is produced at all may depend on an option (termination-insensitive)."
	r.Trusted = []string{"go/ssa; calls leaving package trie are summarised as pure functions of their arguments (openacid/low helpers, encoders)"}
	r.Assumptions = []string{"openacid/low helpers called by the builder have no hidden state (checked once by reading: bitmap/bmtree/sigbits/bitstr are pure)"}

	bf := newBuilderFlow(p)
	r.Rule("C13.shape", "E2", "no shape wire field carries a prefix-option label", len(shapeFields))
	if flowProblems(bf, r, "C13.shape") {
		return
	}
	r.Note("E2: %d passes, %d contexts, %d abstract objects, %d store events; builder=%s worklist=%v", bf.passes, len(bf.it.ctxs), len(bf.it.objs), len(bf.it.events), shortFn(bf.builder), bf.workElem)
	for k := range bf.it.ctxs {
		r.Func(shortFn(bf.it.ctxs[k].fn))
	}
	for _, sf := range shapeFields {
		found := false
		for _, wf := range bf.sortedWire() {
			if !matchesField(wf.path, sf) {
				continue
			}
			if len(wf.stores) == 0 && len(wf.labels) == 0 {
				continue // never written by the builder
			}
			found = true
			bad := wf.labels.withPrefix(prefixOptLabels...)
			pos := ""
			if len(wf.stores) > 0 {
				pos = p.Pos(wf.stores[0].pos)
			}
			if len(bad) > 0 {
				var where []string
				for _, ev := range wf.stores {
					if len(ev.ctl.withPrefix(prefixOptLabels...)) > 0 || len(ev.labels.withPrefix(prefixOptLabels...)) > 0 {
						where = append(where, p.Pos(ev.pos))
					}
				}
				r.Bad("wire field "+wf.path, pos, fmt.Sprintf("shape field depends on %v (labels %s); stores under option control at %v", bad, wf.labels, where))
			} else {
				r.OK("wire field "+wf.path, pos, fmt.Sprintf("labels %s", wf.labels))
			}
		}
		if !found {
			r.Unk("wire field "+sf, "", "the builder never writes this shape field (anchor not found in the abstract output message)")
		}
	}
	// the prefix payload fields do carry the option labels (sanity of the label sources)
	r.Rule("C13.sources", "E2", "the option labels are live: payload fields carry them", 2)
	for _, pf := range []struct{ path, lbl string }{{"Slim.InnerPrefixes.PositionBM", "opt:InnerPrefix+"}, {"Slim.LeafPrefixes", "opt:LeafPrefix+"}} {
		wf := bf.wire[pf.path]
		if wf == nil {
			r.Unk("wire field "+pf.path, "", "not in the abstract output message")
			continue
		}
		live := false
		for _, ev := range wf.stores {
			if ev.ctl[pf.lbl] || ev.onlyIfOpt(strings.TrimSuffix(strings.TrimPrefix(pf.lbl, "opt:"), "+")) {
				live = true
			}
		}
		if live {
			r.OK("wire field "+pf.path, "", "stored under "+pf.lbl+" (label source is live)")
		} else {
			r.Unk("wire field "+pf.path, "", fmt.Sprintf("expected a store under control label %s, found labels %s: option loads are no longer recognised", pf.lbl, wf.labels))
		}
	}
	// ---- each prefix kind's payload is independent of the other prefix option: what LeafPrefix mode
	// stores (and therefore rejects) must not depend on InnerPrefix being set, and vice versa
	r.Rule("C13.payload-independent", "E2", "a prefix section's content does not depend on the other prefix option", 2)
	for _, pr := range []struct{ section, other string }{{"Slim.LeafPrefixes", "opt:InnerPrefix"}, {"Slim.InnerPrefixes", "opt:LeafPrefix"}} {
		var bad []string
		n := 0
		for _, wf := range bf.sortedWire() {
			if !matchesField(wf.path, pr.section) {
				continue
			}
			n++
			tainted := wf.labels[pr.other]
			for _, ev := range wf.stores {
				if ev.labels[pr.other] || ev.ctl[pr.other] || ev.ctl[pr.other+"+"] || ev.ctl[pr.other+"-"] {
					tainted = true
				}
			}
			if tainted {
				bad = append(bad, wf.path)
			}
		}
		if n == 0 {
			r.Unk("section "+pr.section, "", "not in the abstract output message")
			continue
		}
		r.Check(len(bad) == 0, "section "+pr.section+" independent of "+pr.other, "", fmt.Sprintf("%d wire fields, none carries %s", n, pr.other),
			fmt.Sprintf("wire field(s) %v depend on %s: the content of this prefix section changes with the other prefix option, so modes that should differ only by added payload build different payloads (e.g. a LeafPrefixes array without tails that rejects every retained key with a tail)", bad, pr.other))
	}
	checkOptNormalisation(p, r)
	// ---- stored prefixes are decoded the same way in every mode that stores them (typestate rule of C10,
	// incl. "the bit length of a stored prefix reads its marker byte")
	checkSessionTypestate(p, r, "C13.session-valid")
	// "every mode gives identical answers for retained keys": only the modes without stored inner
	// prefixes narrow the step, so a silent truncation there makes the modes disagree
	if entry := p.Trie.Func("NewSlimTrie"); entry != nil {
		if F := findBuilder(p, entry); F != nil {
			r.Explanation += " (narrow) every narrowing conversion on the construction path is bounded (rule shared with C08): only the modes without stored inner prefixes narrow the step, so a silent truncation would make them lose retained keys that the other modes find."
			checkNarrowAs(p, r, "C13.narrow", entry, F)
		}
	}
	checkCodecsAs(p, r, "C13")
}

// checkOptNormalisation (C13.complete): on the guarded summary of the option
// normalisation (the loop-free function under NewSlimTrie that stores into the
// Opt fields), on every path where Complete is set and true the final value of
// InnerPrefix and of LeafPrefix is a pointer to true — whatever the caller put
// there — and on every path all three flags the builder dereferences are
// non-nil afterwards.
func checkOptNormalisation(p *Program, r *Report) { checkOptNormalisationAs(p, r, "C13.complete") }

func checkOptNormalisationAs(p *Program, r *Report, rule string) {
	r.Rule(rule, "E11", "Complete=true forces InnerPrefix and LeafPrefix to true; no flag is left nil; DedupValue defaults to true", 2)
	entry := p.Trie.Func("NewSlimTrie")
	if entry == nil {
		r.Unk("option normalisation", "", "trie.NewSlimTrie not found")
		return
	}
	hasOptEffects := func(ps []fpath) bool {
		for _, fp := range ps {
			for _, e := range fp.effects {
				if strings.HasSuffix(e.path, ".InnerPrefix") || strings.HasSuffix(e.path, ".LeafPrefix") {
					return true
				}
			}
		}
		return false
	}
	var norm *ssa.Function
	var paths []fpath
	cands := []*ssa.Function{}
	for _, c := range callsIn(entry) {
		if g := calleeOf(c); g != nil && trieScope(g) && len(g.Blocks) > 0 && !hasLoop(g) {
			cands = append(cands, g)
		}
	}
	cands = append(cands, entry)
	for _, g := range dedupFuncs(cands) {
		ps, why := flatten(p, g, nil, trieScope)
		if why == "" && hasOptEffects(ps) {
			norm, paths = g, ps
			break
		}
	}
	if norm == nil {
		r.Unk("option normalisation", p.Pos(entry.Pos()), "no loop-free function under NewSlimTrie stores into Opt.InnerPrefix/LeafPrefix (anchor not found)")
		return
	}
	r.Func(shortFn(norm))
	isTrue := func(v string) bool {
		return strings.HasPrefix(v, "call:") && strings.HasSuffix(v, ".Bool(true)") || v == "&true"
	}
	nonNil := func(v string) bool {
		return strings.HasPrefix(v, "call:") && strings.Contains(v, ".Bool(") || strings.HasPrefix(v, "&") || strings.HasPrefix(v, "local:")
	}
	var badC, badN, badOn, badD []string
	nComplete := 0
	for _, fp := range paths {
		if fp.panics {
			continue
		}
		complete := true // Complete may be set and true on this path unless a condition says otherwise
		assertedTrue := false
		nilAtEntry := map[string]bool{}
		bare := map[string]bool{}
		for _, c := range fp.pc {
			a, op, b, ok := splitCond(c)
			if !ok {
				// a boolean used as a condition directly: "X" or "!X"
				if !strings.HasPrefix(c, "!") {
					bare[c] = true
					if strings.HasSuffix(c, ".Complete") {
						assertedTrue = true
					}
				} else if strings.HasSuffix(c, ".Complete") {
					complete = false
				}
				continue
			}
			isC := func(x string) bool { return strings.HasSuffix(x, ".Complete") }
			if (op == "!=" && ((isC(a) && b == "true") || (isC(b) && a == "true"))) || (op == "==" && ((isC(a) && (b == "false" || b == "nil")) || (isC(b) && (a == "false" || a == "nil")))) {
				complete = false
			}
			if (op == "==" && ((isC(a) && b == "true") || (isC(b) && a == "true"))) || (op == "!=" && ((isC(a) && b == "false") || (isC(b) && a == "false"))) {
				assertedTrue = true
			}
			if op == "==" && a == "nil" {
				for _, f := range []string{"DedupValue", "InnerPrefix", "LeafPrefix"} {
					if strings.HasSuffix(b, "."+f) {
						nilAtEntry[f] = true
					}
				}
			}
		}
		final := map[string]string{}
		for _, e := range fp.effects {
			for _, f := range []string{"DedupValue", "InnerPrefix", "LeafPrefix"} {
				if strings.HasSuffix(e.path, "."+f) {
					v := e.val.String()
					// Bool(X) where X is a condition known true on this path
					for c := range bare {
						if strings.HasSuffix(v, ".Bool("+c+")") {
							v = strings.TrimSuffix(v, c+")") + "true)"
						}
					}
					final[f] = v
				}
			}
		}
		if complete {
			nComplete++
			for _, f := range []string{"InnerPrefix", "LeafPrefix"} {
				if !isTrue(final[f]) && !(strings.HasPrefix(final[f], "call:") && strings.HasSuffix(final[f], ".Complete)") && strings.Contains(final[f], ".Bool(")) {
					got := final[f]
					if got == "" {
						got = "left as the caller set it"
					}
					badC = append(badC, fmt.Sprintf("on the path [%s] Complete can be true but %s is %s", abbreviate(fp.pcKey()), f, got))
				}
			}
		}
		if !assertedTrue {
			// the converse: a prefix kind is switched on only by the caller's own flag or by Complete being
			// true — "Complete was given" is not "Complete is true" (filter mode must stay filter mode)
			for _, f := range []string{"InnerPrefix", "LeafPrefix"} {
				if isTrue(final[f]) {
					badOn = append(badOn, fmt.Sprintf("on the path [%s] %s is set to true although nothing says Complete is true", abbreviate(fp.pcKey()), f))
				}
			}
		}
		// the documented default: values are de-duplicated unless the caller says otherwise
		dedupKnownSet := false
		for _, c := range fp.pc {
			if a, op, b, ok := splitCond(c); ok && op == "!=" && ((a == "nil" && strings.HasSuffix(b, ".DedupValue")) || (b == "nil" && strings.HasSuffix(a, ".DedupValue"))) {
				dedupKnownSet = true
			}
		}
		if !dedupKnownSet && final["DedupValue"] != "" && !isTrue(final["DedupValue"]) {
			badD = append(badD, fmt.Sprintf("on the path [%s] DedupValue can be nil on entry and ends as %s", abbreviate(fp.pcKey()), abbreviate(final["DedupValue"])))
		}
		for _, f := range []string{"DedupValue", "InnerPrefix", "LeafPrefix"} {
			if nilAtEntry[f] && !nonNil(final[f]) {
				badN = append(badN, fmt.Sprintf("on the path [%s] %s is nil on entry and is not given a value", abbreviate(fp.pcKey()), f))
			}
		}
	}
	if nComplete == 0 {
		r.Unk(shortFn(norm)+": Complete implies both prefixes", p.Pos(norm.Pos()), "no path of the summary tests Complete == true")
	} else {
		r.Check(len(badC) == 0, shortFn(norm)+": Complete implies both prefixes", p.Pos(norm.Pos()), fmt.Sprintf("%d paths with Complete true, each ends with InnerPrefix = LeafPrefix = Bool(true)", nComplete),
			strings.Join(firstN(dedupStrings(sortStr(badC)), 3), "; ")+": a trie built as \"Complete\" stores less than both prefixes and reports absent keys as found")
	}
	r.Check(len(badOn) == 0, shortFn(norm)+": prefixes are switched on only by Complete being true", p.Pos(norm.Pos()), "no path without Complete == true stores true into a prefix option",
		strings.Join(firstN(dedupStrings(sortStr(badOn)), 3), "; ")+": a trie asked to be a filter stores key material (size no longer independent of key length)")
	r.Check(len(badD) == 0, shortFn(norm)+": DedupValue defaults to true", p.Pos(norm.Pos()), "every path on which DedupValue can be nil on entry and is assigned ends with Bool(true)",
		strings.Join(firstN(dedupStrings(sortStr(badD)), 3), "; ")+": with the option left out, adjacent equal values are all retained (retained keys, Stat and the index size differ from the documented default)")
	r.Check(len(badN) == 0, shortFn(norm)+": no flag left nil", p.Pos(norm.Pos()), fmt.Sprintf("%d paths, every flag nil on entry is assigned", len(paths)), strings.Join(firstN(dedupStrings(sortStr(badN)), 3), "; "))
}

func checkC17(p *Program, r *Report) {
	r.Explanation = "Decided for every key set: key material (values that can hold bytes derived from elements of keys: substrings, bit strings, conversions; integers such as labels, steps and lengths are bounded per node and do not count) is stored into the builder state or the returned wire message only under control of option InnerPrefix or LeafPrefix being true, and in the abstract output message it reaches only InnerPrefixes.Bytes and LeafPrefixes.Bytes. So with default options nothing proportional to key length can be stored. (width) the element width (FixedSize) of a per-node array outside the value/leaf-prefix payload is not computed from key content (label keydata: every value or decision derived from key elements); (sections) whether a per-node section (pointer field of the message) is built does not depend on key content, except under the emptiness test of the builder's node count — so lengthening keys without moving their branch points cannot change a per-node cost."
	r.NotCovered = "The numeric bound (8 bytes per key + 256). Single key bytes copied one at a time (byte values are not tracked as key material)."
	r.Trusted = []string{"go/ssa; pure-function summaries for calls leaving package trie"}
	bf := newBuilderFlow(p)
	r.Rule("C17.nokeybytes.stores", "E2", "every store of key material into builder state or message executes under opt:InnerPrefix+ or opt:LeafPrefix+", 2)
	if flowProblems(bf, r, "C17") {
		return
	}
	for k := range bf.it.ctxs {
		r.Func(shortFn(bf.it.ctxs[k].fn))
	}
	state := bf.stateObjs(p)
	seen := map[string]bool{}
	for _, ev := range bf.it.sortedEvents() {
		if !ev.labels[lblKey] || !state[ev.obj] {
			continue
		}
		key := fmt.Sprintf("store of key material in %s", shortFn(ev.fn))
		pos := p.Pos(ev.pos)
		id := key + "@" + pos
		if seen[id] {
			continue
		}
		seen[id] = true
		// "only if the option is true": reached through the true edge of a branch on the
		// option and through no false edge (transitive control dependence)
		onlyIf := func(o string) bool { return ev.ctl["opt:"+o+"+"] && !ev.ctl["opt:"+o+"-"] }
		if onlyIf("InnerPrefix") || onlyIf("LeafPrefix") {
			r.OK(key+" #"+fmt.Sprint(len(seen)), pos, "under "+strings.Join(ev.ctl.withPrefix("opt:InnerPrefix", "opt:LeafPrefix"), ","))
		} else {
			r.Bad(key+" #"+fmt.Sprint(len(seen)), pos, fmt.Sprintf("key bytes are stored into %s on a path where neither option InnerPrefix nor LeafPrefix is known to be true (control labels %s)", ev.obj.name, ev.ctl))
		}
	}
	r.Rule("C17.nokeybytes.message", "E2", "in the output message key material reaches only InnerPrefixes.Bytes and LeafPrefixes.Bytes", 1)
	allowed := map[string]bool{"Slim.InnerPrefixes.Bytes": true, "Slim.LeafPrefixes.Bytes": true}
	n := 0
	for _, wf := range bf.sortedWire() {
		if !wf.labels[lblKey] {
			continue
		}
		n++
		pos := ""
		if len(wf.stores) > 0 {
			pos = p.Pos(wf.stores[0].pos)
		}
		if allowed[wf.path] {
			r.OK("wire field "+wf.path, pos, "holds key material (prefix payload)")
		} else {
			r.Bad("wire field "+wf.path, pos, "holds key material although it is not a prefix payload field")
		}
	}
	if n == 0 {
		r.Unk("key material in the output message", "", "no wire field carries key material: the key label source is dead (seed not recognised)")
	}

	// ---- shape of the filter-mode message does not depend on key content.
	// keydata labels every value computed from key elements (integers and, through control
	// dependence, decisions). Two things decide how many bytes a per-node section costs and must
	// not carry it outside the value/prefix payload sections: the element width of a packed array
	// (FixedSize) and whether a section (a pointer field of the message) is built at all.
	r.Rule("C17.width", "E2", "per-node element widths outside Leaves/LeafPrefixes are not computed from key content", 1)
	payload := func(path string) bool {
		return strings.HasPrefix(path, "Slim.Leaves") || strings.HasPrefix(path, "Slim.LeafPrefixes")
	}
	alive := false
	for _, wf := range bf.sortedWire() {
		if wf.labels[lblKeyData] {
			alive = true
		}
	}
	if !alive {
		r.Unk("key-derived data in the output message", "", "no wire field carries the keydata label: the label source is dead")
	}
	for _, wf := range bf.sortedWire() {
		if payload(wf.path) || !strings.HasSuffix(wf.path, ".FixedSize") || len(wf.stores) == 0 {
			continue
		}
		tainted := wf.labels[lblKeyData]
		pos := p.Pos(wf.stores[0].pos)
		for _, ev := range wf.stores {
			if ev.labels[lblKeyData] || ev.ctl[lblKeyData] {
				tainted = true
				pos = p.Pos(ev.pos)
			}
		}
		r.Check(!tainted, "wire field "+wf.path, pos, "element width "+wf.labels.String()+" does not depend on key content",
			"the element width of this per-node array is computed from key content (labels "+wf.labels.String()+"): lengthening keys without moving their branch points (a long common prefix, one long branch-free run) changes the cost of every node's entry, so the size of a filter-mode index depends on key length")
	}
	checkBigNodeThreshold(p, r)
	checkShiftInvariant(p, r)
	checkOptNormalisationAs(p, r, "C17.options")
	checkBuildStateless(p, r, "C17.build-stateless")
	r.Rule("C17.sections", "E2", "whether a per-node section of the message is built does not depend on key content", 4)
	for _, wf := range bf.sortedWire() {
		if payload(wf.path) || !wf.ptr {
			continue
		}
		for _, ev := range wf.stores {
			construct := "section " + wf.path
			if !ev.ctl[lblKeyData] {
				r.OK(construct, p.Pos(ev.pos), "built under control labels "+ev.ctl.String())
				continue
			}
			why := onlyEmptinessOfNodeCount(p, ev)
			if why == "" {
				r.OK(construct, p.Pos(ev.pos), "built unless the trie has no node at all (emptiness marker): K and P+K are empty together")
			} else {
				r.Bad(construct, p.Pos(ev.pos), "this section is built or omitted depending on key content ("+why+"): a key set K and its lengthening P+K can differ by the whole section, whose size is proportional to the node count")
			}
		}
	}
	checkWireFieldsKnown(p, r, "C17.fields")
}

// onlyEmptinessOfNodeCount: within its function, the store is control
// dependent only on option tests and on comparisons of the builder's node
// count with zero (the documented "no NodeTypeBM for an empty trie" marker).
// Returns "" when so, otherwise the offending condition.
func onlyEmptinessOfNodeCount(p *Program, ev *storeEvent) string {
	var blk *ssa.BasicBlock
	instrsOf(ev.fn, func(b *ssa.BasicBlock, in ssa.Instruction) {
		if in.Pos() == ev.pos {
			if _, ok := in.(*ssa.Store); ok {
				blk = b
			}
		}
	})
	if blk == nil {
		return "store not located"
	}
	deps := controlDeps(ev.fn, nil)
	seen := map[*ssa.BasicBlock]bool{}
	var conds []*ssa.If
	var walk func(b *ssa.BasicBlock)
	walk = func(b *ssa.BasicBlock) {
		if seen[b] {
			return
		}
		seen[b] = true
		for _, d := range deps[b] {
			if iff, ok := lastInstr(d.branch).(*ssa.If); ok {
				conds = append(conds, iff)
			}
			walk(d.branch)
		}
	}
	walk(blk)
	nodeCountZero := func(v ssa.Value) bool {
		bo, ok := v.(*ssa.BinOp)
		if !ok {
			return false
		}
		for _, pair := range [][2]ssa.Value{{bo.X, bo.Y}, {bo.Y, bo.X}} {
			if k, ok := constInt(pair[1]); ok && k == 0 {
				if ld, ok := deref(pair[0]); ok {
					if _, fv, fa := fieldOfAddr(ld); fa != nil && fv.Name() == nodeCounterField(p) {
						return true
					}
				}
			}
		}
		return false
	}
	found := false
	for _, iff := range conds {
		if nodeCountZero(iff.Cond) {
			found = true
			continue
		}
		// a condition that reads no builder state (an option test) is not key content
		readsState := false
		var visit func(v ssa.Value, d int)
		visit = func(v ssa.Value, d int) {
			if d > 6 || v == nil {
				return
			}
			switch x := v.(type) {
			case *ssa.UnOp:
				if x.Op == token.MUL {
					if _, fv, fa := fieldOfAddr(x.X); fa != nil {
						if n := namedOf(fa.X.Type()); n != nil && n.Obj().Name() == "Opt" {
							return
						}
						_ = fv
					}
					if inner, ok := x.X.(*ssa.UnOp); ok && inner.Op == token.MUL {
						visit(inner, d+1)
						return
					}
					readsState = true
					return
				}
				visit(x.X, d+1)
			case *ssa.BinOp:
				visit(x.X, d+1)
				visit(x.Y, d+1)
			case *ssa.Const:
			default:
				readsState = true
			}
		}
		visit(iff.Cond, 0)
		if readsState {
			return "controlled by the condition at " + p.Pos(iff.Cond.Pos())
		}
	}
	if !found {
		return "key-content control label inherited from a caller"
	}
	return ""
}

func init() {
	checks["C13"] = checkC13
	checks["C17"] = checkC17
}

// nodeCounterField: the builder field that counts all nodes, identified as the
// capacity handed to the bitmap builder whose result becomes Slim.NodeTypeBM
// (the node-type bitmap has one bit per node). "" when not found.
func nodeCounterField(p *Program) string {
	name := ""
	for _, f := range p.FuncsOf(triePath) {
		instrsOf(f, func(_ *ssa.BasicBlock, in ssa.Instruction) {
			st, ok := in.(*ssa.Store)
			if !ok {
				return
			}
			_, fv, fa := fieldOfAddr(st.Addr)
			if fa == nil || fv.Name() != "NodeTypeBM" {
				return
			}
			if n := namedOf(fa.X.Type()); n == nil || n.Obj().Name() != "Slim" {
				return
			}
			call, ok := st.Val.(*ssa.Call)
			if !ok || len(call.Call.Args) < 2 {
				return
			}
			if ld, ok := deref(call.Call.Args[1]); ok {
				if _, cv, ca := fieldOfAddr(ld); ca != nil {
					name = cv.Name()
				}
			}
		})
	}
	return name
}

// checkBigNodeThreshold (C17.bignode): a 257-bit node costs about 33 bytes of
// bitmap whatever its fan-out; at the property's 8 bytes per key it needs at
// least 5 children to pay for itself. In the construction function every place
// that selects the 257-bit size is dominated by the true edge of a test that
// the node's own child count (a value computed from the prefix counts of its
// key range) exceeds a constant >= 4. A disjunct that makes nodes big for
// another reason (their level, their position) lets 2-child nodes cost 33
// bytes each.
func checkBigNodeThreshold(p *Program, r *Report) {
	r.Rule("C17.bignode", "CFG+E6", "a node is made 257-bit only under a lower bound on its own child count", 1)
	entry := p.Trie.Func("NewSlimTrie")
	F := findBuilder(p, entry)
	if F == nil {
		r.Unk("big-node decision", "", "construction function not found")
		return
	}
	scan := []*ssa.Function{F}
	for _, c := range callsIn(F) {
		if g := calleeOf(c); g != nil && trieScope(g) && len(g.Blocks) > 0 {
			scan = append(scan, g)
		}
	}
	n := 0
	for _, g := range dedupFuncs(scan) {
		for _, b := range g.Blocks {
			for _, in := range b.Instrs {
				ph, ok := in.(*ssa.Phi)
				if !ok || !isIntType(ph.Type()) {
					continue
				}
				has17 := false
				for _, ed := range ph.Edges {
					if k, ok := constInt(ed); ok && k == 17 {
						has17 = true
					}
				}
				for i, ed := range ph.Edges {
					k, ok := constInt(ed)
					if !ok || k != 257 {
						continue
					}
					if !has17 {
						// the 17 may arrive through a nested phi; accept any phi that selects 257
					}
					n++
					pred := b.Preds[i]
					okDom := false
					why := "the 257-bit size is selected in a block that is not dominated by a test of the node's child count"
					for _, blk := range g.Blocks {
						iff, ok := lastInstr(blk).(*ssa.If)
						if !ok {
							continue
						}
						bo, ok := iff.Cond.(*ssa.BinOp)
						if !ok {
							continue
						}
						var x ssa.Value
						var kk int64
						min := int64(0)
						switch bo.Op {
						case token.GTR:
							if c, ok := constInt(bo.Y); ok {
								x, kk, min = bo.X, c, 4
							}
						case token.GEQ:
							if c, ok := constInt(bo.Y); ok {
								x, kk, min = bo.X, c, 5
							}
						case token.LSS:
							if c, ok := constInt(bo.X); ok {
								x, kk, min = bo.Y, c, 4
							}
						case token.LEQ:
							if c, ok := constInt(bo.X); ok {
								x, kk, min = bo.Y, c, 5
							}
						}
						if x == nil || !fromPrefixCounts(x, 0) {
							continue
						}
						s := blk.Succs[0]
						if len(s.Preds) == 1 && (s == pred || s.Dominates(pred)) {
							if kk >= min {
								okDom = true
							} else {
								why = fmt.Sprintf("the child-count threshold %d is too low for a 33-byte node at 8 bytes per key", kk)
							}
						}
					}
					r.Check(okDom, fmt.Sprintf("257-bit size selected in %s #%d", shortFn(g), n), p.Pos(pred.Instrs[0].Pos()), "dominated by child count > K, K >= 4", why+": nodes with two or three children can be made 257-bit and cost 33 bytes each, beyond 8 bytes per key")
				}
			}
		}
	}
	// the size may be chosen as a record ("node shape") taken from package-level shapes: a return of a
	// record whose constant fields include 257 is the selection site
	for _, g := range dedupFuncs(scan) {
		for _, ret := range returnsOf(g) {
			if len(ret.Results) != 1 {
				continue
			}
			if _, isStruct := ret.Results[0].Type().Underlying().(*types.Struct); !isStruct {
				continue
			}
			ts, ok := structConstTuples(p, ret.Results[0], 0)
			if !ok {
				continue
			}
			big := false
			for _, t := range ts {
				for _, v := range t {
					if v == 257 {
						big = true
					}
				}
			}
			if !big {
				continue
			}
			n++
			pred := ret.Block()
			okDom := false
			why := "the 257-bit shape is selected in a block that is not dominated by a test of the node's child count"
			for _, blk := range g.Blocks {
				iff, ok := lastInstr(blk).(*ssa.If)
				if !ok {
					continue
				}
				op, cx, cy, _, ok := cmpOf(iff.Cond)
				if !ok {
					continue
				}
				var x ssa.Value
				var kk, min int64
				switch op {
				case token.GTR:
					if c, ok := constInt(cy); ok {
						x, kk, min = cx, c, 4
					}
				case token.GEQ:
					if c, ok := constInt(cy); ok {
						x, kk, min = cx, c, 5
					}
				case token.LSS:
					if c, ok := constInt(cx); ok {
						x, kk, min = cy, c, 4
					}
				case token.LEQ:
					if c, ok := constInt(cx); ok {
						x, kk, min = cy, c, 5
					}
				}
				if x == nil || !fromPrefixCounts(x, 0) {
					continue
				}
				s0 := blk.Succs[0]
				if len(s0.Preds) == 1 && (s0 == pred || s0.Dominates(pred)) {
					if kk >= min {
						okDom = true
					} else {
						why = fmt.Sprintf("the child-count threshold %d is too low for a 33-byte node at 8 bytes per key", kk)
					}
				}
			}
			r.Check(okDom, fmt.Sprintf("257-bit size selected in %s #%d", shortFn(g), n), p.Pos(ret.Pos()), "dominated by child count > K, K >= 4", why+": nodes with two or three children can be made 257-bit and cost 33 bytes each, beyond 8 bytes per key")
		}
	}
	if n == 0 {
		r.Unk("big-node decision", p.Pos(F.Pos()), "no place selects the 257-bit bitmap size (anchor not found)")
	}
}

// fromPrefixCounts: v is computed from the result of the significant-bit
// index's prefix counting over the node's key range (sigbits CountPrefixes):
// the number of distinct next words, i.e. the node's child count.
func fromPrefixCounts(v ssa.Value, d int) bool {
	if v == nil || d > 8 {
		return false
	}
	switch x := v.(type) {
	case *ssa.Call:
		if g := calleeOf(x); g != nil && strings.HasSuffix(funcID(g), ".CountPrefixes") {
			return true
		}
	case *ssa.Extract:
		return fromPrefixCounts(x.Tuple, d+1)
	case *ssa.UnOp:
		return fromPrefixCounts(x.X, d+1)
	case *ssa.IndexAddr:
		return fromPrefixCounts(x.X, d+1)
	case *ssa.Convert:
		return fromPrefixCounts(x.X, d+1)
	case *ssa.BinOp:
		return fromPrefixCounts(x.X, d+1) || fromPrefixCounts(x.Y, d+1)
	case *ssa.Parameter:
		// a helper that is handed the counts: every call site passes a value computed from them
		fn := x.Parent()
		idx := -1
		for i, q := range fn.Params {
			if q == x {
				idx = i
			}
		}
		n := 0
		if curProg == nil {
			return false
		}
		for _, h := range curProg.FuncsOf(triePath) {
			for _, c := range callsIn(h) {
				if calleeOf(c) == fn && idx >= 0 && idx < len(c.Common().Args) {
					n++
					if !fromPrefixCounts(c.Common().Args[idx], d+1) {
						return false
					}
				}
			}
		}
		return n > 0
	}
	return false
}

// checkWireFieldsKnown (C17.fields): the size argument of C17 goes field by field over the serialized
// message: what each section costs per node or per key is judged by the rules above for the fields they
// know. A protobuf field added to one of the message types (a per-level table, a cache that is written
// out) is a contribution to the serialized size that none of them has looked at: the obligation is
// undecided until the field is added to the analysed set — deliberately so, a new wire field is a format
// change, not a refactoring.
var analysedWireFields = map[string][]string{
	"Slim":      {"BigInnerCnt", "ShortSize", "NodeTypeBM", "Inners", "ShortBM", "ShortTable", "InnerPrefixes", "LeafPrefixes", "Leaves"},
	"Bitmap":    {"Words", "RankIndex", "SelectIndex"},
	"VLenArray": {"N", "EltCnt", "PresenceBM", "PositionBM", "FixedSize", "Bytes"},
}

func checkWireFieldsKnown(p *Program, r *Report, rule string) {
	saved := r.curRule
	defer func() { r.curRule = saved }()
	r.Rule(rule, "types", "every serialized field of the index message is in the analysed set", 3)
	r.Explanation += " (fields) every protobuf field of the message types Slim, Bitmap and VLenArray is one of the fields whose size contribution the rules judge; a field added to the serialized form leaves the obligation undecided."
	names := make([]string, 0, len(analysedWireFields))
	for n := range analysedWireFields {
		names = append(names, n)
	}
	sort.Strings(names)
	for _, n := range names {
		nt := p.NamedType(p.Trie, n)
		if nt == nil {
			r.Unk("wire message "+n, "", "type not found in package trie")
			continue
		}
		st, ok := nt.Underlying().(*types.Struct)
		if !ok {
			r.Unk("wire message "+n, "", "not a struct")
			continue
		}
		known := map[string]bool{}
		for _, f := range analysedWireFields[n] {
			known[f] = true
		}
		var unknown []string
		cnt := 0
		for i := 0; i < st.NumFields(); i++ {
			if !strings.Contains(st.Tag(i), "protobuf:") {
				continue
			}
			cnt++
			if !known[st.Field(i).Name()] {
				unknown = append(unknown, st.Field(i).Name())
			}
		}
		if len(unknown) > 0 {
			r.Unk("wire message "+n, p.Pos(nt.Obj().Pos()), fmt.Sprintf("serialized field(s) %v are not in the analysed set: what they add to the serialized size per key is not decided", unknown))
		} else {
			r.OK("wire message "+n, p.Pos(nt.Obj().Pos()), fmt.Sprintf("%d serialized fields, all analysed", cnt))
		}
	}
}
