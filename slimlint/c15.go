package main

import (
	"fmt"
	"go/types"
	"sort"
	"strings"

	"golang.org/x/tools/go/ssa"
)

// encoderTypes lists the named types of package encode that implement Encoder.
func encoderTypes(p *Program) []*types.Named {
	var out []*types.Named
	ifc := p.NamedType(p.Enc, "Encoder")
	if ifc == nil {
		return nil
	}
	it := ifc.Underlying().(*types.Interface)
	for _, m := range p.Enc.Members {
		t, ok := m.(*ssa.Type)
		if !ok {
			continue
		}
		n, ok := t.Type().(*types.Named)
		if !ok || n == ifc {
			continue
		}
		if types.Implements(n, it) || types.Implements(types.NewPointer(n), it) {
			out = append(out, n)
		}
	}
	sort.Slice(out, func(i, j int) bool { return out[i].Obj().Name() < out[j].Obj().Name() })
	return out
}

func encMethod(p *Program, n *types.Named, name string) *ssa.Function {
	for _, t := range []types.Type{n, types.NewPointer(n)} {
		sel := p.Prog.MethodSets.MethodSet(t).Lookup(p.Enc.Pkg, name)
		if sel == nil {
			continue
		}
		if f := p.Prog.MethodValue(sel); f != nil && f.Synthetic == "" {
			return f
		}
	}
	return nil
}

// singleReturnTerms evaluates the results of a function with exactly one
// distinct tuple of return terms (all returns must agree).
func returnTerms(p *Program, f *ssa.Function) ([]string, *evaluator, bool) {
	e := newEval(p)
	var first []string
	for i, r := range returnsOf(f) {
		var cur []string
		for _, x := range r.Results {
			cur = append(cur, e.eval(x).String())
		}
		if i == 0 {
			first = cur
		} else if strings.Join(cur, "|") != strings.Join(first, "|") {
			return first, e, false
		}
	}
	return first, e, len(first) > 0
}

// convChain follows conversions between integer types of equal width
// (bit-pattern preserving). Returns the root and whether every step preserved width.
func convChain(v ssa.Value) (ssa.Value, bool, string) {
	ok := true
	why := ""
	for {
		switch x := v.(type) {
		case *ssa.Convert:
			fs, ts := intBytes(x.X.Type()), intBytes(x.Type())
			if fs == 0 || ts == 0 || fs != ts {
				ok = false
				why = fmt.Sprintf("conversion %s -> %s changes width", x.X.Type(), x.Type())
			}
			v = x.X
			continue
		case *ssa.ChangeType:
			v = x.X
			continue
		}
		return v, ok, why
	}
}

// encodedLen: symbolic length of the []byte an Encode function returns.
func encodedLen(e *evaluator, v ssa.Value) *term {
	switch x := v.(type) {
	case *ssa.MakeSlice:
		return e.eval(x.Len)
	case *ssa.Slice:
		if al, ok := x.X.(*ssa.Alloc); ok && x.Low == nil {
			if at, ok := al.Type().(*types.Pointer).Elem().Underlying().(*types.Array); ok {
				if x.High == nil {
					return K(at.Len())
				}
				return e.eval(x.High)
			}
		}
		if x.Low == nil && x.High != nil {
			return e.eval(x.High)
		}
	case *ssa.Call:
		// binary.LittleEndian.AppendUintN(base, v)
		if f := calleeOf(x); f != nil && strings.HasPrefix(funcID(f), "(encoding/binary.littleEndian).AppendUint") && len(x.Call.Args) == 3 {
			var n int64
			fmt.Sscanf(strings.TrimPrefix(funcID(f), "(encoding/binary.littleEndian).AppendUint"), "%d", &n)
			if base := encodedLen(e, x.Call.Args[1]); base != nil && n > 0 {
				return O("add", base, K(n/8))
			}
		}
		if bi, ok := x.Call.Value.(*ssa.Builtin); ok && bi.Name() == "append" && len(x.Call.Args) == 2 {
			base := encodedLen(e, x.Call.Args[0])
			if base != nil {
				return O("add", base, ON("len", "", S(e.pathOrTerm(stripBytesConv(x.Call.Args[1])))))
			}
		}
	}
	return nil
}

func checkC15(p *Program, r *Report) {
	r.Explanation = "Decided for every value: (sizes) per encoder type the size reports normalise to the same term — len(Encode(v)), the count Decode reports, GetSize and GetEncodedSize: the constant Sizeof(T) for the fixed integers, UintSize/8 for Int, 2+len / 2+(256*b[0]+b[1]) for String16 with the header written as (len>>8, len), Size for Bytes/TypeEncoder, 0 for Dummy; (bijection, a complete proof for I8..U64 given encoding/binary) between the type assertion d.(T) and binary.LittleEndian.PutUintN, and between UintN and the boxed result, every conversion is between integer types of equal width N = 8*Sizeof(T), the buffer has N/8 bytes, Put and Get use the same N and the byte-order object is LittleEndian — so Decode(Encode(v)) = v and the layout is fixed-width little-endian two's complement; (TypeEncoder) Encode/Decode go only through encoding/binary with the configured order and type, guarded by the type check."
	r.NotCovered = "TypeEncoder field-by-field layout (encoding/binary's), String16 beyond 65535 bytes (outside its domain), Dummy (lossy by design)."
	r.Trusted = []string{"go/ssa, go/types", "encoding/binary PutUintN/UintN/Read/Write"}
	encs := encoderTypes(p)
	r.Rule("C15.sizes", "E6", "the size reports of an encoder are one term", 11)
	r.Rule("C15.bijection", "types+SSA", "fixed integer codecs: width-preserving conversion chains around LittleEndian Put/Get", 7)
	r.Rule("C15.string16", "E6", "String16 header: big-endian 16-bit length written and read", 2)
	r.Rule("C15.typeencoder", "structure", "TypeEncoder delegates to encoding/binary with its configured order and type", 2)
	rule := func(name string) {
		for _, ri := range r.Rules {
			if ri.Name == name {
				r.curRule = ri
			}
		}
	}
	if len(encs) == 0 {
		rule("C15.sizes")
		r.Unk("encode.Encoder implementations", "", "none found")
		return
	}
	for _, n := range encs {
		name := n.Obj().Name()
		enc, dec, gs, ges := encMethod(p, n, "Encode"), encMethod(p, n, "Decode"), encMethod(p, n, "GetSize"), encMethod(p, n, "GetEncodedSize")
		if enc == nil || dec == nil || gs == nil || ges == nil {
			rule("C15.sizes")
			r.Unk("encode."+name, "", "method missing")
			continue
		}
		for _, f := range []*ssa.Function{enc, dec, gs, ges} {
			r.Func(shortFn(f))
		}
		gsT, _, ok1 := returnTerms(p, gs)
		gesT, _, ok2 := returnTerms(p, ges)
		decT, _, ok3 := returnTerms(p, dec)
		e := newEval(p)
		var encLen *term
		encRets := returnsOf(enc)
		if len(encRets) >= 1 {
			encLen = encodedLen(e, encRets[0].Results[0])
		}
		rule("C15.sizes")
		construct := "encode." + name + " size reports"
		pos := p.Pos(gs.Pos())
		// classification by what Decode boxes
		var boxed types.Type
		for _, ret := range returnsOf(dec) {
			if len(ret.Results) == 2 {
				if mi, ok := ret.Results[1].(*ssa.MakeInterface); ok {
					boxed = mi.X.Type()
				}
			}
		}
		isFixedInt := false
		if b, ok := boxed.(*types.Basic); ok && b.Info()&types.IsInteger != 0 && b.Kind() != types.Int && b.Kind() != types.Uint && b.Kind() != types.Uintptr {
			isFixedInt = true
		}
		if name == "TypeEncoder" || name == "Bytes" || name == "Dummy" || name == "String16" || name == "Int" {
			isFixedInt = false
		}
		switch {
		case isFixedInt:
			w := fmt.Sprint(p.Sizes.Sizeof(boxed))
			ok := ok1 && ok2 && ok3 && len(decT) == 2 && gsT[0] == w && gesT[0] == w && decT[0] == w && encLen != nil && encLen.String() == w
			el := "?"
			if encLen != nil {
				el = encLen.String()
			}
			r.Check(ok, construct, pos, "all four = Sizeof("+boxed.String()+") = "+w, fmt.Sprintf("GetSize=%v GetEncodedSize=%v Decode=%v len(Encode)=%s, want %s each", gsT, gesT, first(decT), el, w))
			rule("C15.bijection")
			why := fixedIntBijection(p, enc, dec, boxed)
			r.Check(why == "", "encode."+name+" is a bijection on "+boxed.String(), p.Pos(enc.Pos()), "d.("+boxed.String()+") -> equal-width conversions -> LittleEndian.PutUint"+fmt.Sprint(8*p.Sizes.Sizeof(boxed))+" / Uint -> equal-width conversions -> "+boxed.String(), why)
		case name == "Int":
			w := fmt.Sprint(p.Sizes.Sizeof(types.Typ[types.Int]))
			el := "?"
			if encLen != nil {
				el = encLen.String()
			}
			ok := ok1 && ok2 && len(decT) >= 1 && gsT[0] == w && gesT[0] == w && decT[0] == w && el == w
			r.Check(ok, construct, pos, "all four = UintSize/8 = "+w, fmt.Sprintf("GetSize=%v GetEncodedSize=%v Decode=%v len(Encode)=%s, want %s", gsT, gesT, first(decT), el, w))
			rule("C15.bijection")
			why := nativeIntBijection(p, enc, dec)
			r.Check(why == "", "encode.Int is a bijection on int", p.Pos(enc.Pos()), "Put/Get of the native width on the live branch", why)
		case name == "String16":
			el := "?"
			if encLen != nil {
				el = encLen.String()
			}
			wantDec := "add(2,idx(b,1),mul(256,idx(b,0)))"
			ok := ok1 && ok2 && ok3 && len(decT) == 2 && gesT[0] == wantDec && decT[0] == wantDec && strings.HasPrefix(gsT[0], "add(2,len(") && el == gsT[0]
			r.Check(ok, construct, pos, "GetSize = len(Encode) = 2+len(s); Decode count = GetEncodedSize = 2 + 256*b[0] + b[1]",
				fmt.Sprintf("GetSize=%v len(Encode)=%s Decode=%v GetEncodedSize=%v; want 2+len(s) twice and %s twice (a shift inside a narrower type shows as shlw/wrap)", gsT, el, first(decT), gesT, wantDec))
			rule("C15.string16")
			// header bytes written
			hdr := map[string]string{}
			instrsOf(enc, func(_ *ssa.BasicBlock, in ssa.Instruction) {
				if st, ok := in.(*ssa.Store); ok {
					if ia, ok := st.Addr.(*ssa.IndexAddr); ok {
						if k, ok := constInt(ia.Index); ok {
							hdr[fmt.Sprint(k)] = e.eval(st.Val).String()
						}
					}
				}
			})
			lenT := strings.TrimPrefix(gsT[0], "add(2,")
			lenT = strings.TrimSuffix(lenT, ")")
			okH := hdr["0"] == "conv:byte(shr:s("+lenT+",8))" && hdr["1"] == "conv:byte("+lenT+")"
			r.Check(okH, "encode.String16 header written", p.Pos(enc.Pos()), "b[0]=byte(len>>8), b[1]=byte(len)", fmt.Sprintf("header stores %v, want b[0]=byte(len>>8) b[1]=byte(len) of %s", hdr, lenT))
			// decoded string is b[2:2+l]
			okS := len(decT) == 2 && decT[1] == "convert:string(slice(b,2,"+wantDec+"))"
			r.Check(okS, "encode.String16 payload read", p.Pos(dec.Pos()), "string(b[2:2+l])", "Decode returns "+first(decT[1:])+", want string(b[2:2+l])")
		case name == "Bytes":
			ok := ok1 && ok2 && ok3 && len(decT) == 2 && strings.HasSuffix(gsT[0], ".Size") && gesT[0] == gsT[0] && decT[0] == gsT[0] && decT[1] == "slice(b,_,"+gsT[0]+")"
			r.Check(ok, construct, pos, "GetSize = GetEncodedSize = Decode count = Size; Decode returns b[:Size]", fmt.Sprintf("GetSize=%v GetEncodedSize=%v Decode=%v", gsT, gesT, decT))
		case name == "Dummy":
			ok := ok1 && ok2 && ok3 && gsT[0] == "0" && gesT[0] == "0" && decT[0] == "0" && encLen != nil && encLen.String() == "0"
			r.Check(ok, construct, pos, "all 0", fmt.Sprintf("GetSize=%v GetEncodedSize=%v Decode=%v", gsT, gesT, decT))
		case name == "TypeEncoder":
			ok := ok1 && ok2 && ok3 && len(decT) == 2 && strings.HasSuffix(gsT[0], ".Size") && gesT[0] == gsT[0] && decT[0] == gsT[0]
			r.Check(ok, construct, pos, "GetSize = GetEncodedSize = Decode count = Size", fmt.Sprintf("GetSize=%v GetEncodedSize=%v Decode=%v", gsT, gesT, first(decT)))
			rule("C15.typeencoder")
			r.Check(typeEncoderDelegates(p, enc, "encoding/binary.Write") == "", "encode.TypeEncoder.Encode", p.Pos(enc.Pos()), "type guard, then binary.Write(buf, m.Endian, d) on every return", typeEncoderDelegates(p, enc, "encoding/binary.Write"))
			r.Check(typeEncoderDelegates(p, dec, "encoding/binary.Read") == "", "encode.TypeEncoder.Decode", p.Pos(dec.Pos()), "binary.Read(b[:Size], m.Endian, new(m.Type)) on every return", typeEncoderDelegates(p, dec, "encoding/binary.Read"))
			if ctor := p.Enc.Func("NewTypeEncoderEndian"); ctor != nil {
				why := typeEncoderCtor(p, ctor)
				r.Check(why == "", "encode.NewTypeEncoderEndian", p.Pos(ctor.Pos()), "returns a fresh encoder whose Endian is the requested order (default when nil), Type/Size from the sample value", why)
			} else {
				r.Unk("encode.NewTypeEncoderEndian", "", "constructor not found")
			}
		default:
			r.Note("encoder type encode.%s is not classified by this rule set (not analysed)", name)
		}
	}
}

func first(s []string) string {
	if len(s) == 0 {
		return "?"
	}
	return s[0]
}

func isLittleEndianCall(c *ssa.Call, method string) bool {
	return calleeIs(c, "(encoding/binary.littleEndian)."+method)
}

// fixedIntBijection checks Encode/Decode of a fixed-width integer encoder.
func fixedIntBijection(p *Program, enc, dec *ssa.Function, T types.Type) string {
	w := p.Sizes.Sizeof(T)
	n := fmt.Sprint(8 * w)
	// Encode
	var assert *ssa.TypeAssert
	instrsOf(enc, func(_ *ssa.BasicBlock, in ssa.Instruction) {
		if ta, ok := in.(*ssa.TypeAssert); ok && !ta.CommaOk {
			assert = ta
		}
	})
	if assert == nil || !types.Identical(assert.AssertedType, T) {
		return "Encode does not assert d.(" + T.String() + ")"
	}
	if w == 1 {
		// []byte{byte(v)}
		found := false
		why := ""
		instrsOf(enc, func(_ *ssa.BasicBlock, in ssa.Instruction) {
			if st, ok := in.(*ssa.Store); ok {
				root, ok2, y := convChain(st.Val)
				if root == assert {
					found = true
					if !ok2 {
						why = "Encode: " + y
					}
				}
			}
		})
		if !found {
			return "Encode does not store the asserted value into the buffer"
		}
		if why != "" {
			return why
		}
	} else {
		var put *ssa.Call
		for _, c := range callsIn(enc) {
			if call, ok := c.(*ssa.Call); ok && (strings.Contains(funcID(calleeOf(call)), "PutUint") || strings.Contains(funcID(calleeOf(call)), "AppendUint")) {
				put = call
			}
		}
		if put == nil {
			return "Encode does not call binary PutUintN / AppendUintN"
		}
		if !isLittleEndianCall(put, "PutUint"+n) && !isLittleEndianCall(put, "AppendUint"+n) {
			return "Encode writes with " + funcID(calleeOf(put)) + ", want (binary.littleEndian).PutUint" + n + " or AppendUint" + n
		}
		root, ok, why := convChain(put.Call.Args[2])
		if root != assert {
			return "the value written is not the asserted argument"
		}
		if !ok {
			return "Encode: " + why
		}
	}
	// Decode
	for _, ret := range returnsOf(dec) {
		if len(ret.Results) != 2 {
			return "Decode does not return (int, interface{})"
		}
		mi, ok := ret.Results[1].(*ssa.MakeInterface)
		if !ok || !types.Identical(mi.X.Type(), T) {
			return "Decode does not box a " + T.String()
		}
		root, okc, why := convChain(mi.X)
		if !okc {
			return "Decode: " + why + " (values that do not survive the detour decode wrongly)"
		}
		if w == 1 {
			// int8(b[0])
			ld, isLd := deref(root)
			ia, isIA := ld.(*ssa.IndexAddr)
			if !isLd || !isIA {
				return "Decode does not read b[0]"
			}
			if k, ok := constInt(ia.Index); !ok || k != 0 {
				return "Decode does not read b[0]"
			}
		} else {
			call, ok := root.(*ssa.Call)
			if !ok || !isLittleEndianCall(call, "Uint"+n) {
				got := "a non-call"
				if ok {
					got = funcID(calleeOf(call))
				}
				return "Decode reads with " + got + ", want (binary.littleEndian).Uint" + n
			}
		}
	}
	return ""
}

// nativeIntBijection: on the branch live for this platform's int size the
// codec uses Put/Get of that width with width-preserving conversions.
func nativeIntBijection(p *Program, enc, dec *ssa.Function) string {
	w := p.Sizes.Sizeof(types.Typ[types.Int])
	n := fmt.Sprint(8 * w)
	hasPut, hasGet := false, false
	why := ""
	for _, c := range callsIn(enc) {
		if call, ok := c.(*ssa.Call); ok && isLittleEndianCall(call, "PutUint"+n) {
			hasPut = true
			if _, ok, y := convChain(call.Call.Args[2]); !ok {
				why = "Encode: " + y
			}
		}
	}
	for _, c := range callsIn(dec) {
		if call, ok := c.(*ssa.Call); ok && isLittleEndianCall(call, "Uint"+n) {
			hasGet = true
			for _, ref := range *call.Referrers() {
				if cv, ok := ref.(*ssa.Convert); ok && intBytes(cv.Type()) != w {
					why = "Decode narrows the " + n + "-bit value"
				}
			}
		}
	}
	if !hasPut || !hasGet {
		return "no LittleEndian Put/Get of the native width " + n
	}
	return why
}

// typeEncoderDelegates: every return of f is dominated by a call of the given
// encoding/binary function whose byte-order argument is loaded from the
// receiver's Endian field; no other return path exists (panics excepted).
func typeEncoderDelegates(p *Program, f *ssa.Function, id string) string {
	var call *ssa.Call
	for _, c := range callsIn(f) {
		if x, ok := c.(*ssa.Call); ok && calleeIs(x, id) {
			call = x
		}
	}
	if call == nil {
		return "does not call " + id
	}
	ord := call.Call.Args[1]
	ld, ok := deref(ord)
	if !ok {
		return "byte order passed to " + id + " is not the receiver's Endian field"
	}
	if _, fv, fa := fieldOfAddr(ld); fa == nil || fv.Name() != "Endian" {
		return "byte order passed to " + id + " is not the receiver's Endian field"
	}
	for _, ret := range returnsOf(f) {
		if !instrDominates(call, ret) {
			return "a return at " + p.Pos(ret.Pos()) + " is not preceded by " + id + " (value produced without encoding/binary)"
		}
	}
	return ""
}

func init() { checks["C15"] = checkC15 }

// typeEncoderCtor: every non-nil encoder the constructor returns is allocated
// by this call and its Endian field is the requested byte order.
func typeEncoderCtor(p *Program, ctor *ssa.Function) string {
	var endianParam *ssa.Parameter
	for _, prm := range ctor.Params {
		if isNamed(prm.Type(), "encoding/binary", "ByteOrder") {
			endianParam = prm
		}
	}
	if endianParam == nil {
		return "no byte-order parameter"
	}
	var fromParam func(v ssa.Value, seen map[ssa.Value]bool) bool
	fromParam = func(v ssa.Value, seen map[ssa.Value]bool) bool {
		if seen[v] {
			return false
		}
		seen[v] = true
		if v == endianParam {
			return true
		}
		if ph, ok := v.(*ssa.Phi); ok {
			for _, e := range ph.Edges {
				if fromParam(e, seen) {
					return true
				}
			}
		}
		return false
	}
	n := 0
	for _, ret := range returnsOf(ctor) {
		if len(ret.Results) == 0 || isNilConst(ret.Results[0]) {
			continue
		}
		n++
		al, ok := ret.Results[0].(*ssa.Alloc)
		if !ok {
			return "the encoder returned at " + p.Pos(ret.Pos()) + " is not allocated by this call (shared/cached object: its byte order is whatever an earlier caller asked for)"
		}
		okEndian := false
		for _, ref := range *al.Referrers() {
			if fa, ok := ref.(*ssa.FieldAddr); ok {
				_, fv, _ := fieldOfAddr(fa)
				if fv.Name() != "Endian" {
					continue
				}
				for _, r2 := range *fa.Referrers() {
					if st, ok := r2.(*ssa.Store); ok && fromParam(st.Val, map[ssa.Value]bool{}) {
						okEndian = true
					}
				}
			}
		}
		if !okEndian {
			return "the Endian field of the returned encoder is not the requested byte order"
		}
	}
	if n == 0 {
		return "no encoder is returned"
	}
	return ""
}
