// Package arraybound is a positive control for the rule that a slice of (or an
// index into) a local fixed-size array whose bound is guarded by a comparison
// must fit the array for the largest value the guard lets through.
package arraybound

// SmallWrong slices small[:n+1] under n <= 64: 65 bytes of a 64-byte array when n == 64.
func SmallWrong(old []byte, n int32) []byte {
	var small [64]byte
	var buf []byte
	if n <= int32(len(small)) {
		buf = small[:n+1]
	} else {
		buf = make([]byte, n+1)
	}
	copy(buf, old)
	return append([]byte(nil), buf...)
}

// SmallRight guards with n < 64.
func SmallRight(old []byte, n int32) []byte {
	var small [64]byte
	var buf []byte
	if n < int32(len(small)) {
		buf = small[:n+1]
	} else {
		buf = make([]byte, n+1)
	}
	copy(buf, old)
	return append([]byte(nil), buf...)
}

// IndexWrong writes idx[n] under n <= 16 into a 16-element array.
func IndexWrong(bm uint64) int {
	var idx [16]int32
	n := 0
	for ; bm != 0; bm &= bm - 1 {
		if n <= 16 {
			idx[n] = int32(bm & 0xff)
		}
		n++
	}
	return n + int(idx[0])
}

// IndexRight writes idx[n] under n < 16.
func IndexRight(bm uint64) int {
	var idx [16]int32
	n := 0
	for ; bm != 0; bm &= bm - 1 {
		if n < 16 {
			idx[n] = int32(bm & 0xff)
		}
		n++
	}
	return n + int(idx[0])
}
