package main

import (
	"fmt"
	"os"
	"strings"

	"golang.org/x/tools/go/ssa"
)

// dumpSym prints the normalised terms of returns, branch conditions and
// selected stores of the functions named in $FN (comma separated ids).
func dumpSym(p *Program) {
	want := strings.Split(os.Getenv("FN"), ",")
	for _, f := range p.FuncsOf(slimPath) {
		match := false
		for _, w := range want {
			if w != "" && strings.Contains(funcID(f), w) {
				match = true
			}
		}
		if !match || f.Synthetic != "" {
			continue
		}
		fmt.Println("==", funcID(f))
		e := newEval(p)
		for _, b := range f.Blocks {
			for _, in := range b.Instrs {
				switch x := in.(type) {
				case *ssa.If:
					fmt.Printf("  b%d if %s\n", b.Index, e.eval(x.Cond))
				case *ssa.Return:
					var rs []string
					for _, r := range x.Results {
						rs = append(rs, e.eval(r).String())
					}
					fmt.Printf("  b%d return %s\n", b.Index, strings.Join(rs, " | "))
				case *ssa.Store:
					fmt.Printf("  b%d store %s = %s\n", b.Index, e.path(x.Addr), e.eval(x.Val))
				case *ssa.Call:
					if x.Call.StaticCallee() != nil && !inAnalysed(x.Call.StaticCallee()) || x.Call.IsInvoke() {
						fmt.Printf("  b%d call %s\n", b.Index, e.eval(x))
					}
				}
			}
		}
	}
}
