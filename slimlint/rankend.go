package main

// Rank at the exclusive end of a node. An inner node occupies the bits
// [from, to) of Slim.Inners; rank(Inners, to) reads Words[to>>6], which does
// not exist when the node is the last one and the bitmap ends on a 64-bit
// boundary (the library's rank has no bounds check). The last child is
// rank(to-1) + bit(to-1); the source says so in a comment of the right-most
// walk. Rule: no rank query on Slim.Inners takes as position the exclusive end
// of a node's bit range (the session's `to`, or from + node size).

import (
	"fmt"
	"regexp"
	"strings"

	"golang.org/x/tools/go/ssa"
)

var reEndTerm = regexp.MustCompile(`^add\((17|257|Slim\.ShortSize),[A-Za-z0-9_.:@()]*\.FROM\)$`)

func checkRankEnd(p *Program, r *Report, rule string, fns []*ssa.Function) {
	r.Rule(rule, "E6", "no rank query on Slim.Inners at the exclusive end of a node's bit range", 1)
	n := 0
	for _, f := range fns {
		if f.Synthetic != "" || len(f.Blocks) == 0 || !trieScope(f) {
			continue
		}
		e := newEval(p)
		ord := 0
		for _, c := range callsIn(f) {
			call, ok := c.(*ssa.Call)
			if !ok {
				continue
			}
			g := calleeOf(call)
			if g == nil || g.Pkg == nil || g.Pkg.Pkg.Path() != "github.com/openacid/low/bitmap" || !(strings.HasPrefix(g.Name(), "Rank")) || len(call.Call.Args) != 3 {
				continue
			}
			if !strings.HasSuffix(e.path(call.Call.Args[0]), "Inners.Words") {
				continue
			}
			n++
			ord++
			pos := call.Call.Args[2]
			construct := fmt.Sprintf("rank on Slim.Inners #%d in %s", ord, shortFn(f))
			isEnd := false
			if ld, ok := pos.(*ssa.UnOp); ok {
				if _, fv, fa := fieldOfAddr(ld.X); fa != nil && isSessionType(fa.X.Type()) && fv.Name() == curSess.to {
					isEnd = true
				}
			}
			t := e.eval(pos).String()
			norm := strings.ReplaceAll(t, "."+curSess.from+")", ".FROM)")
			if reEndTerm.MatchString(norm) {
				isEnd = true
			}
			r.Func(shortFn(f))
			r.Check(!isEnd, construct, p.Pos(call.Pos()), "position "+abbreviate(t)+" is inside a node",
				"the position "+abbreviate(t)+" is the exclusive end of the node's bit range: for the last inner node of a bitmap that ends on a 64-bit boundary the word does not exist (index out of range); the last child is rank(to-1)+bit(to-1)")
		}
	}
	if n == 0 {
		r.Unk("rank queries on Slim.Inners", "", "no rank query on Slim.Inners found in the functions of this rule")
	}
}

// checkRankLastBit: a rank query answers "how many ones before position i" and hands back bit i
// separately. A query at a position of the form T-1 is the idiom for "how many ones in [0,T)" and needs
// the bit added (rank(T-1) + bit(T-1)); dropping the bit miscounts exactly when position T-1 is set — the
// last node of a zone has a step, the last label of a bitmap is set — which small key sets rarely produce.
func checkRankLastBit(p *Program, r *Report, rule string) {
	r.Rule(rule, "E6", "a rank query at a position T-1 uses the bit it returns", 1)
	n := 0
	for _, f := range p.FuncsOf(triePath) {
		if f.Synthetic != "" || len(f.Blocks) == 0 || !trieScope(f) {
			continue
		}
		e := newEval(p)
		ord := 0
		for _, c := range callsIn(f) {
			call, ok := c.(*ssa.Call)
			if !ok {
				continue
			}
			g := calleeOf(call)
			if g == nil || g.Pkg == nil || g.Pkg.Pkg.Path() != "github.com/openacid/low/bitmap" || !strings.HasPrefix(g.Name(), "Rank") || len(call.Call.Args) != 3 {
				continue
			}
			t := e.eval(call.Call.Args[2])
			// position = something - 1 (as a normalised sum with the constant -1)
			isLast := false
			if t.op == "add" {
				for _, a := range t.args {
					if isK(a) && a.c == -1 {
						isLast = true
					}
				}
			}
			if t.op == "conv" && len(t.args) == 1 && t.args[0].op == "add" {
				for _, a := range t.args[0].args {
					if isK(a) && a.c == -1 {
						isLast = true
					}
				}
			}
			if !isLast {
				continue
			}
			n++
			ord++
			bitUsed := false
			if refs := call.Referrers(); refs != nil {
				for _, ref := range *refs {
					if ex, ok := ref.(*ssa.Extract); ok && ex.Index == 1 && ex.Referrers() != nil && len(*ex.Referrers()) > 0 {
						bitUsed = true
					}
				}
			}
			r.Func(shortFn(f))
			r.Check(bitUsed, fmt.Sprintf("rank at a last position #%d in %s", ord, shortFn(f)), p.Pos(call.Pos()), "position "+abbreviate(t.String())+": the returned bit is used",
				"the rank query at "+abbreviate(t.String())+" discards the bit of that position: it counts the ones strictly before the last position, so a set last bit (the last node of the zone, the last label) is not counted")
		}
	}
	if n == 0 {
		r.Unk("rank queries at a last position", "", "no rank query at a position of the form T-1 found")
	}
}
