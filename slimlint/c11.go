package main

import (
	"fmt"
	"go/types"
	"sort"
	"strings"

	"golang.org/x/tools/go/ssa"
)

// read API of *trie.SlimTrie named by property C11 (and the index wrappers).
var readAPI = []string{"Get", "RangeGet", "Search", "GetID", "GetI8", "GetI16", "GetI32", "GetI64",
	"ScanFrom", "ScanFromTo", "NewIter", "Stat", "String", "Marshal", "GetVersion"}

var mutatorAPI = map[string]bool{"Unmarshal": true, "Reset": true, "ProtoMessage": true}

// closureReach makes every closure created in reachable code reachable: it may
// be returned to and called by the user (iterators).
func (a *ptsAnalysis) closureReach() {
	for {
		n := len(a.order)
		for _, f := range append([]*ssa.Function{}, a.order...) {
			instrsOf(f, func(_ *ssa.BasicBlock, in ssa.Instruction) {
				if mc, ok := in.(*ssa.MakeClosure); ok {
					a.reachFn(mc.Fn.(*ssa.Function))
				}
			})
		}
		if len(a.order) == n {
			return
		}
	}
}

func (a *ptsAnalysis) solveWithClosures() int {
	total := 0
	for {
		total += a.solve()
		n := len(a.order)
		a.closureReach()
		if len(a.order) == n {
			// final pass: user-code boundaries are only meaningful at the fixpoint
			a.userCalls = map[string]bool{}
			for _, f := range a.order {
				a.doFunc(f)
			}
			return total
		}
	}
}

// reachFrom computes the functions reachable from entry using the resolved
// callees of the finished analysis.
func (a *ptsAnalysis) reachFrom(entry *ssa.Function) map[*ssa.Function]bool {
	seen := map[*ssa.Function]bool{}
	var walk func(f *ssa.Function)
	walk = func(f *ssa.Function) {
		if seen[f] || !a.reach[f] {
			return
		}
		seen[f] = true
		instrsOf(f, func(_ *ssa.BasicBlock, in ssa.Instruction) {
			switch x := in.(type) {
			case *ssa.MakeClosure:
				walk(x.Fn.(*ssa.Function))
			case ssa.CallInstruction:
				if _, ok := x.Common().Value.(*ssa.Builtin); ok {
					return
				}
				inF, ext, _ := a.calleesOf(x, f)
				for _, c := range inF {
					walk(c)
				}
				args := x.Common().Args
				for _, e := range ext {
					if sum, ok := lookupSummary(funcID(e)); ok {
						for _, fi := range sum.calls {
							if fi < len(args) {
								for o := range a.val(args[fi]) {
									if o.fn != nil {
										walk(o.fn)
									}
								}
							}
						}
					}
				}
			}
		})
	}
	walk(entry)
	return seen
}

func checkC11(p *Program, r *Report) {
	r.Explanation = "Decided for all schedules: no function reachable from a read API of *trie.SlimTrie (or index.SlimIndex.Get/RangeGet), including every iterator closure they create, contains a write (store, map update, append/copy/delete, summarised external write) whose target may be memory reachable from the receiver, a package-level variable or string data, other than through an accepted synchronised idiom; and the functions that rewrite loaded data in place are reachable only from Unmarshal. Whole-program inclusion-based points-to analysis (field-sensitive on locals, CHA restricted to the analysed set for interface calls)."
	r.NotCovered = "That each call returns exactly what it returns alone additionally needs determinism of the callee code (assumed). User-supplied encoders, callbacks and DataReaders are outside the claim."
	r.Trusted = []string{"go/packages, go/types, go/ssa (x/tools v0.29.0)", "external summary table e1_summ.go (std, protobuf 1.3.1, openacid/errors, semver, testify) justified by reading the pinned sources"}
	r.Assumptions = []string{"user-supplied Encoder/WalkFn/DataReader implementations do not write shared memory", "unsafe string-to-bytes casts in openacid/low/bitstr are read-only (checked: no store through them is reachable)"}

	st := p.NamedType(p.Trie, "SlimTrie")
	if st == nil {
		r.Rule("C11.nowrite", "E1", "no unsynchronised write to shared memory on read paths", 1)
		r.Unk("type trie.SlimTrie", "", "anchor not found")
		return
	}
	type entry struct {
		name string
		fn   *ssa.Function
	}
	var entries []entry
	r.Rule("C11.entry", "anchors", "every read API the property names resolves to a method", len(readAPI)+2)
	for _, n := range readAPI {
		f := p.Method(p.Trie, "SlimTrie", n)
		if f == nil {
			r.Unk("(*trie.SlimTrie)."+n, "", "read API named by the property not found (unresolved anchor)")
			continue
		}
		r.OK("(*trie.SlimTrie)."+n, p.Pos(f.Pos()), "entry point")
		entries = append(entries, entry{"(*trie.SlimTrie)." + n, f})
	}
	for _, n := range []string{"Get", "RangeGet"} {
		f := p.Method(p.Index, "SlimIndex", n)
		if f == nil {
			r.Unk("(*index.SlimIndex)."+n, "", "read API not found (unresolved anchor)")
			continue
		}
		r.OK("(*index.SlimIndex)."+n, p.Pos(f.Pos()), "entry point")
		entries = append(entries, entry{"(*index.SlimIndex)." + n, f})
	}
	// exported methods not classified as read or mutator: listed, not analysed
	known := map[string]bool{}
	for _, n := range readAPI {
		known[n] = true
	}
	for _, f := range p.exportedMethods(p.Trie, "SlimTrie") {
		if !known[f.Name()] && !mutatorAPI[f.Name()] {
			r.Note("exported method (*SlimTrie).%s is neither a read API named by C11 nor a known mutator: not analysed", f.Name())
		}
	}

	a := newPts(p)
	shared := a.seedObj(kShared, "SHARED(*SlimTrie)")
	for _, e := range entries {
		a.reachFn(e.fn)
		for i, prm := range e.fn.Params {
			if i == 0 {
				a.add(prm, shared)
			} else if isStringType(prm.Type()) {
				a.add(prm, a.strdata)
			}
		}
	}
	passes := a.solveWithClosures()
	r.Note("E1 fixpoint after %d passes; %d reachable functions; %d write effects examined; %d call sites", passes, len(a.reach), a.allWrites, a.callSites)
	r.CallSites = a.callSites
	for f := range a.reach {
		r.Func(shortFn(f))
	}

	writes := a.sortedWrites()
	exts := a.sortedExt()
	r.Rule("C11.nowrite", "E1", "no function reachable from the entry writes shared/global/string memory (unsynchronised)", len(readAPI)+2)
	for _, e := range entries {
		reach := a.reachFrom(e.fn)
		var bad []string
		var undec []string
		for _, w := range writes {
			if reach[w.Fn] {
				bad = append(bad, fmt.Sprintf("%s: %s to %s in %s", p.Pos(w.Pos), w.What, w.Target, shortFn(w.Fn)))
			}
		}
		for _, x := range exts {
			if reach[x.Fn] {
				undec = append(undec, fmt.Sprintf("%s: unsummarised external %s, %s", p.Pos(x.Pos), x.Callee, x.Why))
			}
		}
		switch {
		case len(bad) > 0:
			r.Bad(e.name, p.Pos(e.fn.Pos()), fmt.Sprintf("%d write(s) to shared memory reachable: %s", len(bad), strings.Join(firstN(bad, 6), "; ")))
		case len(undec) > 0:
			r.Unk(e.name, p.Pos(e.fn.Pos()), strings.Join(firstN(undec, 6), "; "))
		default:
			r.OK(e.name, p.Pos(e.fn.Pos()), fmt.Sprintf("%d reachable functions, no write to shared/global/string memory", len(reach)))
		}
	}

	// iterator isolation: every write inside a closure created on a read path
	// targets memory allocated during the activation (any other target would be
	// shared/global and is reported above).
	r.Rule("C11.iter-isolation", "E1", "iterator closures write only objects allocated by the activation that created them", 0)
	var closures []*ssa.Function
	for f := range a.reach {
		if f.Parent() != nil && inSlim(f) {
			closures = append(closures, f)
		}
	}
	sort.Slice(closures, func(i, j int) bool { return closures[i].String() < closures[j].String() })
	for _, cf := range closures {
		if a.syncFns[cf] {
			r.OK("closure "+shortFn(cf), p.Pos(cf.Pos()), "runs under sync.Once: its writes are synchronised")
			continue
		}
		nw, bad := 0, 0
		instrsOf(cf, func(_ *ssa.BasicBlock, in ssa.Instruction) {
			var tg oset
			switch x := in.(type) {
			case *ssa.Store:
				tg = a.val(x.Addr)
			case *ssa.MapUpdate:
				tg = a.val(x.Map)
			case ssa.CallInstruction:
				if bi, ok := x.Common().Value.(*ssa.Builtin); ok && (bi.Name() == "append" || bi.Name() == "copy") {
					tg = a.val(x.Common().Args[0])
				}
			}
			if tg == nil {
				return
			}
			nw++
			for o := range tg {
				if o.kind != kAlloc && o.kind != kExt && o.kind != kFunc {
					bad++
				}
			}
		})
		r.Check(bad == 0, "closure "+shortFn(cf), p.Pos(cf.Pos()), fmt.Sprintf("%d writes, all to per-activation objects", nw), fmt.Sprintf("%d of %d writes may target memory not allocated by the creating activation", bad, nw))
	}

	// accepted idiom sync.Pool: exclusive only until Put
	r.Rule("C11.pool", "E1 + CFG", "an object handed back to a sync.Pool is not used, returned or stored afterwards by the same activation", 0)
	pm := poolMisuse(a)
	for _, m := range pm {
		r.Bad("sync.Pool use after Put: "+m[strings.Index(m, ": ")+2:], m[:strings.Index(m, ": ")], m)
	}
	if len(pm) == 0 {
		r.OK("sync.Pool discipline", "", "no (*sync.Pool).Put followed by a use of the pooled object on read paths")
	}

	// legacy-once: in-place rewriters of loaded data are reachable only from Unmarshal
	checkLegacyOnce(p, r)

	for _, k := range sortedKeys(a.userCalls) {
		r.Note("user code boundary: %s", k)
	}
	for _, k := range sortedKeys(a.extSeen) {
		r.Note("summarised external receives shared memory: %s", k)
	}
}

func firstN(s []string, n int) []string {
	if len(s) > n {
		return append(append([]string{}, s[:n]...), fmt.Sprintf("… %d more", len(s)-n))
	}
	return s
}

// wireWriters finds functions of package trie (outside generated protobuf
// code) that write — by store, copy or append — into fields of the wire
// messages Slim / VLenArray / Bitmap.
func wireWriters(p *Program) map[*ssa.Function][]string {
	out := map[*ssa.Function][]string{}
	for _, f := range p.FuncsOf(triePath) {
		if strings.HasSuffix(p.File(f.Pos()), ".pb.go") {
			continue
		}
		instrsOf(f, func(_ *ssa.BasicBlock, in ssa.Instruction) {
			if s, ok := in.(*ssa.Store); ok {
				if _, fv, fa := fieldOfAddr(s.Addr); fa != nil {
					n := namedOf(fa.X.Type())
					if n != nil && n.Obj().Pkg() != nil && n.Obj().Pkg().Path() == triePath {
						switch n.Obj().Name() {
						case "Slim", "VLenArray", "Bitmap":
							out[f] = append(out[f], n.Obj().Name()+"."+fv.Name())
						}
					}
				}
			}
		})
	}
	return out
}

func checkLegacyOnce(p *Program, r *Report) {
	r.Rule("C11.legacy-once", "call graph", "functions that rewrite loaded wire data in place are reachable only from Unmarshal, never from a read API", 1)
	// in-place rewriters: functions that copy() into, or store elements of, a
	// []byte loaded from a wire message field, or store to wire fields, and are
	// reachable from Unmarshal.
	un := p.Method(p.Trie, "SlimTrie", "Unmarshal")
	if un == nil {
		r.Unk("(*trie.SlimTrie).Unmarshal", "", "anchor not found")
		return
	}
	cg := p.CHA()
	reachFrom := func(roots []*ssa.Function) map[*ssa.Function]bool {
		seen := map[*ssa.Function]bool{}
		var walk func(f *ssa.Function)
		walk = func(f *ssa.Function) {
			if seen[f] || !inSlim(f) {
				return
			}
			seen[f] = true
			if n := cg.Nodes[f]; n != nil {
				for _, e := range n.Out {
					walk(e.Callee.Func)
				}
			}
			instrsOf(f, func(_ *ssa.BasicBlock, in ssa.Instruction) {
				if mc, ok := in.(*ssa.MakeClosure); ok {
					walk(mc.Fn.(*ssa.Function))
				}
			})
		}
		for _, f := range roots {
			walk(f)
		}
		return seen
	}
	loadReach := reachFrom([]*ssa.Function{un})
	var reads []*ssa.Function
	for _, n := range readAPI {
		if f := p.Method(p.Trie, "SlimTrie", n); f != nil {
			reads = append(reads, f)
		}
	}
	readReach := reachFrom(reads)
	ww := wireWriters(p)
	var fs []*ssa.Function
	for f := range ww {
		fs = append(fs, f)
	}
	sort.Slice(fs, func(i, j int) bool { return fs[i].String() < fs[j].String() })
	for _, f := range fs {
		fields := map[string]bool{}
		for _, x := range ww[f] {
			fields[x] = true
		}
		desc := strings.Join(sortedKeys(fields), ",")
		// a function that allocates the message it writes (builder) is not an in-place rewriter
		if allocatesReceiverOfStores(f) {
			continue
		}
		if readReach[f] {
			r.Bad("wire writer "+shortFn(f), p.Pos(f.Pos()), "stores into wire fields {"+desc+"} of an existing message and is reachable from a read API")
		} else if loadReach[f] {
			r.OK("wire writer "+shortFn(f), p.Pos(f.Pos()), "stores into {"+desc+"}; reachable from Unmarshal only")
		} else {
			r.OK("wire writer "+shortFn(f), p.Pos(f.Pos()), "stores into {"+desc+"}; not reachable from any read API")
		}
	}
	_ = types.Typ
}

// allocatesReceiverOfStores: every wire-field store in f targets a message
// allocated in f itself (a constructor), so nothing that existed before is
// rewritten.
func allocatesReceiverOfStores(f *ssa.Function) bool {
	all := true
	found := false
	instrsOf(f, func(_ *ssa.BasicBlock, in ssa.Instruction) {
		s, ok := in.(*ssa.Store)
		if !ok {
			return
		}
		_, _, fa := fieldOfAddr(s.Addr)
		if fa == nil {
			return
		}
		n := namedOf(fa.X.Type())
		if n == nil || n.Obj().Pkg() == nil || n.Obj().Pkg().Path() != triePath {
			return
		}
		switch n.Obj().Name() {
		case "Slim", "VLenArray", "Bitmap":
		default:
			return
		}
		found = true
		if _, ok := fa.X.(*ssa.Alloc); !ok {
			all = false
		}
	})
	return found && all
}

func controlC11(fx *Program, r *Report) {
	pkg := fx.FxPkg("sharedcache")
	if pkg == nil {
		r.Control("C11.nowrite", "fixtures/sharedcache", false, "fixture package not loaded")
		return
	}
	for _, tc := range []struct {
		m    string
		want bool
	}{{"GetCached", true}, {"ScanShared", true}, {"GetLazy", true}, {"GetPure", false}, {"GetGlobalMemo", true}, {"GetGlobalRead", false}} {
		f := fx.Method(pkg, "T", tc.m)
		if f == nil {
			r.Control("C11.nowrite", "sharedcache."+tc.m, false, "method not found")
			continue
		}
		a := newPts(fx)
		a.tracked = func(o *aobj) bool {
			return o.kind == kShared || o.kind == kGlobal || o.kind == kStr || o.kind == kParam
		}
		sh := a.seedObj(kShared, "SHARED")
		a.reachFn(f)
		a.add(f.Params[0], sh)
		a.solveWithClosures()
		got := len(a.writes) > 0
		r.Control("C11.nowrite", "sharedcache."+tc.m, got == tc.want, fmt.Sprintf("expected flagged=%v, got %d shared write(s)", tc.want, len(a.writes)))
	}
	for _, tc := range []struct {
		m    string
		want bool
	}{{"IterPoolEarly", true}, {"IterPoolProper", false}} {
		f := fx.Method(pkg, "T", tc.m)
		if f == nil {
			r.Control("C11.pool", "sharedcache."+tc.m, false, "method not found")
			continue
		}
		a := newPts(fx)
		sh := a.seedObj(kShared, "SHARED")
		a.reachFn(f)
		a.add(f.Params[0], sh)
		a.solveWithClosures()
		pm := poolMisuse(a)
		r.Control("C11.pool", "sharedcache."+tc.m, (len(pm) > 0) == tc.want, fmt.Sprintf("expected flagged=%v, got %d use(s) after Put", tc.want, len(pm)))
	}
}

func init() { controlFns["C11"] = controlC11 }

// poolMisuse: an object handed back to a sync.Pool must not be used, returned
// or stored afterwards by the same activation — after Put another goroutine
// (or the next iterator) may own it. Checked intra-procedurally: from each
// non-deferred (*sync.Pool).Put, no instruction reachable in the CFG may use a
// value that may alias the argument.
func poolMisuse(a *ptsAnalysis) []string {
	var out []string
	for _, f := range a.order {
		instrsOf(f, func(b *ssa.BasicBlock, in ssa.Instruction) {
			call, ok := in.(*ssa.Call)
			if !ok || !calleeIs(call, "(*sync.Pool).Put") || len(call.Call.Args) < 2 {
				return
			}
			objs := oset{}
			for o := range a.val(call.Call.Args[1]) {
				if o.kind != kFunc {
					objs[o] = true
				}
			}
			if len(objs) == 0 {
				return
			}
			aliases := func(v ssa.Value) bool {
				if v == nil {
					return false
				}
				for o := range a.val(v) {
					if objs[o] {
						return true
					}
				}
				return false
			}
			check := func(x ssa.Instruction) {
				if x == in {
					return
				}
				var ops []*ssa.Value
				for _, op := range x.Operands(ops) {
					if op != nil && *op != nil && pointerLike((*op).Type()) && aliases(*op) {
						// loading the variable again is only a use if the loaded value is used; report uses that matter
						switch x.(type) {
						case *ssa.Return, *ssa.Store, *ssa.MapUpdate, ssa.CallInstruction, *ssa.Slice, *ssa.IndexAddr:
							out = append(out, fmt.Sprintf("%s: %s uses an object after it was handed back to a sync.Pool at %s (in %s)",
								a.p.Pos(x.Pos()), instrKind(x), a.p.Pos(in.Pos()), shortFn(f)))
							return
						}
					}
				}
			}
			idx := instrIndex(in)
			for _, x := range b.Instrs[idx+1:] {
				check(x)
			}
			seen := map[*ssa.BasicBlock]bool{}
			var walk func(bb *ssa.BasicBlock)
			walk = func(bb *ssa.BasicBlock) {
				if seen[bb] {
					return
				}
				seen[bb] = true
				for _, x := range bb.Instrs {
					check(x)
				}
				for _, s := range bb.Succs {
					walk(s)
				}
			}
			for _, s := range b.Succs {
				walk(s)
			}
		})
	}
	sort.Strings(out)
	return dedupStrings(out)
}

func instrKind(x ssa.Instruction) string {
	switch x.(type) {
	case *ssa.Return:
		return "return"
	case *ssa.Store:
		return "store"
	case ssa.CallInstruction:
		return "call"
	}
	return fmt.Sprintf("%T", x)
}

func dedupStrings(s []string) []string {
	var out []string
	for i, x := range s {
		if i == 0 || x != s[i-1] {
			out = append(out, x)
		}
	}
	return out
}
