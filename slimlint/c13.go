package main

import (
	"fmt"
	"strings"
)

// shape fields of the wire message: everything that fixes node numbering,
// labels, step positions and values. Stated on protobuf names.
var shapeFields = []string{
	"Slim.BigInnerCnt", "Slim.ShortSize", "Slim.ShortTable", "Slim.NodeTypeBM", "Slim.Inners", "Slim.ShortBM", "Slim.Leaves",
	"Slim.InnerPrefixes.EltCnt", "Slim.InnerPrefixes.PresenceBM",
}

var prefixOptLabels = []string{"opt:InnerPrefix", "opt:LeafPrefix", "opt:Complete"}

func matchesField(path, field string) bool {
	return path == field || strings.HasPrefix(path, field+".")
}

func flowProblems(bf *builderFlow, r *Report, rule string) bool {
	if len(bf.problems) > 0 {
		for _, pr := range bf.problems {
			r.Unk("builder analysis", "", pr)
		}
		return true
	}
	return false
}

func checkC13(p *Program, r *Report) {
	r.Explanation = "Decided for all key/value lists: in the abstract wire message returned by the builder (labelled information-flow analysis of NewSlimTrie, context-cloned, field-sensitive, with transitive termination-insensitive control dependence) no shape field — BigInnerCnt, ShortSize, ShortTable, NodeTypeBM.*, Inners.*, ShortBM.*, Leaves.*, InnerPrefixes.EltCnt, InnerPrefixes.PresenceBM.* — carries, by data or control flow, a label of option InnerPrefix, LeafPrefix or Complete. Hence the trie shape (node numbering, labels, step positions, retained keys, values) is the same in all modes with equal DedupValue and the prefix options only add payload: the mechanism behind monotonicity."
	r.NotCovered = "That the payload is only used to reject on the query side (equality of cursor positions between prefix and step mode is a data invariant). Whether a trie is produced at all may depend on an option (termination-insensitive)."
	r.Trusted = []string{"go/ssa; calls leaving package trie are summarised as pure functions of their arguments (openacid/low helpers, encoders)"}
	r.Assumptions = []string{"openacid/low helpers called by the builder have no hidden state (checked once by reading: bitmap/bmtree/sigbits/bitstr are pure)"}

	bf := newBuilderFlow(p)
	r.Rule("C13.shape", "E2", "no shape wire field carries a prefix-option label", len(shapeFields))
	if flowProblems(bf, r, "C13.shape") {
		return
	}
	r.Note("E2: %d passes, %d contexts, %d abstract objects, %d store events; builder=%s worklist=%v", bf.passes, len(bf.it.ctxs), len(bf.it.objs), len(bf.it.events), shortFn(bf.builder), bf.workElem)
	for k := range bf.it.ctxs {
		r.Func(shortFn(bf.it.ctxs[k].fn))
	}
	for _, sf := range shapeFields {
		found := false
		for _, wf := range bf.sortedWire() {
			if !matchesField(wf.path, sf) {
				continue
			}
			if len(wf.stores) == 0 && len(wf.labels) == 0 {
				continue // never written by the builder
			}
			found = true
			bad := wf.labels.withPrefix(prefixOptLabels...)
			pos := ""
			if len(wf.stores) > 0 {
				pos = p.Pos(wf.stores[0].pos)
			}
			if len(bad) > 0 {
				var where []string
				for _, ev := range wf.stores {
					if len(ev.ctl.withPrefix(prefixOptLabels...)) > 0 || len(ev.labels.withPrefix(prefixOptLabels...)) > 0 {
						where = append(where, p.Pos(ev.pos))
					}
				}
				r.Bad("wire field "+wf.path, pos, fmt.Sprintf("shape field depends on %v (labels %s); stores under option control at %v", bad, wf.labels, where))
			} else {
				r.OK("wire field "+wf.path, pos, fmt.Sprintf("labels %s", wf.labels))
			}
		}
		if !found {
			r.Unk("wire field "+sf, "", "the builder never writes this shape field (anchor not found in the abstract output message)")
		}
	}
	// the prefix payload fields do carry the option labels (sanity of the label sources)
	r.Rule("C13.sources", "E2", "the option labels are live: payload fields carry them", 2)
	for _, pf := range []struct{ path, lbl string }{{"Slim.InnerPrefixes.PositionBM", "opt:InnerPrefix+"}, {"Slim.LeafPrefixes", "opt:LeafPrefix+"}} {
		wf := bf.wire[pf.path]
		if wf == nil {
			r.Unk("wire field "+pf.path, "", "not in the abstract output message")
			continue
		}
		live := false
		for _, ev := range wf.stores {
			if ev.ctl[pf.lbl] {
				live = true
			}
		}
		if live {
			r.OK("wire field "+pf.path, "", "stored under "+pf.lbl+" (label source is live)")
		} else {
			r.Unk("wire field "+pf.path, "", fmt.Sprintf("expected a store under control label %s, found labels %s: option loads are no longer recognised", pf.lbl, wf.labels))
		}
	}
}

func checkC17(p *Program, r *Report) {
	r.Explanation = "Decided for every key set: key material (values that can hold bytes derived from elements of keys: substrings, bit strings, conversions; integers such as labels, steps and lengths are bounded per node and do not count) is stored into the builder state or the returned wire message only under control of option InnerPrefix or LeafPrefix being true, and in the abstract output message it reaches only InnerPrefixes.Bytes and LeafPrefixes.Bytes. So with default options nothing proportional to key length can be stored."
	r.NotCovered = "The numeric bound (8 bytes per key + 256). Single key bytes copied one at a time (byte values are not tracked as key material)."
	r.Trusted = []string{"go/ssa; pure-function summaries for calls leaving package trie"}
	bf := newBuilderFlow(p)
	r.Rule("C17.nokeybytes.stores", "E2", "every store of key material into builder state or message executes under opt:InnerPrefix+ or opt:LeafPrefix+", 2)
	if flowProblems(bf, r, "C17") {
		return
	}
	for k := range bf.it.ctxs {
		r.Func(shortFn(bf.it.ctxs[k].fn))
	}
	state := bf.stateObjs(p)
	seen := map[string]bool{}
	for _, ev := range bf.it.sortedEvents() {
		if !ev.labels[lblKey] || !state[ev.obj] {
			continue
		}
		key := fmt.Sprintf("store of key material in %s", shortFn(ev.fn))
		pos := p.Pos(ev.pos)
		id := key + "@" + pos
		if seen[id] {
			continue
		}
		seen[id] = true
		// "only if the option is true": reached through the true edge of a branch on the
		// option and through no false edge (transitive control dependence)
		onlyIf := func(o string) bool { return ev.ctl["opt:"+o+"+"] && !ev.ctl["opt:"+o+"-"] }
		if onlyIf("InnerPrefix") || onlyIf("LeafPrefix") {
			r.OK(key+" #"+fmt.Sprint(len(seen)), pos, "under "+strings.Join(ev.ctl.withPrefix("opt:InnerPrefix", "opt:LeafPrefix"), ","))
		} else {
			r.Bad(key+" #"+fmt.Sprint(len(seen)), pos, fmt.Sprintf("key bytes are stored into %s on a path where neither option InnerPrefix nor LeafPrefix is known to be true (control labels %s)", ev.obj.name, ev.ctl))
		}
	}
	r.Rule("C17.nokeybytes.message", "E2", "in the output message key material reaches only InnerPrefixes.Bytes and LeafPrefixes.Bytes", 1)
	allowed := map[string]bool{"Slim.InnerPrefixes.Bytes": true, "Slim.LeafPrefixes.Bytes": true}
	n := 0
	for _, wf := range bf.sortedWire() {
		if !wf.labels[lblKey] {
			continue
		}
		n++
		pos := ""
		if len(wf.stores) > 0 {
			pos = p.Pos(wf.stores[0].pos)
		}
		if allowed[wf.path] {
			r.OK("wire field "+wf.path, pos, "holds key material (prefix payload)")
		} else {
			r.Bad("wire field "+wf.path, pos, "holds key material although it is not a prefix payload field")
		}
	}
	if n == 0 {
		r.Unk("key material in the output message", "", "no wire field carries key material: the key label source is dead (seed not recognised)")
	}
}

func init() {
	checks["C13"] = checkC13
	checks["C17"] = checkC17
}
