package main

import (
	"fmt"
	"go/token"
	"go/types"
	"sort"
	"strings"

	"golang.org/x/tools/go/ssa"
)

// typedArrays: struct types of package array that embed Base and have a typed Get.
func typedArrays(p *Program) []*types.Named {
	var out []*types.Named
	base := p.NamedType(p.Array, "Base")
	if base == nil {
		return nil
	}
	for _, m := range p.Array.Members {
		t, ok := m.(*ssa.Type)
		if !ok {
			continue
		}
		n, ok := t.Type().(*types.Named)
		if !ok || n == base {
			continue
		}
		st, ok := n.Underlying().(*types.Struct)
		if !ok {
			continue
		}
		emb := false
		for i := 0; i < st.NumFields(); i++ {
			if st.Field(i).Embedded() && types.Identical(st.Field(i).Type(), base) {
				emb = true
			}
		}
		if emb {
			out = append(out, n)
		}
	}
	sort.Slice(out, func(i, j int) bool { return out[i].Obj().Name() < out[j].Obj().Name() })
	return out
}

func checkC16(p *Program, r *Report) {
	r.Explanation = "Decided for every array state and index: (agree) for each typed array the presence test and the byte offset of Get are the same normalised terms over (Bitmaps, Offsets, idx) as those of the generic Base.GetBytes path with eltsize = Sizeof(element) (Rank64 inlined; Mask[j] and (1<<j)-1 both mask(j)), the element is decoded by binary little-endian UintN of the same width through width-preserving conversions, and the absent path returns (0,false); equal terms mean equal results for every state, including the zero offset of empty words; (reject) in InitIndex/Init no store to the receiver and no use of the index list other than the order comparison can be followed by the ErrIndexNotAscending / ErrIndexLen return, and every New* returns a nil array with a non-nil error; (wire) every typed array and Array embed Base -> Array32, the only serialised part. (validated success) on Init's guarded summary every non-panicking path carries the success condition of the length validation or returns its sentinel; (stride) the default element encoder's Size is not an in-memory (padded) size."
	r.NotCovered = "Correctness of the rank offsets themselves; the protobuf round trip."
	r.Trusted = []string{"go/ssa, go/types", "openacid/low/bitmap.Rank64 (inlined symbolically)", "encoding/binary"}
	gb := p.Method(p.Array, "Base", "GetBytes")
	r.Rule("C16.agree", "E6", "typed accessor = generic accessor (presence, offset, width, byte order)", 6)
	if gb == nil {
		r.Unk("(*array.Base).GetBytes", "", "anchor not found")
		return
	}
	r.Func(shortFn(gb))
	inArray := func(g *ssa.Function) bool { return pkgPathOf(g) == arrayPath }
	gps, gwhy := flatten(p, gb, nil, inArray)
	var gAbsent, gPresent *fpath
	for i := range gps {
		if gps[i].panics || len(gps[i].results) != 2 {
			continue
		}
		switch gps[i].results[1].String() {
		case "false":
			gAbsent = &gps[i]
		case "true":
			gPresent = &gps[i]
		}
	}
	var eltParam string
	for _, prm := range gb.Params[1:] {
		if prm.Name() != "idx" && isIntType(prm.Type()) && !types.Identical(prm.Type(), types.Typ[types.Int32]) {
			eltParam = prm.Name()
		}
	}
	if gwhy != "" || len(gps) != 2 || gAbsent == nil || gPresent == nil || eltParam == "" || gPresent.results[0].op != "slice" {
		r.Unk("(*array.Base).GetBytes", p.Pos(gb.Pos()), "cannot summarise the generic accessor as (absent -> nil,false | present -> Elts[off:off+eltsize],true): "+gwhy+" "+pathsString(gps))
		return
	}
	gOff, gHi := gPresent.results[0].args[1], gPresent.results[0].args[2]
	eltT := S(eltParam)
	if platformIntBytes > 4 {
		eltT = ON("conv", "int32", S(eltParam)) // int -> int32 narrows on 64-bit platforms only
	}
	wantHi := O("add", gOff, eltT)
	okGen := gHi.String() == wantHi.String() && gPresent.results[0].args[0].String() == "Array32.Elts" && gAbsent.results[0].String() == "nil"
	r.Check(okGen, "(*array.Base).GetBytes summary", p.Pos(gb.Pos()), "absent -> (nil,false); present -> (Elts[off : off+eltsize], true)", "generic accessor is "+pathsString(gps))

	for _, n := range typedArrays(p) {
		name := n.Obj().Name()
		get := p.Method(p.Array, name, "Get")
		if get == nil || get.Synthetic != "" {
			continue // Array uses Base.Get
		}
		sig := get.Signature
		if sig.Results().Len() != 2 || !isIntType(sig.Results().At(0).Type()) {
			continue
		}
		r.Func(shortFn(get))
		elt := sig.Results().At(0).Type()
		w := p.Sizes.Sizeof(elt)
		construct := "(*array." + name + ").Get agrees with Base.GetBytes"
		tps, twhy := flatten(p, get, nil, inArray)
		var why []string
		if twhy != "" {
			r.Unk(construct, p.Pos(get.Pos()), "cannot summarise: "+twhy)
			continue
		}
		wantOff := substitute(gOff, eltParam, K(w))
		var parts []*term
		for j := int64(0); j < w; j++ {
			parts = append(parts, mulTerms(K(int64(1)<<uint(8*j)), ON("idx", "", S("Array32.Elts"), O("add", wantOff, K(j)))))
		}
		wantVal := O("or", parts...)
		if w == 1 {
			wantVal = parts[0]
		}
		nAbs, nPres := 0, 0
		for _, tp := range tps {
			if tp.panics || len(tp.results) != 2 {
				why = append(why, "a path panics or does not return (value, bool)")
				continue
			}
			switch {
			case tp.pcKey() == gAbsent.pcKey():
				nAbs++
				if tp.results[0].String() != "0" || tp.results[1].String() != "false" {
					why = append(why, "absent path returns ("+tp.resKey()+"), want (0,false)")
				}
			case tp.pcKey() == gPresent.pcKey():
				nPres++
				if tp.results[1].String() != "true" {
					why = append(why, "present path does not report found")
				}
				if tp.results[0].String() != wantVal.String() {
					why = append(why, fmt.Sprintf("present value %s is not the %d-byte little-endian assembly of Elts at the generic offset with eltsize=%d: %s", abbreviate(tp.results[0].String()), w, w, abbreviate(wantVal.String())))
				}
			default:
				why = append(why, "path condition ["+abbreviate(tp.pcKey())+"] is neither the generic presence test nor its negation")
			}
		}
		if nAbs != 1 || nPres != 1 {
			why = append(why, fmt.Sprintf("%d absent and %d present paths", nAbs, nPres))
		}
		r.Check(len(why) == 0, construct, p.Pos(get.Pos()), fmt.Sprintf("same presence test; present value = little-endian %d bytes of Elts at %d*(Offsets[idx>>6]+popcnt(Bitmaps[idx>>6]&mask(idx&63)))", w, w), strings.Join(dedupStrings(sortStr(why)), "; "))
	}

	// ---- reject
	r.Rule("C16.reject", "E3", "invalid input builds nothing", 4)
	ii := p.Method(p.Array, "Base", "InitIndex")
	in := p.Method(p.Array, "Base", "Init")
	// the validation may live in an unexported helper the exported method delegates to
	// (Init -> initWith): the rules are stated on the function that returns the sentinel
	returnsSentinel := func(f *ssa.Function, sentinel string) bool {
		for _, ret := range returnsOf(f) {
			for _, res := range ret.Results {
				if ld, ok := deref(res); ok {
					if g, ok := ld.(*ssa.Global); ok && g.Name() == sentinel {
						return true
					}
				}
			}
		}
		return false
	}
	delegate := func(f *ssa.Function, sentinel string) *ssa.Function {
		if f == nil || returnsSentinel(f, sentinel) {
			return f
		}
		for _, c := range callsIn(f) {
			if h := calleeOf(c); h != nil && pkgPathOf(h) == arrayPath && len(h.Blocks) > 0 && returnsSentinel(h, sentinel) {
				// the helper gets the receiver
				for _, a := range c.Common().Args {
					if len(f.Params) > 0 && a == ssa.Value(f.Params[0]) {
						return h
					}
				}
			}
		}
		return f
	}
	ii = delegate(ii, "ErrIndexNotAscending")
	in = delegate(in, "ErrIndexLen")
	if ii == nil || in == nil {
		r.Unk("(*array.Base).InitIndex/Init", "", "anchor not found")
	} else {
		r.Func(shortFn(ii))
		r.Func(shortFn(in))
		checkRejectBeforeEffects(p, r, ii, "ErrIndexNotAscending", "index")
		checkRejectBeforeEffects(p, r, in, "ErrIndexLen", "indexes")
		checkSuccessImpliesValidated(p, r, in, "ErrIndexLen", "indexes")
	}
	// wrappers: a method of package array that delegates to a validating initialiser stores nothing
	// into its receiver before the delegation — a rejected Init builds nothing, whatever the array type
	if ii != nil && in != nil {
		validators := map[*ssa.Function]bool{ii: true, in: true}
		for _, f := range p.FuncsOf(arrayPath) {
			if f.Synthetic != "" || f.Signature.Recv() == nil || len(f.Blocks) == 0 || validators[f] {
				continue
			}
			var calls []ssa.CallInstruction
			for _, c := range callsIn(f) {
				if validators[calleeOf(c)] {
					calls = append(calls, c)
				}
			}
			if len(calls) == 0 {
				continue
			}
			r.Func(shortFn(f))
			recv := f.Params[0]
			var bad []string
			instrsOf(f, func(b *ssa.BasicBlock, x ssa.Instruction) {
				st, ok := x.(*ssa.Store)
				if !ok || !rootedAt(st.Addr, recv) {
					return
				}
				for _, c := range calls {
					cb := c.Block()
					before := false
					if cb == b {
						before = instrIndex(st) < instrIndex(c)
					} else {
						before = reachableFrom(b, nil)[cb]
					}
					if before {
						bad = append(bad, "store to the receiver at "+p.Pos(st.Pos())+" precedes the validating "+shortFn(calleeOf(c))+" call")
					}
				}
			})
			sort.Strings(bad)
			r.Check(len(bad) == 0, shortFn(f)+" delegates to the validating initialiser before any effect", p.Pos(f.Pos()), "no receiver store can precede the delegation", strings.Join(firstN(dedupStrings(bad), 3), "; ")+": the store survives a rejected Init")
		}
	}
	// constructors
	for _, f := range p.FuncsOf(arrayPath) {
		if f.Parent() != nil || f.Signature.Recv() != nil || !strings.HasPrefix(f.Name(), "New") || f.Synthetic != "" {
			continue
		}
		sig := f.Signature
		if sig.Results().Len() != 2 || !isErrorType(sig.Results().At(1).Type()) {
			continue
		}
		why := nilOnError(p, f)
		r.Check(why == "", "array."+f.Name()+" returns nil on error", p.Pos(f.Pos()), "every return with a possibly non-nil error has a nil array", why)
	}

	// ---- stride: elements are laid out by the encoder and located by eltsize = GetEncodedSize;
	// for the default encoder (a TypeEncoder made from the first element) that is its Size field
	r.Rule("C16.stride", "provenance", "the default element encoder's stride is the encoded size, not an in-memory size", 1)
	if srcs, sites, why := typeEncoderSizeProvenance(p); sites == 0 {
		r.Unk("generic array stride (encode.TypeEncoder.Size)", "", "no store to TypeEncoder.Size found")
	} else {
		pos := ""
		if in != nil {
			pos = p.Pos(in.Pos())
		}
		r.Check(why == "", "generic array stride (encode.TypeEncoder.Size)", pos, fmt.Sprintf("%d store(s); sources %v", sites, srcs), why)
	}

	checkEncodeAll(p, r)

	// ---- wire
	r.Rule("C16.wire", "types", "all array types serialise through the embedded Array32", 7)
	base := p.NamedType(p.Array, "Base")
	a32 := p.NamedType(p.Array, "Array32")
	if base == nil || a32 == nil {
		r.Unk("array.Base/Array32", "", "anchor not found")
		return
	}
	bst := base.Underlying().(*types.Struct)
	emb := false
	for i := 0; i < bst.NumFields(); i++ {
		if bst.Field(i).Embedded() && types.Identical(bst.Field(i).Type(), a32) {
			emb = true
		}
	}
	r.Check(emb, "array.Base embeds Array32", p.Pos(base.Obj().Pos()), "embedded by value", "Base no longer embeds Array32")
	// Base itself carries nothing but the wire message and the element encoder (configuration): proto.Unmarshal
	// fills the embedded message and knows no other field, so any further field is zero in a literal that is
	// loaded and stale in an object that is re-loaded
	{
		var extra []string
		for i := 0; i < bst.NumFields(); i++ {
			f := bst.Field(i)
			if f.Embedded() && types.Identical(f.Type(), a32) {
				continue
			}
			if isNamed(f.Type(), encPath, "Encoder") {
				continue
			}
			extra = append(extra, f.Name()+" "+f.Type().String())
		}
		r.Check(len(extra) == 0, "array.Base holds only the wire message and the element encoder", p.Pos(base.Obj().Pos()), "no derived state next to the message",
			"field(s) "+strings.Join(extra, ", ")+" are not part of the serialised message: a loaded array (proto.Unmarshal into a literal or into a used object) has them zero or stale, and accessors that rely on them disagree with the ones that do not")
	}
	for _, n := range typedArrays(p) {
		st := n.Underlying().(*types.Struct)
		extra := []string{}
		for i := 0; i < st.NumFields(); i++ {
			f := st.Field(i)
			if f.Embedded() && types.Identical(f.Type(), base) {
				continue
			}
			extra = append(extra, f.Name())
		}
		r.Check(len(extra) == 0, "array."+n.Obj().Name()+" is exactly Base", p.Pos(n.Obj().Pos()), "no state outside the embedded Base", "additional fields "+strings.Join(extra, ",")+" are not serialised")
	}
	// the generic accessor decodes elements with encode.TypeEncoder
	checkCodecsAs(p, r, "C16")
	checkEltEncoderType(p, r)
}

// checkRejectBeforeEffects: the return of the sentinel error cannot be reached
// after a store to the receiver or after a use of the list parameter other
// than the validation comparison itself.
func checkRejectBeforeEffects(p *Program, r *Report, f *ssa.Function, sentinel, listParam string) {
	construct := shortFn(f) + " rejects with " + sentinel + " before any effect"
	var errRets []*ssa.Return
	for _, ret := range returnsOf(f) {
		for _, res := range ret.Results {
			if ld, ok := deref(res); ok {
				if g, ok := ld.(*ssa.Global); ok && g.Name() == sentinel {
					errRets = append(errRets, ret)
				}
			}
		}
	}
	if len(errRets) == 0 {
		r.Bad(construct, p.Pos(f.Pos()), "no path returns "+sentinel+": the validation is gone")
		return
	}
	var list *ssa.Parameter
	for _, prm := range f.Params {
		if prm.Name() == listParam || (list == nil && isInt32Slice(prm.Type())) {
			list = prm
		}
	}
	recv := f.Params[0]
	reachesErr := func(b *ssa.BasicBlock) bool {
		rs := reachableFrom(b, nil)
		for _, er := range errRets {
			if rs[er.Block()] {
				return true
			}
		}
		return false
	}
	// operands of validation comparisons (feeding an If that leads directly to the error return)
	valid := map[ssa.Instruction]bool{}
	for _, er := range errRets {
		for _, pred := range er.Block().Preds {
			if iff, ok := lastInstr(pred).(*ssa.If); ok {
				var mark func(v ssa.Value, d int)
				mark = func(v ssa.Value, d int) {
					if d > 6 {
						return
					}
					if in, ok := v.(ssa.Instruction); ok {
						valid[in] = true
						var ops []*ssa.Value
						for _, op := range in.Operands(ops) {
							if op != nil && *op != nil {
								mark(*op, d+1)
							}
						}
					}
				}
				mark(iff.Cond, 0)
			}
		}
	}
	var bad []string
	instrsOf(f, func(b *ssa.BasicBlock, in ssa.Instruction) {
		if valid[in] {
			return
		}
		effect := ""
		switch x := in.(type) {
		case *ssa.Store:
			if rootedAt(x.Addr, recv) {
				effect = "store to the receiver"
			}
		case *ssa.IndexAddr:
			if list != nil && x.X == list {
				effect = "read of an element of " + list.Name() + " outside the validation"
			}
		case ssa.CallInstruction:
			if _, isB := x.Common().Value.(*ssa.Builtin); isB {
				return
			}
			for _, a := range x.Common().Args {
				if list != nil && a == list {
					effect = "call that receives " + list.Name()
				}
				if a == recv && x.Common().StaticCallee() != nil && len(x.Common().StaticCallee().Blocks) > 0 {
					effect = "call on the receiver"
				}
			}
		}
		if effect != "" && reachesErr(b) {
			// same block: only if the effect precedes the terminator that leads to the error
			bad = append(bad, effect+" at "+p.Pos(in.Pos()))
		}
	})
	sort.Strings(bad)
	r.Check(len(bad) == 0, construct, p.Pos(f.Pos()), "no receiver store and no other use of the list can be followed by the "+sentinel+" return",
		strings.Join(firstN(dedupStrings(bad), 4), "; ")+" can be followed by the "+sentinel+" return (or panic before it)")
}

func isInt32Slice(t types.Type) bool {
	s, ok := t.Underlying().(*types.Slice)
	return ok && types.Identical(s.Elem(), types.Typ[types.Int32])
}

// rootedAt: the address is a field/element chain starting at the given pointer value.
func rootedAt(addr ssa.Value, root ssa.Value) bool {
	for i := 0; i < 10; i++ {
		if addr == root {
			return true
		}
		switch x := addr.(type) {
		case *ssa.FieldAddr:
			addr = x.X
		case *ssa.IndexAddr:
			addr = x.X
		case *ssa.UnOp:
			addr = x.X
		default:
			return false
		}
	}
	return false
}

// nilOnError: every return whose error may be non-nil has a nil first result.
func nilOnError(p *Program, f *ssa.Function) string {
	for _, ret := range returnsOf(f) {
		if len(ret.Results) != 2 {
			continue
		}
		r0, r1 := ret.Results[0], ret.Results[1]
		if isNilConst(r1) || isNilConst(r0) {
			continue
		}
		// r0 must be a phi that is nil on the err != nil edge
		ph, ok := r0.(*ssa.Phi)
		if !ok {
			return "return at " + p.Pos(ret.Pos()) + " may hand out an array together with an error"
		}
		okEdge := false
		for i, pred := range ph.Block().Preds {
			// pred is the block taken when err != nil?
			for _, pp := range pred.Preds {
				if iff, ok := lastInstr(pp).(*ssa.If); ok {
					if x, nilSucc, ok := nilTest(iff.Cond); ok && x == r1 && pp.Succs[1-nilSucc] == pred {
						if isNilConst(ph.Edges[i]) {
							okEdge = true
						} else {
							return "on the err != nil branch the array is not set to nil (" + p.Pos(ret.Pos()) + ")"
						}
					}
				}
			}
		}
		if !okEdge {
			return "cannot establish that the array is nil when the error is non-nil at " + p.Pos(ret.Pos())
		}
	}
	return ""
}

func init() { checks["C16"] = checkC16 }

// checkSuccessImpliesValidated: on the guarded summary of f, the sentinel is
// returned under a condition C on len(list); every other non-panicking path —
// unless it returns some other constant error — carries the complement of C,
// so nothing is built (and nil is never returned) for input the validation
// would have refused.
func checkSuccessImpliesValidated(p *Program, r *Report, f *ssa.Function, sentinel, listParam string) {
	construct := shortFn(f) + " succeeds only past the " + sentinel + " validation"
	ps, why := flatten(p, f, nil, func(g *ssa.Function) bool { return false })
	if why != "" {
		r.Note("%s: not summarised (%s); the validated-success rule is not applied", shortFn(f), why)
		return
	}
	lenT := "len(" + listParam + ")"
	var fail string
	for _, fp := range ps {
		if fp.panics || len(fp.results) == 0 || !strings.HasSuffix(fp.results[len(fp.results)-1].String(), "."+sentinel) {
			continue
		}
		for _, c := range fp.pc {
			a, op, b, ok := splitCond(c)
			if ok && (a == lenT || b == lenT) && (op == "!=" || op == "<") {
				fail = c
			}
		}
	}
	if fail == "" {
		r.Unk(construct, p.Pos(f.Pos()), "cannot identify the condition under which "+sentinel+" is returned")
		return
	}
	a, op, b, _ := splitCond(fail)
	if op != "!=" {
		r.OK(construct, p.Pos(f.Pos()), "validation is not an equality test; rule not applied")
		return
	}
	okc := "(" + a + " == " + b + ")"
	var bad []string
	for _, fp := range ps {
		if fp.panics {
			continue
		}
		has, hasFail := false, false
		for _, c := range fp.pc {
			if c == okc {
				has = true
			}
			if c == fail {
				hasFail = true
			}
		}
		if has || hasFail {
			continue
		}
		last := ""
		if len(fp.results) > 0 {
			last = fp.results[len(fp.results)-1].String()
		}
		if last != "nil" && !strings.HasPrefix(last, "call:") && !strings.HasPrefix(last, "extract:") && !strings.Contains(last, "(") {
			continue // a constant error of its own
		}
		bad = append(bad, "a path under ["+abbreviate(fp.pcKey())+"] returns "+abbreviate(fp.resKey())+" without having passed "+okc+": input the validation refuses is accepted there")
	}
	r.Check(len(bad) == 0, construct, p.Pos(f.Pos()), "every non-panicking path carries "+okc+" or returns the sentinel under "+fail, strings.Join(dedupStrings(sortStr(bad)), "; "))
}

// checkEncodeAll (C16.encode-all): the packed element buffer holds the
// encoding of every element, in order. In the function that fills Base.Elts
// with the encoder (InitElts today) every Encode call on the encoder sits in a
// loop whose index runs from 0 by 1 while below the number of elements (the
// Len() of the elements value), its argument is the element at that index, its
// result is appended to the buffer unconditionally, and the function starts no
// goroutine — chunked or concurrent fills that round the chunk size down leave
// the tail of the buffer zero.
func checkEncodeAll(p *Program, r *Report) {
	r.Rule("C16.encode-all", "SSA", "every element is encoded and appended, in order", 1)
	var F *ssa.Function
	var encPrm *ssa.Parameter
	for _, f := range p.FuncsOf(arrayPath) {
		if f.Synthetic != "" || f.Parent() != nil {
			continue
		}
		var ep *ssa.Parameter
		for _, prm := range f.Params {
			if isNamed(prm.Type(), encPath, "Encoder") {
				ep = prm
			}
		}
		if ep == nil {
			continue
		}
		storesElts := false
		instrsOf(f, func(_ *ssa.BasicBlock, in ssa.Instruction) {
			if st, ok := in.(*ssa.Store); ok {
				if _, fv, fa := fieldOfAddr(st.Addr); fa != nil && fv.Name() == "Elts" {
					storesElts = true
				}
			}
		})
		if storesElts {
			F, encPrm = f, ep
		}
	}
	if F == nil {
		r.Unk("element encoding loop", "", "no function of package array fills Elts with an encode.Encoder (anchor not found)")
		return
	}
	r.Func(shortFn(F))
	var bad []string
	nEnc := 0
	hasGo := false
	// the element loop of a block: index phi(0, +1) at the loop header, bounded by Len()
	loopOf := func(b *ssa.BasicBlock) (*ssa.Phi, *ssa.BasicBlock, string) {
		header := loopHeaderOf(b)
		if header == nil {
			return nil, nil, "is not in a loop"
		}
		var idx *ssa.Phi
		for _, hin := range header.Instrs {
			if ph, ok := hin.(*ssa.Phi); ok && isIntType(ph.Type()) {
				okInit, okStep := false, true
				for i, ed := range ph.Edges {
					if header.Dominates(header.Preds[i]) {
						bo, ok := stripConv(ed).(*ssa.BinOp)
						k, isK := int64(0), false
						if ok {
							k, isK = constInt(bo.Y)
						}
						if !ok || bo.Op != token.ADD || stripConv(bo.X) != ssa.Value(ph) || !isK || k != 1 {
							okStep = false
						}
					} else if c, ok := constInt(ed); ok && c == 0 {
						okInit = true
					}
				}
				if okInit && okStep {
					idx = ph
				}
			}
		}
		if idx == nil {
			return nil, header, "is in a loop that does not run from 0 in steps of 1"
		}
		okBound := false
		if iff, ok := lastInstr(header).(*ssa.If); ok {
			if bo, ok := iff.Cond.(*ssa.BinOp); ok && bo.Op == token.LSS && stripConv(bo.X) == ssa.Value(idx) {
				if c, ok := bo.Y.(*ssa.Call); ok && calleeIs(c, "(reflect.Value).Len") {
					okBound = true
				}
				// ... or through a one-line accessor of a wrapper record around the reflected slice (es.len())
				if c, ok := bo.Y.(*ssa.Call); ok && !okBound {
					if h := calleeOf(c); h != nil && pkgPathOf(h) == arrayPath && len(h.Blocks) == 1 {
						if ret, ok := lastInstr(h.Blocks[0]).(*ssa.Return); ok && len(ret.Results) == 1 {
							if c2, ok := ret.Results[0].(*ssa.Call); ok && calleeIs(c2, "(reflect.Value).Len") {
								okBound = true
							}
						}
					}
				}
			}
		}
		if !okBound {
			return idx, header, "is in a loop that is not bounded by the number of elements (Len of the elements value)"
		}
		return idx, header, ""
	}
	dependsOnV := func(v ssa.Value, target ssa.Value) bool {
		dep := false
		var walk func(v ssa.Value, d int)
		walk = func(v ssa.Value, d int) {
			if v == target {
				dep = true
			}
			if d > 6 || dep || v == nil {
				return
			}
			if _, isPhi := v.(*ssa.Phi); isPhi {
				return
			}
			if in2, ok := v.(ssa.Instruction); ok {
				var ops []*ssa.Value
				for _, op := range in2.Operands(ops) {
					if op != nil && *op != nil {
						walk(*op, d+1)
					}
				}
			}
		}
		walk(v, 0)
		return dep
	}
	unconditional := func(b, header *ssa.BasicBlock) bool {
		for i := range header.Preds {
			if header.Dominates(header.Preds[i]) && !b.Dominates(header.Preds[i]) {
				return false
			}
		}
		return true
	}
	appendedIn := func(ec *ssa.Call) bool {
		for _, ref := range *ec.Referrers() {
			if ap, ok := ref.(*ssa.Call); ok {
				if bi, ok := ap.Call.Value.(*ssa.Builtin); ok && bi.Name() == "append" && ap.Block() == ec.Block() {
					return true
				}
			}
		}
		return false
	}
	// Encode calls anywhere under F (closures included), and per-element helpers F hands the encoder to
	fs := append([]*ssa.Function{F}, F.AnonFuncs...)
	for _, g := range fs {
		instrsOf(g, func(b *ssa.BasicBlock, in ssa.Instruction) {
			if _, ok := in.(*ssa.Go); ok {
				hasGo = true
			}
			c, ok := in.(*ssa.Call)
			if !ok {
				return
			}
			if c.Call.IsInvoke() && c.Call.Method.Name() == "Encode" {
				nEnc++
				if g != F || c.Call.Value != ssa.Value(encPrm) {
					bad = append(bad, "Encode is called at "+p.Pos(c.Pos())+" outside the element loop of "+shortFn(F)+" (in a closure or on another encoder)")
					return
				}
				idx, header, why := loopOf(b)
				if why != "" {
					bad = append(bad, "Encode at "+p.Pos(c.Pos())+" "+why)
					return
				}
				if len(c.Call.Args) != 1 || !dependsOnV(c.Call.Args[0], idx) {
					bad = append(bad, "the value encoded at "+p.Pos(c.Pos())+" is not the element at the loop index")
				}
				if !appendedIn(c) || !unconditional(b, header) {
					bad = append(bad, "the encoding produced at "+p.Pos(c.Pos())+" is not appended to the buffer on every iteration")
				}
				return
			}
			// a per-element helper: h(buf, encoder, element) that encodes its element and returns the appended buffer
			h := calleeOf(c)
			if g != F || h == nil || pkgPathOf(h) != arrayPath || len(h.Blocks) == 0 || hasLoop(h) {
				return
			}
			encIdx := -1
			for ai, a := range c.Call.Args {
				if a == ssa.Value(encPrm) {
					encIdx = ai
				}
			}
			if encIdx < 0 || encIdx >= len(h.Params) {
				return
			}
			var hec *ssa.Call
			nh := 0
			instrsOf(h, func(_ *ssa.BasicBlock, hin ssa.Instruction) {
				if x, ok := hin.(*ssa.Call); ok && x.Call.IsInvoke() && x.Call.Method.Name() == "Encode" && x.Call.Value == ssa.Value(h.Params[encIdx]) {
					hec = x
					nh++
				}
			})
			if nh == 0 {
				return
			}
			nEnc++
			r.Func(shortFn(h))
			idx, header, why := loopOf(b)
			if why != "" {
				bad = append(bad, "the per-element helper call at "+p.Pos(c.Pos())+" "+why)
				return
			}
			if nh != 1 || !blockPostDominatesEntry(h, hec.Block()) || !appendedIn(hec) {
				bad = append(bad, shortFn(h)+" does not encode its element exactly once and append the result on every path")
			}
			// which parameter feeds Encode, and does the caller pass the element at the loop index for it
			okElt := false
			for pi, prm := range h.Params {
				if pi < len(c.Call.Args) && len(hec.Call.Args) == 1 && dependsOnV(hec.Call.Args[0], prm) && dependsOnV(c.Call.Args[pi], idx) {
					okElt = true
				}
			}
			if !okElt {
				bad = append(bad, "the element handed to "+shortFn(h)+" at "+p.Pos(c.Pos())+" is not the one at the loop index")
			}
			if !unconditional(b, header) {
				bad = append(bad, "the per-element helper call at "+p.Pos(c.Pos())+" is skipped on some iterations")
			}
		})
	}
	// every value stored into Elts is the accumulation of the encoder's output: an append chain over a fresh
	// buffer; bytes produced by anything else (a bulk encoding/binary.Write, a copy of the caller's memory)
	// bypass the element encoder the accessors decode with
	instrsOf(F, func(_ *ssa.BasicBlock, in ssa.Instruction) {
		st, ok := in.(*ssa.Store)
		if !ok {
			return
		}
		if _, fv, fa := fieldOfAddr(st.Addr); fa == nil || fv.Name() != "Elts" {
			return
		}
		seen := map[ssa.Value]bool{}
		var walk func(v ssa.Value) string
		walk = func(v ssa.Value) string {
			if seen[v] {
				return ""
			}
			seen[v] = true
			switch x := v.(type) {
			case *ssa.Const, *ssa.MakeSlice:
				return ""
			case *ssa.Slice:
				return walk(x.X)
			case *ssa.Phi:
				for _, ed := range x.Edges {
					if w := walk(ed); w != "" {
						return w
					}
				}
				return ""
			case *ssa.Call:
				if bi, ok := x.Call.Value.(*ssa.Builtin); ok && bi.Name() == "append" {
					return walk(x.Call.Args[0])
				}
				if h := calleeOf(x); h != nil && pkgPathOf(h) == arrayPath && len(x.Call.Args) > 0 {
					// per-element helper that returns the appended buffer
					for _, a := range x.Call.Args {
						if isByteSlice(a.Type()) {
							return walk(a)
						}
					}
				}
				name := "a call"
				if h := calleeOf(x); h != nil {
					name = shortFn(h)
				} else if x.Call.IsInvoke() {
					name = x.Call.Method.Name()
				}
				return "the result of " + name
			}
			return "a value that is not built by appending encoder output"
		}
		if w := walk(st.Val); w != "" {
			bad = append(bad, "Elts is set at "+p.Pos(st.Pos())+" to "+w+", not to the appended results of the element encoder")
		}
	})
	if hasGo {
		bad = append(bad, shortFn(F)+" starts goroutines: the buffer is filled in chunks whose boundaries must add up exactly")
	}
	if nEnc == 0 {
		bad = append(bad, "no Encode call found")
	}
	r.Check(len(bad) == 0, "elements encoded by "+shortFn(F), p.Pos(F.Pos()), fmt.Sprintf("%d Encode call(s): loop 0..Len()-1 step 1, element at the index, appended unconditionally, no goroutine", nEnc), strings.Join(dedupStrings(sortStr(bad)), "; "))
}

// checkEltEncoderType (C16.elt-type): the generic array decodes elements with a TypeEncoder made for
// the element type. Elements may be handed over in a []interface{}; their type is then only known
// dynamically. Every construction of the element encoder in package array must therefore start from an
// element value (v.Interface(), or reflect.TypeOf of it) — never from the static type of the slice
// element ((reflect.Value).Type() of an indexed element, (reflect.Type).Elem()), which is interface{}
// for such a list and makes a valid input fail with "not fixed size". Sibling constructions (Base.Init,
// Array.Init, New) are judged by the same rule.
func checkEltEncoderType(p *Program, r *Report) {
	r.Rule("C16.elt-type", "SSA provenance", "element encoders are made from an element value, not from the static element type", 2)
	r.Explanation += " (elt-type) every construction of the element encoder in package array starts from an element value, not from the static type of the slice element, so that elements handed over in a []interface{} are accepted like typed ones."
	n := 0
	for _, f := range p.FuncsOf(arrayPath) {
		if f.Synthetic != "" || len(f.Blocks) == 0 {
			continue
		}
		for _, c := range callsIn(f) {
			call, ok := c.(*ssa.Call)
			if !ok {
				continue
			}
			g := calleeOf(call)
			if g == nil || pkgPathOf(g) != encPath || !strings.HasPrefix(g.Name(), "NewTypeEncoder") || len(call.Call.Args) == 0 {
				continue
			}
			n++
			r.Func(shortFn(f))
			construct := fmt.Sprintf("element encoder made in %s #%d", shortFn(f), n)
			arg := call.Call.Args[0]
			if !isNamed(arg.Type(), "reflect", "Type") {
				r.OK(construct, p.Pos(call.Pos()), shortFn(g)+" on an element value")
				continue
			}
			// a reflect.Type: where does it come from?
			bad := ""
			for v := range phiClosure(arg) {
				src, ok := v.(*ssa.Call)
				if !ok {
					if mi, isMI := v.(*ssa.MakeInterface); isMI {
						if s2, isCall := mi.X.(*ssa.Call); isCall {
							src, ok = s2, true
						}
					}
				}
				if !ok {
					bad = "a reflect.Type of unknown origin"
					continue
				}
				id := funcID(calleeOf(src))
				switch {
				case id == "reflect.TypeOf":
				case strings.HasSuffix(id, "reflect.Value).Type"), src.Call.IsInvoke() && src.Call.Method.Name() == "Elem":
					bad = "the static type of a slice element (" + p.Pos(src.Pos()) + ")"
				default:
					if src.Call.IsInvoke() {
						bad = "a reflect.Type derived by " + src.Call.Method.Name() + "()"
					} else {
						bad = "a reflect.Type returned by " + id
					}
				}
			}
			r.Check(bad == "", construct, p.Pos(call.Pos()), shortFn(g)+" on the dynamic type of an element", "the encoder is made from "+bad+": for elements handed over in a []interface{} that type is interface{}, the constructor fails and a valid index/element list is rejected")
		}
	}
	if n == 0 {
		r.Unk("element encoder construction", "", "package array constructs no TypeEncoder (anchor not found)")
	}
}
