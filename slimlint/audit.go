package main

import (
	"bufio"
	"os"
	"os/exec"
	"path/filepath"
	"sort"
	"strings"
	"sync"
)

// sensitivityAudit (thorough tier): applies every patch of /verif/mutants and
// /verif/seeded that is written against this property — and the
// behaviour-preserving controls — to scratch copies of the repository (never
// to /repo itself), analyses the copy and records whether the check fires.
// The result goes into the evidence file; it never changes the verdict.
func sensitivityAudit(verif, prop string) []map[string]interface{} {
	type job struct{ id, patch, expect string }
	var jobs []job
	if f, err := os.Open(filepath.Join(verif, "mutants", "EXPECT.tsv")); err == nil {
		sc := bufio.NewScanner(f)
		for sc.Scan() {
			ln := sc.Text()
			if strings.HasPrefix(ln, "#") || strings.TrimSpace(ln) == "" {
				continue
			}
			parts := strings.Split(ln, "\t")
			if len(parts) < 2 {
				continue
			}
			if parts[1] == prop {
				jobs = append(jobs, job{parts[0], filepath.Join(verif, "mutants", parts[0]+".patch"), "fire"})
			} else if parts[1] == "-" {
				jobs = append(jobs, job{parts[0], filepath.Join(verif, "mutants", parts[0]+".patch"), "silent"})
			}
		}
		f.Close()
	}
	if ents, err := os.ReadDir(filepath.Join(verif, "seeded")); err == nil {
		for _, e := range ents {
			if !e.IsDir() {
				continue
			}
			patch := filepath.Join(verif, "seeded", e.Name(), "patch.diff")
			if _, err := os.Stat(patch); err != nil {
				continue
			}
			switch {
			case strings.HasPrefix(e.Name(), prop+"_"):
				jobs = append(jobs, job{"seed " + e.Name(), patch, "fire?"})
			case strings.HasPrefix(e.Name(), "ref"):
				jobs = append(jobs, job{"refactoring " + e.Name(), patch, "silent"})
			}
		}
	}
	sort.Slice(jobs, func(i, j int) bool { return jobs[i].id < jobs[j].id })
	out := make([]map[string]interface{}, len(jobs))
	var wg sync.WaitGroup
	sem := make(chan struct{}, 8)
	for ji, j := range jobs {
		wg.Add(1)
		sem <- struct{}{}
		go func(ji int, j job) {
			defer wg.Done()
			defer func() { <-sem }()
			out[ji] = auditOne(verif, prop, j.id, j.patch, j.expect)
		}(ji, j)
	}
	wg.Wait()
	return out
}

func auditOne(verif, prop, id, patch, expect string) map[string]interface{} {
	cmd := exec.Command(filepath.Join(verif, "bin", "mutcheck"), patch, prop)
	b, _ := cmd.CombinedOutput()
	s := string(b)
	res := "silent"
	switch {
	case strings.Contains(s, "SKIP:"):
		res = "skipped (patch does not apply to the current tree)"
	case strings.Contains(s, "VIOLATION property="):
		res = "fired"
	case strings.Contains(s, "ERROR"):
		res = "error"
	}
	var rules []string
	seen := map[string]bool{}
	for _, ln := range strings.Split(s, "\n") {
		if strings.Contains(ln, "[violated/") || strings.Contains(ln, "[undecided/") {
			f := strings.Fields(ln)
			if len(f) > 1 && !seen[f[1]] {
				seen[f[1]] = true
				rules = append(rules, strings.TrimSuffix(f[1], ":"))
			}
		}
	}
	verdict := "as expected"
	switch expect {
	case "fire":
		if res != "fired" {
			verdict = "MISSED"
		}
	case "silent":
		if res == "fired" {
			verdict = "FALSE ALARM"
		}
	case "fire?":
		if res != "fired" {
			verdict = "not detected by this property's own rules (see seeded/AUDIT.md)"
		}
	}
	return map[string]interface{}{"change": id, "expected": expect, "result": res, "rules": rules, "verdict": verdict}
}
