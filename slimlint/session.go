package main

// Session typestate — validity of conditionally assigned querySession fields.
//
// The node decoders (getNode, getIthInner, getLeafPrefix) assign some fields
// of the caller's querySession only for some nodes: bm only for a short node,
// innerPrefix only when a prefix is stored, leafPrefix only when the leaf has
// one. Sessions are reused across nodes (the descent loops decode every node
// on the path into one session), so such a field keeps the previous node's
// value whenever the current node does not assign it. Each of them has a
// discriminator the decoder assigns on every path:
//
//   bm           valid iff  to - from == Slim.ShortSize
//   innerPrefix  valid iff  hasInnerPrefix
//   leafPrefix   valid iff  hasLeafPrefix
//
// (today's table; it is inferred on every run from the decoders themselves,
// see inferSessionTable, so renaming a field or adding a fourth conditionally
// assigned field with a boolean discriminator needs no change here).
//
// Producer side, on the guarded summary (E11, with store effects) of every
// function that stores the field: the field is stored on a path iff the
// discriminator's final value on that path is "valid", and the discriminator
// is assigned on every path of the function.
// Consumer side: every load of the field outside its producers sits under the
// true edge of a branch on the discriminator of the same session.

import (
	"fmt"
	"go/token"
	"sort"
	"strings"

	"golang.org/x/tools/go/ssa"
)

type sessField struct {
	field string
	disc  string // bool field name, or "size" for to-from == ShortSize
}

// inferSessionTable derives the (field, discriminator) pairs from the node
// decoders themselves. A decoder is a function that stores session fields
// through a *querySession parameter. On its guarded summary with effects:
//   - a field F stored on some but not all non-panicking paths is conditional;
//   - a bool field B is its discriminator if B's final value is the constant
//     true on exactly the paths that store F and the constant false on every
//     other path (so B is assigned on every path of that decoder);
//   - a conditional uint64 field without such a B whose paths are exactly those
//     on which the final bit range has the short size (to = from + ShortSize)
//     gets the discriminator "size".
//
// Only the names from/to (the bit range, also anchors of C01.layout) and the
// wire name ShortSize are assumed.
// undiscriminated: conditionally assigned session fields for which no discriminator of any kind exists
// (filled by inferSessionTable): field -> decoder
var undiscriminated = map[string]*ssa.Function{}

func inferSessionTable(p *Program, fns []*ssa.Function) ([]sessField, []string) {
	var table []sessField
	var notes []string
	undiscriminated = map[string]*ssa.Function{}
	seen := map[string]bool{}
	for _, f := range fns {
		if !trieScope(f) || f.Synthetic != "" || len(f.Blocks) == 0 {
			continue
		}
		var sp *ssa.Parameter
		for _, prm := range f.Params {
			if isSessionPtr(prm) {
				sp = prm
			}
		}
		if sp == nil {
			continue
		}
		stores := false
		instrsOf(f, func(_ *ssa.BasicBlock, in ssa.Instruction) {
			if st, ok := in.(*ssa.Store); ok {
				if _, _, fa := fieldOfAddr(st.Addr); fa != nil && fa.X == ssa.Value(sp) {
					stores = true
				}
			}
		})
		if !stores {
			continue
		}
		ps, why := flatten(p, f, map[ssa.Value]*term{sp: S("QR")}, func(g *ssa.Function) bool { return false })
		if why != "" {
			notes = append(notes, shortFn(f)+": not summarised ("+why+")")
			continue
		}
		var live []fpath
		for _, fp := range ps {
			if !fp.panics {
				live = append(live, fp)
			}
		}
		if len(live) < 2 {
			continue
		}
		fields := map[string][]bool{} // field -> per path: stored?
		finals := make([]map[string]string, len(live))
		for i, fp := range live {
			finals[i] = fp.finalEffects()
			for k := range finals[i] {
				if strings.HasPrefix(k, "QR.") && !strings.Contains(k[3:], ".") {
					if fields[k[3:]] == nil {
						fields[k[3:]] = make([]bool, len(live))
					}
				}
			}
		}
		for i := range live {
			for name := range fields {
				_, ok := finals[i]["QR."+name]
				fields[name][i] = ok
			}
		}
		var names []string
		for name := range fields {
			names = append(names, name)
		}
		sort.Strings(names)
		for _, F := range names {
			nSt := 0
			for _, b := range fields[F] {
				if b {
					nSt++
				}
			}
			if nSt == 0 || nSt == len(live) {
				continue // unconditional
			}
			// is F itself a discriminator-like bool? skip bools
			if v := anyFinal(finals, "QR."+F); v == "true" || v == "false" {
				continue
			}
			disc := ""
			for _, B := range names {
				if B == F {
					continue
				}
				ok := true
				for i := range live {
					v, has := finals[i]["QR."+B]
					want := "false"
					if fields[F][i] {
						want = "true"
					}
					if !has || v != want {
						ok = false
						break
					}
				}
				if ok {
					disc = B
					break
				}
			}
			if disc == "" {
				// size form
				ok := true
				for i := range live {
					to, has := finals[i]["QR."+curSess.to]
					short := has && sizeIsShortTerm(to)
					if fields[F][i] != short {
						ok = false
						break
					}
				}
				if ok {
					disc = "size"
				}
			}
			if disc == "" {
				// an integer discriminator: some session field B, assigned on every path with one value term,
				// is compared with 0 in the path conditions, and F is stored exactly on one side
				intDisc := false
				for _, B := range names {
					if B == F {
						continue
					}
					tb, same := "", true
					for i := range live {
						v, has := finals[i]["QR."+B]
						if !has || (tb != "" && v != tb) {
							same = false
							break
						}
						tb = v
					}
					if !same || tb == "" {
						continue
					}
					for _, pol := range []string{"(0 == " + tb + ")", "(0 != " + tb + ")", "(0 == QR." + B + ")", "(0 != QR." + B + ")"} {
						ok := true
						for i, fp := range live {
							has := false
							for _, c := range fp.pc {
								if c == pol {
									has = true
								}
							}
							if has != fields[F][i] {
								ok = false
								break
							}
						}
						if ok {
							intDisc = true
						}
					}
				}
				if !intDisc {
					if _, dup := undiscriminated[F]; !dup {
						undiscriminated[F] = f
					}
				}
				continue
			}
			key := F + "/" + disc
			if !seen[key] {
				seen[key] = true
				table = append(table, sessField{F, disc})
			}
		}
	}
	sort.Slice(table, func(i, j int) bool { return table[i].field < table[j].field })
	return table, notes
}

func anyFinal(finals []map[string]string, k string) string {
	for _, m := range finals {
		if v, ok := m[k]; ok {
			return v
		}
	}
	return ""
}

func sizeIsShortTerm(to string) bool {
	return strings.Contains(to, "Slim.ShortSize") && !strings.Contains(to, "mul(") || strings.HasSuffix(to, ",Slim.ShortSize)") || strings.Contains(to, "(Slim.ShortSize,")
}

func isSessionPtr(v ssa.Value) bool {
	return isSessionType(v.Type())
}

func checkSessionTypestate(p *Program, r *Report, rule string) {
	r.Rule(rule, "typestate (E11 producers, CFG consumers)", "conditionally assigned session fields are read only under their validity discriminator", 6)
	fns := p.FuncsOf(triePath)
	sessionTable, notes := inferSessionTable(p, fns)
	for _, n := range notes {
		r.Note("%s: %s", rule, n)
	}
	if len(sessionTable) == 0 {
		r.Unk("conditionally assigned session fields", "", "no node decoder with a conditionally assigned field and a discriminator was found (anchor not found)")
		return
	}
	{
		var s []string
		for _, sf := range sessionTable {
			s = append(s, sf.field+" valid iff "+discText(sf))
		}
		r.Note("%s: inferred table: %s", rule, strings.Join(s, "; "))
	}
	// ---- fields assigned on some paths of a decoder only, with nothing that tells a reader whether they were:
	// a read outside the functions that store them sees the previous node's value (or zero)
	{
		var names []string
		for n := range undiscriminated {
			names = append(names, n)
		}
		sort.Strings(names)
		for _, F := range names {
			dec := undiscriminated[F]
			isProd := map[*ssa.Function]bool{}
			type rd struct {
				fn *ssa.Function
				ld *ssa.UnOp
			}
			var reads []rd
			for _, f := range fns {
				if !trieScope(f) || f.Synthetic != "" {
					continue
				}
				instrsOf(f, func(_ *ssa.BasicBlock, in ssa.Instruction) {
					switch x := in.(type) {
					case *ssa.Store:
						if _, fv, fa := fieldOfAddr(x.Addr); fa != nil && fv.Name() == F && isSessionPtr(fa.X) {
							isProd[f] = true
						}
					case *ssa.UnOp:
						if x.Op == token.MUL {
							if _, fv, fa := fieldOfAddr(x.X); fa != nil && fv.Name() == F && isSessionPtr(fa.X) {
								reads = append(reads, rd{f, x})
							}
						}
					}
				})
			}
			var bad []string
			for _, x := range reads {
				if !isProd[x.fn] {
					bad = append(bad, "read in "+shortFn(x.fn)+" at "+p.Pos(x.ld.Pos()))
				}
			}
			sort.Strings(bad)
			r.Func(shortFn(dec))
			r.Check(len(bad) == 0, "querySession."+F+" is assigned only on some paths of "+shortFn(dec)+" and has no validity discriminator", p.Pos(dec.Pos()),
				"never read outside the functions that assign it", "the field keeps the previous node's value (or zero) on the other paths, and no field of the session says which: "+strings.Join(firstN(dedupStrings(bad), 3), "; "))
		}
	}
	// producers and consumers per field
	for _, sf := range sessionTable {
		var producers []*ssa.Function
		type readSite struct {
			fn   *ssa.Function
			ld   *ssa.UnOp
			base ssa.Value
		}
		var reads []readSite
		for _, f := range fns {
			if !trieScope(f) || f.Synthetic != "" {
				continue
			}
			stores := false
			instrsOf(f, func(_ *ssa.BasicBlock, in ssa.Instruction) {
				switch x := in.(type) {
				case *ssa.Store:
					if _, fv, fa := fieldOfAddr(x.Addr); fa != nil && fv.Name() == sf.field && isSessionPtr(fa.X) {
						stores = true
					}
				case *ssa.UnOp:
					if x.Op == token.MUL {
						if _, fv, fa := fieldOfAddr(x.X); fa != nil && fv.Name() == sf.field && isSessionPtr(fa.X) {
							reads = append(reads, readSite{f, x, fa.X})
						}
					}
				}
			})
			if stores {
				producers = append(producers, f)
			}
		}
		isProducer := map[*ssa.Function]bool{}
		for _, f := range producers {
			isProducer[f] = true
		}
		if len(producers) == 0 {
			r.Unk("querySession."+sf.field+" producers", "", "no function stores this field (anchor not found)")
			continue
		}
		// ---- producer side
		for _, f := range producers {
			r.Func(shortFn(f))
			construct := fmt.Sprintf("%s assigns querySession.%s exactly when it establishes %s", shortFn(f), sf.field, discText(sf))
			bind := map[ssa.Value]*term{}
			for _, prm := range f.Params {
				if isSessionPtr(prm) {
					bind[prm] = S("QR")
				}
			}
			ps, why := flatten(p, f, bind, func(g *ssa.Function) bool { return false })
			if why != "" {
				r.Unk(construct, p.Pos(f.Pos()), "cannot summarise: "+why)
				continue
			}
			var bad []string
			nAssigned := 0
			for _, fp := range ps {
				if fp.panics {
					continue
				}
				fin := fp.finalEffects()
				_, assigned := fin["QR."+sf.field]
				if assigned {
					nAssigned++
				}
				valid, known := false, false
				if sf.disc == "size" {
					to, okT := fin["QR."+curSess.to]
					from, okF := fin["QR."+curSess.from]
					if okT {
						known = true
						fromT := "QR.from"
						if okF {
							fromT = from
						}
						_ = fromT
						// to = from + ShortSize ?
						valid = sizeIsShort(fp, to)
					}
				} else {
					v, ok := fin["QR."+sf.disc]
					if ok {
						known = true
						valid = v == "true"
					}
				}
				switch {
				case !known && assigned:
					bad = append(bad, "on the path ["+abbreviate(fp.pcKey())+"] the field is assigned but the discriminator is not")
				case !known:
					// neither assigned: this path does not decode this part of the node (e.g. the leaf branch of getNode)
				case assigned != valid:
					bad = append(bad, fmt.Sprintf("on the path [%s] assigned=%v but discriminator says valid=%v", abbreviate(fp.pcKey()), assigned, valid))
				}
			}
			if nAssigned == 0 {
				bad = append(bad, "no path of the summary assigns the field")
			}
			// a stored prefix is a bit string with a trailing length byte: where the producer also sets
			// the step length on a path that assigns the prefix, that length is bitstr.Len of the prefix
			// just assigned (the only decoder of the format), not a count of its bytes
			if sf.disc != "size" {
				var lenBad []string
				for _, fp := range ps {
					if fp.panics {
						continue
					}
					fin := fp.finalEffects()
					pv, okP := fin["QR."+sf.field]
					lv, okL := fin["QR."+curSess.stepLen]
					if !okP || !okL || lv == "0" {
						continue
					}
					// bitstr.Len is expanded by E6 (8*len - 16 + popcount(last byte)): whatever its form, the
					// length must read the CONTENT of the prefix — the value of its marker byte decides it
					readsContent := strings.Contains(lv, "idx(QR."+sf.field+",") || strings.Contains(lv, "idx("+pv+",") || (strings.Contains(lv, "bitstr.Len(") && strings.Contains(lv, sf.field))
					if !readsContent {
						lenBad = append(lenBad, "on the path ["+abbreviate(fp.pcKey())+"] the length is "+abbreviate(lv))
					}
				}
				if len(lenBad) > 0 {
					bad = append(bad, "the bit length of the stored prefix is computed without reading its marker byte ("+strings.Join(firstN(dedupStrings(sortStr(lenBad)), 2), "; ")+"): the trailing marker byte is not payload")
				}
			}
			r.Check(len(bad) == 0, construct, p.Pos(f.Pos()), fmt.Sprintf("%d paths, %d assign the field, discriminator agrees on each", len(ps), nAssigned), strings.Join(firstN(dedupStrings(sortStr(bad)), 3), "; "))
		}
		// ---- consumer side
		sort.Slice(reads, func(i, j int) bool { return reads[i].ld.Pos() < reads[j].ld.Pos() })
		ordinal := map[*ssa.Function]int{}
		for _, rs := range reads {
			if isProducer[rs.fn] && sf.disc != "size" {
				// a producer may read back what it has just stored (innerPrefixLen = Len(qr.innerPrefix)): accept when a store precedes in the block
				if storedBefore(rs.ld, sf.field) {
					continue
				}
			}
			if isProducer[rs.fn] && sf.disc == "size" {
				continue
			}
			r.Func(shortFn(rs.fn))
			ordinal[rs.fn]++
			construct := fmt.Sprintf("read #%d of querySession.%s in %s", ordinal[rs.fn], sf.field, shortFn(rs.fn))
			ok := underDiscriminatorDeep(p, rs.fn, rs.ld.Block(), rs.base, sf, 0)
			r.Check(ok, construct, p.Pos(rs.ld.Pos()), "under "+discText(sf),
				"this read is not under "+discText(sf)+" of the same session: the field is assigned only for some nodes and sessions are reused across nodes, so it can hold a previous node's value here")
		}
	}
}

func discText(sf sessField) string {
	if sf.disc == "size" {
		return "to - from == Slim.ShortSize"
	}
	return sf.disc + " == true"
}

// sizeIsShort: the final value of QR.to on the path is (final QR.from) + Slim.ShortSize.
func sizeIsShort(fp fpath, to string) bool { return sizeIsShortTerm(to) }

// storedBefore: a store to the same session field precedes the load on every
// path (same block earlier, or in a dominating block): the producer reads back
// what it has just assigned.
func storedBefore(ld *ssa.UnOp, field string) bool {
	found := false
	instrsOf(ld.Parent(), func(b *ssa.BasicBlock, in ssa.Instruction) {
		st, ok := in.(*ssa.Store)
		if !ok || found {
			return
		}
		_, fv, fa := fieldOfAddr(st.Addr)
		if fa == nil || fv.Name() != field || !isSessionPtr(fa.X) {
			return
		}
		if b == ld.Block() {
			if instrIndex(st) < instrIndex(ld) {
				found = true
			}
			return
		}
		if b.Dominates(ld.Block()) {
			found = true
		}
	})
	return found
}

// underDiscriminatorDeep: the block is under the discriminator in its own
// function, or the session is a parameter and every call site of the function
// (in package trie) is under the discriminator of the session it passes — a
// helper that is only ever called for valid sessions.
func underDiscriminatorDeep(p *Program, f *ssa.Function, b *ssa.BasicBlock, base ssa.Value, sf sessField, depth int) bool {
	if underDiscriminator(p, f, b, base, sf) {
		return true
	}
	prm, ok := base.(*ssa.Parameter)
	if !ok || depth >= 2 {
		return false
	}
	idx := -1
	for i, q := range f.Params {
		if q == prm {
			idx = i
		}
	}
	if idx < 0 {
		return false
	}
	n := 0
	for _, g := range p.FuncsOf(triePath) {
		for _, c := range callsIn(g) {
			if calleeOf(c) != f {
				continue
			}
			n++
			args := c.Common().Args
			if idx >= len(args) {
				return false
			}
			if !underDiscriminatorDeep(p, g, c.Block(), args[idx], sf, depth+1) {
				return false
			}
		}
	}
	return n > 0
}

// underDiscriminator: block b is dominated by the valid edge of a branch on the discriminator.
func underDiscriminator(p *Program, f *ssa.Function, b *ssa.BasicBlock, base ssa.Value, sf sessField) bool {
	e := newEval(p)
	for _, blk := range f.Blocks {
		iff, ok := lastInstr(blk).(*ssa.If)
		if !ok {
			continue
		}
		cond := iff.Cond
		neg := false
		for {
			if u, ok := cond.(*ssa.UnOp); ok && u.Op == token.NOT {
				neg = !neg
				cond = u.X
				continue
			}
			break
		}
		validSucc := -1
		if sf.disc == "size" {
			bo, ok := cond.(*ssa.BinOp)
			if !ok || (bo.Op != token.EQL && bo.Op != token.NEQ) {
				continue
			}
			if !isSizeEq(p, e, f, bo, base) {
				continue
			}
			validSucc = 0
			if bo.Op == token.NEQ {
				validSucc = 1
			}
		} else {
			ld, ok := cond.(*ssa.UnOp)
			if !ok || ld.Op != token.MUL {
				// comparison with a constant: x == true / x != false ...
				bo, okb := cond.(*ssa.BinOp)
				if !okb {
					continue
				}
				k, isK := constBool(bo.Y)
				l2, okl := bo.X.(*ssa.UnOp)
				if !isK || !okl || l2.Op != token.MUL {
					continue
				}
				ld = l2
				if (bo.Op == token.EQL) != k {
					neg = !neg
				}
			}
			_, fv, fa := fieldOfAddr(ld.X)
			if fa == nil || fv.Name() != sf.disc || fa.X != base {
				continue
			}
			validSucc = 0
		}
		if neg {
			validSucc = 1 - validSucc
		}
		s := blk.Succs[validSucc]
		if len(s.Preds) == 1 && s.Dominates(b) {
			return true
		}
	}
	return false
}

// isSizeEq: bo compares (X.to - X.from) with Slim.ShortSize, where X is the
// session base or a structure whose two fields were copied from base.to/base.from
// in this function.
func isSizeEq(p *Program, e *evaluator, f *ssa.Function, bo *ssa.BinOp, base ssa.Value) bool {
	isShortSize := func(v ssa.Value) bool {
		return strings.HasSuffix(e.eval(v).String(), "Slim.ShortSize")
	}
	var diff ssa.Value
	switch {
	case isShortSize(bo.Y):
		diff = bo.X
	case isShortSize(bo.X):
		diff = bo.Y
	default:
		return false
	}
	sub, ok := diff.(*ssa.BinOp)
	if !ok || (sub.Op != token.SUB && sub.Op != token.ADD) {
		return false
	}
	// the minuend and the subtrahend: to - from, or (-from) + to in either order
	minuend, subtrahend := sub.X, sub.Y
	if sub.Op == token.ADD {
		if ng, isNeg := sub.X.(*ssa.UnOp); isNeg && ng.Op == token.SUB {
			minuend, subtrahend = sub.Y, ng.X
		} else if ng, isNeg := sub.Y.(*ssa.UnOp); isNeg && ng.Op == token.SUB {
			minuend, subtrahend = sub.X, ng.X
		} else {
			return false
		}
	}
	// resolve a load to the session field it denotes (directly or through a copy)
	fieldOf := func(v ssa.Value) string {
		ld, ok := v.(*ssa.UnOp)
		if !ok || ld.Op != token.MUL {
			return ""
		}
		_, fv, fa := fieldOfAddr(ld.X)
		if fa == nil {
			return ""
		}
		if fa.X == base {
			return fv.Name()
		}
		// copy: a single store in f to the same field of the same object whose value is a load of base.<g>
		got := ""
		n := 0
		instrsOf(f, func(_ *ssa.BasicBlock, in ssa.Instruction) {
			st, ok := in.(*ssa.Store)
			if !ok {
				return
			}
			_, fv2, fa2 := fieldOfAddr(st.Addr)
			if fa2 == nil || fv2 != fv || fa2.X != fa.X {
				return
			}
			n++
			if l2, ok := st.Val.(*ssa.UnOp); ok && l2.Op == token.MUL {
				if _, fv3, fa3 := fieldOfAddr(l2.X); fa3 != nil && fa3.X == base {
					got = fv3.Name()
				}
			}
		})
		if n == 1 {
			return got
		}
		return ""
	}
	return fieldOf(minuend) == curSess.to && fieldOf(subtrahend) == curSess.from
}
