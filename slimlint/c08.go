package main

import (
	"fmt"
	"go/token"
	"go/types"
	"sort"
	"strings"

	"golang.org/x/tools/go/ssa"
)

// ---------------------------------------------------------------------------
// E9 — lossy narrowing

// termBits: upper bound on the significant bits of a (non-negative) term, using
// per-symbol widths recorded by the evaluator; 64 = unknown.
func termBits(t *term, sym map[string]int) int {
	if b, ok := sym[t.String()]; ok {
		return b
	}
	switch t.op {
	case "const":
		if t.c >= 0 {
			return bitLen(t.c)
		}
		return 64
	case "mask":
		return 64
	case "popcnt":
		return 7
	case "and":
		b := 64
		for _, a := range t.args {
			if x := termBits(a, sym); x < b {
				b = x
			}
		}
		return b
	case "or", "xor":
		b := 0
		for _, a := range t.args {
			if x := termBits(a, sym); x > b {
				b = x
			}
		}
		return b
	case "shr":
		if len(t.args) == 2 && isK(t.args[1]) {
			b := termBits(t.args[0], sym)
			if b >= 64 {
				return 64
			}
			return maxInt(b-int(t.args[1].c), 0)
		}
	case "mul":
		b := 0
		for _, a := range t.args {
			x := termBits(a, sym)
			if x >= 64 {
				return 64
			}
			b += x
		}
		return b
	case "add":
		b := 0
		for _, a := range t.args {
			k, _ := splitCoef(a)
			if k < 0 {
				return 64
			}
			x := termBits(a, sym)
			if x >= 64 {
				return 64
			}
			if x > b {
				b = x
			}
		}
		return b + len(t.args) - 1
	case "conv":
		return minInt(convBits(t.name), termBits(t.args[0], sym))
	}
	return 64
}

func minInt(a, b int) int {
	if a < b {
		return a
	}
	return b
}

// symbolWidths walks the values a term was built from and records the widths
// of narrow unsigned leaves (so that uint16 data is known to have 16 bits).
func symbolWidths(p *Program, roots []ssa.Value, frames []*ssa.Call, rootFn *ssa.Function) map[string]int {
	out := map[string]int{}
	seen := map[ssa.Value]bool{}
	var walk func(v ssa.Value, fr []*ssa.Call, d int)
	walk = func(v ssa.Value, fr []*ssa.Call, d int) {
		if v == nil || seen[v] || d > 12 {
			return
		}
		seen[v] = true
		if b, ok := v.Type().Underlying().(*types.Basic); ok && b.Info()&types.IsUnsigned != 0 && intBytes(v.Type()) < 4 {
			t := bindFrames(p, v, fr)
			out[t.String()] = int(intBytes(v.Type())) * 8
		}
		// a field of a function-local record: bounded by everything ever stored into that field
		if ld, ok := v.(*ssa.UnOp); ok && ld.Op == token.MUL && rootFn != nil {
			if st, fv, fa := fieldOfAddr(ld.X); fa != nil && wireRootName(fa.X.Type()) == "" && !isNamed(fa.X.Type(), triePath, "SlimTrie") {
				if b := fieldWidth(p, rootFn, st, fv); b > 0 {
					t := bindFrames(p, v, fr)
					out[t.String()] = b
				}
			}
		}
		if prm, ok := v.(*ssa.Parameter); ok && len(fr) > 0 {
			site := fr[len(fr)-1]
			for i, q := range site.Call.StaticCallee().Params {
				if q == prm && i < len(site.Call.Args) {
					walk(site.Call.Args[i], fr[:len(fr)-1], d+1)
				}
			}
			return
		}
		if in, ok := v.(ssa.Instruction); ok {
			var ops []*ssa.Value
			for _, op := range in.Operands(ops) {
				if op != nil && *op != nil {
					walk(*op, fr, d+1)
				}
			}
		}
	}
	for _, r := range roots {
		walk(r, frames, 0)
	}
	return out
}

// fieldWidth: maximum significant bits of the values stored into a struct
// field anywhere in fn (0 = unknown / not stored).
func fieldWidth(p *Program, fn *ssa.Function, st *types.Struct, fv *types.Var) int {
	// every store into the field anywhere in package trie (the record may be a package-level type filled
	// by a constructor); a stored parameter is bounded by what every call site passes for it
	var valueBits func(v ssa.Value, depth int) int
	valueBits = func(v ssa.Value, depth int) int {
		e := newEval(p)
		if c, ok := v.(*ssa.Call); ok && calleeOf(c) != nil && len(calleeOf(c).Blocks) > 0 {
			b := 0
			ce := newEval(p)
			for _, ret := range returnsOf(calleeOf(c)) {
				if len(ret.Results) != 1 {
					return 64
				}
				if x := ce.bits(ret.Results[0]); x > b {
					b = x
				}
			}
			return b
		}
		if prm, ok := v.(*ssa.Parameter); ok && depth < 2 {
			g := prm.Parent()
			idx := -1
			for i, q := range g.Params {
				if q == prm {
					idx = i
				}
			}
			b, n := 0, 0
			for _, h := range p.FuncsOf(triePath) {
				for _, c := range callsIn(h) {
					if calleeOf(c) == g && idx >= 0 && idx < len(c.Common().Args) {
						n++
						if x := valueBits(c.Common().Args[idx], depth+1); x > b {
							b = x
						}
					}
				}
			}
			if n == 0 {
				return 64
			}
			return b
		}
		return e.bits(v)
	}
	max, n := 0, 0
	unknown := false
	fns := p.FuncsOf(triePath)
	if fn != nil {
		// the root function first (cheap common case), then the rest of the package
		fns = append([]*ssa.Function{fn}, fns...)
	}
	seenFn := map[*ssa.Function]bool{}
	for _, g := range fns {
		if seenFn[g] {
			continue
		}
		seenFn[g] = true
		instrsOf(g, func(_ *ssa.BasicBlock, in ssa.Instruction) {
			s, ok := in.(*ssa.Store)
			if !ok {
				return
			}
			st2, fv2, fa := fieldOfAddr(s.Addr)
			if fa == nil || fv2 != fv || st2 != st {
				return
			}
			n++
			b := valueBits(s.Val, 0)
			if b >= newEval(p).width(s.Val.Type()) {
				unknown = true
			}
			if b > max {
				max = b
			}
		})
	}
	if n == 0 || unknown {
		return 0
	}
	return max
}

type guard struct {
	iff      *ssa.If
	g        *term
	k        int64 // on the safe edge g <= k
	safeSucc int
	pos      token.Pos
	// unlessOpt: the bound holds on the safe edge unless this option is true (a boolean helper that
	// answers "fits" at once when the quantity is not stored in the narrow form under that option)
	unlessOpt string
}

// guardsOf finds upper-bound guards: branches on g > K (or equivalents) whose
// violating edge leads only to an error return / panic.
func guardsOf(p *Program, f *ssa.Function) []guard {
	return guardsOfIn(p, f, nil, errorReturn)
}

// errorReturn: a return whose last result is a possibly non-nil error.
func errorReturn(r *ssa.Return) bool {
	if len(r.Results) == 0 {
		return false
	}
	last := r.Results[len(r.Results)-1]
	return isErrorType(last.Type()) && !isNilConst(last)
}

// optBypassCmp: cond is a call of a loop-free boolean helper with two returns: a constant under a
// branch on an option, and a comparison of parameters and constants otherwise
// ("func (c *creator) stepFits(n int32) bool { if *c.option.InnerPrefix { return true }; return n < limit }").
// Returns the comparison with the arguments of the call substituted, the option, and the helper's
// result when the option is true.
func optBypassCmp(bf *builderFlow, cond ssa.Value) (token.Token, ssa.Value, ssa.Value, token.Pos, string, bool, bool) {
	fail := func() (token.Token, ssa.Value, ssa.Value, token.Pos, string, bool, bool) {
		return 0, nil, nil, token.NoPos, "", false, false
	}
	call, ok := cond.(*ssa.Call)
	if !ok || bf == nil || bf.it == nil || call.Call.IsInvoke() {
		return fail()
	}
	h := calleeOf(call)
	if h == nil || !inAnalysed(h) || len(h.Blocks) != 3 || hasLoop(h) {
		return fail()
	}
	iff, ok := lastInstr(h.Blocks[0]).(*ssa.If)
	if !ok {
		return fail()
	}
	name, negated, isOpt := bf.it.condOpt(iff.Cond)
	if !isOpt {
		return fail()
	}
	for _, in := range h.Blocks[0].Instrs {
		switch in.(type) {
		case *ssa.Store, *ssa.Call, *ssa.MapUpdate:
			return fail()
		}
	}
	var constRet, cmpRet *ssa.Return
	var constSucc int
	for i, sb := range h.Blocks[0].Succs {
		ret, ok := lastInstr(sb).(*ssa.Return)
		if !ok || len(ret.Results) != 1 {
			return fail()
		}
		if _, isC := constBool(ret.Results[0]); isC {
			constRet, constSucc = ret, i
		} else {
			cmpRet = ret
		}
	}
	if constRet == nil || cmpRet == nil {
		return fail()
	}
	// the constant must be returned on the edge taken when the option is true
	trueEdge := 0
	if negated {
		trueEdge = 1
	}
	if constSucc != trueEdge {
		return fail()
	}
	bo, ok := cmpRet.Results[0].(*ssa.BinOp)
	if !ok {
		return fail()
	}
	switch bo.Op {
	case token.LSS, token.LEQ, token.GTR, token.GEQ:
	default:
		return fail()
	}
	bind := func(v ssa.Value) (ssa.Value, bool) {
		for {
			if cv, ok := v.(*ssa.Convert); ok {
				v = cv.X
				continue
			}
			break
		}
		if _, isK := v.(*ssa.Const); isK {
			return v, true
		}
		for i, prm := range h.Params {
			if v == ssa.Value(prm) && i < len(call.Call.Args) {
				return call.Call.Args[i], true
			}
		}
		return nil, false
	}
	a, ok1 := bind(bo.X)
	b, ok2 := bind(bo.Y)
	if !ok1 || !ok2 {
		return fail()
	}
	cv, _ := constBool(constRet.Results[0])
	return bo.Op, a, b, call.Pos(), strings.TrimPrefix(name, "opt:"), cv, true
}

func guardsOfIn(p *Program, f *ssa.Function, bf *builderFlow, isAbort func(*ssa.Return) bool) []guard {
	_, abortOnly := postDom(f, isAbort)
	var out []guard
	e := newEval(p)
	for _, b := range f.Blocks {
		iff, ok := lastInstr(b).(*ssa.If)
		if !ok {
			continue
		}
		op, ox, oy, cpos, ok := cmpOf(iff.Cond)
		bypassOpt, bypassVal := "", false
		if !ok {
			op, ox, oy, cpos, bypassOpt, bypassVal, ok = optBypassCmp(bf, iff.Cond)
		}
		if !ok {
			continue
		}
		bo := struct {
			Op token.Token
		}{op}
		x, y := e.eval(ox), e.eval(oy)
		var g *term
		var k int64
		badSucc := -1
		switch {
		case bo.Op == token.GTR && isK(y): // g > K : bad on true
			g, k, badSucc = x, y.c, 0
		case bo.Op == token.GEQ && isK(y): // g >= K
			g, k, badSucc = x, y.c-1, 0
		case bo.Op == token.LEQ && isK(y): // g <= K : bad on false
			g, k, badSucc = x, y.c, 1
		case bo.Op == token.LSS && isK(y): // g < K
			g, k, badSucc = x, y.c-1, 1
		case bo.Op == token.LSS && isK(x): // K < g : bad on true
			g, k, badSucc = y, x.c, 0
		case bo.Op == token.LEQ && isK(x): // K <= g
			g, k, badSucc = y, x.c-1, 0
		default:
			continue
		}
		if !abortOnly[b.Succs[badSucc].Index] {
			continue
		}
		gd := guard{iff: iff, g: g, k: k, safeSucc: 1 - badSucc, pos: cpos}
		if bypassOpt != "" {
			// the helper's constant under the option: "true" goes to successor 0 of the caller's branch
			constSucc := 1
			if bypassVal {
				constSucc = 0
			}
			if constSucc == gd.safeSucc {
				gd.unlessOpt = bypassOpt // under the option the safe edge is taken without the bound
			}
			// otherwise the option leads to the failing edge: survivors satisfy the bound
		}
		out = append(out, gd)
	}
	return out
}

// boundBy: does guard g bound term t by max? (t == g, or t == g >> s)
func boundBy(t *term, g guard, max int64) bool {
	if t.String() == g.g.String() {
		return g.k <= max
	}
	// t == g >> s, also written as nested shifts ((g >> 2) >> 8)
	sh := int64(0)
	for u := t; u.op == "shr" && len(u.args) == 2 && isK(u.args[1]) && u.args[1].c >= 0; u = u.args[0] {
		sh += u.args[1].c
		if u.args[0].String() == g.g.String() {
			return sh < 63 && g.k>>uint(sh) <= max && g.k >= 0
		}
	}
	return false
}

// reachableAvoiding: is target reachable from entry when the guard block and
// the option edges with the given polarity are removed?
func reachableAvoiding(f *ssa.Function, target *ssa.BasicBlock, avoid *ssa.BasicBlock, optEdge func(b *ssa.BasicBlock, succ int) bool) bool {
	seen := map[*ssa.BasicBlock]bool{}
	var walk func(b *ssa.BasicBlock) bool
	walk = func(b *ssa.BasicBlock) bool {
		if b == avoid || seen[b] {
			return false
		}
		seen[b] = true
		if b == target {
			return true
		}
		for i, s := range b.Succs {
			if optEdge != nil && optEdge(b, i) {
				continue
			}
			if walk(s) {
				return true
			}
		}
		return false
	}
	return walk(f.Blocks[0])
}

type narrowSite struct {
	cv    *ssa.Convert
	fn    *ssa.Function
	tw    int
	local bool
}

func narrowingSites(p *Program, fns map[*ssa.Function]bool) []narrowSite {
	var out []narrowSite
	var fs []*ssa.Function
	for f := range fns {
		if trieScope(f) && !strings.HasSuffix(p.File(f.Pos()), ".pb.go") {
			fs = append(fs, f)
		}
	}
	sort.Slice(fs, func(i, j int) bool { return fs[i].String() < fs[j].String() })
	for _, f := range fs {
		e := newEval(p)
		instrsOf(f, func(_ *ssa.BasicBlock, in ssa.Instruction) {
			cv, ok := in.(*ssa.Convert)
			if !ok {
				return
			}
			tw, sw := e.width(cv.Type()), e.width(cv.X.Type())
			if tw == 0 || sw == 0 || tw > 16 || sw <= tw {
				return
			}
			if _, isConst := cv.X.(*ssa.Const); isConst {
				return
			}
			// a signed target holds one bit less of a non-negative quantity (int16 of 40000 is negative)
			eff := tw
			if b, ok := cv.Type().Underlying().(*types.Basic); ok && b.Info()&types.IsUnsigned == 0 {
				eff = tw - 1
			}
			out = append(out, narrowSite{cv: cv, fn: f, tw: eff, local: e.bits(cv.X) <= eff || hasHighSibling(f, cv, tw)})
		})
	}
	return out
}

// hasHighSibling: cv takes the low tw bits of x on purpose — the same function also converts x >> tw
// to a type of the same width ("[]byte{byte(w >> 8), byte(w)}"): the pair stores 2*tw bits of x and the
// obligation that nothing is lost lies on the sibling, which is a narrowing site of its own.
func hasHighSibling(f *ssa.Function, cv *ssa.Convert, tw int) bool {
	found := false
	instrsOf(f, func(_ *ssa.BasicBlock, in ssa.Instruction) {
		o, ok := in.(*ssa.Convert)
		if !ok || o == cv || !types.Identical(o.Type(), cv.Type()) {
			return
		}
		sh, ok := o.X.(*ssa.BinOp)
		if !ok || sh.Op != token.SHR || sh.X != cv.X {
			return
		}
		if k, ok := constInt(sh.Y); ok && int(k) == tw {
			found = true
		}
	})
	return found
}

// callChains enumerates static call chains (within package trie) from root to target.
func callChains(root, target *ssa.Function, maxDepth int) [][]*ssa.Call {
	var out [][]*ssa.Call
	var cur []*ssa.Call
	onPath := map[*ssa.Function]bool{}
	var dfs func(f *ssa.Function)
	dfs = func(f *ssa.Function) {
		if f == target {
			out = append(out, append([]*ssa.Call{}, cur...))
			return
		}
		if len(cur) >= maxDepth || onPath[f] {
			return
		}
		onPath[f] = true
		for _, c := range callsIn(f) {
			call, ok := c.(*ssa.Call)
			if !ok {
				continue
			}
			g := calleeOf(call)
			if g == nil || !trieScope(g) || len(g.Blocks) == 0 {
				continue
			}
			cur = append(cur, call)
			dfs(g)
			cur = cur[:len(cur)-1]
		}
		onPath[f] = false
	}
	dfs(root)
	return out
}

// ---------------------------------------------------------------------------

func checkC08(p *Program, r *Report) {
	r.Explanation = "Decided: (order) the construction function compares, as Go strings (bytewise unsigned), keys[a] with keys[a+1] for a loop that covers exactly a = 0..len(keys)-2, unconditionally in the loop body, returns (nil, error derived from ErrKeyOutOfOrder) exactly on keys[a] >= keys[a+1], and the loop's exit dominates everything that consumes the keys; NewSlimTrie never returns a trie together with an error; (narrow) every conversion of a wider integer to an 8/16-bit type in code reachable from NewSlimTrie or the legacy rebuild is bounded: by a mask/shift/type locally, by the widths of its operands through the call chain, or by a comparison guard on the same term in the construction function whose failing edge leaves with an error and which lies on every path to the call that is not taken under the option that disables the conversion — so no accepted input stores a truncated step."
	r.NotCovered = "That accepted lists are indexed correctly (C01)."
	r.Trusted = []string{"go/ssa, go/types"}
	entry := p.Trie.Func("NewSlimTrie")
	r.Rule("C08.order", "E3+E6", "strict-order check over all adjacent pairs gates construction", 5)
	if entry == nil {
		r.Unk("trie.NewSlimTrie", "", "anchor not found")
		return
	}
	F := findBuilder(p, entry)
	if F == nil {
		r.Unk("construction function", "", "caller of sigbits.New not found")
		return
	}
	r.Func(shortFn(F))
	checkOrder(p, r, F)
	why := nilOnErrorTrie(p, entry)
	r.Check(why == "", "trie.NewSlimTrie returns no trie with an error", p.Pos(entry.Pos()), "every return with a possibly non-nil error has a nil trie", why)

	checkNarrowAs(p, r, "C08.narrow", entry, F)
	checkRejectReasonsAs(p, r, "C08.accept")
	// ---- never mis-indexed (shared with C01): an accepted input is decoded with the node sizes it was built with
	checkBigZone(p, r, "C08.bigzone")
	r.Explanation += " (align) wherever the position at which the builder cuts labels (bmtree.PathsOf/PathOf) is aligned by a constant mask, the mask clears at least log2(w) low bits for every label word size w that can reach the same call together with it (leaves of position and word size paired per phi edge and helper return): a 257-bit node is cut at whole bytes, as the readers address it."
	checkCutAlignment(p, r, "C08.align")
}

// checkNarrowAs (C08.narrow; shared with the properties that promise lookups on whatever was accepted:
// C12 through SlimIndex, C13 "identical answers for retained keys in every mode"): every conversion of
// a wider integer to an 8/16-bit type in code reachable from the construction function or the legacy
// rebuild is bounded.
func checkNarrowAs(p *Program, r *Report, rule string, entry, F *ssa.Function) {
	r.Rule(rule, "E9", "no unbounded narrowing of a stored quantity", 1)
	roots := []*ssa.Function{F}
	un := p.Method(p.Trie, "SlimTrie", "Unmarshal")
	scope := trieReach(entry)
	if un != nil {
		// the legacy rebuild: functions under Unmarshal that use the builder state
		for f := range trieReach(un) {
			scope[f] = true
		}
		for f := range trieReach(un) {
			if trieScope(f) && f != F {
				for _, c := range callsIn(f) {
					if g := calleeOf(c); g != nil && g.Name() != "" && g.Signature.Recv() != nil && trieScope(g) {
						if rs := g.Signature.Results(); rs.Len() == 1 && isNamed(rs.At(0).Type(), triePath, "Slim") {
							roots = append(roots, f)
						}
					}
				}
			}
		}
	}
	sites := narrowingSites(p, scope)
	bf := sharedBuilderFlow(p)
	for i, s := range sites {
		r.Func(shortFn(s.fn))
		construct := fmt.Sprintf("narrowing to %s #%d in %s", s.cv.Type(), i+1, shortFn(s.fn))
		pos := p.Pos(s.cv.Pos())
		if s.local {
			r.OK(construct, pos, "operand has at most "+fmt.Sprint(s.tw)+" significant bits (mask/shift/type)")
			continue
		}
		max := int64(1)<<uint(s.tw) - 1
		var bad []string
		nChains := 0
		for _, root := range dedupFuncs(roots) {
			chains := callChains(root, s.fn, 5)
			if s.fn == root {
				chains = append(chains, nil)
			}
			for _, ch := range chains {
				nChains++
				T := bindFrames(p, s.cv.X, ch)
				sw := symbolWidths(p, []ssa.Value{s.cv.X}, ch, root)
				if termBits(T, sw) <= s.tw {
					continue
				}
				if why := guardedInChain(p, bf, root, ch, s, T, max); why != "" {
					bad = append(bad, fmt.Sprintf("via %s: operand %s %s", chainString(root, ch), abbreviate(T.String()), why))
				}
			}
		}
		if nChains == 0 {
			r.OK(construct, pos, "not on a call path from the construction or rebuild functions")
			continue
		}
		sort.Strings(bad)
		r.Check(len(bad) == 0, construct, pos, fmt.Sprintf("bounded on all %d call path(s) by operand widths or a dominating error guard", nChains),
			"a value wider than "+fmt.Sprint(s.tw)+" bits can be truncated silently: "+strings.Join(firstN(dedupStrings(bad), 3), "; "))
	}
	if len(sites) == 0 {
		r.Unk("narrowing conversions", "", "none found in the build scope (the 16-bit step encoder is gone?)")
	}
}

func dedupFuncs(fs []*ssa.Function) []*ssa.Function {
	seen := map[*ssa.Function]bool{}
	var out []*ssa.Function
	for _, f := range fs {
		if !seen[f] {
			seen[f] = true
			out = append(out, f)
		}
	}
	return out
}

func chainString(root *ssa.Function, ch []*ssa.Call) string {
	s := root.Name()
	for _, c := range ch {
		s += " -> " + c.Call.StaticCallee().Name()
	}
	return s
}

// guardedInRoot returns "" if the operand is bounded by a guard of the root
// function on every path on which the conversion can execute.
// chainAbort: the abort returns of frame k of a call chain (frame 0 = root, frame k = callee of
// ch[k-1]): error returns, and — when the caller only branches on the boolean result of the call and
// one of the two edges leads to nothing but the caller's own abort returns — returns of that constant.
func chainAbort(root *ssa.Function, ch []*ssa.Call, k int) func(*ssa.Return) bool {
	if k == 0 {
		return errorReturn
	}
	prev := chainAbort(root, ch, k-1)
	caller := root
	if k > 1 {
		caller = calleeOf(ch[k-2])
	}
	call := ch[k-1]
	if caller == nil || !isBoolType(call.Type()) || call.Referrers() == nil {
		return errorReturn
	}
	_, abortOnly := postDom(caller, prev)
	found, val := false, false
	for _, ref := range *call.Referrers() {
		switch x := ref.(type) {
		case *ssa.DebugRef:
		case *ssa.If:
			b := x.Block()
			t, f := abortOnly[b.Succs[0].Index], abortOnly[b.Succs[1].Index]
			if t == f || (found && t != val) {
				return errorReturn
			}
			found, val = true, t
		default:
			return errorReturn
		}
	}
	if !found {
		return errorReturn
	}
	return func(r *ssa.Return) bool {
		if errorReturn(r) {
			return true
		}
		if len(r.Results) == 1 {
			if cv, ok := constBool(r.Results[0]); ok && cv == val {
				return true
			}
		}
		return false
	}
}

// guardedInChain: the operand is bounded by an error guard in some frame of the call chain: in the
// root (on the term bound through all frames) or in an intermediate function (on the term bound
// through the remaining frames), on every path to the onward call.
func guardedInChain(p *Program, bf *builderFlow, root *ssa.Function, ch []*ssa.Call, s narrowSite, T *term, max int64) string {
	why0 := guardedInFrame(p, bf, root, ch, s, T, max, errorReturn)
	if why0 == "" {
		return ""
	}
	for k := 1; k <= len(ch); k++ {
		f := calleeOf(ch[k-1])
		if f == nil || len(f.Blocks) == 0 {
			break
		}
		Tk := bindFrames(p, s.cv.X, ch[k:])
		if guardedInFrame(p, bf, f, ch[k:], s, Tk, max, chainAbort(root, ch, k)) == "" {
			return ""
		}
	}
	return why0
}

func guardedInFrame(p *Program, bf *builderFlow, root *ssa.Function, ch []*ssa.Call, s narrowSite, T *term, max int64, isAbort func(*ssa.Return) bool) string {
	var site *ssa.BasicBlock
	if len(ch) > 0 {
		site = ch[0].Block()
	} else {
		site = s.cv.Block()
	}
	gs := guardsOfIn(p, root, bf, isAbort)
	var cands []guard
	for _, g := range gs {
		if boundBy(T, g, max) {
			cands = append(cands, g)
		}
	}
	if len(cands) == 0 {
		return "is not bounded by any error guard on the same term in " + shortFn(root)
	}
	// options under which the conversion executes (must-polarity), from the labelled flow
	neg := map[string]bool{} // option known false at the conversion
	posO := map[string]bool{}
	if bf != nil && bf.it != nil {
		first := true
		for _, k := range bf.it.order {
			c := bf.it.ctxs[k]
			if c.fn != s.fn {
				continue
			}
			ctl := bf.it.blockCtl(c, s.cv.Block())
			curNeg, curPos := map[string]bool{}, map[string]bool{}
			for l := range ctl {
				if strings.HasPrefix(l, "opt:") && strings.HasSuffix(l, "-") && !ctl[strings.TrimSuffix(l, "-")+"+"] {
					curNeg[strings.TrimSuffix(strings.TrimPrefix(l, "opt:"), "-")] = true
				}
				if strings.HasPrefix(l, "opt:") && strings.HasSuffix(l, "+") && !ctl[strings.TrimSuffix(l, "+")+"-"] {
					curPos[strings.TrimSuffix(strings.TrimPrefix(l, "opt:"), "+")] = true
				}
			}
			if first {
				neg, posO = curNeg, curPos
				first = false
			} else {
				for o := range neg {
					if !curNeg[o] {
						delete(neg, o)
					}
				}
				for o := range posO {
					if !curPos[o] {
						delete(posO, o)
					}
				}
			}
		}
	}
	for _, g := range cands {
		if g.unlessOpt != "" && !neg[g.unlessOpt] {
			continue // the bound is bypassed under an option that is not known false at the conversion
		}
		gb := g.iff.Block()
		// edges that can only be taken when an option has the polarity opposite to the one
		// under which the conversion executes are irrelevant
		optEdge := func(b *ssa.BasicBlock, succ int) bool {
			iff, ok := lastInstr(b).(*ssa.If)
			if !ok || bf == nil || bf.it == nil {
				return false
			}
			name, negated, isOpt := bf.it.condOpt(iff.Cond)
			if !isOpt {
				return false
			}
			o := strings.TrimPrefix(name, "opt:")
			trueEdge := (succ == 0) != negated // edge taken when the option is true
			if neg[o] && trueEdge {
				return true
			}
			if posO[o] && !trueEdge {
				return true
			}
			return false
		}
		if !reachableAvoiding(root, site, gb, optEdge) {
			return ""
		}
	}
	return "has an error guard on the same term, but some path reaches the call without passing it"
}

// nilOnErrorTrie: NewSlimTrie never returns a non-nil trie with a non-nil error.
func nilOnErrorTrie(p *Program, f *ssa.Function) string {
	for _, ret := range returnsOf(f) {
		if len(ret.Results) != 2 {
			continue
		}
		if isNilConst(ret.Results[1]) || isNilConst(ret.Results[0]) {
			continue
		}
		return "return at " + p.Pos(ret.Pos()) + " may hand out a trie together with an error"
	}
	return ""
}

type orderCmp struct {
	fn      *ssa.Function
	keys    *ssa.Parameter
	iff     *ssa.If
	a, b    *term // compares keys[a] (must be smaller) with keys[b]
	badSucc int
	e       *evaluator
}

func stringSliceParam(f *ssa.Function) *ssa.Parameter {
	for _, prm := range f.Params {
		if sl, ok := prm.Type().Underlying().(*types.Slice); ok && isStringType(sl.Elem()) {
			return prm
		}
	}
	return nil
}

// findOrderCmp finds the comparison of two elements of keys in fn.
func findOrderCmp(p *Program, fn *ssa.Function, keys *ssa.Parameter) *orderCmp {
	e := newEval(p)
	keyElem := func(v ssa.Value) (*term, bool) {
		ld, ok := deref(v)
		if !ok {
			return nil, false
		}
		ia, ok := ld.(*ssa.IndexAddr)
		if !ok || ia.X != keys {
			return nil, false
		}
		return e.eval(ia.Index), true
	}
	for _, blk := range fn.Blocks {
		iff, ok := lastInstr(blk).(*ssa.If)
		if !ok {
			continue
		}
		cond := iff.Cond
		negated := false
		for {
			if u, ok := cond.(*ssa.UnOp); ok && u.Op == token.NOT {
				negated = !negated
				cond = u.X
				continue
			}
			break
		}
		bo, ok := cond.(*ssa.BinOp)
		if !ok || !isStringType(bo.X.Type()) {
			continue
		}
		x, okx := keyElem(bo.X)
		y, oky := keyElem(bo.Y)
		if !okx || !oky {
			continue
		}
		ci := &orderCmp{fn: fn, keys: keys, iff: iff, e: e}
		switch bo.Op {
		case token.GEQ: // x >= y bad
			ci.a, ci.b, ci.badSucc = x, y, 0
		case token.LEQ: // x <= y  ==  y >= x bad
			ci.a, ci.b, ci.badSucc = y, x, 0
		case token.LSS: // x < y good
			ci.a, ci.b, ci.badSucc = x, y, 1
		case token.GTR: // x > y  ==  y < x good
			ci.a, ci.b, ci.badSucc = y, x, 1
		default:
			continue
		}
		if negated {
			ci.badSucc = 1 - ci.badSucc
		}
		return ci
	}
	return nil
}

// triCond evaluates "v op k" for v in [lo,hi]: 1 always true, 0 always false, -1 unknown.
func triCond(op token.Token, lo, hi, k int64) int {
	t := func(b bool) int {
		if b {
			return 1
		}
		return 0
	}
	switch op {
	case token.GEQ:
		if lo >= k {
			return 1
		}
		if hi < k {
			return 0
		}
	case token.GTR:
		if lo > k {
			return 1
		}
		if hi <= k {
			return 0
		}
	case token.LSS:
		if hi < k {
			return 1
		}
		if lo >= k {
			return 0
		}
	case token.LEQ:
		if hi <= k {
			return 1
		}
		if lo > k {
			return 0
		}
	case token.NEQ:
		if k < lo || k > hi {
			return 1
		}
		if lo == hi {
			return t(lo != k)
		}
	case token.EQL:
		if k < lo || k > hi {
			return 0
		}
		if lo == hi {
			return t(lo == k)
		}
	}
	return -1
}

// checkOrder verifies the adjacent-pair order check of the construction
// function; the check may be made in the function itself or in one helper it
// calls with the key list.
func checkOrder(p *Program, r *Report, F *ssa.Function) {
	keys := stringSliceParam(F)
	if keys == nil {
		r.Unk("order check in "+shortFn(F), p.Pos(F.Pos()), "no []string parameter")
		return
	}
	oc := findOrderCmp(p, F, keys)
	var helperCall *ssa.Call
	if oc == nil {
		for _, c := range callsIn(F) {
			call, ok := c.(*ssa.Call)
			if !ok {
				continue
			}
			h := calleeOf(call)
			if h == nil || !trieScope(h) || len(h.Blocks) == 0 {
				continue
			}
			for i, a := range call.Call.Args {
				if a == keys && i < len(h.Params) {
					if hc := findOrderCmp(p, h, h.Params[i]); hc != nil {
						oc = hc
						helperCall = call
					}
				}
			}
		}
	}
	if oc == nil {
		r.Bad("order check in "+shortFn(F), p.Pos(F.Pos()), "no comparison of two elements of the key list (in the construction function or a helper it hands the keys to): out-of-order input is not rejected")
		return
	}
	r.Func(shortFn(oc.fn))
	pos := p.Pos(oc.iff.Cond.Pos())
	adj := O("add", oc.a, K(1)).String() == oc.b.String()
	r.Check(adj, "order check compares adjacent keys", pos, "keys[a] >= keys[a+1] with a = "+oc.a.String(),
		fmt.Sprintf("compares keys[%s] with keys[%s]: not adjacent pairs (a, a+1), or with the strictness/direction reversed", oc.a, oc.b))
	cover := orderLoopCoverage(p, oc.e, oc.fn, oc.iff, oc.a, oc.keys)
	r.Check(cover == "", "order check covers all adjacent pairs", pos, "a runs from 0 while a+1 < len(keys), step 1, and the comparison is the first thing in the loop body", cover)

	badBlk := oc.iff.Block().Succs[oc.badSucc]
	header := loopHeaderOf(oc.iff.Block())
	var loopExit *ssa.BasicBlock
	if header != nil {
		for _, s := range header.Succs {
			if !reachableFrom(s, func(b *ssa.BasicBlock) bool { return b == header })[oc.iff.Block()] {
				loopExit = s
			}
		}
	}
	var gateBlock *ssa.BasicBlock // in F: the block from which construction proceeds
	errOK := false
	errWhy := "the failing branch does not return (nil, error derived from ErrKeyOutOfOrder)"
	if helperCall == nil {
		if ret, isRet := lastInstr(badBlk).(*ssa.Return); isRet && len(ret.Results) == 2 && isNilConst(ret.Results[0]) {
			errOK = derivedFromGlobal(ret.Results[1], "ErrKeyOutOfOrder", 0)
		}
		gateBlock = loopExit
	} else {
		// helper: the bad branch returns an indicator the caller turns into the error
		h := oc.fn
		badRet, isRet := lastInstr(badBlk).(*ssa.Return)
		var okRets []*ssa.Return
		for _, ret := range returnsOf(h) {
			if ret != badRet {
				okRets = append(okRets, ret)
			}
		}
		if !isRet || len(okRets) == 0 || len(badRet.Results) == 0 {
			errWhy = "the helper " + shortFn(h) + " does not report the violation by an early return"
		} else {
			// which result distinguishes? try each result index
			for ri := range badRet.Results {
				// bad value: constant, or the (non-negative) induction variable
				var blo, bhi int64
				if c, ok := constInt(badRet.Results[ri]); ok {
					blo, bhi = c, c
				} else if b, ok := constBool(badRet.Results[ri]); ok {
					blo, bhi = 0, 0
					if b {
						blo, bhi = 1, 1
					}
				} else if isIntType(badRet.Results[ri].Type()) && containsTerm(oc.a, oc.e.eval(badRet.Results[ri])) || (isIntType(badRet.Results[ri].Type()) && containsTerm(oc.e.eval(badRet.Results[ri]), oc.a)) {
					blo, bhi = 0, 1<<40
				} else {
					continue
				}
				allOK := true
				var olo, ohi int64
				for i, ret := range okRets {
					var c int64
					if x, ok := constInt(ret.Results[ri]); ok {
						c = x
					} else if b, ok := constBool(ret.Results[ri]); ok {
						if b {
							c = 1
						}
					} else {
						allOK = false
						break
					}
					if i == 0 || c < olo {
						olo = c
					}
					if i == 0 || c > ohi {
						ohi = c
					}
				}
				if !allOK {
					continue
				}
				// the caller's test on that result
				var rv ssa.Value = helperCall
				if len(badRet.Results) > 1 {
					rv = nil
					for _, ref := range *helperCall.Referrers() {
						if ex, ok := ref.(*ssa.Extract); ok && ex.Index == ri {
							rv = ex
						}
					}
				}
				if rv == nil {
					continue
				}
				for _, ref := range *rv.Referrers() {
					var iff *ssa.If
					op := token.NEQ
					var k int64
					switch x := ref.(type) {
					case *ssa.If: // bool result used directly: "r != false"
						iff, k = x, 0
					case *ssa.BinOp:
						if c, ok := constInt(x.Y); ok && x.X == rv {
							op, k = x.Op, c
							for _, r2 := range *x.Referrers() {
								if i2, ok := r2.(*ssa.If); ok {
									iff = i2
								}
							}
						}
					}
					if iff == nil {
						continue
					}
					tb, to := triCond(op, blo, bhi, k), triCond(op, olo, ohi, k)
					if tb < 0 || to < 0 || tb == to {
						continue
					}
					errSucc := 0
					if tb == 0 {
						errSucc = 1
					}
					if ret, isRet := lastInstr(iff.Block().Succs[errSucc]).(*ssa.Return); isRet && len(ret.Results) == 2 && isNilConst(ret.Results[0]) && derivedFromGlobal(ret.Results[1], "ErrKeyOutOfOrder", 0) {
						errOK = true
						gateBlock = iff.Block().Succs[1-errSucc]
					}
				}
			}
			if !errOK {
				errWhy = "the caller of " + shortFn(h) + " does not turn its violation indicator into (nil, error derived from ErrKeyOutOfOrder)"
			}
		}
	}
	r.Check(errOK, "order violation returns (nil, ErrKeyOutOfOrder)", pos, "the failing comparison leads to a return of nil and an error wrapping ErrKeyOutOfOrder", errWhy)
	gate := ""
	if gateBlock == nil {
		gate = "cannot find the point from which construction proceeds after the order check"
	} else {
		for _, c := range callsIn(F) {
			if _, isB := c.Common().Value.(*ssa.Builtin); isB || ssa.Instruction(c) == ssa.Instruction(helperCall) {
				continue
			}
			uses := false
			for _, a := range c.Common().Args {
				if a == keys {
					uses = true
				}
			}
			if uses && !(gateBlock.Dominates(c.Block())) {
				gate = "the keys are handed to " + c.Common().Value.Name() + " at " + p.Pos(c.Pos()) + " before the order check has completed"
			}
		}
	}
	r.Check(gate == "", "order check gates construction", pos, "every call that receives the key list is dominated by the successful completion of the check", gate)
}

func derivedFromGlobal(v ssa.Value, name string, d int) bool {
	if d > 6 {
		return false
	}
	switch x := v.(type) {
	case *ssa.UnOp:
		if g, ok := x.X.(*ssa.Global); ok && x.Op == token.MUL {
			return g.Name() == name
		}
	case *ssa.Call:
		for _, a := range x.Call.Args {
			if isErrorType(a.Type()) && derivedFromGlobal(a, name, d+1) {
				return true
			}
		}
	case *ssa.MakeInterface:
		return derivedFromGlobal(x.X, name, d+1)
	case *ssa.Phi:
		for _, e := range x.Edges {
			if !derivedFromGlobal(e, name, d+1) {
				return false
			}
		}
		return len(x.Edges) > 0
	}
	return false
}

// loopHeaderOf: header of the innermost natural loop containing b (nil if none).
func loopHeaderOf(b *ssa.BasicBlock) *ssa.BasicBlock {
	f := b.Parent()
	var best *ssa.BasicBlock
	bestSize := 0
	for _, h := range f.Blocks {
		for _, p := range h.Preds {
			if !h.Dominates(p) {
				continue
			}
			// natural loop of the back edge p -> h
			body := map[*ssa.BasicBlock]bool{h: true}
			var stack []*ssa.BasicBlock
			if !body[p] {
				body[p] = true
				stack = append(stack, p)
			}
			for len(stack) > 0 {
				x := stack[len(stack)-1]
				stack = stack[:len(stack)-1]
				for _, q := range x.Preds {
					if !body[q] {
						body[q] = true
						stack = append(stack, q)
					}
				}
			}
			if body[b] && (best == nil || len(body) < bestSize) {
				best = h
				bestSize = len(body)
			}
		}
	}
	return best
}

// orderLoopCoverage: a = phi(init, a+1) style induction; pairs (a, a+1) for a in [0, n-1).
func orderLoopCoverage(p *Program, e *evaluator, F *ssa.Function, cmp *ssa.If, a *term, keys *ssa.Parameter) string {
	header := loopHeaderOf(cmp.Block())
	if header == nil {
		return "the comparison is not inside a loop"
	}
	hi := lastInstr(header).(*ssa.If)
	// the comparison must be the loop body entry (unconditional in the body)
	if header.Succs[0] != cmp.Block() && header.Succs[1] != cmp.Block() {
		return "the comparison is conditional inside the loop body: some pairs are skipped"
	}
	// induction variable: a phi at the header with one constant edge and one +1 edge
	var phi *ssa.Phi
	for _, in := range header.Instrs {
		if ph, ok := in.(*ssa.Phi); ok {
			if containsTerm(a, e.eval(ph)) {
				phi = ph
			}
		}
	}
	if phi == nil {
		return "cannot identify the induction variable of the order-check loop"
	}
	phiT := e.eval(phi)
	var init *term
	stepOK := false
	for _, ed := range phi.Edges {
		t := e.eval(ed)
		if isK(t) {
			init = t
		} else if t.String() == O("add", phiT, K(1)).String() {
			stepOK = true
		}
	}
	if init == nil || !stepOK {
		return "the induction variable does not run from a constant in steps of 1"
	}
	a0 := substitute(a, phiT.name, init)
	if !isK(a0) || a0.c != 0 {
		return fmt.Sprintf("the first pair compared is (%s, %s+1), not (0, 1)", a0, a0)
	}
	// loop condition: X < Y with Y - X == len(keys) - (a+1)
	bo, ok := hi.Cond.(*ssa.BinOp)
	if !ok {
		return "unrecognised loop condition"
	}
	x, y := e.eval(bo.X), e.eval(bo.Y)
	n := ON("len", "", S(keys.Name()))
	var lhs, rhs *term
	switch bo.Op {
	case token.LSS:
		lhs, rhs = x, y
	case token.GTR:
		lhs, rhs = y, x
	default:
		return "unrecognised loop condition " + bo.Op.String()
	}
	// body on true
	if header.Succs[0] != cmp.Block() {
		return "the loop body is not the true branch of the loop condition"
	}
	d1 := O("add", rhs, mulTerms(K(-1), lhs)).String()
	d2 := O("add", n, mulTerms(K(-1), O("add", a, K(1)))).String()
	if d1 != d2 {
		return fmt.Sprintf("the loop runs while %s < %s, which is not a+1 < len(keys) for a = %s: the last pair(s) are not checked or the bound is wrong", lhs, rhs, a)
	}
	return ""
}

func init() { checks["C08"] = checkC08 }
