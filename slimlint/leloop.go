package main

// Little-endian shift loops. An integer codec may be written without
// encoding/binary as
//
//	func putLE(v uint64, size int) []byte { b := make([]byte, size); for i := range b { b[i] = byte(v >> (8*uint(i))) }; return b }
//	func getLE(b []byte, size int) uint64 { s := b[:size]; v := uint64(0); for i, c := range s { v |= uint64(c) << (8*uint(i)) }; return v }
//
// leLoopKind recognises exactly these two shapes on the SSA form (one loop, the
// index running over the byte slice, the only store / accumulation being the
// term above, the result the slice / the accumulator): "put" writes the low
// `size` bytes of v in little-endian order into a fresh slice of `size` bytes,
// "get" assembles the first `size` bytes of b, zero-extended.

import (
	"go/token"
	"go/types"

	"golang.org/x/tools/go/ssa"
)

// leLoopKind returns ("put"|"get", index of the value/buffer parameter, index of the size parameter).
func leLoopKind(p *Program, h *ssa.Function) (string, int, int) {
	if h == nil || len(h.Blocks) == 0 || len(h.Params) != 2 || !hasLoop(h) {
		return "", 0, 0
	}
	rets := returnsOf(h)
	if len(rets) != 1 || len(rets[0].Results) != 1 {
		return "", 0, 0
	}
	sizeIdx := -1
	for i, prm := range h.Params {
		if b, ok := prm.Type().Underlying().(*types.Basic); ok && b.Kind() == types.Int {
			sizeIdx = i
		}
	}
	if sizeIdx < 0 {
		return "", 0, 0
	}
	valIdx := 1 - sizeIdx
	size := ssa.Value(h.Params[sizeIdx])
	val := ssa.Value(h.Params[valIdx])
	e := newEval(p)
	// no calls other than builtins, exactly one loop header
	headers := map[*ssa.BasicBlock]bool{}
	for _, b := range h.Blocks {
		for _, pr := range b.Preds {
			if b.Dominates(pr) {
				headers[b] = true
			}
		}
		for _, in := range b.Instrs {
			if c, ok := in.(ssa.CallInstruction); ok {
				if _, isB := c.Common().Value.(*ssa.Builtin); !isB {
					return "", 0, 0
				}
			}
		}
	}
	if len(headers) != 1 {
		return "", 0, 0
	}
	// the index term: what the shift amount must be 8 times of
	isShiftOfIndex := func(sh ssa.Value, idx ssa.Value) bool {
		bo, ok := stripConv(sh).(*ssa.BinOp)
		if !ok {
			return false
		}
		switch bo.Op {
		case token.MUL:
			if k, isK := constInt(bo.X); isK && k == 8 && stripConv(bo.Y) == idx {
				return true
			}
			if k, isK := constInt(bo.Y); isK && k == 8 && stripConv(bo.X) == idx {
				return true
			}
		case token.SHL:
			if k, isK := constInt(bo.Y); isK && k == 3 && stripConv(bo.X) == idx {
				return true
			}
		}
		return false
	}
	_ = e
	res := rets[0].Results[0]
	if isByteSlice(res.Type()) && isIntType(val.Type()) {
		// put: res is make([]byte, size); the only store: res[i] = byte(val >> 8i)
		mk, ok := res.(*ssa.MakeSlice)
		if !ok || mk.Len != size {
			return "", 0, 0
		}
		stores := 0
		good := true
		instrsOf(h, func(_ *ssa.BasicBlock, in ssa.Instruction) {
			st, ok := in.(*ssa.Store)
			if !ok {
				return
			}
			stores++
			ia, ok := st.Addr.(*ssa.IndexAddr)
			if !ok || ia.X != ssa.Value(mk) {
				good = false
				return
			}
			cv, ok := st.Val.(*ssa.Convert)
			if !ok || intBytes(cv.Type()) != 1 {
				good = false
				return
			}
			sh, ok := cv.X.(*ssa.BinOp)
			if !ok || sh.Op != token.SHR || sh.X != val || !isShiftOfIndex(sh.Y, ia.Index) {
				good = false
			}
		})
		if stores == 1 && good && !isSigned(val.Type()) {
			return "put", valIdx, sizeIdx
		}
		return "", 0, 0
	}
	if isByteSlice(val.Type()) && isIntType(res.Type()) && !isSigned(res.Type()) {
		// get: s := val[:size]; acc = phi(0, acc | uint(s[i]) << 8i); result acc
		acc, ok := res.(*ssa.Phi)
		if !ok || !headers[acc.Block()] {
			return "", 0, 0
		}
		var step *ssa.BinOp
		for i, ed := range acc.Edges {
			if acc.Block().Dominates(acc.Block().Preds[i]) {
				step, _ = ed.(*ssa.BinOp)
			} else if k, isK := constInt(ed); !isK || k != 0 {
				return "", 0, 0
			}
		}
		if step == nil || step.Op != token.OR {
			return "", 0, 0
		}
		var shl *ssa.BinOp
		switch {
		case step.X == ssa.Value(acc):
			shl, _ = step.Y.(*ssa.BinOp)
		case step.Y == ssa.Value(acc):
			shl, _ = step.X.(*ssa.BinOp)
		}
		if shl == nil || shl.Op != token.SHL {
			return "", 0, 0
		}
		cv, ok := shl.X.(*ssa.Convert)
		if !ok || intBytes(cv.X.Type()) != 1 || isSigned(cv.X.Type()) {
			return "", 0, 0
		}
		// the byte: s[i] (range value) where s = val[:size]
		var idx ssa.Value
		var base ssa.Value
		switch b := cv.X.(type) {
		case *ssa.UnOp:
			if ia, ok := b.X.(*ssa.IndexAddr); ok && b.Op == token.MUL {
				idx, base = ia.Index, ia.X
			}
		}
		if idx == nil {
			return "", 0, 0
		}
		sl, ok := base.(*ssa.Slice)
		if !ok || sl.X != val || sl.Low != nil || sl.High != size {
			return "", 0, 0
		}
		if !isShiftOfIndex(shl.Y, idx) {
			return "", 0, 0
		}
		stores := 0
		instrsOf(h, func(_ *ssa.BasicBlock, in ssa.Instruction) {
			if _, ok := in.(*ssa.Store); ok {
				stores++
			}
		})
		if stores == 0 {
			return "get", valIdx, sizeIdx
		}
	}
	return "", 0, 0
}

// convChainMin follows conversions down to their root and reports the smallest integer width on the way.
func convChainMin(v ssa.Value) (ssa.Value, int64) {
	min := int64(64)
	for {
		switch x := v.(type) {
		case *ssa.Convert:
			for _, t := range []types.Type{x.X.Type(), x.Type()} {
				if w := intBytes(t); w > 0 && w < min {
					min = w
				}
			}
			v = x.X
			continue
		case *ssa.ChangeType:
			v = x.X
			continue
		}
		return v, min
	}
}
