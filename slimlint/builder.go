package main

import (
	"fmt"
	"go/types"
	"sort"
	"strings"

	"golang.org/x/tools/go/ssa"
)

// builderFlow is the E2 analysis of NewSlimTrie with the anchors the rules need.
type builderFlow struct {
	it       *flowAnalysis
	root     *fctx
	entry    *ssa.Function
	builder  *ssa.Function // the function that calls sigbits.New (construction loop)
	workElem types.Type    // element type of the work list
	keys     *fobject
	slims    foset // abstract output message(s)
	wire     map[string]*wireField
	passes   int
	problems []string
}

const (
	idSigbitsNew = "github.com/openacid/low/sigbits.New"
	idPathsOf    = "github.com/openacid/low/bmtree.PathsOf"
	idPathOf     = "github.com/openacid/low/bmtree.PathOf"
	idPathToIdx  = "github.com/openacid/low/bmtree.PathToIndex"
	idPathLen    = "github.com/openacid/low/bmtree.PathLen"
)

// trieScope: functions of package trie (closures included).
func trieScope(f *ssa.Function) bool {
	return pkgPathOf(f) == triePath
}

// findBuilder locates the construction function: the function of package trie
// reachable from NewSlimTrie by static calls that calls sigbits.New.
func findBuilder(p *Program, entry *ssa.Function) *ssa.Function {
	seen := map[*ssa.Function]bool{}
	var found *ssa.Function
	var walk func(f *ssa.Function)
	walk = func(f *ssa.Function) {
		if f == nil || seen[f] || found != nil || !trieScope(f) {
			return
		}
		seen[f] = true
		for _, c := range callsIn(f) {
			if calleeIs(c, idSigbitsNew) {
				found = f
				return
			}
		}
		for _, c := range callsIn(f) {
			walk(calleeOf(c))
		}
	}
	walk(entry)
	return found
}

// workListElem identifies the work list of the construction loop: a slice of
// struct that the function both appends to and whose length bounds a loop.
func workListElem(f *ssa.Function) types.Type {
	appended := map[string]types.Type{}
	lenUsed := map[string]bool{}
	// appends may sit in a helper the construction function hands the list to (a work-list record with
	// a push method): the helpers it calls, two levels deep, are scanned for appends only
	helpers := map[*ssa.Function]bool{}
	var collect func(g *ssa.Function, d int)
	collect = func(g *ssa.Function, d int) {
		for _, c := range callsIn(g) {
			if h := calleeOf(c); h != nil && trieScope(h) && len(h.Blocks) > 0 && h != f && !helpers[h] && d < 2 {
				helpers[h] = true
				collect(h, d+1)
			}
		}
	}
	collect(f, 0)
	for h := range helpers {
		instrsOf(h, func(_ *ssa.BasicBlock, in ssa.Instruction) {
			if c, ok := in.(*ssa.Call); ok {
				if bi, ok := c.Call.Value.(*ssa.Builtin); ok && bi.Name() == "append" {
					if sl, ok := c.Call.Args[0].Type().Underlying().(*types.Slice); ok {
						if _, isStruct := sl.Elem().Underlying().(*types.Struct); isStruct {
							appended[sl.Elem().String()] = sl.Elem()
						}
					}
				}
			}
		})
	}
	instrsOf(f, func(_ *ssa.BasicBlock, in ssa.Instruction) {
		c, ok := in.(*ssa.Call)
		if !ok {
			return
		}
		bi, ok := c.Call.Value.(*ssa.Builtin)
		if !ok {
			return
		}
		t := c.Call.Args[0].Type()
		sl, ok := t.Underlying().(*types.Slice)
		if !ok {
			return
		}
		if _, isStruct := sl.Elem().Underlying().(*types.Struct); !isStruct {
			return
		}
		switch bi.Name() {
		case "append":
			appended[sl.Elem().String()] = sl.Elem()
		case "len":
			// used in a comparison that controls a branch
			var viaConv func(v ssa.Value, d int)
			viaConv = func(v ssa.Value, d int) {
				refs := v.Referrers()
				if refs == nil || d > 2 {
					return
				}
				for _, ref := range *refs {
					if cv, ok := ref.(*ssa.Convert); ok {
						viaConv(cv, d+1)
					}
					if b, ok := ref.(*ssa.BinOp); ok {
						for _, r2 := range *b.Referrers() {
							if _, ok := r2.(*ssa.If); ok {
								lenUsed[sl.Elem().String()] = true
							}
						}
					}
				}
			}
			viaConv(c, 0)
		}
	})
	var cands []string
	for k := range appended {
		if lenUsed[k] {
			cands = append(cands, k)
		}
	}
	if len(cands) != 1 {
		return nil
	}
	return appended[cands[0]]
}

// sharedBuilderFlow: one builder flow per loaded program for the rules that only read it.
var sharedBF = map[*Program]*builderFlow{}

func sharedBuilderFlow(p *Program) *builderFlow {
	if bf, ok := sharedBF[p]; ok {
		return bf
	}
	bf := newBuilderFlow(p)
	sharedBF[p] = bf
	return bf
}

func newBuilderFlow(p *Program) *builderFlow {
	bf := &builderFlow{}
	entry := p.Trie.Func("NewSlimTrie")
	if entry == nil || len(entry.Params) != 4 {
		bf.problems = append(bf.problems, "trie.NewSlimTrie not found or signature changed")
		return bf
	}
	bf.entry = entry
	opt := p.NamedType(p.Trie, "Opt")
	if opt == nil {
		bf.problems = append(bf.problems, "trie.Opt not found")
		return bf
	}
	bf.builder = findBuilder(p, entry)
	if bf.builder == nil {
		bf.problems = append(bf.problems, "construction function (caller of sigbits.New reachable from NewSlimTrie) not found")
		return bf
	}
	bf.workElem = workListElem(bf.builder)
	it := newFlow(p)
	bf.it = it
	it.optType = opt
	it.scope = trieScope
	if bf.workElem != nil {
		we := bf.workElem
		it.barrier = func(o *fobject) bool {
			sl, ok := o.typ.Underlying().(*types.Slice)
			return ok && types.Identical(sl.Elem(), we)
		}
	}
	root := it.context(entry, "root", 0)
	bf.root = root
	keys := it.obj("KEYS", "seed", entry.Params[1].Type(), entry.Pos(), "")
	keys.cell("*").labels[lblKey] = true
	keys.cell("*").labels[lblKeyData] = true
	bf.keys = keys
	root.get(it, entry.Params[1]).pts[keys] = true
	root.get(it, entry.Params[2]).labels["values"] = true
	opts := it.obj("OPTS", "seed", entry.Params[3].Type(), entry.Pos(), "")
	if ost, ok := opt.Underlying().(*types.Struct); ok {
		for i := 0; i < ost.NumFields(); i++ {
			cb := it.obj("CALLERBOOL."+ost.Field(i).Name(), "seed", types.Typ[types.Bool], entry.Pos(), "")
			opts.cell("*." + ost.Field(i).Name()).pts[cb] = true
		}
	}
	root.get(it, entry.Params[3]).pts[opts] = true
	bf.passes = it.solve()
	if len(it.recursed) > 0 {
		bf.problems = append(bf.problems, "recursion or call depth beyond the cloning bound: "+strings.Join(firstN(it.recursed, 3), "; "))
	}
	// output message: NewSlimTrie result 0 -> *SlimTrie -> field of type *Slim
	bf.slims = foset{}
	slimT := p.NamedType(p.Trie, "Slim")
	if root.retParts != nil && len(root.retParts) > 0 && root.retParts[0] != nil {
		for st := range root.retParts[0].pts {
			for _, cl := range st.cells {
				for o := range cl.pts {
					if slimT != nil && types.Identical(o.typ, slimT) {
						bf.slims[o] = true
					}
				}
			}
		}
	}
	if len(bf.slims) == 0 {
		bf.problems = append(bf.problems, "no abstract output message (trie.Slim reachable from NewSlimTrie's result) found")
		return bf
	}
	bf.wire = it.wirePaths(bf.slims, "Slim")
	return bf
}

// creatorObjs: objects of named struct types of package trie that have a
// method returning *Slim (the builder state), plus everything they reach.
func (bf *builderFlow) stateObjs(p *Program) foset {
	slimT := p.NamedType(p.Trie, "Slim")
	roots := foset{}
	for o := range bf.slims {
		roots[o] = true
	}
	for _, o := range bf.it.objs {
		n, ok := o.typ.(*types.Named)
		if !ok || n.Obj().Pkg() == nil || n.Obj().Pkg().Path() != triePath {
			continue
		}
		ms := p.Prog.MethodSets.MethodSet(types.NewPointer(n))
		for i := 0; i < ms.Len(); i++ {
			sig := ms.At(i).Type().(*types.Signature)
			if sig.Results().Len() == 1 && slimT != nil {
				if pt, ok := sig.Results().At(0).Type().(*types.Pointer); ok && types.Identical(pt.Elem(), slimT) {
					roots[o] = true
				}
			}
		}
	}
	return bf.it.reachable(roots)
}

func (bf *builderFlow) sortedWire() []*wireField {
	var ks []string
	for k := range bf.wire {
		ks = append(ks, k)
	}
	sort.Strings(ks)
	var out []*wireField
	for _, k := range ks {
		out = append(out, bf.wire[k])
	}
	return out
}

func (bf *builderFlow) dump(p *Program) {
	fmt.Println("builder:", bf.builder, "worklist elem:", bf.workElem, "passes:", bf.passes, "contexts:", len(bf.it.ctxs), "objects:", len(bf.it.objs))
	for _, pr := range bf.problems {
		fmt.Println("PROBLEM:", pr)
	}
	for _, wf := range bf.sortedWire() {
		fmt.Printf("  %-45s ptr=%-5v stores=%d %s\n", wf.path, wf.ptr, len(wf.stores), wf.labels)
		for _, ev := range wf.stores {
			fmt.Printf("        store at %s ctl=%s\n", p.Pos(ev.pos), ev.ctl)
		}
	}
	fmt.Println("== calls of interest")
	for _, cr := range bf.it.sortedCalls() {
		switch cr.callee {
		case idSigbitsNew, idPathsOf, idPathOf:
			var parts []string
			for i, a := range cr.args {
				var os []string
				for o := range a.pts {
					os = append(os, o.name)
				}
				parts = append(parts, fmt.Sprintf("arg%d=%s%v", i, a.labels, os))
			}
			fmt.Printf("  %s %s ctl=%s\n      %s\n", p.Pos(cr.site.Pos()), cr.callee, cr.ctl, strings.Join(parts, " "))
		}
	}
	fmt.Println("== keybytes store events")
	state := bf.stateObjs(p)
	for _, ev := range bf.it.sortedEvents() {
		if ev.labels[lblKey] {
			fmt.Printf("  %s into %s.%s inState=%v ctl=%s\n", p.Pos(ev.pos), ev.obj.name, ev.key, state[ev.obj], ev.ctl)
		}
	}
}

func (bf *builderFlow) dumpCtl(p *Program, fname string) {
	for _, k := range bf.it.order {
		c := bf.it.ctxs[k]
		if c.fn.Name() != fname {
			continue
		}
		fmt.Println("== ctx", k, "inherited ctl", c.ctl)
		for _, b := range c.fn.Blocks {
			if iff, ok := lastInstr(b).(*ssa.If); ok {
				fmt.Printf("  block %d (%s) if %s  labels=%s\n", b.Index, p.Pos(iff.Cond.Pos()), iff.Cond, c.get(bf.it, iff.Cond).labels)
			}
		}
		for _, b := range c.fn.Blocks {
			var deps []string
			for _, d := range c.cdeps[b] {
				deps = append(deps, fmt.Sprintf("%d/%d", d.branch.Index, d.succ))
			}
			fmt.Printf("  block %d cdeps=%v ctl=%s\n", b.Index, deps, bf.it.blockCtl(c, b))
		}
	}
}

func (bf *builderFlow) dumpBlock(p *Program, fname string, idx int) {
	for _, k := range bf.it.order {
		c := bf.it.ctxs[k]
		if c.fn.Name() != fname {
			continue
		}
		b := c.fn.Blocks[idx]
		for _, in := range b.Instrs {
			if v, ok := in.(ssa.Value); ok {
				a := c.get(bf.it, v)
				var os []string
				for o := range a.pts {
					os = append(os, o.name)
				}
				var ads []string
				for ad := range a.addrs {
					ads = append(ads, ad.o.name+"."+ad.k)
				}
				fmt.Printf("  %s = %s   labels=%s pts=%v addrs=%v\n", v.Name(), in, a.labels, os, ads)
			} else {
				fmt.Printf("  %s\n", in)
			}
		}
	}
}
