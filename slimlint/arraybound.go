package main

// Fixed-size scratch arrays. A slice of, or an index into, a local array [N]T
// whose bound is a run-time value is usually protected by a comparison chosen
// by hand ("if n <= len(small) { buf = small[:n+1] }"). The rule takes the
// comparisons that dominate the access, computes the largest value of the
// bound they let through, and reports when that value does not fit the array:
// a definite panic for that value, which only an input of exactly that size
// reaches (a 64-byte prefix, a node with 17 labels). Accesses without any
// dominating comparison on the bound are not judged (their bound may follow
// from an invariant this rule does not know).

import (
	"fmt"
	"go/token"
	"go/types"

	"golang.org/x/tools/go/ssa"
)

type arrayBoundSite struct {
	fn  *ssa.Function
	pos token.Pos
	why string
}

// splitOffset: v = base + c (through conversions).
func splitOffset(v ssa.Value) (ssa.Value, int64) {
	c := int64(0)
	for {
		v = stripConv(v)
		bo, ok := v.(*ssa.BinOp)
		if !ok {
			return v, c
		}
		switch bo.Op {
		case token.ADD:
			if k, isK := constInt(bo.Y); isK {
				c += k
				v = bo.X
				continue
			}
			if k, isK := constInt(bo.X); isK {
				c += k
				v = bo.Y
				continue
			}
		case token.SUB:
			if k, isK := constInt(bo.Y); isK {
				c -= k
				v = bo.X
				continue
			}
		}
		return v, c
	}
}

// maxUnderGuards: the largest value of base that the comparisons dominating block b allow (ok=false if
// no comparison with a constant bounds it from above).
func maxUnderGuards(base ssa.Value, b *ssa.BasicBlock) (int64, bool) {
	best, found := int64(0), false
	for d := b; d != nil; d = d.Idom() {
		id := d.Idom()
		if id == nil {
			break
		}
		iff, ok := lastInstr(id).(*ssa.If)
		if !ok || len(d.Preds) != 1 {
			continue
		}
		onTrue := id.Succs[0] == d
		if !onTrue && id.Succs[1] != d {
			continue
		}
		op, x, y, _, ok := cmpOf(iff.Cond)
		if !ok {
			continue
		}
		bx, cx := splitOffset(x)
		by, cy := splitOffset(y)
		var k int64
		var isK bool
		// normalise to base + c  OP  K
		var c int64
		switch {
		case bx == base:
			k, isK = constInt(stripConv(y))
			c = cx
		case by == base:
			k, isK = constInt(stripConv(x))
			c = cy
			switch op {
			case token.LSS:
				op = token.GTR
			case token.LEQ:
				op = token.GEQ
			case token.GTR:
				op = token.LSS
			case token.GEQ:
				op = token.LEQ
			}
		}
		if !isK {
			continue
		}
		if !onTrue {
			switch op {
			case token.LSS:
				op = token.GEQ
			case token.LEQ:
				op = token.GTR
			case token.GTR:
				op = token.LEQ
			case token.GEQ:
				op = token.LSS
			default:
				continue
			}
		}
		var max int64
		switch op {
		case token.LEQ:
			max = k - c
		case token.LSS:
			max = k - c - 1
		case token.EQL:
			max = k - c
		default:
			continue
		}
		if !found || max < best {
			best, found = max, true
		}
	}
	return best, found
}

func localArrayLen(v ssa.Value) (int64, bool) {
	al, ok := v.(*ssa.Alloc)
	if !ok {
		return 0, false
	}
	at, ok := al.Type().(*types.Pointer).Elem().Underlying().(*types.Array)
	if !ok {
		return 0, false
	}
	return at.Len(), true
}

func arrayBoundSites(p *Program, fns []*ssa.Function) ([]arrayBoundSite, int) {
	var out []arrayBoundSite
	judged := 0
	for _, f := range fns {
		if f.Synthetic != "" || len(f.Blocks) == 0 {
			continue
		}
		instrsOf(f, func(b *ssa.BasicBlock, in ssa.Instruction) {
			switch x := in.(type) {
			case *ssa.Slice:
				n, ok := localArrayLen(x.X)
				if !ok || x.High == nil {
					return
				}
				if _, isK := constInt(x.High); isK {
					return // the compiler checks constants
				}
				base, c := splitOffset(x.High)
				max, ok := maxUnderGuards(base, b)
				if !ok {
					return
				}
				judged++
				if max+c > n {
					out = append(out, arrayBoundSite{f, x.Pos(), fmt.Sprintf("the slice bound can be %d under the comparisons that guard it, the array has %d elements", max+c, n)})
				}
			case *ssa.IndexAddr:
				n, ok := localArrayLen(x.X)
				if !ok {
					return
				}
				if _, isK := constInt(x.Index); isK {
					return
				}
				base, c := splitOffset(x.Index)
				max, ok := maxUnderGuards(base, b)
				if !ok {
					// no guard: a loop that runs once per set bit of a value of known width
					if w, isPop := popcountLoopBound(p, base, b); isPop {
						judged++
						if int64(w)-1+c > n-1 {
							out = append(out, arrayBoundSite{f, x.Pos(), fmt.Sprintf("the loop runs once per set bit of a value that can have %d significant bits, so the index reaches %d; the array has %d elements", w, int64(w)-1+c, n)})
						}
						return
					}
					// no guard either: a counter of a loop that ends only when the data says so
					if unboundedCounter(base) {
						judged++
						out = append(out, arrayBoundSite{f, x.Pos(), fmt.Sprintf("the index counts the iterations of a loop none of whose exits compares a counter with a bound (it runs as long as the data says), and nothing compares the index with the %d elements of the array", n)})
					}
					return
				}
				judged++
				if max+c > n-1 {
					out = append(out, arrayBoundSite{f, x.Pos(), fmt.Sprintf("the index can be %d under the comparisons that guard it, the array has %d elements", max+c, n)})
				}
			}
		})
	}
	return out, judged
}

func checkArrayBound(p *Program, r *Report, rule string) {
	r.Rule(rule, "CFG bounds", "a guarded slice of / index into a local fixed-size array fits the array for every value the guard admits", 0)
	var fns []*ssa.Function
	for _, pkg := range []string{triePath, arrayPath, encPath, indexPath} {
		fns = append(fns, p.FuncsOf(pkg)...)
	}
	sites, judged := arrayBoundSites(p, fns)
	for i, s := range sites {
		r.Func(shortFn(s.fn))
		r.Bad(fmt.Sprintf("local array access #%d in %s", i+1, shortFn(s.fn)), p.Pos(s.pos), s.why+": an input of exactly that size panics (index or slice bounds out of range)")
	}
	r.Note("%s: %d guarded access(es) to local fixed-size arrays judged, %d do not fit", rule, judged, len(sites))
}

func controlArrayBound(fx *Program, r *Report, rule string) {
	pkg := fx.FxPkg("arraybound")
	if pkg == nil {
		r.Control(rule, "fixtures/arraybound", false, "fixture package not loaded")
		return
	}
	for _, tc := range []struct {
		fn   string
		want bool
	}{{"SmallWrong", true}, {"SmallRight", false}, {"IndexWrong", true}, {"IndexRight", false}, {"PopWrong", true}, {"PopRight", false}, {"CounterWrong", true}, {"CounterRight", false}} {
		f := pkg.Func(tc.fn)
		if f == nil {
			r.Control(rule, "arraybound."+tc.fn, false, "function not found")
			continue
		}
		sites, judged := arrayBoundSites(fx, []*ssa.Function{f})
		r.Control(rule, "arraybound."+tc.fn, judged > 0 && (len(sites) > 0) == tc.want, fmt.Sprintf("expected flagged=%v: %d access(es) judged, %d do not fit", tc.want, judged, len(sites)))
	}
}

// ---- unguarded indexes in "one iteration per set bit" loops
//
//	for ; bm != 0; bm &= bm - 1 { idx[n] = ...; n++ }
//
// runs once per set bit of bm, so n stays below the number of significant bits bm can have. That width is
// computed through the program: constants, masks, shifts, conversions, the library's Mask table, results
// of analysed functions with their parameters bound, and parameters through all their call sites.

type widthEnv struct {
	bind   map[*ssa.Parameter]ssa.Value
	parent *widthEnv
}

func typeWidth(p *Program, t types.Type) int {
	if w := intBytes(t); w > 0 {
		return int(w) * 8
	}
	return 64
}

func widthOf(p *Program, v ssa.Value, env *widthEnv, d int, busy map[ssa.Value]bool) int {
	tw := typeWidth(p, v.Type())
	if d > 12 || busy[v] {
		return tw
	}
	min := func(a, b int) int {
		if a < b {
			return a
		}
		return b
	}
	max := func(a, b int) int {
		if a > b {
			return a
		}
		return b
	}
	switch x := v.(type) {
	case *ssa.Const:
		if c, ok := constInt(x); ok && c >= 0 {
			return bitLen(c)
		}
	case *ssa.Convert:
		if isIntType(x.X.Type()) && (!isSigned(x.X.Type()) || !isSigned(x.Type())) {
			return min(widthOf(p, x.X, env, d+1, busy), tw)
		}
	case *ssa.BinOp:
		switch x.Op {
		case token.AND:
			return min(widthOf(p, x.X, env, d+1, busy), widthOf(p, x.Y, env, d+1, busy))
		case token.OR, token.XOR:
			return min(tw, max(widthOf(p, x.X, env, d+1, busy), widthOf(p, x.Y, env, d+1, busy)))
		case token.SHL:
			if k, ok := constInt(x.Y); ok && k >= 0 {
				return min(tw, widthOf(p, x.X, env, d+1, busy)+int(k))
			}
		case token.SHR:
			if k, ok := constInt(x.Y); ok && k >= 0 && !isSigned(x.X.Type()) {
				return max(0, widthOf(p, x.X, env, d+1, busy)-int(k))
			}
		case token.ADD:
			return min(tw, max(widthOf(p, x.X, env, d+1, busy), widthOf(p, x.Y, env, d+1, busy))+1)
		case token.AND_NOT:
			return widthOf(p, x.X, env, d+1, busy)
		}
	case *ssa.Phi:
		busy[v] = true
		defer delete(busy, v)
		w := 0
		for _, ed := range x.Edges {
			w = max(w, widthOf(p, ed, env, d+1, busy))
		}
		return min(tw, w)
	case *ssa.Parameter:
		for e := env; e != nil; e = e.parent {
			if a, ok := e.bind[x]; ok {
				return min(tw, widthOf(p, a, e.parent, d+1, busy))
			}
		}
		// every call site in the analysed set
		fn := x.Parent()
		idx := -1
		for i, q := range fn.Params {
			if q == x {
				idx = i
			}
		}
		w, sites := 0, 0
		for g := range p.allFuncs {
			if g == nil || !inAnalysed(g) {
				continue
			}
			for _, c := range callsIn(g) {
				if calleeOf(c) == fn && idx >= 0 && idx < len(c.Common().Args) {
					sites++
					w = max(w, widthOf(p, c.Common().Args[idx], nil, d+1, busy))
				}
			}
		}
		if sites > 0 && fn.Object() != nil && !fn.Object().Exported() {
			return min(tw, w)
		}
	case *ssa.UnOp:
		if x.Op == token.MUL {
			// bitmap.Mask[k]
			if ia, ok := x.X.(*ssa.IndexAddr); ok {
				if g, ok := ia.X.(*ssa.Global); ok && g.Name() == "Mask" && g.Pkg != nil && g.Pkg.Pkg.Path() == "github.com/openacid/low/bitmap" {
					// the index: a constant, or a parameter bound to one
					iv := ia.Index
					for e := env; e != nil; e = e.parent {
						if prm, isP := stripConv(iv).(*ssa.Parameter); isP {
							if a, ok := e.bind[prm]; ok {
								iv = a
							}
						}
					}
					if k, ok := constInt(stripConv(iv)); ok && k >= 0 && k <= 64 {
						return int(k)
					}
				}
			}
		}
	case *ssa.Call:
		h := calleeOf(x)
		if h != nil && inAnalysed(h) && len(h.Blocks) > 0 && !x.Call.IsInvoke() {
			ne := &widthEnv{bind: map[*ssa.Parameter]ssa.Value{}, parent: env}
			for i, prm := range h.Params {
				if i < len(x.Call.Args) {
					ne.bind[prm] = x.Call.Args[i]
				}
			}
			busy[v] = true
			defer delete(busy, v)
			w := 0
			for _, ret := range returnsOf(h) {
				if len(ret.Results) != 1 {
					return tw
				}
				w = max(w, widthOf(p, ret.Results[0], ne, d+1, busy))
			}
			return min(tw, w)
		}
	}
	return tw
}

// popcountLoopBound: idx is the counter (phi 0, +1) of a loop that runs while some value x != 0 and
// clears the lowest set bit of x in every iteration: returns the width of x's initial value.
func popcountLoopBound(p *Program, idx ssa.Value, b *ssa.BasicBlock) (int, bool) {
	ph, ok := stripConv(idx).(*ssa.Phi)
	if !ok {
		return 0, false
	}
	header := ph.Block()
	okCounter := false
	for i, ed := range ph.Edges {
		if header.Dominates(header.Preds[i]) {
			bo, ok := ed.(*ssa.BinOp)
			if k, isK := int64(0), false; ok {
				k, isK = constInt(bo.Y)
				if bo.Op == token.ADD && bo.X == ssa.Value(ph) && isK && k == 1 {
					okCounter = true
				}
			}
		} else if k, isK := constInt(ed); !isK || k != 0 {
			return 0, false
		}
	}
	if !okCounter {
		return 0, false
	}
	iff, ok := lastInstr(header).(*ssa.If)
	if !ok {
		return 0, false
	}
	cond, ok := iff.Cond.(*ssa.BinOp)
	if !ok || cond.Op != token.NEQ {
		return 0, false
	}
	var x *ssa.Phi
	if k, isK := constInt(cond.Y); isK && k == 0 {
		x, _ = cond.X.(*ssa.Phi)
	}
	if x == nil || x.Block() != header {
		return 0, false
	}
	var init ssa.Value
	for i, ed := range x.Edges {
		if header.Dominates(header.Preds[i]) {
			// x & (x - 1)
			an, ok := ed.(*ssa.BinOp)
			if !ok || an.Op != token.AND {
				return 0, false
			}
			okStep := false
			for _, pr := range [][2]ssa.Value{{an.X, an.Y}, {an.Y, an.X}} {
				if pr[0] == ssa.Value(x) {
					if sb, ok := pr[1].(*ssa.BinOp); ok && sb.Op == token.SUB && sb.X == ssa.Value(x) {
						if k, isK := constInt(sb.Y); isK && k == 1 {
							okStep = true
						}
					}
				}
			}
			if !okStep {
				return 0, false
			}
		} else {
			init = ed
		}
	}
	if init == nil {
		return 0, false
	}
	return widthOf(p, init, nil, 0, map[ssa.Value]bool{}), true
}

// unboundedCounter: v is a loop-header phi that starts at a constant and grows by a positive constant on
// every way round the loop, and no exit of that loop is decided by a comparison on such a counter (so the
// number of iterations is whatever the data makes it: a descent that goes on until a leaf is reached).
func unboundedCounter(v ssa.Value) bool {
	ph, ok := v.(*ssa.Phi)
	if !ok {
		return false
	}
	H := ph.Block()
	constStep := func(q *ssa.Phi) bool {
		inits, steps := 0, 0
		for _, ed := range q.Edges {
			if _, isK := constInt(ed); isK {
				inits++
				continue
			}
			okStep := false
			cands := []ssa.Value{ed}
			if p2, isPhi := ed.(*ssa.Phi); isPhi && p2 != q {
				cands = p2.Edges
			}
			okStep = true
			for _, cnd := range cands {
				if cnd == ssa.Value(q) {
					continue
				}
				bo, isBo := cnd.(*ssa.BinOp)
				if !isBo || (bo.Op != token.ADD && bo.Op != token.SUB) || bo.X != ssa.Value(q) {
					okStep = false
					break
				}
				if k, isK := constInt(bo.Y); !isK || k <= 0 {
					okStep = false
					break
				}
			}
			if !okStep {
				return false
			}
			steps++
		}
		return inits >= 1 && steps >= 1
	}
	if !constStep(ph) {
		return false
	}
	// the natural loop of H
	inLoop := map[*ssa.BasicBlock]bool{H: true}
	var stack []*ssa.BasicBlock
	for _, pr := range H.Preds {
		if H.Dominates(pr) && !inLoop[pr] {
			inLoop[pr] = true
			stack = append(stack, pr)
		}
	}
	if len(stack) == 0 && !func() bool {
		for _, pr := range H.Preds {
			if pr == H {
				return true
			}
		}
		return false
	}() {
		return false // not a loop header
	}
	for len(stack) > 0 {
		b := stack[len(stack)-1]
		stack = stack[:len(stack)-1]
		for _, pr := range b.Preds {
			if !inLoop[pr] && H.Dominates(pr) {
				inLoop[pr] = true
				stack = append(stack, pr)
			}
		}
	}
	strip := func(x ssa.Value) ssa.Value {
		for {
			if cv, ok := x.(*ssa.Convert); ok {
				x = cv.X
				continue
			}
			if bo, ok := x.(*ssa.BinOp); ok && (bo.Op == token.ADD || bo.Op == token.SUB) {
				if _, isK := constInt(bo.Y); isK {
					x = bo.X
					continue
				}
			}
			return x
		}
	}
	for b := range inLoop {
		iff, ok := lastInstr(b).(*ssa.If)
		if !ok {
			continue
		}
		leaves := false
		for _, sc := range b.Succs {
			if !inLoop[sc] {
				leaves = true
			}
		}
		if !leaves {
			continue
		}
		_, cx, cy, _, ok := cmpOf(iff.Cond)
		if !ok {
			continue
		}
		for _, opd := range []ssa.Value{strip(cx), strip(cy)} {
			if q, isPhi := opd.(*ssa.Phi); isPhi && q.Block() == H && constStep(q) {
				return false // a counted loop
			}
		}
	}
	return true
}
