package main

// Build statelessness. The same input must give the same index (byte-stable
// Marshal, C05) of the same size (C17) whatever was built earlier in the
// process: code reachable from NewSlimTrie takes nothing from and leaves
// nothing in package-level state. Reported: calls of (*sync.Pool).Get/Put and
// stores through package-level variables (of the analysed packages) in any
// function reachable from the constructor.

import (
	"fmt"
	"sort"

	"golang.org/x/tools/go/ssa"
)

type stateSite struct {
	fn   *ssa.Function
	pos  ssa.Instruction
	what string
}

func buildStateSites(fns []*ssa.Function) []stateSite {
	var out []stateSite
	for _, f := range fns {
		if f.Synthetic != "" || len(f.Blocks) == 0 {
			continue
		}
		instrsOf(f, func(_ *ssa.BasicBlock, in ssa.Instruction) {
			switch x := in.(type) {
			case ssa.CallInstruction:
				if calleeIs(x, "(*sync.Pool).Get", "(*sync.Pool).Put") {
					out = append(out, stateSite{f, in, "an object is taken from / returned to a sync.Pool: its contents survive from an earlier build unless cleared"})
				}
			case *ssa.Store:
				a := x.Addr
				for d := 0; d < 4; d++ {
					switch y := a.(type) {
					case *ssa.FieldAddr:
						a = y.X
						continue
					case *ssa.IndexAddr:
						a = y.X
						continue
					case *ssa.UnOp:
						a = y.X
						continue
					}
					break
				}
				if g, ok := a.(*ssa.Global); ok && g.Pkg != nil && hasPrefixPath(g.Pkg.Pkg.Path(), slimPath) {
					out = append(out, stateSite{f, in, "package-level variable " + g.Name() + " is written"})
				}
			}
		})
	}
	return out
}

func checkBuildStateless(p *Program, r *Report, rule string) {
	r.Rule(rule, "call graph + SSA", "the build takes nothing from and leaves nothing in package-level state", 0)
	entry := p.Trie.Func("NewSlimTrie")
	if entry == nil {
		r.Unk("trie.NewSlimTrie", "", "anchor not found")
		return
	}
	var fns []*ssa.Function
	for f := range trieReach(entry) {
		if inSlim(f) {
			fns = append(fns, f)
		}
	}
	sort.Slice(fns, func(i, j int) bool { return fns[i].String() < fns[j].String() })
	sites := buildStateSites(fns)
	ord := map[*ssa.Function]int{}
	for _, s := range sites {
		ord[s.fn]++
		r.Func(shortFn(s.fn))
		r.Bad(fmt.Sprintf("process-wide state #%d in %s", ord[s.fn], shortFn(s.fn)), p.Pos(s.pos.Pos()), s.what+": what NewSlimTrie builds can depend on what was built before (bytes and size of the index are no longer a function of the input)")
	}
	if len(sites) == 0 {
		r.OK("trie.NewSlimTrie is stateless", p.Pos(entry.Pos()), fmt.Sprintf("%d reachable functions, no sync.Pool, no store through a package-level variable", len(fns)))
	}
}
