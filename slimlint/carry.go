package main

import (
	"fmt"
	"go/constant"
	"go/token"
	"go/types"

	"golang.org/x/tools/go/ssa"
)

// Lost carry (shared by C06 and the fixed-width encoders).
//
// A multi-byte quantity that is read as separate narrow parts and put together
// again as  wide(hi)<<w | wide(lo)  must not have arithmetic done on a part in
// the part's own width w in between: `lo--` on a byte wraps to 0xff without
// borrowing from hi, so the recombined value is off by 2^w exactly when the
// part over- or underflows - for the legacy step array, for steps that are a
// multiple of 256 (seed C06_e), which no sample stream contains.
// The arithmetic belongs after the recombination.

type carrySite struct {
	fn   *ssa.Function
	comb *ssa.BinOp // the recombination
	op   *ssa.BinOp // the narrow arithmetic on the low part
	w    int64
}

func intWidth(t types.Type) int64 {
	b, ok := t.Underlying().(*types.Basic)
	if !ok {
		return 0
	}
	switch b.Kind() {
	case types.Int8, types.Uint8:
		return 8
	case types.Int16, types.Uint16:
		return 16
	case types.Int32, types.Uint32:
		return 32
	case types.Int64, types.Uint64, types.Int, types.Uint, types.Uintptr:
		return 64
	}
	return 0
}

// stripWiden removes widening conversions and returns the innermost value and
// its width.
func stripWiden(v ssa.Value) (ssa.Value, int64) {
	for {
		switch x := v.(type) {
		case *ssa.Convert:
			wi, wo := intWidth(x.X.Type()), intWidth(x.Type())
			if wi == 0 || wo == 0 || wi > wo {
				return v, intWidth(v.Type())
			}
			v = x.X
			continue
		case *ssa.ChangeType:
			v = x.X
			continue
		}
		return v, intWidth(v.Type())
	}
}

func constShift(v ssa.Value) (ssa.Value, int64, bool) {
	bo, ok := v.(*ssa.BinOp)
	if !ok || bo.Op != token.SHL {
		return nil, 0, false
	}
	c, ok := bo.Y.(*ssa.Const)
	if !ok {
		if cv, ok2 := bo.Y.(*ssa.Convert); ok2 {
			c, ok = cv.X.(*ssa.Const)
		}
		if !ok {
			return nil, 0, false
		}
	}
	if c.Value == nil || c.Value.Kind() != constant.Int {
		return nil, 0, false
	}
	k, _ := constant.Int64Val(c.Value)
	return bo.X, k, true
}

// narrowArith: v (of width w, already stripped of widenings) is, possibly
// through phis, the result of an addition or subtraction done in width w.
func narrowArith(v ssa.Value, w int64, depth int, seen map[ssa.Value]bool) *ssa.BinOp {
	if depth > 4 || seen[v] {
		return nil
	}
	seen[v] = true
	switch x := v.(type) {
	case *ssa.BinOp:
		if (x.Op == token.ADD || x.Op == token.SUB) && intWidth(x.Type()) == w {
			return x
		}
	case *ssa.Phi:
		for _, e := range x.Edges {
			if r := narrowArith(e, w, depth+1, seen); r != nil {
				return r
			}
		}
	}
	return nil
}

func lostCarrySites(fns []*ssa.Function) (sites []carrySite, combos int) {
	for _, f := range fns {
		for _, b := range f.Blocks {
			for _, in := range b.Instrs {
				bo, ok := in.(*ssa.BinOp)
				if !ok || (bo.Op != token.OR && bo.Op != token.ADD && bo.Op != token.XOR) {
					continue
				}
				for _, pair := range [][2]ssa.Value{{bo.X, bo.Y}, {bo.Y, bo.X}} {
					hiX, k, ok := constShift(pair[0])
					if !ok {
						// ((hi<<k)|lo) << n and similar are handled at the inner operator
						continue
					}
					_, hw := stripWiden(hiX)
					lo, lw := stripWiden(pair[1])
					if lw == 0 || lw >= intWidth(bo.Type()) || k != lw || hw == 0 || hw > lw*4 {
						continue
					}
					combos++
					if op := narrowArith(lo, lw, 0, map[ssa.Value]bool{}); op != nil {
						sites = append(sites, carrySite{f, bo, op, lw})
					}
				}
			}
		}
	}
	return
}

func checkLostCarry(p *Program, r *Report, rule string, fns []*ssa.Function) {
	r.Rule(rule, "SSA", "no arithmetic in the width of a part between splitting a multi-byte quantity and recombining it", 0)
	sites, combos := lostCarrySites(fns)
	ord := map[*ssa.Function]int{}
	for _, s := range sites {
		ord[s.fn]++
		r.Func(shortFn(s.fn))
		r.Check(false, fmt.Sprintf("recombination #%d in %s", ord[s.fn], shortFn(s.fn)), p.Pos(s.comb.Pos()), "",
			fmt.Sprintf("the low %d-bit part is the result of a %d-bit %s at %s: it wraps without carrying into the high part, the recombined value is off by 2^%d whenever the part over/underflows", s.w, s.w, s.op.Op, p.Pos(s.op.Pos()), s.w))
	}
	if len(sites) == 0 {
		r.Note("%s: %d hi<<w|lo recombination(s) in %d analysed function(s), none over a part modified in its own width", rule, combos, len(fns))
	}
}

func controlLostCarry(fx *Program, r *Report, rule string) {
	pkg := fx.FxPkg("carry")
	if pkg == nil {
		r.Control(rule, "fixtures/carry", false, "fixture package not loaded")
		return
	}
	for _, tc := range []struct {
		fn   string
		want bool
	}{{"StepWrong", true}, {"StepRight", false}, {"StepLibrary", false}} {
		f := pkg.Func(tc.fn)
		if f == nil {
			r.Control(rule, "carry."+tc.fn, false, "function not found")
			continue
		}
		sites, combos := lostCarrySites([]*ssa.Function{f})
		r.Control(rule, "carry."+tc.fn, (len(sites) > 0) == tc.want, fmt.Sprintf("expected flagged=%v: %d recombination(s), %d over a part modified in its own width", tc.want, combos, len(sites)))
	}
}
