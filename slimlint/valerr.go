package main

import (
	"fmt"
	"go/types"
	"sort"

	"golang.org/x/tools/go/ssa"
)

// checkValueAfterError (C07.value-after-error): "every strict prefix of a valid stream is rejected with
// an error rather than a panic". A call that returns (value, error) promises nothing about the value
// when the error is non-nil — for an interface or pointer result it is nil. On the edge where the error
// of such a call was found non-nil, the functions under Unmarshal must not hand that value on or call a
// method on it: decorating the error with "what the header said" dereferences a nil header exactly for
// streams cut inside the header.
func checkValueAfterError(p *Program, r *Report, rule string) {
	saved := r.curRule
	defer func() { r.curRule = saved }()
	r.Rule(rule, "CFG dominance", "a value returned together with a non-nil error is not used on the error path", 1)
	un := p.Method(p.Trie, "SlimTrie", "Unmarshal")
	if un == nil {
		r.Unk("value after error", "", "(*SlimTrie).Unmarshal not found")
		return
	}
	var fs []*ssa.Function
	for f := range trieReach(un) {
		if trieScope(f) && f.Synthetic == "" && len(f.Blocks) > 0 {
			fs = append(fs, f)
		}
	}
	sort.Slice(fs, func(i, j int) bool { return funcID(fs[i]) < funcID(fs[j]) })
	judged := 0
	var bad []string
	for _, f := range fs {
		instrsOf(f, func(_ *ssa.BasicBlock, in ssa.Instruction) {
			call, ok := in.(*ssa.Call)
			if !ok {
				return
			}
			tup, ok := call.Type().(*types.Tuple)
			if !ok || tup.Len() < 2 || !isErrorType(tup.At(tup.Len()-1).Type()) || call.Referrers() == nil {
				return
			}
			var errEx *ssa.Extract
			var vals []*ssa.Extract
			for _, ref := range *call.Referrers() {
				if ex, ok := ref.(*ssa.Extract); ok {
					if ex.Index == tup.Len()-1 {
						errEx = ex
					} else {
						switch ex.Type().Underlying().(type) {
						case *types.Interface, *types.Pointer:
							vals = append(vals, ex)
						}
					}
				}
			}
			if errEx == nil || len(vals) == 0 || errEx.Referrers() == nil {
				return
			}
			// the branch on err != nil
			for _, ref := range *errEx.Referrers() {
				bo, ok := ref.(*ssa.BinOp)
				if !ok || bo.Referrers() == nil {
					continue
				}
				x, nilSucc, ok := nilTest(bo)
				if !ok || x != ssa.Value(errEx) {
					continue
				}
				for _, r2 := range *bo.Referrers() {
					iff, ok := r2.(*ssa.If)
					if !ok {
						continue
					}
					errBlock := iff.Block().Succs[1-nilSucc]
					if len(errBlock.Preds) != 1 {
						continue
					}
					judged++
					for _, v := range vals {
						if v.Referrers() == nil {
							continue
						}
						for _, use := range *v.Referrers() {
							if _, isDbg := use.(*ssa.DebugRef); isDbg {
								continue
							}
							ub := use.Block()
							if ub == nil || !errBlock.Dominates(ub) {
								continue
							}
							switch u := use.(type) {
							case ssa.CallInstruction:
								bad = append(bad, fmt.Sprintf("%s: result #%d of %s is used at %s although the error returned with it is non-nil there", shortFn(f), v.Index, calleeName(call), p.Pos(u.Pos())))
							case *ssa.FieldAddr, *ssa.UnOp, *ssa.MakeInterface, *ssa.TypeAssert:
								bad = append(bad, fmt.Sprintf("%s: result #%d of %s is used at %s although the error returned with it is non-nil there", shortFn(f), v.Index, calleeName(call), p.Pos(use.Pos())))
							}
						}
					}
				}
			}
		})
	}
	sort.Strings(bad)
	if judged == 0 {
		r.Unk("value after error under Unmarshal", p.Pos(un.Pos()), "no call returning (value, error) with a test of the error found under Unmarshal (anchor not found)")
		return
	}
	detail := ""
	if len(bad) > 0 {
		detail = bad[0] + ": for a stream cut inside that part the value is nil and the use panics instead of reporting the error"
	}
	r.Check(len(bad) == 0, "values returned with an error under Unmarshal", p.Pos(un.Pos()), fmt.Sprintf("%d error branches of (value, error) calls, none uses the value", judged), detail)
}

func calleeName(c *ssa.Call) string {
	if g := calleeOf(c); g != nil {
		return shortFn(g)
	}
	if c.Call.IsInvoke() {
		return c.Call.Method.Name()
	}
	return "a call"
}
