package main

import (
	"fmt"
	"go/constant"
	"go/token"
	"go/types"
	"sort"
	"strings"

	"golang.org/x/tools/go/ssa"
)

// encoderTypes lists the named types of package encode that implement Encoder.
func encoderTypes(p *Program) []*types.Named {
	var out []*types.Named
	ifc := p.NamedType(p.Enc, "Encoder")
	if ifc == nil {
		return nil
	}
	it := ifc.Underlying().(*types.Interface)
	for _, m := range p.Enc.Members {
		t, ok := m.(*ssa.Type)
		if !ok {
			continue
		}
		n, ok := t.Type().(*types.Named)
		if !ok || n == ifc {
			continue
		}
		if types.Implements(n, it) || types.Implements(types.NewPointer(n), it) {
			out = append(out, n)
		}
	}
	sort.Slice(out, func(i, j int) bool { return out[i].Obj().Name() < out[j].Obj().Name() })
	return out
}

func encMethod(p *Program, n *types.Named, name string) *ssa.Function {
	for _, t := range []types.Type{n, types.NewPointer(n)} {
		sel := p.Prog.MethodSets.MethodSet(t).Lookup(p.Enc.Pkg, name)
		if sel == nil {
			continue
		}
		if f := p.Prog.MethodValue(sel); f != nil && f.Synthetic == "" {
			return f
		}
	}
	return nil
}

// singleReturnTerms evaluates the results of a function with exactly one
// distinct tuple of return terms (all returns must agree).
func returnTerms(p *Program, f *ssa.Function) ([]string, *evaluator, bool) {
	e := newEval(p)
	var first []string
	for i, r := range returnsOf(f) {
		var cur []string
		for _, x := range r.Results {
			cur = append(cur, e.eval(x).String())
		}
		if i == 0 {
			first = cur
		} else if strings.Join(cur, "|") != strings.Join(first, "|") {
			return first, e, false
		}
	}
	return first, e, len(first) > 0
}

// convChain follows conversions between integer types of equal width
// (bit-pattern preserving). Returns the root and whether every step preserved width.
func convChain(v ssa.Value) (ssa.Value, bool, string) {
	ok := true
	why := ""
	for {
		switch x := v.(type) {
		case *ssa.Convert:
			fs, ts := intBytes(x.X.Type()), intBytes(x.Type())
			if fs == 0 || ts == 0 || fs != ts {
				ok = false
				why = fmt.Sprintf("conversion %s -> %s changes width", x.X.Type(), x.Type())
			}
			v = x.X
			continue
		case *ssa.ChangeType:
			v = x.X
			continue
		}
		return v, ok, why
	}
}

// encodedLen: symbolic length of the []byte an Encode function returns.
func encodedLen(e *evaluator, v ssa.Value) *term {
	switch x := v.(type) {
	case *ssa.MakeSlice:
		return e.eval(x.Len)
	case *ssa.Slice:
		if al, ok := x.X.(*ssa.Alloc); ok && x.Low == nil {
			if at, ok := al.Type().(*types.Pointer).Elem().Underlying().(*types.Array); ok {
				if x.High == nil {
					return K(at.Len())
				}
				return e.eval(x.High)
			}
		}
		if x.Low == nil && x.High != nil {
			return e.eval(x.High)
		}
	case *ssa.Phi:
		// only edges from blocks that are live once constant comparisons (size == 4 on a 64-bit
		// platform) are folded
		live := liveBlocks(x.Parent())
		var t *term
		for i, ed := range x.Edges {
			if !live[x.Block().Preds[i]] {
				continue
			}
			l := encodedLen(e, ed)
			if l == nil || (t != nil && t.String() != l.String()) {
				return nil
			}
			t = l
		}
		return t
	case *ssa.Call:
		// a helper of package encode that builds and returns the buffer: its own result length
		if h := calleeOf(x); h != nil && pkgPathOf(h) == encPath {
			if kind, _, si := leLoopKind(e.p, h); kind == "put" && si < len(x.Call.Args) {
				return e.eval(x.Call.Args[si]) // putLE(v, size) returns exactly size bytes
			}
		}
		if h := calleeOf(x); h != nil && pkgPathOf(h) == encPath && len(h.Blocks) > 0 && !hasLoop(h) {
			if rets := returnsOf(h); len(rets) == 1 && len(rets[0].Results) >= 1 {
				return encodedLen(e, rets[0].Results[0])
			}
		}
		// binary.LittleEndian.AppendUintN(base, v)
		if f := calleeOf(x); f != nil && strings.HasPrefix(funcID(f), "(encoding/binary.littleEndian).AppendUint") && len(x.Call.Args) == 3 {
			var n int64
			fmt.Sscanf(strings.TrimPrefix(funcID(f), "(encoding/binary.littleEndian).AppendUint"), "%d", &n)
			if base := encodedLen(e, x.Call.Args[1]); base != nil && n > 0 {
				return O("add", base, K(n/8))
			}
		}
		if bi, ok := x.Call.Value.(*ssa.Builtin); ok && bi.Name() == "append" && len(x.Call.Args) == 2 {
			base := encodedLen(e, x.Call.Args[0])
			if base != nil {
				// append(b, x, y): the variadic arguments are a slice of a local array of known length
				if sl, ok := x.Call.Args[1].(*ssa.Slice); ok && sl.Low == nil && sl.High == nil {
					if al, ok := sl.X.(*ssa.Alloc); ok {
						if at, ok := al.Type().(*types.Pointer).Elem().Underlying().(*types.Array); ok {
							return O("add", base, K(at.Len()))
						}
					}
				}
				return O("add", base, ON("len", "", S(e.pathOrTerm(stripBytesConv(x.Call.Args[1])))))
			}
		}
	}
	return nil
}

func checkC15(p *Program, r *Report) {
	r.Explanation = "Decided for every value: (sizes) per encoder type the size reports normalise to the same term — len(Encode(v)), the count Decode reports, GetSize and GetEncodedSize: the constant Sizeof(T) for the fixed integers, UintSize/8 for Int, 2+len / 2+(256*b[0]+b[1]) for String16 with the header written as (len>>8, len), Size for Bytes/TypeEncoder, 0 for Dummy; (bijection, a complete proof for I8..U64 given encoding/binary) between the type assertion d.(T) and binary.LittleEndian.PutUintN, and between UintN and the boxed result, every conversion is between integer types of equal width N = 8*Sizeof(T), the buffer has N/8 bytes, Put and Get use the same N and the byte-order object is LittleEndian — so Decode(Encode(v)) = v and the layout is fixed-width little-endian two's complement; (TypeEncoder) Encode/Decode go only through encoding/binary with the configured order and type, guarded by the type check; every constructor returns a fresh encoder (its own allocation or a delegate constructor's) with the requested order; no (reflect.Type).Size() — in-memory size with padding — reaches the Size field for a kind that can have padding (kinds possible at the call computed from the Kind() tests on the way); (total) no codec has an explicit panic under conditions, all constant comparisons of the value or its length, that a value of its domain satisfies (String16: 0..65535 bytes)."
	r.NotCovered = "TypeEncoder field-by-field layout (encoding/binary's), String16 beyond 65535 bytes (outside its domain), Dummy (lossy by design)."
	r.Trusted = []string{"go/ssa, go/types", "encoding/binary PutUintN/UintN/Read/Write"}
	checkCodecsAs(p, r, "C15")
}

// checkCodecsAs: the codec rules of C15 under the names of another property that hands values to the
// encoders and promises to return them unchanged (C01 "any value encoder", C02, C10, C14, C16's generic
// accessor): Decode(Encode(v)) = v is a necessary condition of each. Under "C15" the rules keep their
// own names, elsewhere they are <pfx>.codec-<rule>.
func checkCodecsAs(p *Program, r *Report, pfx string) {
	nm := func(x string) string {
		if pfx == "C15" {
			return "C15." + x
		}
		return pfx + ".codec-" + x
	}
	if pfx != "C15" {
		r.Explanation += " (codec) the value codecs of package encode are decided as in C15 — the four size reports of each encoder are one term, I8..U64 are width-preserving conversion chains around LittleEndian Put/Get of the same width, String16 writes and reads a big-endian 16-bit length, TypeEncoder goes only through encoding/binary with its configured order and type: returning the value that was supplied presupposes Decode(Encode(v)) = v."
	}
	saved := r.curRule
	defer func() {
		if pfx != "C15" {
			r.curRule = saved
		}
	}()
	encs := encoderTypes(p)
	r.Rule(nm("sizes"), "E6", "the size reports of an encoder are one term", 11)
	r.Rule(nm("bijection"), "types+SSA", "fixed integer codecs: width-preserving conversion chains around LittleEndian Put/Get", 7)
	r.Rule(nm("string16"), "E6", "String16 header: big-endian 16-bit length written and read", 2)
	r.Rule(nm("typeencoder"), "structure", "TypeEncoder delegates to encoding/binary with its configured order and type", 2)
	if pfx == "C15" {
		r.Rule(nm("total"), "E11", "no explicit panic for a value of the encoder's domain", 9)
	}
	rule := func(name string) {
		name = nm(strings.TrimPrefix(name, "C15."))
		for _, ri := range r.Rules {
			if ri.Name == name {
				r.curRule = ri
			}
		}
	}
	if len(encs) == 0 {
		rule("C15.sizes")
		r.Unk("encode.Encoder implementations", "", "none found")
		return
	}
	for _, n := range encs {
		name := n.Obj().Name()
		enc, dec, gs, ges := encMethod(p, n, "Encode"), encMethod(p, n, "Decode"), encMethod(p, n, "GetSize"), encMethod(p, n, "GetEncodedSize")
		if enc == nil || dec == nil || gs == nil || ges == nil {
			rule("C15.sizes")
			r.Unk("encode."+name, "", "method missing")
			continue
		}
		for _, f := range []*ssa.Function{enc, dec, gs, ges} {
			r.Func(shortFn(f))
		}
		gsT, _, ok1 := returnTerms(p, gs)
		gesT, _, ok2 := returnTerms(p, ges)
		decT, _, ok3 := returnTerms(p, dec)
		e := newEval(p)
		var encLen *term
		encRets := returnsOf(enc)
		if len(encRets) >= 1 {
			encLen = encodedLen(e, encRets[0].Results[0])
		}
		rule("C15.sizes")
		construct := "encode." + name + " size reports"
		pos := p.Pos(gs.Pos())
		// classification by what Decode boxes
		var boxed types.Type
		for _, ret := range returnsOf(dec) {
			if len(ret.Results) == 2 {
				if mi, ok := ret.Results[1].(*ssa.MakeInterface); ok {
					boxed = mi.X.Type()
				}
			}
		}
		isFixedInt := false
		if b, ok := boxed.(*types.Basic); ok && b.Info()&types.IsInteger != 0 && b.Kind() != types.Int && b.Kind() != types.Uint && b.Kind() != types.Uintptr {
			isFixedInt = true
		}
		if name == "TypeEncoder" || name == "Bytes" || name == "Dummy" || name == "String16" || name == "Int" {
			isFixedInt = false
		}
		switch {
		case isFixedInt:
			w := fmt.Sprint(p.Sizes.Sizeof(boxed))
			ok := ok1 && ok2 && ok3 && len(decT) == 2 && gsT[0] == w && gesT[0] == w && decT[0] == w && encLen != nil && encLen.String() == w
			el := "?"
			if encLen != nil {
				el = encLen.String()
			}
			r.Check(ok, construct, pos, "all four = Sizeof("+boxed.String()+") = "+w, fmt.Sprintf("GetSize=%v GetEncodedSize=%v Decode=%v len(Encode)=%s, want %s each", gsT, gesT, first(decT), el, w))
			rule("C15.bijection")
			why := fixedIntBijection(p, enc, dec, boxed)
			r.Check(why == "", "encode."+name+" is a bijection on "+boxed.String(), p.Pos(enc.Pos()), "d.("+boxed.String()+") -> equal-width conversions -> LittleEndian.PutUint"+fmt.Sprint(8*p.Sizes.Sizeof(boxed))+" / Uint -> equal-width conversions -> "+boxed.String(), why)
		case name == "Int":
			w := fmt.Sprint(p.Sizes.Sizeof(types.Typ[types.Int]))
			el := "?"
			if encLen != nil {
				el = encLen.String()
			}
			ok := ok1 && ok2 && len(decT) >= 1 && gsT[0] == w && gesT[0] == w && decT[0] == w && el == w
			r.Check(ok, construct, pos, "all four = UintSize/8 = "+w, fmt.Sprintf("GetSize=%v GetEncodedSize=%v Decode=%v len(Encode)=%s, want %s", gsT, gesT, first(decT), el, w))
			rule("C15.bijection")
			why := nativeIntBijection(p, enc, dec)
			r.Check(why == "", "encode.Int is a bijection on int", p.Pos(enc.Pos()), "Put/Get of the native width on the live branch", why)
		case name == "String16":
			el := "?"
			if encLen != nil {
				el = encLen.String()
			}
			wantDec := "add(2,idx(b,1),mul(256,idx(b,0)))"
			ok := ok1 && ok2 && ok3 && len(decT) == 2 && gesT[0] == wantDec && decT[0] == wantDec && strings.HasPrefix(gsT[0], "add(2,len(") && el == gsT[0]
			r.Check(ok, construct, pos, "GetSize = len(Encode) = 2+len(s); Decode count = GetEncodedSize = 2 + 256*b[0] + b[1]",
				fmt.Sprintf("GetSize=%v len(Encode)=%s Decode=%v GetEncodedSize=%v; want 2+len(s) twice and %s twice (a shift inside a narrower type shows as shlw/wrap)", gsT, el, first(decT), gesT, wantDec))
			rule("C15.string16")
			// header bytes written
			hdr := map[string]string{}
			instrsOf(enc, func(_ *ssa.BasicBlock, in ssa.Instruction) {
				if st, ok := in.(*ssa.Store); ok {
					if ia, ok := st.Addr.(*ssa.IndexAddr); ok {
						if k, ok := constInt(ia.Index); ok {
							hdr[fmt.Sprint(k)] = e.eval(st.Val).String()
						}
					}
				}
			})
			lenT := strings.TrimPrefix(gsT[0], "add(2,")
			lenT = strings.TrimSuffix(lenT, ")")
			okH := hdr["0"] == "conv:byte(shr:s("+lenT+",8))" && hdr["1"] == "conv:byte("+lenT+")"
			if !okH && len(hdr) == 0 {
				// the same header through the library: binary.BigEndian.PutUint16(buf, uint16(len))
				for _, c := range callsIn(enc) {
					call, ok := c.(*ssa.Call)
					if !ok || funcID(calleeOf(call)) != "(encoding/binary.bigEndian).PutUint16" || len(call.Call.Args) != 3 {
						continue
					}
					onResult := false
					for _, ret := range returnsOf(enc) {
						if len(ret.Results) == 1 && ret.Results[0] == call.Call.Args[1] {
							onResult = true
						}
					}
					got := e.eval(call.Call.Args[2]).String()
					if onResult && got == "conv:uint16("+lenT+")" {
						okH = true
					} else {
						hdr["PutUint16"] = got
					}
				}
			}
			r.Check(okH, "encode.String16 header written", p.Pos(enc.Pos()), "b[0]=byte(len>>8), b[1]=byte(len)", fmt.Sprintf("header stores %v, want b[0]=byte(len>>8) b[1]=byte(len) of %s", hdr, lenT))
			// decoded string is b[2:2+l]
			okS := len(decT) == 2 && decT[1] == "convert:string(slice(b,2,"+wantDec+"))"
			r.Check(okS, "encode.String16 payload read", p.Pos(dec.Pos()), "string(b[2:2+l])", "Decode returns "+first(decT[1:])+", want string(b[2:2+l])")
		case name == "Bytes":
			ok := ok1 && ok2 && ok3 && len(decT) == 2 && strings.HasSuffix(gsT[0], ".Size") && gesT[0] == gsT[0] && decT[0] == gsT[0] && decT[1] == "slice(b,_,"+gsT[0]+")"
			r.Check(ok, construct, pos, "GetSize = GetEncodedSize = Decode count = Size; Decode returns b[:Size]", fmt.Sprintf("GetSize=%v GetEncodedSize=%v Decode=%v", gsT, gesT, decT))
		case name == "Dummy":
			ok := ok1 && ok2 && ok3 && gsT[0] == "0" && gesT[0] == "0" && decT[0] == "0" && encLen != nil && encLen.String() == "0"
			r.Check(ok, construct, pos, "all 0", fmt.Sprintf("GetSize=%v GetEncodedSize=%v Decode=%v", gsT, gesT, decT))
		case name == "TypeEncoder":
			ok := ok1 && ok2 && ok3 && len(decT) == 2 && strings.HasSuffix(gsT[0], ".Size") && gesT[0] == gsT[0] && decT[0] == gsT[0]
			r.Check(ok, construct, pos, "GetSize = GetEncodedSize = Decode count = Size", fmt.Sprintf("GetSize=%v GetEncodedSize=%v Decode=%v", gsT, gesT, first(decT)))
			rule("C15.typeencoder")
			r.Check(typeEncoderDelegates(p, enc, "encoding/binary.Write") == "", "encode.TypeEncoder.Encode", p.Pos(enc.Pos()), "type guard, then binary.Write(buf, m.Endian, d) on every return", typeEncoderDelegates(p, enc, "encoding/binary.Write"))
			r.Check(typeEncoderDelegates(p, dec, "encoding/binary.Read") == "", "encode.TypeEncoder.Decode", p.Pos(dec.Pos()), "binary.Read(b[:Size], m.Endian, new(m.Type)) on every return", typeEncoderDelegates(p, dec, "encoding/binary.Read"))
			nCtor := 0
			for _, ctor := range p.FuncsOf(encPath) {
				if ctor.Parent() != nil || ctor.Signature.Recv() != nil || ctor.Synthetic != "" || len(ctor.Blocks) == 0 {
					continue
				}
				rs := ctor.Signature.Results()
				if rs.Len() == 0 || namedOf(rs.At(0).Type()) != n {
					continue
				}
				hasOrder := false
				for _, prm := range ctor.Params {
					if isNamed(prm.Type(), "encoding/binary", "ByteOrder") {
						hasOrder = true
					}
				}
				if !hasOrder {
					continue
				}
				nCtor++
				r.Func(shortFn(ctor))
				why := typeEncoderCtor(p, ctor)
				r.Check(why == "", "encode."+ctor.Name(), p.Pos(ctor.Pos()), "returns a fresh encoder (its own allocation or a delegate constructor's) whose Endian is the requested order (default when nil)", why)
			}
			if nCtor == 0 {
				r.Unk("encode.NewTypeEncoderEndian", "", "no constructor with a byte-order parameter found")
			}
			srcs, sites, why := typeEncoderSizeProvenance(p)
			if sites == 0 {
				r.Unk("encode.TypeEncoder.Size provenance", "", "no store to TypeEncoder.Size found")
			} else {
				r.Check(why == "", "encode.TypeEncoder.Size provenance", p.Pos(n.Obj().Pos()), fmt.Sprintf("%d store(s); sources %v: no in-memory size of a possibly padded kind", sites, srcs), why)
			}
		default:
			r.Note("encoder type encode.%s is not classified by this rule set (not analysed)", name)
		}
		if name != "TypeEncoder" && pfx == "C15" {
			rule("C15.total")
			checkEncoderTotal(p, r, name, boxed, enc, dec, gs, ges)
		}
	}
}

func first(s []string) string {
	if len(s) == 0 {
		return "?"
	}
	return s[0]
}

func isLittleEndianCall(c *ssa.Call, method string) bool {
	return calleeIs(c, "(encoding/binary.littleEndian)."+method)
}

// fixedIntBijection checks Encode/Decode of a fixed-width integer encoder.
func fixedIntBijection(p *Program, enc, dec *ssa.Function, T types.Type) string {
	w := p.Sizes.Sizeof(T)
	n := fmt.Sprint(8 * w)
	// Encode
	var assert *ssa.TypeAssert
	instrsOf(enc, func(_ *ssa.BasicBlock, in ssa.Instruction) {
		if ta, ok := in.(*ssa.TypeAssert); ok && !ta.CommaOk {
			assert = ta
		}
	})
	if assert == nil || !types.Identical(assert.AssertedType, T) {
		return "Encode does not assert d.(" + T.String() + ")"
	}
	if w == 1 {
		// []byte{byte(v)}
		found := false
		why := ""
		instrsOf(enc, func(_ *ssa.BasicBlock, in ssa.Instruction) {
			if st, ok := in.(*ssa.Store); ok {
				root, ok2, y := convChain(st.Val)
				if root == assert {
					found = true
					if !ok2 {
						why = "Encode: " + y
					}
				}
			}
		})
		if !found {
			return "Encode does not store the asserted value into the buffer"
		}
		if why != "" {
			return why
		}
	} else {
		var put *ssa.Call
		for _, c := range callsIn(enc) {
			if call, ok := c.(*ssa.Call); ok && (strings.Contains(funcID(calleeOf(call)), "PutUint") || strings.Contains(funcID(calleeOf(call)), "AppendUint")) {
				put = call
			}
		}
		// the write may sit in a helper of package encode that Encode hands the (converted) value to
		var viaParam *ssa.Parameter
		var viaArg ssa.Value
		if put == nil {
			for _, c := range callsIn(enc) {
				call, ok := c.(*ssa.Call)
				if !ok {
					continue
				}
				h := calleeOf(call)
				if h == nil || pkgPathOf(h) != encPath || len(h.Blocks) == 0 {
					continue
				}
				for _, hc := range callsIn(h) {
					if hcall, ok := hc.(*ssa.Call); ok && (strings.Contains(funcID(calleeOf(hcall)), "PutUint") || strings.Contains(funcID(calleeOf(hcall)), "AppendUint")) {
						r0, _, _ := convChain(hcall.Call.Args[2])
						for pi, prm := range h.Params {
							if r0 == ssa.Value(prm) && pi < len(call.Call.Args) {
								put, viaParam, viaArg = hcall, prm, call.Call.Args[pi]
							}
						}
					}
				}
			}
		}
		if put == nil {
			// a hand-written little-endian shift loop (see leloop.go): putLE(conv(value), size) with
			// size = Sizeof(T); conversions on the way may widen but never go below the width of T
			for _, c := range callsIn(enc) {
				call, ok := c.(*ssa.Call)
				if !ok {
					continue
				}
				h := calleeOf(call)
				if h == nil || pkgPathOf(h) != encPath {
					continue
				}
				kind, vi, si := leLoopKind(p, h)
				if kind != "put" {
					continue
				}
				if k, isK := constInt(call.Call.Args[si]); !isK || k != w {
					return fmt.Sprintf("Encode writes %v bytes with %s, want %d", call.Call.Args[si], shortFn(h), w)
				}
				root, min := convChainMin(call.Call.Args[vi])
				if root != assert {
					return "the value written is not the asserted argument"
				}
				if min < w {
					return "Encode: a conversion narrows the value below the width of " + T.String()
				}
				// Decode: getLE(b, size) narrowed to T
				for _, ret := range returnsOf(dec) {
					if len(ret.Results) != 2 {
						return "Decode does not return (int, interface{})"
					}
					mi, ok := ret.Results[1].(*ssa.MakeInterface)
					if !ok || !types.Identical(mi.X.Type(), T) {
						return "Decode does not box a " + T.String()
					}
					r2, min2 := convChainMin(mi.X)
					gc, ok := r2.(*ssa.Call)
					if !ok {
						return "Decode does not read with the little-endian helper"
					}
					gk, _, gsi := leLoopKind(p, calleeOf(gc))
					if gk != "get" {
						return "Decode reads with " + funcID(calleeOf(gc)) + ", want the little-endian loop helper"
					}
					if k, isK := constInt(gc.Call.Args[gsi]); !isK || k != w {
						return fmt.Sprintf("Decode reads a different number of bytes than Encode writes (%d)", w)
					}
					if min2 < w {
						return "Decode: a conversion narrows the value below the width of " + T.String()
					}
				}
				return ""
			}
			return "Encode does not call binary PutUintN / AppendUintN"
		}
		if !isLittleEndianCall(put, "PutUint"+n) && !isLittleEndianCall(put, "AppendUint"+n) {
			return "Encode writes with " + funcID(calleeOf(put)) + ", want (binary.littleEndian).PutUint" + n + " or AppendUint" + n
		}
		root, ok, why := convChain(put.Call.Args[2])
		if viaParam != nil {
			// chain inside the helper down to its parameter, then the caller's chain down to the assertion
			if root != ssa.Value(viaParam) {
				return "the value written by the helper is not its parameter"
			}
			if !ok {
				return "Encode: " + why
			}
			root, ok, why = convChain(viaArg)
		}
		if root != assert {
			return "the value written is not the asserted argument"
		}
		if !ok {
			return "Encode: " + why
		}
	}
	// Decode
	for _, ret := range returnsOf(dec) {
		if len(ret.Results) != 2 {
			return "Decode does not return (int, interface{})"
		}
		mi, ok := ret.Results[1].(*ssa.MakeInterface)
		if !ok || !types.Identical(mi.X.Type(), T) {
			return "Decode does not box a " + T.String()
		}
		root, okc, why := convChain(mi.X)
		if !okc {
			return "Decode: " + why + " (values that do not survive the detour decode wrongly)"
		}
		if w == 1 {
			// int8(b[0])
			ld, isLd := deref(root)
			ia, isIA := ld.(*ssa.IndexAddr)
			if !isLd || !isIA {
				return "Decode does not read b[0]"
			}
			if k, ok := constInt(ia.Index); !ok || k != 0 {
				return "Decode does not read b[0]"
			}
		} else {
			call, ok := root.(*ssa.Call)
			// the read may sit in a helper of package encode: look through its single return
			if ok && !isLittleEndianCall(call, "Uint"+n) {
				if h := calleeOf(call); h != nil && pkgPathOf(h) == encPath && len(h.Blocks) > 0 {
					if rets := returnsOf(h); len(rets) == 1 && len(rets[0].Results) == 1 {
						r2, ok2, why2 := convChain(rets[0].Results[0])
						if !ok2 {
							return "Decode: " + why2 + " (in " + shortFn(h) + ")"
						}
						if c2, isC := r2.(*ssa.Call); isC {
							call = c2
						}
					}
				}
			}
			if !ok || !isLittleEndianCall(call, "Uint"+n) {
				got := "a non-call"
				if ok {
					got = funcID(calleeOf(call))
				}
				return "Decode reads with " + got + ", want (binary.littleEndian).Uint" + n
			}
		}
	}
	return ""
}

// nativeIntBijection: on the branch live for this platform's int size the
// codec uses Put/Get of that width with width-preserving conversions.
func nativeIntBijection(p *Program, enc, dec *ssa.Function) string {
	w := p.Sizes.Sizeof(types.Typ[types.Int])
	n := fmt.Sprint(8 * w)
	hasPut, hasGet := false, false
	why := ""
	for _, c := range callsIn(enc) {
		if call, ok := c.(*ssa.Call); ok && (isLittleEndianCall(call, "PutUint"+n) || isLittleEndianCall(call, "AppendUint"+n)) {
			hasPut = true
			if _, ok, y := convChain(call.Call.Args[2]); !ok {
				why = "Encode: " + y
			}
		}
	}
	for _, c := range callsIn(dec) {
		if call, ok := c.(*ssa.Call); ok && isLittleEndianCall(call, "Uint"+n) {
			hasGet = true
			for _, ref := range *call.Referrers() {
				if cv, ok := ref.(*ssa.Convert); ok && intBytes(cv.Type()) != w {
					why = "Decode narrows the " + n + "-bit value"
				}
			}
		}
	}
	if !hasPut || !hasGet {
		return "no LittleEndian Put/Get of the native width " + n
	}
	return why
}

// typeEncoderDelegates: every return of f is dominated by a call of the given
// encoding/binary function whose byte-order argument is loaded from the
// receiver's Endian field; no other return path exists (panics excepted).
func typeEncoderDelegates(p *Program, f *ssa.Function, id string) string {
	var call *ssa.Call
	for _, c := range callsIn(f) {
		if x, ok := c.(*ssa.Call); ok && calleeIs(x, id) {
			call = x
		}
	}
	if call == nil {
		return "does not call " + id
	}
	ord := call.Call.Args[1]
	ld, ok := deref(ord)
	if !ok {
		return "byte order passed to " + id + " is not the receiver's Endian field"
	}
	if _, fv, fa := fieldOfAddr(ld); fa == nil || fv.Name() != "Endian" {
		return "byte order passed to " + id + " is not the receiver's Endian field"
	}
	for _, ret := range returnsOf(f) {
		if !instrDominates(call, ret) {
			return "a return at " + p.Pos(ret.Pos()) + " is not preceded by " + id + " (value produced without encoding/binary)"
		}
	}
	return ""
}

func init() { checks["C15"] = checkC15 }

// typeEncoderCtor: every non-nil encoder the constructor returns is allocated
// by this call — directly, or by a constructor of this package it delegates to
// with the byte order passed on — and its Endian field is the requested order.
func typeEncoderCtor(p *Program, ctor *ssa.Function) string {
	idx := -1
	for i, prm := range ctor.Params {
		if isNamed(prm.Type(), "encoding/binary", "ByteOrder") {
			idx = i
		}
	}
	if idx < 0 {
		return "no byte-order parameter"
	}
	return typeEncoderCtorRec(p, ctor, idx, map[*ssa.Function]bool{})
}

func typeEncoderCtorRec(p *Program, ctor *ssa.Function, endianIdx int, active map[*ssa.Function]bool) string {
	if active[ctor] || len(active) > 4 {
		return "constructor delegation of " + shortFn(ctor) + " does not end in an allocation"
	}
	active[ctor] = true
	defer delete(active, ctor)
	endianParam := ctor.Params[endianIdx]
	var fromParam func(v ssa.Value, seen map[ssa.Value]bool) bool
	fromParam = func(v ssa.Value, seen map[ssa.Value]bool) bool {
		if seen[v] {
			return false
		}
		seen[v] = true
		if v == endianParam {
			return true
		}
		if ph, ok := v.(*ssa.Phi); ok {
			for _, e := range ph.Edges {
				if fromParam(e, seen) {
					return true
				}
			}
		}
		return false
	}
	n := 0
	for _, ret := range returnsOf(ctor) {
		if len(ret.Results) == 0 || isNilConst(ret.Results[0]) {
			continue
		}
		n++
		v := ret.Results[0]
		if ex, ok := v.(*ssa.Extract); ok && ex.Index == 0 {
			v = ex.Tuple
		}
		if call, ok := v.(*ssa.Call); ok {
			g := calleeOf(call)
			if g == nil || pkgPathOf(g) != encPath || len(g.Blocks) == 0 {
				return "the encoder returned at " + p.Pos(ret.Pos()) + " comes from a call this rule cannot follow"
			}
			j := -1
			for ai, a := range call.Call.Args {
				if ai < len(g.Params) && isNamed(g.Params[ai].Type(), "encoding/binary", "ByteOrder") {
					if c, isC := a.(*ssa.Const); isC && c.IsNil() {
						// nil means "default order" in the callee exactly when it does here: only acceptable
						// if this constructor has no order of its own to pass on
						return "the requested byte order is not passed on to " + shortFn(g)
					}
					if fromParam(a, map[ssa.Value]bool{}) {
						j = ai
					}
				}
			}
			if j < 0 {
				return "the requested byte order is not passed on to " + shortFn(g)
			}
			if why := typeEncoderCtorRec(p, g, j, active); why != "" {
				return why
			}
			continue
		}
		al, ok := v.(*ssa.Alloc)
		if !ok {
			return "the encoder returned at " + p.Pos(ret.Pos()) + " is not allocated by this call (shared/cached object: its byte order is whatever an earlier caller asked for)"
		}
		okEndian := false
		for _, ref := range *al.Referrers() {
			if fa, ok := ref.(*ssa.FieldAddr); ok {
				_, fv, _ := fieldOfAddr(fa)
				if fv.Name() != "Endian" {
					continue
				}
				for _, r2 := range *fa.Referrers() {
					if st, ok := r2.(*ssa.Store); ok && fromParam(st.Val, map[ssa.Value]bool{}) {
						okEndian = true
					}
				}
			}
		}
		if !okEndian {
			return "the Endian field of the returned encoder is not the requested byte order"
		}
	}
	if n == 0 {
		return "no encoder is returned"
	}
	return ""
}

// typeEncoderSizeProvenance: the Size field of a TypeEncoder is what
// encoding/binary writes for the type. An in-memory size ((reflect.Type).Size,
// which counts alignment padding) must not reach it for a kind that can have
// padding (struct, array). Returns the sources found and a reason when violated.
func typeEncoderSizeProvenance(p *Program) (sources []string, sites int, why string) {
	reflectPkg := p.Prog.ImportedPackage("reflect")
	kindConst := func(name string) int64 {
		if reflectPkg == nil {
			return -1
		}
		if c, ok := reflectPkg.Pkg.Scope().Lookup(name).(*types.Const); ok {
			if v, ok := constant.Int64Val(c.Val()); ok {
				return v
			}
		}
		return -1
	}
	kStruct, kArray := kindConst("Struct"), kindConst("Array")
	srcSet := map[string]bool{}
	seen := map[ssa.Value]bool{}
	var trace func(v ssa.Value, d int)
	trace = func(v ssa.Value, d int) {
		if v == nil || seen[v] || d > 12 {
			return
		}
		seen[v] = true
		switch x := v.(type) {
		case *ssa.Const:
		case *ssa.Convert:
			trace(x.X, d+1)
		case *ssa.ChangeType:
			trace(x.X, d+1)
		case *ssa.BinOp:
			trace(x.X, d+1)
			trace(x.Y, d+1)
		case *ssa.Phi:
			for _, e := range x.Edges {
				trace(e, d+1)
			}
		case *ssa.Extract:
			trace(x.Tuple, d+1)
		case *ssa.UnOp:
			if x.Op == token.MUL {
				// a load: follow the stores to the same field of the same object (local construction)
				if _, fv, fa := fieldOfAddr(x.X); fa != nil {
					srcSet["field "+fv.Name()] = true
				} else {
					srcSet["load"] = true
				}
			} else {
				trace(x.X, d+1)
			}
		case *ssa.Parameter:
			// callers within the package
			fn := x.Parent()
			pi := -1
			for i, prm := range fn.Params {
				if prm == x {
					pi = i
				}
			}
			found := false
			for _, g := range p.FuncsOf(encPath) {
				for _, c := range callsIn(g) {
					if calleeOf(c) == fn && pi < len(c.Common().Args) {
						found = true
						trace(c.Common().Args[pi], d+1)
					}
				}
			}
			if !found {
				srcSet["parameter "+x.Name()+" of "+shortFn(fn)] = true
			}
		case *ssa.Call:
			if x.Call.IsInvoke() {
				id := "invoke " + x.Call.Method.FullName()
				srcSet[id] = true
				if x.Call.Method.Name() == "Size" && isNamed(x.Call.Value.Type(), "reflect", "Type") {
					kinds := kindsAt(x.Parent(), x.Call.Value, x.Block())
					if kinds == nil || kinds[kStruct] || kinds[kArray] {
						why = fmt.Sprintf("%s: (reflect.Type).Size — the in-memory size, padding included — reaches TypeEncoder.Size for a type that may be a struct or an array, while Encode writes the packed encoding/binary form: GetSize/GetEncodedSize/Decode's count exceed len(Encode(v)) for a padded struct", p.Pos(x.Pos()))
					}
				}
				return
			}
			g := calleeOf(x)
			if g == nil {
				srcSet["dynamic call"] = true
				return
			}
			if pkgPathOf(g) == encPath && len(g.Blocks) > 0 {
				for _, ret := range returnsOf(g) {
					for _, res := range ret.Results {
						if isIntType(res.Type()) {
							trace(res, d+1)
						}
					}
				}
				return
			}
			srcSet[funcID(g)] = true
		default:
			srcSet[fmt.Sprintf("%T", v)] = true
		}
	}
	for _, f := range p.FuncsOf(encPath) {
		instrsOf(f, func(_ *ssa.BasicBlock, in ssa.Instruction) {
			st, ok := in.(*ssa.Store)
			if !ok {
				return
			}
			sT, fv, fa := fieldOfAddr(st.Addr)
			if fa == nil || fv.Name() != "Size" || sT == nil {
				return
			}
			if n := namedOf(fa.X.Type()); n == nil || n.Obj().Name() != "TypeEncoder" {
				return
			}
			sites++
			trace(st.Val, 0)
		})
	}
	return sortedKeys(srcSet), sites, why
}

// kindsAt: the set of reflect.Kind values the type value t can have when
// control reaches block target of fn, from the equality tests on t.Kind()
// along the way (switch lowering included). nil when fn has no such test.
func kindsAt(fn *ssa.Function, t ssa.Value, target *ssa.BasicBlock) map[int64]bool {
	kindVals := map[ssa.Value]bool{}
	instrsOf(fn, func(_ *ssa.BasicBlock, in ssa.Instruction) {
		if c, ok := in.(*ssa.Call); ok && c.Call.IsInvoke() && c.Call.Method.Name() == "Kind" && c.Call.Value == t {
			kindVals[c] = true
		}
	})
	if len(kindVals) == 0 {
		return nil
	}
	const nKinds = 32
	all := func() map[int64]bool {
		m := map[int64]bool{}
		for i := int64(0); i < nKinds; i++ {
			m[i] = true
		}
		return m
	}
	in := map[*ssa.BasicBlock]map[int64]bool{fn.Blocks[0]: all()}
	work := []*ssa.BasicBlock{fn.Blocks[0]}
	for len(work) > 0 {
		b := work[0]
		work = work[1:]
		cur := in[b]
		for si, s := range b.Succs {
			out := cur
			if iff, ok := lastInstr(b).(*ssa.If); ok {
				if bo, ok := iff.Cond.(*ssa.BinOp); ok && (bo.Op == token.EQL || bo.Op == token.NEQ) {
					var k int64
					okK := false
					if kindVals[bo.X] {
						k, okK = constInt(bo.Y)
					} else if kindVals[bo.Y] {
						k, okK = constInt(bo.X)
					}
					if okK {
						eqEdge := (bo.Op == token.EQL) == (si == 0)
						out = map[int64]bool{}
						for v := range cur {
							if (v == k) == eqEdge {
								out[v] = true
							}
						}
					}
				}
			}
			dst := in[s]
			changed := false
			if dst == nil {
				dst = map[int64]bool{}
				in[s] = dst
				changed = true
			}
			for v := range out {
				if !dst[v] {
					dst[v] = true
					changed = true
				}
			}
			if changed {
				work = append(work, s)
			}
		}
	}
	if in[target] == nil {
		return map[int64]bool{}
	}
	return in[target]
}

// splitCond splits a canonical condition "(A op B)" at its top-level operator.
func splitCond(s string) (a, op, b string, ok bool) {
	if len(s) < 2 || s[0] != '(' || s[len(s)-1] != ')' {
		return
	}
	s = s[1 : len(s)-1]
	depth := 0
	for i := 0; i < len(s); i++ {
		switch s[i] {
		case '(':
			depth++
		case ')':
			depth--
		case ' ':
			if depth != 0 {
				continue
			}
			for _, o := range []string{" <= ", " < ", " == ", " != "} {
				if strings.HasPrefix(s[i:], o) {
					return s[:i], strings.TrimSpace(o), s[i+len(o):], true
				}
			}
		}
	}
	return
}

// panicsInDomain: a panicking path of an encoder method all of whose
// conditions are comparisons of the subject (the value, or its length) with
// constants, and whose feasible interval meets the domain [lo,hi]. Paths with
// a condition this rule cannot read are not judged (returned in unread).
func panicsInDomain(ps []fpath, subject func(string) bool, lo, hi int64) (bad []string, unread int) {
	for _, fp := range ps {
		if !fp.panics {
			continue
		}
		l, h := lo, hi
		readable := true
		for _, c := range fp.pc {
			a, op, b, ok := splitCond(c)
			if !ok {
				readable = false
				break
			}
			var k int64
			subjLeft := false
			if subject(a) {
				if _, err := fmt.Sscan(b, &k); err != nil || !isAllDigits(b) {
					readable = false
					break
				}
				subjLeft = true
			} else if subject(b) {
				if _, err := fmt.Sscan(a, &k); err != nil || !isAllDigits(a) {
					readable = false
					break
				}
			} else {
				readable = false
				break
			}
			switch {
			case op == "<" && subjLeft: // x < k
				if k-1 < h {
					h = k - 1
				}
			case op == "<=" && subjLeft:
				if k < h {
					h = k
				}
			case op == "<" && !subjLeft: // k < x
				if k+1 > l {
					l = k + 1
				}
			case op == "<=" && !subjLeft:
				if k > l {
					l = k
				}
			case op == "==":
				if k > l {
					l = k
				}
				if k < h {
					h = k
				}
			case op == "!=":
				// removes one point: the interval stays non-empty unless it is that point
				if l == h && l == k {
					h = l - 1
				}
			}
		}
		if !readable {
			unread++
			continue
		}
		if l <= h {
			bad = append(bad, fmt.Sprintf("panics when [%s], i.e. for values %d..%d of the domain %d..%d", fp.pcKey(), l, h, lo, hi))
		}
	}
	return
}

func isAllDigits(s string) bool {
	if s == "" {
		return false
	}
	for i, c := range s {
		if c == '-' && i == 0 && len(s) > 1 {
			continue
		}
		if c < '0' || c > '9' {
			return false
		}
	}
	return true
}

// checkEncoderTotal: the codec does not refuse a value of its domain. The
// domain of the integer codecs is the whole type, of String16 the strings of
// 0..65535 bytes. Explicit panics are read off the guarded summaries; a panic
// under conditions that are all constant comparisons of the value (or of its
// length) and that a domain value satisfies is a violation.
func checkEncoderTotal(p *Program, r *Report, name string, boxed types.Type, enc, dec, gs, ges *ssa.Function) {
	lo, hi := int64(0), int64(0)
	var subject func(string) bool
	switch {
	case name == "String16":
		lo, hi = 0, 65535
		subject = func(s string) bool { return s == "len(assert:string(d))" }
	case name == "Bytes" || name == "Dummy":
		return
	default:
		b, ok := boxed.(*types.Basic)
		if !ok || b.Info()&types.IsInteger == 0 {
			return
		}
		w := uint(8 * p.Sizes.Sizeof(b))
		if b.Info()&types.IsUnsigned != 0 {
			lo = 0
			if w >= 63 {
				hi = 1<<62 - 1 + 1<<62
			} else {
				hi = 1<<w - 1
			}
		} else {
			lo, hi = -(1 << (w - 1)), 1<<(w-1)-1
		}
		want := "assert:" + b.String() + "(d)"
		subject = func(s string) bool { return s == want }
	}
	inEnc := func(g *ssa.Function) bool { return pkgPathOf(g) == encPath }
	for _, f := range []*ssa.Function{enc, gs} {
		construct := shortFn(f) + " accepts its whole domain"
		ps, why := flatten(p, f, nil, inEnc)
		if why != "" {
			r.Note("%s: not summarised (%s), explicit panics not judged", shortFn(f), why)
			r.OK(construct, p.Pos(f.Pos()), "no guarded summary; nothing judged")
			continue
		}
		bad, unread := panicsInDomain(ps, subject, lo, hi)
		np := 0
		for _, fp := range ps {
			if fp.panics {
				np++
			}
		}
		r.Check(len(bad) == 0, construct, p.Pos(f.Pos()), fmt.Sprintf("%d explicit panic path(s), %d under conditions this rule does not read, none on a domain value", np, unread), strings.Join(bad, "; "))
	}
	_ = dec
	_ = ges
}

// liveBlocks: blocks reachable from the entry when branches on comparisons of
// two constants are followed on the side the comparison takes.
func liveBlocks(f *ssa.Function) map[*ssa.BasicBlock]bool {
	live := map[*ssa.BasicBlock]bool{}
	var walk func(b *ssa.BasicBlock)
	walk = func(b *ssa.BasicBlock) {
		if live[b] {
			return
		}
		live[b] = true
		if iff, ok := lastInstr(b).(*ssa.If); ok {
			if bo, ok := iff.Cond.(*ssa.BinOp); ok {
				x, okx := constInt(bo.X)
				y, oky := constInt(bo.Y)
				if okx && oky {
					var v, known bool
					known = true
					switch bo.Op {
					case token.EQL:
						v = x == y
					case token.NEQ:
						v = x != y
					case token.LSS:
						v = x < y
					case token.LEQ:
						v = x <= y
					case token.GTR:
						v = x > y
					case token.GEQ:
						v = x >= y
					default:
						known = false
					}
					if known {
						if v {
							walk(b.Succs[0])
						} else {
							walk(b.Succs[1])
						}
						return
					}
				}
			}
		}
		for _, s := range b.Succs {
			walk(s)
		}
	}
	if len(f.Blocks) > 0 {
		walk(f.Blocks[0])
	}
	return live
}
