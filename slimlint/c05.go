package main

import (
	"fmt"
	"go/token"
	"go/types"
	"sort"
	"strings"

	"golang.org/x/tools/go/ssa"
)

func checkC05(p *Program, r *Report) {
	r.Explanation = "Decided clauses: (determinism, necessary conditions) every range over a map reachable from NewSlimTrie/Marshal/String only collects into a slice that is sorted before any other use, the sort comparator of a slice filled from a map reads the field that holds the (unique) map key, so ties cannot be ordered by map iteration; no math/rand, time, goroutine, select or %p on those paths; no map-typed field in the wire structs; (residue) for every compatible version, on every success path of the version-specialised Unmarshal every non-configuration field of SlimTrie is stored before any load that could observe its previous value, and the derived fields are computed after the last write into the message; Reset stores every such field; (size) *SlimTrie implements Marshal and not XXX_Size, so proto.Size is len(Marshal()) in protobuf 1.3.1; (self-compat) the version Marshal stamps is in the reader's compatible list and is routed to the no-fix-up loader."
	r.NotCovered = "That a loaded trie answers identically (protobuf's behaviour on runtime data); byte-identity of re-marshalling beyond the determinism conditions."
	r.Trusted = []string{"go/ssa", "blang/semver on constants", "golang/protobuf 1.3.1 proto.Size contract for Marshaler types"}

	detRoots := []*ssa.Function{p.Trie.Func("NewSlimTrie"), p.Method(p.Trie, "SlimTrie", "Marshal"), p.Method(p.Trie, "SlimTrie", "String")}
	for i, f := range detRoots {
		if f == nil {
			r.Rule("C05.anchors", "anchors", "entry points resolve", 3)
			r.Unk([]string{"trie.NewSlimTrie", "(*SlimTrie).Marshal", "(*SlimTrie).String"}[i], "", "anchor not found")
			return
		}
	}
	reach := trieReach(detRoots...)
	// interface implementations used by tree.String (slimTrieStringly methods)
	for _, f := range p.FuncsOf(triePath) {
		if f.Signature.Recv() != nil && isNamed(f.Signature.Recv().Type(), triePath, "slimTrieStringly") {
			for g := range trieReach(f) {
				reach[g] = true
			}
		}
	}
	var fs []*ssa.Function
	for f := range reach {
		if inSlim(f) && !strings.HasSuffix(p.File(f.Pos()), ".pb.go") {
			fs = append(fs, f)
			r.Func(shortFn(f))
		}
	}
	sort.Slice(fs, func(i, j int) bool { return fs[i].String() < fs[j].String() })

	// ---- (i)+(ii) map ranges
	r.Rule("C05.determinism.maprange", "E10", "map iteration order cannot leak: collect-then-sort with a comparator that reads the key", 0)
	nRange := 0
	for _, f := range fs {
		instrsOf(f, func(_ *ssa.BasicBlock, in ssa.Instruction) {
			rg, ok := in.(*ssa.Range)
			if !ok {
				return
			}
			if _, isMap := rg.X.Type().Underlying().(*types.Map); !isMap {
				return
			}
			nRange++
			construct := fmt.Sprintf("range over map #%d in %s", nRange, shortFn(f))
			why, good := mapRangeDiscipline(p, f, rg)
			r.Check(why == "", construct, p.Pos(rg.Pos()), good, why)
		})
	}
	if nRange == 0 {
		r.Note("no range over a map on the build/marshal/render paths")
	}

	// ---- (iii) nondeterminism sources
	r.Rule("C05.determinism.sources", "E10", "no random, clock, goroutine, select or %p on build/marshal/render paths", 1)
	var srcs []string
	for _, f := range fs {
		instrsOf(f, func(_ *ssa.BasicBlock, in ssa.Instruction) {
			switch x := in.(type) {
			case *ssa.Go:
				srcs = append(srcs, p.Pos(x.Pos())+": go statement in "+shortFn(f))
			case *ssa.Select:
				srcs = append(srcs, p.Pos(x.Pos())+": select in "+shortFn(f))
			case ssa.CallInstruction:
				if g := calleeOf(x); g != nil {
					pp := pkgPathOf(g)
					if pp == "math/rand" || pp == "math/rand/v2" || pp == "crypto/rand" || (pp == "time" && (g.Name() == "Now" || g.Name() == "Since")) {
						srcs = append(srcs, p.Pos(x.Pos())+": call of "+funcID(g)+" in "+shortFn(f))
					}
					if pp == "fmt" {
						for _, a := range x.Common().Args {
							if s, ok := constString(a); ok && strings.Contains(s, "%p") {
								srcs = append(srcs, p.Pos(x.Pos())+": %p formatting in "+shortFn(f))
							}
						}
					}
				}
			}
		})
	}
	sort.Strings(srcs)
	r.Check(len(srcs) == 0, "nondeterminism sources on build/marshal/render paths", "", fmt.Sprintf("%d functions scanned, none found", len(fs)), strings.Join(firstN(srcs, 5), "; "))

	// ---- (iv) wire structs
	r.Rule("C05.determinism.wire", "types", "no map-typed field in a wire struct (protobuf marshals maps in random order)", 4)
	for _, wt := range []struct {
		pkg  *ssa.Package
		name string
	}{{p.Trie, "Slim"}, {p.Trie, "Bitmap"}, {p.Trie, "VLenArray"}, {p.Array, "Array32"}, {p.Array, "Bits"}} {
		n := p.NamedType(wt.pkg, wt.name)
		if n == nil {
			r.Unk("wire struct "+wt.name, "", "type not found")
			continue
		}
		st, ok := n.Underlying().(*types.Struct)
		if !ok {
			r.Unk("wire struct "+wt.name, "", "not a struct")
			continue
		}
		var maps []string
		for i := 0; i < st.NumFields(); i++ {
			if _, isMap := st.Field(i).Type().Underlying().(*types.Map); isMap {
				maps = append(maps, st.Field(i).Name())
			}
		}
		r.Check(len(maps) == 0, "wire struct "+wt.name, p.Pos(n.Obj().Pos()), fmt.Sprintf("%d fields, no map", st.NumFields()), "map-typed field(s) "+strings.Join(maps, ","))
	}

	// ---- size
	r.Rule("C05.size", "types", "proto.Size(*SlimTrie) = len(Marshal())", 1)
	stN := p.NamedType(p.Trie, "SlimTrie")
	if stN == nil {
		r.Unk("*trie.SlimTrie method set", "", "type not found")
	} else {
		ms := p.Prog.MethodSets.MethodSet(types.NewPointer(stN))
		hasMarshal, hasXXX := false, false
		for i := 0; i < ms.Len(); i++ {
			switch ms.At(i).Obj().Name() {
			case "Marshal":
				sig := ms.At(i).Type().(*types.Signature)
				hasMarshal = sig.Params().Len() == 0 && sig.Results().Len() == 2 && isByteSlice(sig.Results().At(0).Type()) && isErrorType(sig.Results().At(1).Type())
			case "XXX_Size", "XXX_Marshal":
				hasXXX = true
			}
		}
		r.Check(hasMarshal && !hasXXX, "*trie.SlimTrie method set", p.Pos(stN.Obj().Pos()), "implements Marshal() ([]byte, error) and no XXX_Size: proto.Size calls Marshal and takes the length",
			"*SlimTrie no longer is a plain proto.Marshaler (Marshal missing or XXX_Size/XXX_Marshal present): the advertised size is computed differently from the bytes written")
	}

	// ---- a loaded trie's bitmaps carry the index kinds the readers assume (shared with C01.kind):
	// the kind engine covers every site that builds or re-builds an index, including load-time fix-ups
	checkKindsAs(p, r, "C05.kind")
	checkNilEmpty(p, r, "C05.nil-empty")

	// ---- self-compat and residue
	vt := buildVersTable(p)
	r.Rule("C05.selfcompat", "E4", "the version Marshal stamps is loadable by the no-fix-up loader", 1)
	if !vtProblems(vt, r) {
		in, _ := semverCheck(vt.current, vt.ve.compat)
		fam := familyOf(vt.current)
		succ := successPaths(vt.pathsOf(vt.current))
		clean := len(succ) > 0
		for _, sp := range succ {
			if sp.has("fixup", "") || sp.has("build", "") {
				clean = false
			}
		}
		// Marshal writes the message through pbcmpl.Marshal, which stamps GetVersion()
		stamps := false
		if m := p.Method(p.Trie, "SlimTrie", "Marshal"); m != nil {
			for _, c := range callsIn(m) {
				if calleeIs(c, idPbMarshal) {
					stamps = true
				}
			}
		}
		r.Check(in && fam == "C" && clean && stamps, "current version "+vt.current, p.Pos(vt.ve.un.Pos()), "stamped by pbcmpl.Marshal via (*Slim).GetVersion, admitted by the compatible list, loaded without fix-up",
			fmt.Sprintf("admitted=%v family=%s success-paths-without-fixup=%v marshal-uses-pbcmpl=%v", in, fam, clean, stamps))
	}

	r.Rule("C05.residue", "E5 on E4", "Unmarshal and Reset replace every non-configuration field before it can be observed", 4)
	if len(vt.problems) == 0 && stN != nil {
		st := stN.Underlying().(*types.Struct)
		reset := p.Method(p.Trie, "SlimTrie", "Reset")
		stored := map[string]bool{}
		for k := range vt.ve.effects(vt.ve.un).stStores {
			stored[k] = true
		}
		if reset != nil {
			for k := range vt.ve.effects(reset).stStores {
				stored[k] = true
			}
		}
		// fields that any function of the package stores a computed value into are state too (a bound
		// recorded by NewSlimTrie describes the keys it was built from, not the instance); a field that is
		// only ever given a parameter (the encoder) is configuration
		for k := range computedStateFields(p, stN) {
			stored[k] = true
		}
		var fields, config []string
		for i := 0; i < st.NumFields(); i++ {
			n := st.Field(i).Name()
			if stored[n] {
				fields = append(fields, n)
			} else {
				config = append(config, n)
			}
		}
		r.Note("state fields %v; configuration fields (never stored by Unmarshal/Reset) %v", fields, config)
		// a field that is state for some loader but never touched by Reset/other versions shows up below
		un := vt.ve.un
		for _, ver := range vt.compatVer {
			re := newResEngine(vt.ve, ver)
			fr := &vframe{fn: un, verVals: map[ssa.Value]bool{}, stVals: map[ssa.Value]bool{un.Params[0]: true}}
			markVersionValues(un, fr.verVals)
			sum := re.summarize(fr, true, fields)
			for _, f := range fields {
				construct := fmt.Sprintf("Unmarshal(version %s) replaces st.%s", ver, f)
				switch {
				case sum.rets == 0:
					r.Unk(construct, p.Pos(un.Pos()), "no success return found")
				case !sum.must[f]:
					r.Bad(construct, p.Pos(un.Pos()), "some success path does not store st."+f+": it keeps the value of an earlier load (residue)")
				case len(sum.early[f]) > 0:
					r.Bad(construct, p.Pos(sum.early[f][0]), "st."+f+" is read at "+p.Pos(sum.early[f][0])+" before it is replaced: the previous contents can influence the loaded trie")
				default:
					r.OK(construct, p.Pos(un.Pos()), "stored on every success path before any load")
				}
			}
		}
		if reset == nil {
			r.Unk("(*trie.SlimTrie).Reset", "", "anchor not found")
		} else {
			re := newResEngine(vt.ve, "")
			fr := &vframe{fn: reset, verVals: map[ssa.Value]bool{}, stVals: map[ssa.Value]bool{reset.Params[0]: true}}
			sum := re.summarize(fr, false, fields)
			for _, f := range fields {
				construct := "Reset replaces st." + f
				switch {
				case !sum.must[f]:
					r.Bad(construct, p.Pos(reset.Pos()), "Reset does not store st."+f+" on every path")
				case len(sum.early[f]) > 0:
					r.Bad(construct, p.Pos(sum.early[f][0]), "Reset reads st."+f+" before replacing it")
				default:
					r.OK(construct, p.Pos(reset.Pos()), "stored on every path")
				}
			}
		}
	}
	// ---- the stream Marshal returns is the caller's alone (shared with C20.marshal): a stream that
	// lives in pooled or retained memory is overwritten by the next Marshal before it is loaded
	c20MarshalAs(p, r, "C05.stream-fresh")
	// ---- same input, same bytes, whatever was built before
	checkBuildStateless(p, r, "C05.build-stateless")
	// "answers every query of every kind ... statistics identically": what Stat reports is a function of
	// the loaded message alone (rules shared with C18)
	r.Explanation += " (stat) Stat maps its report from the level table that both NewSlimTrie and Unmarshal derive from the message in the same way (rules shared with C18)."
	borrowRule(p, r, checkC18, "C18.mapping", "C05.stat-mapping")
	borrowRule(p, r, checkC18, "C18.identity", "C05.stat-identity")
}

// mapRangeDiscipline checks one range-over-map loop. Returns ("", description)
// if order-insensitive, else the reason.
func mapRangeDiscipline(p *Program, f *ssa.Function, rg *ssa.Range) (string, string) {
	// the Next instruction and the loop body
	var next *ssa.Next
	for _, ref := range *rg.Referrers() {
		if n, ok := ref.(*ssa.Next); ok {
			next = n
		}
	}
	if next == nil {
		return "range without next", ""
	}
	header := next.Block()
	iff, ok := lastInstr(header).(*ssa.If)
	if !ok {
		return "unrecognised loop shape", ""
	}
	bodyEntry, exit := header.Succs[0], header.Succs[1]
	_ = iff
	body := reachableFrom(bodyEntry, func(b *ssa.BasicBlock) bool { return b == header })
	delete(body, header)
	var keyVal ssa.Value
	for _, ref := range *next.Referrers() {
		if ex, ok := ref.(*ssa.Extract); ok && ex.Index == 1 {
			keyVal = ex
		}
	}
	// collect appended slices (loop-carried through a phi, or through a local cell
	// when the variable is captured by a closure); reject other effects
	type sliceVar struct {
		phi  *ssa.Phi
		cell *ssa.Alloc
		pos  token.Pos
	}
	var slices []sliceVar
	addSlice := func(sv sliceVar) {
		for _, x := range slices {
			if x.phi == sv.phi && x.cell == sv.cell {
				return
			}
		}
		slices = append(slices, sv)
	}
	keyField := -1
	for b := range body {
		for _, in := range b.Instrs {
			switch x := in.(type) {
			case *ssa.Store:
				// stores into a local composite (the element being built) are fine
				if _, _, fa := fieldOfAddr(x.Addr); fa != nil {
					if x.Val == keyVal {
						keyField = fa.Field
					}
					if _, isAlloc := fa.X.(*ssa.Alloc); isAlloc {
						continue
					}
				}
				if ia, ok := x.Addr.(*ssa.IndexAddr); ok {
					if _, isAlloc := ia.X.(*ssa.Alloc); isAlloc {
						continue // varargs array
					}
				}
				if _, isAlloc := x.Addr.(*ssa.Alloc); isAlloc {
					continue
				}
				return "the loop body stores to " + x.Addr.String() + " at " + p.Pos(x.Pos()) + " (order-dependent effect)", ""
			case *ssa.MapUpdate:
				// map writes keyed by the iteration key commute
				if x.Key != keyVal {
					return "the loop body updates a map with a key other than the iteration key at " + p.Pos(x.Pos()), ""
				}
			case *ssa.Call:
				if bi, ok := x.Call.Value.(*ssa.Builtin); ok {
					if bi.Name() == "append" {
						if ph, ok := x.Call.Args[0].(*ssa.Phi); ok && ph.Block() == header {
							addSlice(sliceVar{phi: ph, pos: x.Pos()})
						} else if ld, ok := deref(x.Call.Args[0]); ok {
							if al, ok := ld.(*ssa.Alloc); ok {
								addSlice(sliceVar{cell: al, pos: x.Pos()})
							} else {
								return "append to a slice that is not a local variable at " + p.Pos(x.Pos()), ""
							}
						} else {
							return "append to a slice that is not loop-carried at " + p.Pos(x.Pos()), ""
						}
					}
					continue
				}
				return "the loop body calls " + x.Call.Value.String() + " at " + p.Pos(x.Pos()) + " (possible order-dependent effect)", ""
			case *ssa.Return, *ssa.Panic:
				return "the loop body leaves the function at " + p.Pos(x.Pos()) + " (first-match on map order)", ""
			}
		}
	}
	if len(slices) == 0 {
		return "", "loop body has no order-dependent effect"
	}
	// each collected slice must be sorted before any other use after the loop
	for _, sv := range slices {
		// value-level uses of the slice outside the loop
		var uses []ssa.Instruction
		inLoop := func(in ssa.Instruction) bool { return in.Block() == header || body[in.Block()] }
		if sv.phi != nil {
			for _, ref := range *sv.phi.Referrers() {
				if !inLoop(ref) {
					uses = append(uses, ref)
				}
			}
		} else {
			for _, ref := range *sv.cell.Referrers() {
				if ld, ok := ref.(*ssa.UnOp); ok && ld.Op == token.MUL && !inLoop(ld) {
					// only loads that can execute after the loop
					if !(exit.Dominates(ld.Block()) || exit == ld.Block()) {
						continue
					}
					for _, r2 := range *ld.Referrers() {
						uses = append(uses, r2)
					}
				}
			}
		}
		var sortCall *ssa.Call
		var otherUses []ssa.Instruction
		for _, ref := range uses {
			switch x := ref.(type) {
			case *ssa.Call:
				if calleeIs(x, "sort.Strings", "sort.Ints", "sort.Float64s") {
					sortCall = x
					continue
				}
			case *ssa.MakeInterface:
				isSort := false
				for _, r2 := range *x.Referrers() {
					if c, ok := r2.(*ssa.Call); ok && calleeIs(c, "sort.Slice", "sort.SliceStable") && c.Call.Args[0] == x {
						sortCall = c
						isSort = true
					}
				}
				if isSort {
					continue
				}
			case *ssa.DebugRef:
				continue
			}
			otherUses = append(otherUses, ref)
		}
		if sortCall == nil {
			return "the slice filled from the map at " + p.Pos(sv.pos) + " is not sorted", ""
		}
		if !exit.Dominates(sortCall.Block()) && exit != sortCall.Block() {
			return "the sort is not executed after the loop on every path", ""
		}
		for _, u := range otherUses {
			if !instrDominates(sortCall, u) {
				return "the slice filled from the map is used at " + p.Pos(u.Pos()) + " before it is sorted", ""
			}
		}
		// comparator totality: sort.Slice comparator must read the key field
		if calleeIs(sortCall, "sort.Slice", "sort.SliceStable") {
			if keyVal == nil || keyField < 0 {
				return "cannot identify the element field that holds the map key", ""
			}
			mc, ok := sortCall.Call.Args[1].(*ssa.MakeClosure)
			if !ok {
				return "comparator is not a closure literal", ""
			}
			cmp := mc.Fn.(*ssa.Function)
			if !comparatorReadsField(cmp, keyField) {
				return fmt.Sprintf("the comparator at %s never compares the field holding the map key (field #%d): entries that tie on the other fields are ordered by map iteration, so two builds of equal input can differ", p.Pos(cmp.Pos()), keyField), ""
			}
		}
	}
	return "", "collects into a slice that is sorted (comparator reads the key) before any other use"
}

// comparatorReadsField: some comparison whose result reaches a return has an
// operand loaded from the given struct field.
func comparatorReadsField(cmp *ssa.Function, field int) bool {
	found := false
	instrsOf(cmp, func(_ *ssa.BasicBlock, in ssa.Instruction) {
		b, ok := in.(*ssa.BinOp)
		if !ok {
			return
		}
		switch b.Op {
		case token.LSS, token.GTR, token.LEQ, token.GEQ:
		default:
			return
		}
		for _, op := range []ssa.Value{b.X, b.Y} {
			if ld, ok := deref(op); ok {
				if _, _, fa := fieldOfAddr(ld); fa != nil && fa.Field == field {
					// result must reach a return (directly or through a phi)
					for _, ref := range *b.Referrers() {
						switch ref.(type) {
						case *ssa.Return, *ssa.Phi, *ssa.If:
							found = true
						}
					}
				}
			}
		}
	})
	return found
}

func controlC05(fx *Program, r *Report) {
	pkg := fx.FxPkg("mapleak")
	if pkg == nil {
		r.Control("C05.determinism.maprange", "fixtures/mapleak", false, "fixture package not loaded")
		return
	}
	for _, tc := range []struct {
		fn   string
		want bool
	}{{"Unsorted", true}, {"NoTieBreak", true}, {"FirstMatch", true}, {"Sorted", false}} {
		f := pkg.Func(tc.fn)
		if f == nil {
			r.Control("C05.determinism.maprange", "mapleak."+tc.fn, false, "function not found")
			continue
		}
		flagged := false
		detail := ""
		instrsOf(f, func(_ *ssa.BasicBlock, in ssa.Instruction) {
			if rg, ok := in.(*ssa.Range); ok {
				if why, _ := mapRangeDiscipline(fx, f, rg); why != "" {
					flagged = true
					detail = why
				}
			}
		})
		r.Control("C05.determinism.maprange", "mapleak."+tc.fn, flagged == tc.want, fmt.Sprintf("expected flagged=%v: %s", tc.want, detail))
	}
	if r.Prop == "C05" {
		controlNilEmpty(fx, r, "C05.nil-empty")
	}
}

func init() {
	checks["C05"] = checkC05
	controlFns["C05"] = controlC05
	controlFns["C19"] = controlC05
}

// computedStateFields: fields of SlimTrie into which some function of the package stores a computed value
// (anything but a parameter or nil): they describe the data the instance holds, not its configuration.
func computedStateFields(p *Program, stN *types.Named) map[string]bool {
	out := map[string]bool{}
	for _, f := range p.FuncsOf(triePath) {
		if f.Synthetic != "" {
			continue
		}
		instrsOf(f, func(_ *ssa.BasicBlock, in ssa.Instruction) {
			sto, ok := in.(*ssa.Store)
			if !ok {
				return
			}
			_, fv, fa := fieldOfAddr(sto.Addr)
			if fa == nil || namedOf(fa.X.Type()) != stN {
				return
			}
			if _, isPrm := stripConv(sto.Val).(*ssa.Parameter); isPrm {
				return
			}
			if c, isK := sto.Val.(*ssa.Const); isK && c.IsNil() {
				return
			}
			out[fv.Name()] = true
		})
	}
	return out
}
