// Package signext is a positive control for the sign-extension rule.
package signext

// Wrong assembles two bytes in int16 and widens the result: values with the top bit set come out negative.
func Wrong(b []byte) int32 {
	w := int16(b[0])<<8 | int16(b[1])
	return int32(w) << 2
}

// Right assembles the same bytes in the wide type.
func Right(b []byte) int32 {
	w := int32(b[0])<<8 | int32(b[1])
	return w << 2
}

// Spare assembles in int16 but cannot reach the sign bit (7 + 7 bits).
func Spare(b []byte) int32 {
	w := int16(b[0]&0x7f)<<7 | int16(b[1]&0x7f)
	return int32(w)
}
