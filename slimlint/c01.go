package main

import (
	"fmt"
	"go/token"
	"go/types"
	"regexp"
	"sort"
	"strings"

	"golang.org/x/tools/go/ssa"
)

func checkC01(p *Program, r *Report) {
	r.Explanation = "Decided necessary conditions on the agreement between the builder and the readers of the succinct encoding: (kind) for every wire bitmap the set of index kinds (r64/r128/s32) given where it is built is a singleton and equals the kind every rank/select site assumes (library calls and the hand-inlined RankIndex[i>>6]+popcount idiom; receiver-relative sites of (*VLenArray).get etc. bound at their call sites), and each query is given the words and index of one bitmap; (layout) the node-bitmap layout has one definition: every function that computes an inner node's bit range computes the same normalised terms for from/to/short-bitmap with the same guards, the derived constants are (257-17)*BigInnerCnt, ShortSize-17 and mask(ShortSize), and the builder's (label word size, bitmap size) pairs are exactly (4,17) and (8,257); (capacity) a presence bitmap whose set bits are ordinals derived from builder counters is built with a capacity that is, as a normalised term, the last ordinal plus one in the same counters — so it covers the ordinals of all elements, not just of those that have an entry (the leaf-prefix bitmap was sized by a counter that stays 0 without values); (vlen-width) the fixed-vs-variable width layout of a value array is decided by a per-element fold (a flag cleared in the element loop under size(current) != size(previous)), not from aggregates; (labelrange) the function that turns the query byte at the cursor into a label index returns, by interval evaluation over the byte type with wrap-around, exactly 0 for an exhausted key, [1,256] for 8-bit words and [1,16] for 4-bit words — so every label bit the builder can set is addressable for every byte value 0x00-0xff and nothing is sign-extended or wrapped; (bigzone) readers decode an inner node as 257-bit exactly when its ordinal is below BigInnerCnt, so every in-place rewrite of the builder's node-size/bitmap lists is confined to ordinals >= the counter published as BigInnerCnt (loop start or dominating comparison); (leaf-decoder) lookups reach leaf bytes only through the leaf array's decoder; (bitslice) by bit-provenance evaluation of the guarded summary over all 64x16 (offset mod 64, ShortSize) cases, the index into the short-node table is exactly the ShortSize bits stored at the node's offset and no word beyond the node is read."
	r.NotCovered = "That ranks select the right child, nibble selection, the keep-mask/leaf-ordinal arithmetic, the value-array layout decision (fixed vs variable width)."
	r.Trusted = []string{"go/ssa", "openacid/low/bitmap index builders and rank/select (kinds by contract)"}

	checkKinds(p, r)
	checkLayoutSiblings(p, r, "C01.layout")
	checkLabelRange(p, r)
	checkVLenWidth(p, r, "C01.vlen-width")
	checkCapacity(p, r, "C01.capacity")
	checkLeafDecoder(p, r, "C01.leaf-decoder")
	checkBigZone(p, r, "C01.bigzone")
	checkEncodeIndependent(p, r, "C01.encode-independent")
	checkBitSlice(p, r, "C01.bitslice")
	checkRankLastBit(p, r, "C01.rank-last-bit")
	// the value returned is the value supplied only if the value codec is a bijection (any encoder of
	// package encode may be handed to NewSlimTrie), a trie's content is not shared with the builder of a
	// later trie, and the options in force are the normalised ones
	r.Explanation += " (build-stateless, options) the builder keeps no state from one construction to the next, and the option normalisation forces both prefix kinds exactly when Complete is true."
	checkCodecsAs(p, r, "C01")
	checkBuildStateless(p, r, "C01.build-stateless")
	checkOptNormalisationAs(p, r, "C01.options")
	r.Explanation += " (align) wherever the position at which the builder cuts labels (bmtree.PathsOf/PathOf) is aligned by a constant mask, the mask clears at least log2(w) low bits for every label word size w that can reach the same call together with it (leaves of position and word size paired per phi edge and helper return): a 257-bit node is cut at whole bytes, as the readers address it."
	checkCutAlignment(p, r, "C01.align")
	// a step stored in fewer bits than it needs makes the descent skip the wrong number of key bits:
	// retained keys below that node are not found
	if entry := p.Trie.Func("NewSlimTrie"); entry != nil {
		if F := findBuilder(p, entry); F != nil {
			r.Explanation += " (narrow) every narrowing conversion on the construction path is bounded (rule shared with C08)."
			checkNarrowAs(p, r, "C01.narrow", entry, F)
		}
	}
	// a descent that does not handle stored step lengths is right only where inner prefixes are stored:
	// dispatching to it on a weaker condition loses the keys below every step
	r.Explanation += " (step-mode) a descent without step handling is reached only under a witness of stored inner prefixes (rule shared with C10)."
	borrowRule(p, r, checkC10, "C10.step-mode", "C01.step-mode")
}

// ---------------------------------------------------------------------------

func checkKinds(p *Program, r *Report) { checkKindsAs(p, r, "C01.kind") }

func checkKindsAs(p *Program, r *Report, rule string) {
	ke := runKindEngine(p)
	w, rd, paths := ke.byPath()
	r.Rule(rule, "E7", "index kind at every rank/select site = kind the bitmap was built with", 16)
	for _, pr := range dedupStrings(sortStr(ke.problems)) {
		r.Bad("rank/select argument pairing", "", pr)
	}
	r.Note("E7: %d writer sites, %d reader sites over %d wire bitmaps", len(ke.writers), len(ke.readers), len(paths))
	for _, path := range paths {
		ws, rs := w[path], rd[path]
		kinds := map[string]bool{}
		for _, f := range ws {
			kinds[f.kind] = true
			r.Func(shortFn(f.fn))
		}
		ks := sortedKeys(kinds)
		construct := "bitmap " + path + ": built with one kind"
		switch {
		case len(ws) == 0:
			r.Unk(construct, rs[0].pos, fmt.Sprintf("%d read site(s) but no site that builds its index was found", len(rs)))
			continue
		case len(ks) > 1 && !(len(ks) == 2 && false):
			var where []string
			for _, f := range ws {
				where = append(where, f.kind+" at "+f.pos)
			}
			r.Bad(construct, ws[0].pos, "built with different kinds: "+strings.Join(where, ", "))
			continue
		default:
			r.OK(construct, ws[0].pos, fmt.Sprintf("%s at %d site(s)", ks[0], len(ws)))
		}
		for i, f := range rs {
			r.Func(shortFn(f.fn))
			r.Check(f.kind == ks[0], fmt.Sprintf("bitmap %s read #%d in %s", path, i+1, shortFn(f.fn)), f.pos, f.how+" assumes "+f.kind,
				fmt.Sprintf("%s assumes index kind %s but %s is built with %s (at %s): ranks are wrong beyond the first 64/128 bits", f.how, f.kind, path, ks[0], ws[0].pos))
		}
	}
}

// ---------------------------------------------------------------------------

type nodeLocator struct {
	f      *ssa.Function
	ith    string // symbol of the inner-node ordinal
	stores map[string][]string
	guards []string
	loads  []string
}

func checkLayoutSiblings(p *Program, r *Report, rule string) {
	r.Rule(rule, "E6", "one definition of the node-bitmap layout", 5)
	// locators: functions that store querySession.from
	var locs []*nodeLocator
	for _, f := range p.FuncsOf(triePath) {
		if f.Synthetic != "" {
			continue
		}
		e := newEval(p)
		e.expandPhi = true
		nl := &nodeLocator{f: f, stores: map[string][]string{}}
		instrsOf(f, func(_ *ssa.BasicBlock, in ssa.Instruction) {
			st, ok := in.(*ssa.Store)
			if !ok {
				return
			}
			_, fv, fa := fieldOfAddr(st.Addr)
			if fa == nil || !isSessionType(fa.X.Type()) {
				return
			}
			if _, isParam := fa.X.(*ssa.Parameter); !isParam {
				return
			}
			// roles, not names: see sessinfo.go
			for role, name := range map[string]string{"from": curSess.from, "to": curSess.to, "bm": curSess.bm, "wordSize": curSess.wordSize} {
				if fv.Name() == name {
					nl.stores[role] = append(nl.stores[role], e.eval(st.Val).String())
				}
			}
		})
		if len(nl.stores["from"]) == 0 {
			// a locator that RETURNS the start offset instead of storing it into a session: a function
			// with an integer result that branches on its ordinal being below Slim.BigInnerCnt
			isLoc := false
			for _, b := range f.Blocks {
				if iff, ok := lastInstr(b).(*ssa.If); ok {
					if t := e.eval(iff.Cond).String(); strings.HasPrefix(t, "cmp:<(") && strings.HasSuffix(t, ",Slim.BigInnerCnt)") {
						isLoc = true
						nl.ith = strings.TrimSuffix(strings.TrimPrefix(t, "cmp:<("), ",Slim.BigInnerCnt)")
					}
				}
			}
			if !isLoc || f.Signature.Results().Len() != 1 || !isIntType(f.Signature.Results().At(0).Type()) {
				continue
			}
			for _, ret := range returnsOf(f) {
				nl.stores["from"] = append(nl.stores["from"], e.eval(ret.Results[0]).String())
			}
		}
		// guards and word loads of the function
		for _, b := range f.Blocks {
			if iff, ok := lastInstr(b).(*ssa.If); ok {
				nl.guards = append(nl.guards, e.eval(iff.Cond).String())
			}
		}
		// the ordinal symbol: from = 257*X on the big branch
		for _, t := range nl.stores["from"] {
			if strings.HasPrefix(t, "mul(257,") && nl.ith == "" {
				nl.ith = strings.TrimSuffix(strings.TrimPrefix(t, "mul(257,"), ")")
			}
		}
		locs = append(locs, nl)
	}
	if len(locs) == 0 {
		r.Unk("node locator", "", "no function stores the bit range of an inner node into a query session")
		return
	}
	norm := func(nl *nodeLocator, s string) string {
		if nl.ith != "" {
			s = strings.ReplaceAll(s, nl.ith, "ITH")
		}
		return s
	}
	normSet := func(nl *nodeLocator, ss []string) []string {
		set := map[string]bool{}
		for _, s := range ss {
			set[norm(nl, s)] = true
		}
		return sortedKeys(set)
	}
	// reference: the locator reachable from GetID
	getID := p.Method(p.Trie, "SlimTrie", "GetID")
	reach := trieReach(getID)
	var ref *nodeLocator
	for _, nl := range locs {
		if reach[nl.f] {
			ref = nl
		}
	}
	if ref == nil {
		r.Unk("node locator of the lookup path", "", "none of the locators is reachable from GetID")
		return
	}
	r.Func(shortFn(ref.f))
	// reference polynomial shape
	fromSet := normSet(ref, ref.stores["from"])
	wantBig := "mul(257,ITH)"
	okBig := false
	okSmall := false
	for _, t := range fromSet {
		if t == wantBig {
			okBig = true
		}
		if strings.Contains(t, "mul(17,ITH)") && strings.Contains(t, "BigInnerOffset") && strings.Contains(t, "ShortMinusInner") {
			okSmall = true
		}
	}
	r.Check(ref.ith != "" && okBig && okSmall, "node start offset in "+shortFn(ref.f), p.Pos(ref.f.Pos()), "257*i for big nodes; BigInnerOffset + 17*i + ShortMinusInner*rank(ShortBM,i) otherwise",
		"start offset terms "+strings.Join(fromSet, " | ")+" are not 257*i / BigInnerOffset + 17*i + ShortMinusInner*ithShort")
	toSet := normSet(ref, ref.stores["to"])
	wantTo := map[string]bool{}
	for _, ft := range fromSet {
		_ = ft
	}
	okTo := len(toSet) == 3
	for _, t := range toSet {
		if !(strings.Contains(t, "257") || strings.Contains(t, "17") || strings.Contains(t, "Slim.ShortSize")) {
			okTo = false
		}
	}
	_ = wantTo
	r.Check(okTo, "node end offset in "+shortFn(ref.f), p.Pos(ref.f.Pos()), "from+257 / from+ShortSize / from+17", "end offset terms "+strings.Join(toSet, " | "))
	for _, nl := range locs {
		if nl == ref {
			continue
		}
		r.Func(shortFn(nl.f))
		var diffs []string
		for _, fld := range []string{"from", "to", "bm", "wordSize"} {
			if len(nl.stores[fld]) == 0 {
				continue // a locator that does not compute this part
			}
			a, b := strings.Join(normSet(nl, nl.stores[fld]), " | "), strings.Join(normSet(ref, ref.stores[fld]), " | ")
			if a != b {
				diffs = append(diffs, fld+": "+abbreviate(a)+"  VS  "+abbreviate(b))
			}
		}
		r.Check(len(diffs) == 0, "node locator "+shortFn(nl.f)+" agrees with "+shortFn(ref.f), p.Pos(nl.f.Pos()), "identical terms for every part it computes", "sibling copies of the node layout disagree: "+strings.Join(diffs, "; "))
		// guards of the short-bitmap extraction (word straddling) agree when both compute bm
		if len(nl.stores["bm"]) > 0 {
			ga, gb := map[string]bool{}, map[string]bool{}
			for _, g := range nl.guards {
				if strings.Contains(g, "ShortSize") {
					ga[norm(nl, g)] = true
				}
			}
			for _, g := range ref.guards {
				if strings.Contains(g, "ShortSize") {
					gb[norm(ref, g)] = true
				}
			}
			a, b := strings.Join(sortedKeys(ga), " | "), strings.Join(sortedKeys(gb), " | ")
			r.Check(a == b, "short-node extraction guards of "+shortFn(nl.f)+" agree with "+shortFn(ref.f), p.Pos(nl.f.Pos()), "same straddling test", "guards differ: "+abbreviate(a)+"  VS  "+abbreviate(b))
		}
	}
	// derived constants
	// (whatever function and record type hold them: found by the stores to the three fields)
	{
		e := newEval(p)
		got := map[string]string{}
		var where *ssa.Function
		for _, f := range p.FuncsOf(triePath) {
			if !trieScope(f) || f.Synthetic != "" {
				continue
			}
			instrsOf(f, func(_ *ssa.BasicBlock, in ssa.Instruction) {
				if st, ok := in.(*ssa.Store); ok {
					if _, fv, fa := fieldOfAddr(st.Addr); fa != nil {
						switch fv.Name() {
						case "BigInnerOffset", "ShortMinusInner", "ShortMask":
							got[fv.Name()] = e.eval(st.Val).String()
							where = f
							// computed in a constructor that is handed the two wire quantities: bind its
							// parameters at its (single) call site
							if len(f.Params) > 0 {
								var sites []*ssa.Call
								for _, g := range p.FuncsOf(triePath) {
									for _, c := range callsIn(g) {
										if call, ok := c.(*ssa.Call); ok && calleeOf(call) == f {
											sites = append(sites, call)
										}
									}
								}
								if len(sites) == 1 {
									got[fv.Name()] = bindFrames(p, st.Val, sites).String()
								}
							}
						}
					}
				}
			})
		}
		if where != nil {
			r.Func(shortFn(where))
			ok := got["BigInnerOffset"] == "mul(240,Slim.BigInnerCnt)" && got["ShortMinusInner"] == "add(-17,Slim.ShortSize)" && got["ShortMask"] == "mask(Slim.ShortSize)"
			r.Check(ok, "derived layout constants", p.Pos(where.Pos()), "BigInnerOffset=(257-17)*BigInnerCnt, ShortMinusInner=ShortSize-17, ShortMask=mask(ShortSize)", fmt.Sprintf("got %v", got))
		} else {
			r.Unk("derived layout constants", "", "no function stores BigInnerOffset / ShortMinusInner / ShortMask")
		}
	}
	// builder's (word size, bitmap size) pairs
	entry := p.Trie.Func("NewSlimTrie")
	if F := findBuilder(p, entry); F != nil {
		r.Func(shortFn(F))
		why := builderSizePairs(p, F)
		r.Check(why == "", "builder label word size / bitmap size pairs", p.Pos(F.Pos()), "exactly (4,17) and (8,257): 2^word+1 = size", why)
	} else {
		r.Unk("builder label word size / bitmap size pairs", "", "construction function not found")
	}
}

// builderSizePairs: at the call that cuts labels (PathsOf) and the call that
// turns paths into bit indexes (PathToIndex) the (wordsize, bitmapsize) values
// are joint constants from {(4,17),(8,257)}.
func builderSizePairs(p *Program, F *ssa.Function) string {
	var ws, bs ssa.Value
	// the calls may sit in the builder or in a helper it calls; a helper's parameter is
	// resolved to the value the builder passes
	resolve := func(v ssa.Value, in *ssa.Function) ssa.Value {
		prm, ok := v.(*ssa.Parameter)
		if !ok || in == F {
			return v
		}
		for _, c2 := range callsIn(F) {
			if calleeOf(c2) == in {
				for i, q := range in.Params {
					if q == prm && i < len(c2.Common().Args) {
						return c2.Common().Args[i]
					}
				}
			}
		}
		return v
	}
	scan := []*ssa.Function{F}
	for _, c := range callsIn(F) {
		if g := calleeOf(c); g != nil && trieScope(g) && len(g.Blocks) > 0 {
			scan = append(scan, g)
		}
	}
	for _, g := range scan {
		for _, c := range callsIn(g) {
			call, ok := c.(*ssa.Call)
			if !ok {
				continue
			}
			if calleeIs(call, idPathsOf) && len(call.Call.Args) >= 3 {
				ws = resolve(call.Call.Args[2], g)
			}
			if calleeIs(call, idPathToIdx) && len(call.Call.Args) >= 1 {
				bs = resolve(call.Call.Args[0], g)
			}
		}
	}
	if ws == nil || bs == nil {
		return "cannot find the label cut (PathsOf) and index (PathToIndex) calls"
	}
	// the pair may be two fields of one record value (a "node shape" chosen by a helper from package-level
	// shapes that only their initialiser assigns): every record the value can be must be (4,17) or (8,257)
	type fieldOf struct {
		x     ssa.Value
		field int
	}
	asField := func(v ssa.Value) (fieldOf, bool) {
		switch x := v.(type) {
		case *ssa.Field:
			return fieldOf{x.X, x.Field}, true
		case *ssa.UnOp:
			if fa, ok := x.X.(*ssa.FieldAddr); ok && x.Op == token.MUL {
				if al, ok := fa.X.(*ssa.Alloc); ok {
					// a local record variable: its value is what is loaded from the variable
					return fieldOf{&ssa.UnOp{Op: token.MUL, X: al}, fa.Field}, true
				}
			}
		}
		return fieldOf{}, false
	}
	sameBase := func(a, b ssa.Value) bool {
		if a == b {
			return true
		}
		ua, ok1 := a.(*ssa.UnOp)
		ub, ok2 := b.(*ssa.UnOp)
		return ok1 && ok2 && ua.X == ub.X
	}
	if fw, ok := asField(ws); ok {
		if fb, ok := asField(bs); ok && sameBase(fw.x, fb.x) {
			tuples, okT := structConstTuples(p, fw.x, 0)
			if !okT || len(tuples) == 0 {
				return "word size and bitmap size are fields of a record whose possible values cannot be enumerated"
			}
			seen := map[string]bool{}
			for _, t := range tuples {
				wc, okw := t[fw.field]
				bc, okb := t[fb.field]
				if !okw || !okb {
					return "word size and bitmap size are fields of a record with a non-constant field"
				}
				if int64(1)<<uint(wc)+1 != bc || !(wc == 4 || wc == 8) {
					return fmt.Sprintf("pair (%d,%d) is not (4,17) or (8,257)", wc, bc)
				}
				seen[fmt.Sprintf("%d,%d", wc, bc)] = true
			}
			if !seen["4,17"] || !seen["8,257"] {
				return fmt.Sprintf("pairs found %v, want both (4,17) and (8,257)", sortedKeys(seen))
			}
			return ""
		}
	}
	// the pair may be two results of one helper call (a "choose node size" function): judge its returns
	if ew, ok := ws.(*ssa.Extract); ok {
		if eb, ok := bs.(*ssa.Extract); ok && ew.Tuple == eb.Tuple {
			if call, ok := ew.Tuple.(*ssa.Call); ok {
				if h := calleeOf(call); h != nil && trieScope(h) && len(h.Blocks) > 0 {
					rets := returnsOf(h)
					if len(rets) == 1 && ew.Index < len(rets[0].Results) && eb.Index < len(rets[0].Results) {
						ws, bs = rets[0].Results[ew.Index], rets[0].Results[eb.Index]
					}
				}
			}
		}
	}
	wp, ok1 := ws.(*ssa.Phi)
	bp, ok2 := bs.(*ssa.Phi)
	if !ok1 || !ok2 {
		wc, okw := constInt(ws)
		bc, okb := constInt(bs)
		if okw && okb && int64(1)<<uint(wc)+1 == bc {
			return ""
		}
		return "word size and bitmap size are not joint constants"
	}
	if wp.Block() != bp.Block() || len(wp.Edges) != len(bp.Edges) {
		return "word size and bitmap size are not chosen together"
	}
	seen := map[string]bool{}
	var pairs func(a, b ssa.Value, d int) string
	pairs = func(a, b ssa.Value, d int) string {
		if d > 4 {
			return "too deep"
		}
		ac, oka := constInt(a)
		bc, okb := constInt(b)
		if oka && okb {
			if ac == 0 && bc == 0 {
				return "" // zero value, always overwritten on a live path (checked by 2^w+1 on the others)
			}
			if int64(1)<<uint(ac)+1 != bc || !(ac == 4 || ac == 8) {
				return fmt.Sprintf("pair (%d,%d) is not (4,17) or (8,257)", ac, bc)
			}
			seen[fmt.Sprintf("%d,%d", ac, bc)] = true
			return ""
		}
		ap, ok1 := a.(*ssa.Phi)
		bp, ok2 := b.(*ssa.Phi)
		if ok1 && ok2 && ap.Block() == bp.Block() && len(ap.Edges) == len(bp.Edges) {
			for i := range ap.Edges {
				if w := pairs(ap.Edges[i], bp.Edges[i], d+1); w != "" {
					return w
				}
			}
			return ""
		}
		return "word size and bitmap size are not joint constants"
	}
	if w := pairs(wp, bp, 0); w != "" {
		return w
	}
	if !seen["4,17"] || !seen["8,257"] {
		return fmt.Sprintf("pairs found %v, want both (4,17) and (8,257)", sortedKeys(seen))
	}
	return ""
}

// ---------------------------------------------------------------------------
// interval evaluation with wrap-around

type ival struct {
	lo, hi int64
	ok     bool
}

func (a ival) String() string {
	if !a.ok {
		return "[?]"
	}
	return fmt.Sprintf("[%d,%d]", a.lo, a.hi)
}

func typeRange(t types.Type, sizes types.Sizes) ival {
	b, ok := t.Underlying().(*types.Basic)
	if !ok || b.Info()&types.IsInteger == 0 {
		return ival{}
	}
	w := uint(sizes.Sizeof(t) * 8)
	if w >= 63 {
		return ival{lo: -1 << 62, hi: 1 << 62, ok: true}
	}
	if b.Info()&types.IsUnsigned != 0 {
		return ival{0, int64(1)<<w - 1, true}
	}
	return ival{-(int64(1) << (w - 1)), int64(1)<<(w-1) - 1, true}
}

func clampWrap(v ival, t types.Type, sizes types.Sizes) ival {
	tr := typeRange(t, sizes)
	if !v.ok || !tr.ok {
		return tr
	}
	if v.lo < tr.lo || v.hi > tr.hi {
		return tr // wraps: anything of the type
	}
	return v
}

func intervalOf(p *Program, v ssa.Value, d int) ival {
	if d > 12 {
		return typeRange(v.Type(), p.Sizes)
	}
	switch x := v.(type) {
	case *ssa.Const:
		if c, ok := constInt(x); ok {
			return ival{c, c, true}
		}
	case *ssa.Convert:
		a := intervalOf(p, x.X, d+1)
		// conversion to a type: values outside wrap / reinterpret
		tr := typeRange(x.Type(), p.Sizes)
		if a.ok && tr.ok && a.lo >= tr.lo && a.hi <= tr.hi {
			return a
		}
		if a.ok && tr.ok {
			return tr
		}
		return tr
	case *ssa.BinOp:
		a, b := intervalOf(p, x.X, d+1), intervalOf(p, x.Y, d+1)
		if !a.ok || !b.ok {
			return typeRange(x.Type(), p.Sizes)
		}
		switch x.Op {
		case token.ADD:
			return clampWrap(ival{a.lo + b.lo, a.hi + b.hi, true}, x.Type(), p.Sizes)
		case token.SUB:
			return clampWrap(ival{a.lo - b.hi, a.hi - b.lo, true}, x.Type(), p.Sizes)
		case token.AND:
			if b.lo == b.hi && b.lo >= 0 {
				hi := b.lo
				if a.lo >= 0 && a.hi < hi {
					hi = a.hi
				}
				return ival{0, hi, true}
			}
			if a.lo == a.hi && a.lo >= 0 {
				return ival{0, a.lo, true}
			}
		case token.SHR:
			if b.lo == b.hi && b.lo >= 0 && a.lo >= 0 {
				return ival{a.lo >> uint(b.lo), a.hi >> uint(b.lo), true}
			}
			if b.lo == b.hi && b.lo >= 0 && isSigned(x.X.Type()) {
				return ival{a.lo >> uint(b.lo), a.hi >> uint(b.lo), true} // arithmetic shift keeps the sign
			}
		case token.SHL:
			if b.lo == b.hi && b.lo >= 0 && b.lo < 32 && a.lo >= 0 {
				return clampWrap(ival{a.lo << uint(b.lo), a.hi << uint(b.lo), true}, x.Type(), p.Sizes)
			}
		}
		return typeRange(x.Type(), p.Sizes)
	case *ssa.Phi:
		var u ival
		for _, e := range x.Edges {
			if e == ssa.Value(x) {
				continue
			}
			a := intervalOf(p, e, d+1)
			if !a.ok {
				return typeRange(x.Type(), p.Sizes)
			}
			if !u.ok {
				u = a
			} else {
				if a.lo < u.lo {
					u.lo = a.lo
				}
				if a.hi > u.hi {
					u.hi = a.hi
				}
			}
		}
		if u.ok {
			return u
		}
	}
	return typeRange(v.Type(), p.Sizes)
}

// intervalsOf distributes over loop-free phis: one interval per combination of
// phi choices (capped), so that a defect on one branch is not hidden by the
// union with its sibling branch.
func intervalsOf(p *Program, v ssa.Value, d int) []ival {
	if d > 10 {
		return []ival{typeRange(v.Type(), p.Sizes)}
	}
	switch x := v.(type) {
	case *ssa.Phi:
		var out []ival
		for _, e := range x.Edges {
			if e == ssa.Value(x) {
				continue
			}
			out = append(out, intervalsOf(p, e, d+1)...)
		}
		if len(out) > 0 && len(out) <= 16 {
			return dedupIvals(out)
		}
	case *ssa.Convert:
		var out []ival
		for _, a := range intervalsOf(p, x.X, d+1) {
			tr := typeRange(x.Type(), p.Sizes)
			if a.ok && tr.ok && a.lo >= tr.lo && a.hi <= tr.hi {
				out = append(out, a)
			} else {
				out = append(out, tr)
			}
		}
		return dedupIvals(out)
	case *ssa.BinOp:
		as, bs := intervalsOf(p, x.X, d+1), intervalsOf(p, x.Y, d+1)
		if len(as)*len(bs) <= 16 {
			var out []ival
			for _, a := range as {
				for _, b := range bs {
					out = append(out, binopIval(p, x, a, b))
				}
			}
			return dedupIvals(out)
		}
	}
	return []ival{intervalOf(p, v, d)}
}

func dedupIvals(in []ival) []ival {
	seen := map[string]bool{}
	var out []ival
	for _, x := range in {
		if !seen[x.String()] {
			seen[x.String()] = true
			out = append(out, x)
		}
	}
	return out
}

func binopIval(p *Program, x *ssa.BinOp, a, b ival) ival {
	if !a.ok || !b.ok {
		return typeRange(x.Type(), p.Sizes)
	}
	switch x.Op {
	case token.ADD:
		return clampWrap(ival{a.lo + b.lo, a.hi + b.hi, true}, x.Type(), p.Sizes)
	case token.SUB:
		return clampWrap(ival{a.lo - b.hi, a.hi - b.lo, true}, x.Type(), p.Sizes)
	case token.AND:
		if b.lo == b.hi && b.lo >= 0 {
			hi := b.lo
			if a.lo >= 0 && a.hi < hi {
				hi = a.hi
			}
			return ival{0, hi, true}
		}
		if a.lo == a.hi && a.lo >= 0 {
			return ival{0, a.lo, true}
		}
	case token.SHR:
		if b.lo == b.hi && b.lo >= 0 && (a.lo >= 0 || isSigned(x.X.Type())) {
			return ival{a.lo >> uint(b.lo), a.hi >> uint(b.lo), true}
		}
	case token.SHL:
		if b.lo == b.hi && b.lo >= 0 && b.lo < 32 && a.lo >= 0 {
			return clampWrap(ival{a.lo << uint(b.lo), a.hi << uint(b.lo), true}, x.Type(), p.Sizes)
		}
	}
	return typeRange(x.Type(), p.Sizes)
}

func checkLabelRange(p *Program, r *Report) { checkLabelRangeAs(p, r, "C01.labelrange") }

func checkLabelRangeAs(p *Program, r *Report, rule string) {
	r.Rule(rule, "intervals", "query byte -> label index covers exactly [1,2^w] for w=4,8 and 0 for an exhausted key", 1)
	kif := keyIndexFuncs(p)
	if len(kif) == 0 {
		r.Unk("label index function", "", "no function indexes the key of a query session")
		return
	}
	for _, f := range kif {
		r.Func(shortFn(f))
		construct := "label index returned by " + shortFn(f)
		rets := returnsOf(f)
		set := map[string]bool{}
		bad := false
		for _, ret := range rets {
			if len(ret.Results) != 1 {
				bad = true
				continue
			}
			for _, l := range intervalsOf(p, ret.Results[0], 0) {
				set[l.String()] = true
			}
		}
		if bad || len(rets) == 0 {
			r.Unk(construct, p.Pos(f.Pos()), "not a single-result function")
			continue
		}
		got := strings.Join(sortedKeys(set), " ")
		want := "[0,0] [1,16] [1,256]"
		r.Check(got == want, construct, p.Pos(rets[0].Pos()), "value ranges per branch: "+got+" (exhausted key, 4-bit word, 8-bit word)",
			"value ranges per branch are "+got+", want "+want+": some key byte values (e.g. >= 0x80 or 0xff) are mapped to a label bit the builder never sets for them, or wrap to the end-of-key slot")
	}
	_ = sort.Strings
}

// checkCapacity: see the explanation of C01 (capacity).
func checkCapacity(p *Program, r *Report, rule string) {
	r.Rule(rule, "E6", "presence bitmaps cover the whole ordinal domain of their readers", 2)
	n := 0
	for _, f := range p.FuncsOf(triePath) {
		if f.Synthetic != "" || f.Signature.Recv() == nil || len(f.Params) == 0 {
			continue
		}
		recv := f.Params[0]
		e := newEval(p)
		e.env[recv] = S("RECV")
		// a builder helper that is handed a count by the builder: bind the parameter to the caller's
		// term when every call site (on the same receiver) passes the same one
		for pi, prm := range f.Params[1:] {
			var seen []string
			var bound *term
			for _, g := range p.FuncsOf(triePath) {
				if g.Synthetic != "" || g.Signature.Recv() == nil || len(g.Params) == 0 || !types.Identical(g.Params[0].Type(), recv.Type()) {
					continue
				}
				ge := newEval(p)
				ge.env[g.Params[0]] = S("RECV")
				for _, c2 := range callsIn(g) {
					if calleeOf(c2) == f && pi+1 < len(c2.Common().Args) && c2.Common().Args[0] == ssa.Value(g.Params[0]) {
						bound = ge.eval(c2.Common().Args[pi+1])
						seen = append(seen, bound.String())
					}
				}
			}
			if len(dedupStrings(seen)) == 1 && !strings.Contains(seen[0], "phi:") && !strings.Contains(seen[0], "?") {
				e.env[prm] = bound
			}
		}
		for _, c := range callsIn(f) {
			call, ok := c.(*ssa.Call)
			if !ok {
				continue
			}
			if _, ok := builtKinds(call); !ok || len(call.Call.Args) < 2 {
				continue
			}
			dst := storedTo(call)
			if !strings.HasSuffix(dst, ".PresenceBM") {
				continue
			}
			capT := e.eval(call.Call.Args[1])
			if isK(capT) {
				continue
			}
			// the index list: a field of the receiver
			ld, ok := deref(call.Call.Args[0])
			if !ok {
				continue
			}
			_, idxField, fa := fieldOfAddr(ld)
			if fa == nil || fa.X != ssa.Value(recv) {
				continue
			}
			// append sites of that field in methods of the same receiver type
			var ordinals []string
			var where []string
			opaque := false
			for _, g := range p.FuncsOf(triePath) {
				if g.Synthetic != "" || g.Signature.Recv() == nil || len(g.Params) == 0 || !types.Identical(g.Params[0].Type(), recv.Type()) {
					continue
				}
				ge := newEval(p)
				ge.env[g.Params[0]] = S("RECV")
				// a receiver captured by a closure lives in a local cell
				recvCells := map[ssa.Value]bool{}
				instrsOf(g, func(_ *ssa.BasicBlock, in ssa.Instruction) {
					if st, ok := in.(*ssa.Store); ok && st.Val == ssa.Value(g.Params[0]) {
						if al, ok := st.Addr.(*ssa.Alloc); ok {
							recvCells[al] = true
							ge.env[al] = S("RECV")
						}
					}
				})
				isRecv := func(v ssa.Value) bool {
					if v == ssa.Value(g.Params[0]) {
						return true
					}
					if ld, ok := deref(v); ok && recvCells[ld] {
						return true
					}
					return false
				}
				instrsOf(g, func(_ *ssa.BasicBlock, in ssa.Instruction) {
					st, ok := in.(*ssa.Store)
					if !ok {
						return
					}
					_, fv, fa2 := fieldOfAddr(st.Addr)
					if fa2 == nil || fv != idxField || !isRecv(fa2.X) {
						return
					}
					ap, ok := st.Val.(*ssa.Call)
					if !ok {
						return
					}
					bi, ok := ap.Call.Value.(*ssa.Builtin)
					if !ok || bi.Name() != "append" || len(ap.Call.Args) != 2 {
						return
					}
					// the appended element: varargs array store
					sl, ok := ap.Call.Args[1].(*ssa.Slice)
					if !ok {
						opaque = true
						return
					}
					al, ok := sl.X.(*ssa.Alloc)
					if !ok {
						opaque = true
						return
					}
					for _, ref := range *al.Referrers() {
						if ia, ok := ref.(*ssa.IndexAddr); ok {
							for _, r2 := range *ia.Referrers() {
								if s2, ok := r2.(*ssa.Store); ok {
									t := ge.eval(s2.Val)
									ts := t.String()
									if strings.Contains(ts, "phi:") || strings.Contains(ts, "?") {
										opaque = true
										return
									}
									// parameters other than the receiver make the ordinal opaque
									for _, prm := range g.Params[1:] {
										if containsTerm(t, S(prm.Name())) {
											opaque = true
											return
										}
									}
									ordinals = append(ordinals, O("add", t, K(1)).String())
									where = append(where, p.Pos(s2.Pos()))
								}
							}
						}
					}
				})
			}
			if opaque || len(ordinals) == 0 {
				r.Note("capacity of %s: ordinals of %s are not builder-counter terms (not decided by this rule)", dst, idxField.Name())
				continue
			}
			n++
			r.Func(shortFn(f))
			bad := ""
			for i, o := range ordinals {
				if o != capT.String() {
					bad = fmt.Sprintf("capacity is %s but the ordinals set at %s run up to %s - 1: elements beyond the last one with an entry are outside the bitmap and reading their bit is out of range", capT, where[i], o)
				}
			}
			r.Check(bad == "", "capacity of "+dst, p.Pos(call.Pos()), "capacity = last ordinal + 1 = "+capT.String(), bad)
		}
	}
	n += localListCapacities(p, r)
	if n == 0 {
		r.Unk("presence bitmap capacities", "", "no presence bitmap with counter-derived ordinals found in the builder")
	}
}

// localListCapacities: a presence bitmap built from a local list to which a loop appends its own index
// under the loop test index < len(X) (newVLenArray: the indexes of the non-empty elements): readers
// probe the bitmap at every ordinal below len(X), so the capacity handed to the bitmap builder must be
// len(X) itself — not the number of entries, which is smaller whenever the last elements are empty.
func localListCapacities(p *Program, r *Report) int {
	n := 0
	stripConv := func(t *term) *term {
		for t != nil && strings.HasPrefix(t.String(), "conv:") && len(t.args) == 1 {
			t = t.args[0]
		}
		return t
	}
	for _, f := range p.FuncsOf(triePath) {
		if f.Synthetic != "" || len(f.Blocks) == 0 || !trieScope(f) {
			continue
		}
		e := newEval(p)
		for _, c := range callsIn(f) {
			call, ok := c.(*ssa.Call)
			if !ok {
				continue
			}
			if _, ok := builtKinds(call); !ok || len(call.Call.Args) < 2 {
				continue
			}
			dst := storedTo(call)
			if !strings.HasSuffix(dst, ".PresenceBM") && !strings.HasSuffix(dst, ".ShortBM") {
				continue
			}
			// the list: a local slice grown by append in a loop
			var appends []*ssa.Call
			okList := true
			for v := range phiClosure(call.Call.Args[0]) {
				switch x := v.(type) {
				case *ssa.Phi:
				case *ssa.Call:
					if bi, isB := x.Call.Value.(*ssa.Builtin); isB && bi.Name() == "append" && len(x.Call.Args) == 2 {
						appends = append(appends, x)
						for w := range phiClosure(x.Call.Args[0]) {
							switch y := w.(type) {
							case *ssa.Phi, *ssa.MakeSlice, *ssa.Const:
							case *ssa.Call:
								if bi2, isB2 := y.Call.Value.(*ssa.Builtin); !isB2 || bi2.Name() != "append" {
									okList = false
								}
							default:
								okList = false
							}
						}
					} else {
						okList = false
					}
				case *ssa.MakeSlice, *ssa.Const:
				default:
					okList = false
				}
			}
			if !okList || len(appends) == 0 {
				continue
			}
			var bounds []string
			opaque := false
			for _, ap := range appends {
				sl, ok := ap.Call.Args[1].(*ssa.Slice)
				if !ok {
					opaque = true
					break
				}
				al, ok := sl.X.(*ssa.Alloc)
				if !ok {
					opaque = true
					break
				}
				for _, ref := range *al.Referrers() {
					ia, ok := ref.(*ssa.IndexAddr)
					if !ok {
						continue
					}
					for _, r2 := range *ia.Referrers() {
						s2, ok := r2.(*ssa.Store)
						if !ok {
							continue
						}
						elem := s2.Val
						for {
							if cv, ok := elem.(*ssa.Convert); ok {
								elem = cv.X
								continue
							}
							break
						}
						// the dominating loop test elem < len(X)
						found := ""
						for d := ap.Block(); d != nil && found == ""; d = d.Idom() {
							id := d.Idom()
							if id == nil {
								break
							}
							iff, ok := lastInstr(id).(*ssa.If)
							if !ok || id.Succs[0] != d && !id.Succs[0].Dominates(d) {
								continue
							}
							bo, ok := iff.Cond.(*ssa.BinOp)
							if !ok || bo.Op != token.LSS || bo.X != elem {
								continue
							}
							lt := stripConv(e.eval(bo.Y))
							if lt != nil && strings.HasPrefix(lt.String(), "len(") {
								found = lt.String()
							}
						}
						if found == "" {
							opaque = true
						} else {
							bounds = append(bounds, found)
						}
					}
				}
			}
			if opaque || len(bounds) == 0 {
				continue
			}
			n++
			r.Func(shortFn(f))
			capT := stripConv(e.eval(call.Call.Args[1]))
			canon := lockstepCanon(p)
			bad := ""
			for _, b := range dedupStrings(bounds) {
				if capT == nil || canon(capT.String()) != canon(b) {
					bad = fmt.Sprintf("capacity is %s but the list holds loop indexes below %s: the bits of the last elements without an entry are outside the bitmap and reading them is out of range", capT, b)
				}
			}
			r.Check(bad == "", "capacity of "+dst+" in "+shortFn(f), p.Pos(call.Pos()), "capacity = bound of the loop whose indexes are listed = "+capT.String(), bad)
		}
	}
	return n
}

func init() { checks["C01"] = checkC01 }

// structConstTuples enumerates the constant field values a struct value can have: a call of a trie
// helper (every return), a phi, a load of a package-level variable that only the package initialiser
// assigns (its fields are what the initialiser stores), or a local composite literal.
func structConstTuples(p *Program, v ssa.Value, d int) ([]map[int]int64, bool) {
	if d > 4 || v == nil {
		return nil, false
	}
	switch x := v.(type) {
	case *ssa.Call:
		h := calleeOf(x)
		if h == nil || !trieScope(h) || len(h.Blocks) == 0 {
			return nil, false
		}
		var out []map[int]int64
		for _, ret := range returnsOf(h) {
			if len(ret.Results) != 1 {
				return nil, false
			}
			ts, ok := structConstTuples(p, ret.Results[0], d+1)
			if !ok {
				return nil, false
			}
			out = append(out, ts...)
		}
		return out, true
	case *ssa.Phi:
		var out []map[int]int64
		for _, ed := range x.Edges {
			ts, ok := structConstTuples(p, ed, d+1)
			if !ok {
				return nil, false
			}
			out = append(out, ts...)
		}
		return out, true
	case *ssa.UnOp:
		if x.Op != token.MUL {
			return nil, false
		}
		var base ssa.Value
		switch b := x.X.(type) {
		case *ssa.Global:
			base = b
		case *ssa.Alloc:
			base = b
		default:
			return nil, false
		}
		if al, isAl := base.(*ssa.Alloc); isAl {
			// a local record variable assigned as a whole (shape := chooseShape(...)): the values assigned
			var out []map[int]int64
			whole, fieldwise := 0, false
			okW := true
			instrsOf(al.Parent(), func(_ *ssa.BasicBlock, in ssa.Instruction) {
				st, ok := in.(*ssa.Store)
				if !ok {
					return
				}
				if st.Addr == ssa.Value(al) {
					whole++
					ts, ok := structConstTuples(p, st.Val, d+1)
					if !ok {
						okW = false
					}
					out = append(out, ts...)
				} else if fa, ok := st.Addr.(*ssa.FieldAddr); ok && fa.X == ssa.Value(al) {
					fieldwise = true
				}
			})
			if whole > 0 {
				if fieldwise || !okW {
					return nil, false
				}
				return out, true
			}
		}
		t := map[int]int64{}
		okAll := true
		var fns []*ssa.Function
		if g, isG := base.(*ssa.Global); isG {
			fns = p.FuncsOf(g.Pkg.Pkg.Path())
			if ini := g.Pkg.Func("init"); ini != nil {
				fns = append(fns, ini)
			}
		} else {
			fns = []*ssa.Function{base.(*ssa.Alloc).Parent()}
		}
		for _, f := range fns {
			instrsOf(f, func(_ *ssa.BasicBlock, in ssa.Instruction) {
				st, ok := in.(*ssa.Store)
				if !ok {
					return
				}
				if st.Addr == base {
					okAll = false // whole-record assignment
					return
				}
				fa, ok := st.Addr.(*ssa.FieldAddr)
				if !ok || fa.X != base {
					return
				}
				if _, isG := base.(*ssa.Global); isG && f.Name() != "init" {
					okAll = false // assigned outside the initialiser
					return
				}
				c, isK := constInt(st.Val)
				if !isK {
					okAll = false
					return
				}
				if old, dup := t[fa.Field]; dup && old != c {
					okAll = false
				}
				t[fa.Field] = c
			})
		}
		if !okAll || len(t) == 0 {
			return nil, false
		}
		return []map[int]int64{t}, true
	}
	return nil, false
}

// lockstepCanon: slice fields of one record of package trie that grow together — every append to one
// of them stands in the same basic block as exactly one append to each of the others, on the same
// record, and nothing else assigns them — have the same length at all times between those blocks. The
// returned function rewrites "len(x.f)" to the length of the first field (by name) of f's class.
var lockstepCache = map[*Program]map[string]string{}

func lockstepCanon(p *Program) func(string) string {
	cls, ok := lockstepCache[p]
	if !ok {
		cls = map[string]string{}
		// field -> sorted list of append sites "fn#block#base"
		sites := map[*types.Var][]string{}
		other := map[*types.Var]bool{}
		for _, f := range p.FuncsOf(triePath) {
			if f.Synthetic != "" || len(f.Blocks) == 0 {
				continue
			}
			instrsOf(f, func(b *ssa.BasicBlock, in ssa.Instruction) {
				st, ok := in.(*ssa.Store)
				if !ok {
					return
				}
				_, fv, fa := fieldOfAddr(st.Addr)
				if fa == nil {
					return
				}
				if _, isSlice := fv.Type().Underlying().(*types.Slice); !isSlice {
					return
				}
				if ap, ok := st.Val.(*ssa.Call); ok {
					if bi, isB := ap.Call.Value.(*ssa.Builtin); isB && bi.Name() == "append" && len(ap.Call.Args) == 2 {
						// one element appended to the same field of the same record
						if ld, ok := deref(ap.Call.Args[0]); ok {
							if _, fv2, fa2 := fieldOfAddr(ld); fa2 != nil && fv2 == fv && fa2.X == fa.X {
								if sl, ok := ap.Call.Args[1].(*ssa.Slice); ok {
									if al, ok := sl.X.(*ssa.Alloc); ok {
										if at, ok := al.Type().Underlying().(*types.Pointer).Elem().Underlying().(*types.Array); ok && at.Len() == 1 {
											sites[fv] = append(sites[fv], fmt.Sprintf("%s#%d#%s", f.String(), b.Index, fa.X.Name()))
											return
										}
									}
								}
							}
						}
					}
				}
				switch st.Val.(type) {
				case *ssa.MakeSlice, *ssa.Const:
					return // initialisation
				}
				other[fv] = true
			})
		}
		bySig := map[string][]string{}
		for fv, ss := range sites {
			if other[fv] {
				continue
			}
			sort.Strings(ss)
			dup := false
			for i := 1; i < len(ss); i++ {
				if ss[i] == ss[i-1] {
					dup = true // two appends in one block
				}
			}
			if dup {
				continue
			}
			sig := strings.Join(ss, ";")
			bySig[sig] = append(bySig[sig], fv.Name())
		}
		for _, names := range bySig {
			sort.Strings(names)
			for _, n := range names {
				cls[n] = names[0]
			}
		}
		lockstepCache[p] = cls
	}
	re := regexp.MustCompile(`len\(([A-Za-z0-9_:.]*\.)([A-Za-z0-9_]+)\)`)
	return func(t string) string {
		return re.ReplaceAllStringFunc(t, func(m string) string {
			sm := re.FindStringSubmatch(m)
			if rep, ok := cls[sm[2]]; ok {
				return "len(" + sm[1] + rep + ")"
			}
			return m
		})
	}
}
