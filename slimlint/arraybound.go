package main

// Fixed-size scratch arrays. A slice of, or an index into, a local array [N]T
// whose bound is a run-time value is usually protected by a comparison chosen
// by hand ("if n <= len(small) { buf = small[:n+1] }"). The rule takes the
// comparisons that dominate the access, computes the largest value of the
// bound they let through, and reports when that value does not fit the array:
// a definite panic for that value, which only an input of exactly that size
// reaches (a 64-byte prefix, a node with 17 labels). Accesses without any
// dominating comparison on the bound are not judged (their bound may follow
// from an invariant this rule does not know).

import (
	"fmt"
	"go/token"
	"go/types"

	"golang.org/x/tools/go/ssa"
)

type arrayBoundSite struct {
	fn  *ssa.Function
	pos token.Pos
	why string
}

// splitOffset: v = base + c (through conversions).
func splitOffset(v ssa.Value) (ssa.Value, int64) {
	c := int64(0)
	for {
		v = stripConv(v)
		bo, ok := v.(*ssa.BinOp)
		if !ok {
			return v, c
		}
		switch bo.Op {
		case token.ADD:
			if k, isK := constInt(bo.Y); isK {
				c += k
				v = bo.X
				continue
			}
			if k, isK := constInt(bo.X); isK {
				c += k
				v = bo.Y
				continue
			}
		case token.SUB:
			if k, isK := constInt(bo.Y); isK {
				c -= k
				v = bo.X
				continue
			}
		}
		return v, c
	}
}

// maxUnderGuards: the largest value of base that the comparisons dominating block b allow (ok=false if
// no comparison with a constant bounds it from above).
func maxUnderGuards(base ssa.Value, b *ssa.BasicBlock) (int64, bool) {
	best, found := int64(0), false
	for d := b; d != nil; d = d.Idom() {
		id := d.Idom()
		if id == nil {
			break
		}
		iff, ok := lastInstr(id).(*ssa.If)
		if !ok || len(d.Preds) != 1 {
			continue
		}
		onTrue := id.Succs[0] == d
		if !onTrue && id.Succs[1] != d {
			continue
		}
		op, x, y, _, ok := cmpOf(iff.Cond)
		if !ok {
			continue
		}
		bx, cx := splitOffset(x)
		by, cy := splitOffset(y)
		var k int64
		var isK bool
		// normalise to base + c  OP  K
		var c int64
		switch {
		case bx == base:
			k, isK = constInt(stripConv(y))
			c = cx
		case by == base:
			k, isK = constInt(stripConv(x))
			c = cy
			switch op {
			case token.LSS:
				op = token.GTR
			case token.LEQ:
				op = token.GEQ
			case token.GTR:
				op = token.LSS
			case token.GEQ:
				op = token.LEQ
			}
		}
		if !isK {
			continue
		}
		if !onTrue {
			switch op {
			case token.LSS:
				op = token.GEQ
			case token.LEQ:
				op = token.GTR
			case token.GTR:
				op = token.LEQ
			case token.GEQ:
				op = token.LSS
			default:
				continue
			}
		}
		var max int64
		switch op {
		case token.LEQ:
			max = k - c
		case token.LSS:
			max = k - c - 1
		case token.EQL:
			max = k - c
		default:
			continue
		}
		if !found || max < best {
			best, found = max, true
		}
	}
	return best, found
}

func localArrayLen(v ssa.Value) (int64, bool) {
	al, ok := v.(*ssa.Alloc)
	if !ok {
		return 0, false
	}
	at, ok := al.Type().(*types.Pointer).Elem().Underlying().(*types.Array)
	if !ok {
		return 0, false
	}
	return at.Len(), true
}

func arrayBoundSites(p *Program, fns []*ssa.Function) ([]arrayBoundSite, int) {
	var out []arrayBoundSite
	judged := 0
	for _, f := range fns {
		if f.Synthetic != "" || len(f.Blocks) == 0 {
			continue
		}
		instrsOf(f, func(b *ssa.BasicBlock, in ssa.Instruction) {
			switch x := in.(type) {
			case *ssa.Slice:
				n, ok := localArrayLen(x.X)
				if !ok || x.High == nil {
					return
				}
				if _, isK := constInt(x.High); isK {
					return // the compiler checks constants
				}
				base, c := splitOffset(x.High)
				max, ok := maxUnderGuards(base, b)
				if !ok {
					return
				}
				judged++
				if max+c > n {
					out = append(out, arrayBoundSite{f, x.Pos(), fmt.Sprintf("the slice bound can be %d under the comparisons that guard it, the array has %d elements", max+c, n)})
				}
			case *ssa.IndexAddr:
				n, ok := localArrayLen(x.X)
				if !ok {
					return
				}
				if _, isK := constInt(x.Index); isK {
					return
				}
				base, c := splitOffset(x.Index)
				max, ok := maxUnderGuards(base, b)
				if !ok {
					return
				}
				judged++
				if max+c > n-1 {
					out = append(out, arrayBoundSite{f, x.Pos(), fmt.Sprintf("the index can be %d under the comparisons that guard it, the array has %d elements", max+c, n)})
				}
			}
		})
	}
	return out, judged
}

func checkArrayBound(p *Program, r *Report, rule string) {
	r.Rule(rule, "CFG bounds", "a guarded slice of / index into a local fixed-size array fits the array for every value the guard admits", 0)
	var fns []*ssa.Function
	for _, pkg := range []string{triePath, arrayPath, encPath, indexPath} {
		fns = append(fns, p.FuncsOf(pkg)...)
	}
	sites, judged := arrayBoundSites(p, fns)
	for i, s := range sites {
		r.Func(shortFn(s.fn))
		r.Bad(fmt.Sprintf("local array access #%d in %s", i+1, shortFn(s.fn)), p.Pos(s.pos), s.why+": an input of exactly that size panics (index or slice bounds out of range)")
	}
	r.Note("%s: %d guarded access(es) to local fixed-size arrays judged, %d do not fit", rule, judged, len(sites))
}

func controlArrayBound(fx *Program, r *Report, rule string) {
	pkg := fx.FxPkg("arraybound")
	if pkg == nil {
		r.Control(rule, "fixtures/arraybound", false, "fixture package not loaded")
		return
	}
	for _, tc := range []struct {
		fn   string
		want bool
	}{{"SmallWrong", true}, {"SmallRight", false}, {"IndexWrong", true}, {"IndexRight", false}} {
		f := pkg.Func(tc.fn)
		if f == nil {
			r.Control(rule, "arraybound."+tc.fn, false, "function not found")
			continue
		}
		sites, judged := arrayBoundSites(fx, []*ssa.Function{f})
		r.Control(rule, "arraybound."+tc.fn, judged > 0 && (len(sites) > 0) == tc.want, fmt.Sprintf("expected flagged=%v: %d access(es) judged, %d do not fit", tc.want, judged, len(sites)))
	}
}
