#!/usr/bin/env python3
"""Runs every check against every confirmed seeded change (on a scratch copy of /repo,
never /repo itself) and writes seeded/<id>/meta.json plus seeded/AUDIT.md.

usage: tools/seed_audit.py [-j N] [seed-id ...]
"""
import json, os, subprocess, sys, concurrent.futures as cf

VERIF = os.path.dirname(os.path.dirname(os.path.abspath(__file__)))
SEEDED = os.path.join(VERIF, "seeded")

# what each change is and what it needs in order to manifest (from the sub-agents' notes, checked by me)
INFO = {
 "C01_l": ('String16 length header read as int(b[0]<<8 | b[1]): the shift happens in a byte', 'String16 values of 256 bytes or more'),
 "C01_m": ('compact step layout: one byte per step when every step fits; the one-byte decoder computes int32(buf[i] << 2) in a byte', 'no stored inner prefixes, every run under 128 bytes, some run of 32..127 bytes'),
 "C02_l": ('TypeEncoder.Decode reads with defaultEndian instead of m.Endian', 'a TypeEncoder built with binary.BigEndian'),
 "C02_m": ('newToKeep compares values through sameValueFunc; records wider than 8 bytes are compared in 8-byte words and the last w%8 bytes never', 'fixed-width encoder of width > 8, not a multiple of 8, adjacent values differing only in the trailing bytes'),
 "C03_l": ('TypeEncoder.Decode reads with the package default byte order (bytes.NewReader clean-up)', 'TypeEncoder with binary.BigEndian and a multi-byte type on a Complete trie'),
 "C03_m": ('node-shape blocks of newSlim merged into creator.wordOf: one alignment wordStart &= ^(wordSize-1) for both node sizes', 'a 257-bit node whose keys share the high nibble of the branching byte'),
 "C04_l": ('newVLenArray sizes the presence bitmap by EltCnt (non-empty values) instead of len(elts)', 'Complete trie scanned with values, empty encodings from a multiple-of-64 ordinal to the end'),
 "C04_m": ("ScanPrefix feature: ScanFrom/ScanFromTo share scanRange, which takes an empty end for 'no end bound'", 'ScanFromTo with end == ""'),
 "C05_l": ('load fix-ups gated by vers.Check(ver, "<0.5.11") instead of "<0.5.12"', 'a stream whose header says 0.5.11'),
 "C05_m": ('NewSlimTrie records per-level counts in the creator instead of calling initLevels; leaf count from creator.leafCnt', 'a trie built without values: Stat differs before and after a marshal round trip'),
 "C06_l": ('decStep assembles the stored step in int16: steps of 32768 words and more are sign-extended', 'a step-only stream with a branch-free run of 16 KB or more'),
 "C06_m": ('before000512FixLeafSize takes the leaf width from the stream via leafCountOf, which omits the root', '0.5.10/0.5.11 stream with values and at most value-size+1 leaves'),
 "C07_l": ('compatibleVersions(): "==0.5.11" mistyped as "==0.5.1"', 'a header carrying version 0.5.1 is loaded; real 0.5.11 streams are refused'),
 "C07_m": ('Unmarshal split in two with one loadError(err, what, h, reader) helper that calls h.GetVersion() on a nil header', 'a stream cut within the first 32 bytes: panic instead of error'),
 "C08_l": ('alignment masks 7 and 3 replaced by constants; the 257-bit branch uses wordSize (4) instead of bigWordSize (8)', 'a big node whose keys share the upper half-byte of the branching byte'),
 "C08_m": ('describeKeyOrder() summary built with errors.Errorf("%s: ...", ErrKeyOutOfOrder) instead of Wrapf', 'two or more order violations: errors.Cause is no longer ErrKeyOutOfOrder'),
 "C09_l": ('String16 Decode/GetEncodedSize read the header as int(b[0]<<8 | b[1])', 'String16 values of 256 bytes or more returned by Search'),
 "C09_m": ('newVLenArrayOf(elts, indexes): the loop collecting non-empty elements still ranges over elts by position', 'a codec with empty encodings and a leaf order that differs from key order'),
 "C11_l": ('getInnerBM writes the one-word bitmap of a short node into st.shortBM instead of allocating', 'two overlapping String() calls on a trie with short nodes'),
 "C11_m": ('iterators decode the labels of a 257-bit node once into st.vars.BigLabels[i], lazily and unsynchronised', 'concurrent first scans through a 257-bit root'),
 "C12_l": ('alignment masks replaced by constants; the big branch aligns with ^(wordSize-1)', 'big-node key subset sharing the high half-byte'),
 "C12_m": ('SlimIndex remembers min/max key length and answers not-found early; else-if keeps the first key out of the maximum', 'the first key strictly longer than every other key'),
 "C13_l": ("normalizeOpt lost '&& *o.Complete == true'", 'Opt{Complete: Bool(false)} stores complete key information'),
 "C13_m": ('with InnerPrefix on, newSlim narrows each subset to the span of its kept keys', 'DedupValue on, a run of adjacent equal values, InnerPrefix compared with the default mode'),
 "C14_l": ('load fix-ups gated by "<0.5.11"', '0.5.11 stream: Get panics while the typed getters answer'),
 "C14_m": ('typed getters share leafIndexOf with an inline walk for step-only tries; the dispatch ignores LeafPrefixes', 'LeafPrefix=true, InnerPrefix=false, absent key differing in the stored leaf suffix'),
 "C15_l": ('String16.Decode lost the [:l] upper bound while gaining a short-data check', 'unrelated bytes following the record'),
 "C15_m": ('TypeEncoder.Decode through a lazily compiled leaf layout; append(path, i) slices share a backing array', 'types nested four levels deep'),
 "C16_l": ('Array.Init makes the decoder with NewTypeEncoderEndianByType(v.Type(), endian)', 'elements handed over in a []interface{}'),
 "C16_m": ('Base.InitIndex rewritten around a single-pass buildIndex relative to the previous index: leading empty words are never emitted', 'smallest index 64 or more'),
 "C17_l": ("normalizeOpt: 'o.Complete != nil' without the dereference", 'Opt{Complete: Bool(false)} in filter mode stores prefixes'),
 "C17_m": ('per-level node counts stored in a new serialized field Slim.Levels', 'a caterpillar trie (depth = key count): about 9 bytes per key'),
 "C18_l": ('initLevels guard before reading the node total is totalInner > 1 instead of > 0', 'a trie with exactly one inner node'),
 "C18_m": ('normalizeOpt via resolveOpt returning optFlags; the Complete branch returns early without the DedupValue default', 'Opt{Complete: true} with adjacent equal values'),
 "C19_l": ("ShortBM sized innerCnt - bigCnt ('only normal nodes can be short')", 'a 257-bit node, inner-node count crossing a 64-bit word when big nodes are subtracted'),
 "C19_m": ('linear-time String() with flat slices; fanout is a []uint8', 'a 257-bit node with 256 or 257 children'),
 "C20_l": ('encode.Bytes.Encode pads/truncates into a fresh buffer with the copy() arguments swapped', "[][]byte values whose length differs from Size: the caller's bytes are zeroed"),
 "C20_m": ('the trie remembers its build options: NewSlimTrie stores its shallow copy of Opt', 'caller reuses its own *bool variables after the build'),
 "C01_a": ("getLabelIdxOfKey merged into `int32(word+1)` with word a byte: 0xff wraps to the end-of-key slot", "a 257-bit node on the path and a branching byte of exactly 0xff (suite keys are 7-bit ASCII)"),
 "C01_b": ("newVLenArray decides fixed-size by `totalSize == lastSize*count` instead of per-element equality", "variable-width encoder whose retained value sizes average to the size of the last value"),
 "C02_a": ("same change as C01_b (newVLenArray width decision from aggregates)", "String16 values with encoded widths 3,5,4 and de-duplication on"),
 "C02_b": ("encodeValues re-uses the previous record's encoded bytes when the raw value is Go-== to the previous one", "float values with adjacent runs of +0.0 and -0.0 (== but different bits), bit-exact comparison"),
 "C04_a": ("getIthLeafBytes fast path slices Leaves.Bytes at ith*FixedSize, ignoring the presence bitmap", "Complete trie scanned with values, an encoder that emits empty values, at least one empty value"),
 "C04_b": ("ScanFromTo returns early when start >= end", "closed single-point range [k,k] (both bounds inclusive); also skips the refusal on non-Complete tries"),
 "C05_a": ("initLevels keeps st.levels when the new trie is empty and reslices it otherwise", "Unmarshal(large) then Unmarshal(empty) on one instance without Reset, observed through Stat"),
 "C05_b": ("sortedBMCounts comparator drops the bitmap17 tie-break", "a few thousand binary keys so that short-node counts tie; build twice and compare bytes"),
 "C06_a": ("legacy rebuild queues the old root only if the children array is non-empty", "a pre-0.5.10 stream of a single-key trie"),
 "C06_b": ("before000512FixLeafSize fills PresenceBM with all-ones words trimmed by Mask[n&63]", "0.5.10/0.5.11 stream whose leaf count is a positive multiple of 64"),
 "C07_a": ("compatibleVersions collapsed into the range >=0.5.8 <=0.5.12", "a header version that is a pre-release of a listed version, e.g. 0.5.10-rc.1"),
 "C07_b": ("legacy three-section loader rewritten as a loop that treats io.EOF as end of sections", "a legacy stream cut exactly at a section boundary or right after a section header"),
 "C08_a": ("order check walks only the keys kept by DedupValue", "default dedup, values given, the order violation on a key whose value equals its predecessor's"),
 "C08_b": ("step-too-long guard compares prefLen (in the node's word size) with maxStep", "InnerPrefix off, a 32-64 KiB branch-free run in front of a 257-bit node"),
 "C10_a": ("getNode loads Inners.Words[to>>6] unconditionally (branch-free short-node extraction)", "last inner node short and the Inners bitmap an exact multiple of 64 bits"),
 "C10_b": ("same change as C01_b (newVLenArray width decision)", "variable-width values whose sizes average to the last size"),
 "C11_a": ("rightMost memoises (nodeId, leafId) in two unsynchronised fields of the trie", "two goroutines calling Search/RangeGet on different subtrees"),
 "C11_b": ("iterator key buffer from a sync.Pool, Put back in the call that returns the last key", "a scan to the very end and another iterator advanced while the last key is still in use"),
 "C12_a": ("same step-guard unit slip as C08_b, reached through SlimIndex", "default options, big root node, 32-64 KiB shared prefix"),
 "C12_b": ("SlimIndex.Get returns a remembered record when the trie offset equals the last one", "Get(k) followed by Get(q) for an absent q that collides with k's leaf"),
 "C13_a": ("same step-guard unit slip as C08_b", "filter modes lose keys that prefix modes find"),
 "C13_b": ("newToKeep keeps every key when Complete is set", "adjacent equal values, DedupValue on, Complete, query for a de-duplicated key"),
 "C14_a": ("typed getters reuse a querySession from a sync.Pool; stale hasLeafPrefix is read", "LeafPrefix/Complete trie, a key that is a proper prefix of another, two-step sequence"),
 "C14_b": ("typed getters use a fused walk with a condensed leaf-prefix check", "LeafPrefix/Complete trie, absent key extending a present key that is consumed by labels"),
 "C15_a": ("String16 length read as int(b[0]<<8)+int(b[1]) (uint8 shift)", "a String16 value of 256 bytes or more"),
 "C15_b": ("NewTypeEncoderEndian caches encoders by type only", "two encoders of one Go type with different byte orders in one process"),
 "C16_a": ("InitIndex sizes the bitmap from the last index before validating order", "non-ascending list with an earlier index in a higher 64-bit word than the last"),
 "C16_b": ("TypeEncoder.Decode fast path reads int64 with Uint32", "int64 elements outside [0,2^32) read through the generic accessor"),
 "C17_a": ("steps longer than maxStep bits fall back to chains of pass-through nodes", "filter mode and a branch-free run longer than about 8 KiB"),
 "C17_b": ("memIncrOfShortSize costs the short table as shortSize*64 instead of 2^shortSize*64", "adversarial shape with many distinct equal-popcount label bitmaps"),
 "C18_a": ("initLevels discards the bit of the rank query at the last bitmap position", "label bitmaps filling an exact multiple of 64 bits with the last label set"),
 "C18_b": ("Stat memoised with sync.Once, reset in Reset but not in Unmarshal", "Stat, then Unmarshal of different data into the same instance, then Stat"),
 "C19_a": ("getInnerBM slices the label bitmap word-wise with a wrong next-word index", "several 257-bit nodes whose labels fall in the upper bits of a word"),
 "C19_b": ("String() uses one flat children map keyed by itoa(nid)+label without separator", "more than 10000 nodes with an inner node a*10000+bits having an empty label"),
 "C20_a": ("Unmarshal keeps buf[:n:n] and Marshal returns it", "overwrite the input buffer after loading a current-version stream, then Marshal"),
 "C20_b": ("normalizeOpt writes *o.InnerPrefix = true through the caller's pointers", "caller passes explicit InnerPrefix/LeafPrefix pointers together with Complete"),
 # ---- round 2 (fresh sub-agents, told which ideas round 1 had already used)
 "C01_c": ("InnerPrefixes.PresenceBM built with capacity EltCnt (elements stored) instead of the inner-node count", "a trie where the last inner nodes have no step/prefix: the bitmap is shorter than the ordinals probed, Get panics"),
 "C01_d": ("normalizeOpt writes Complete's implication through the caller's *bool (*o.InnerPrefix = true)", "caller shares one *bool between several Opt structs / option combinations built in a loop"),
 "C02_c": ("newToKeep finds the end of a run of equal values by galloping (offsets 1,2,4,..) and skips records inside", "value runs with a different value at a non-power-of-two offset inside the galloped window (A A B A ...)"),
 "C02_d": ("branch position of an inner node computed from the kept keys of the subset only", "DedupValue on; a subset whose dropped tail keys diverge earlier than the kept ones"),
 "C04_c": ("ScanFrom loop condition became len(key) > 0 instead of key != nil", "the empty string is a key (first key of a scan from \"\")"),
 "C04_d": ("completeness refusal hoisted into NewIter only; ScanFrom/ScanFromTo no longer refuse", "ScanFrom/ScanFromTo on a trie that is not Complete"),
 "C05_c": ("Unmarshal decodes the body in place into the message the instance already owns (proto merge)", "Unmarshal into a non-fresh instance: repeated fields of the old trie survive"),
 "C05_d": ("rank/select indexes rebuilt on load, with r64 instead of s32 for the leaf position bitmap", "a loaded trie with variable-width values"),
 "C06_c": ("the <0.5.12 upgrade steps run only for <=0.5.10", "a 0.5.11 stream"),
 "C06_d": ("new upgrade step drops LeafPrefixes when the loaded array has no element", "0.5.10/0.5.11 Complete/LeafPrefix stream in which no leaf has a suffix: absent keys accepted, scanning refused"),
 "C07_c": ("body decoded from the remaining bytes without ReadFull of BodySize", "a stream cut inside the body at a point where the protobuf prefix still parses"),
 "C07_d": ("st.inner = &Slim{} moved after the header/version early returns", "Unmarshal of a bad header into a loaded instance: the old index stays answerable"),
 "C08_c": ("order check split into 4096-key chunks verified concurrently; chunk seams never compared", "more than 4096 keys with the only disorder exactly at a chunk boundary"),
 "C08_d": ("two-kept-keys fast path in the build loop bypasses the step-too-long guard", "InnerPrefix off, a two-key node below a 32-64 KiB branch-free run"),
 "C10_c": ("GetID no longer returns -1 when the key ends inside a step", "step mode, query shorter than the cursor after a step"),
 "C10_d": ("Get addresses fixed-size leaves directly at ordinal*FixedSize, ignoring the presence bitmap", "an encoder emitting empty and fixed-size values mixed"),
 "C11_c": ("TypeEncoder.Decode reuses one bytes.Reader stored in the encoder", "concurrent Get on a trie whose values use a TypeEncoder (race detector, or wrong values on multi-core)"),
 "C11_d": ("legacy leaf-layout fix-up moved from Unmarshal to the first leaf access", "first reads of a trie loaded from a <0.5.12 stream (writes under readers)"),
 "C12_c": ("short-node conversion loop visits the leading 257-bit nodes too (range over all inner bitmaps)", "sparse index whose big node keeps <=10 labels below 0x10 equal to a most-used 17-bit bitmap"),
 "C12_d": ("SlimIndex stores offsets as int32 leaves when all are <= MaxUint32 (should be MaxInt32)", "an offset in [2^31, 2^32) and none above"),
 "C13_c": ("GetID byte-compare fast path for big nodes with prefix; guard to >= len(key) (should be >)", "prefix mode, a retained key equal to the prefix of a 257-bit node"),
 "C13_d": ("normalizeOpt as a defaults table: Complete only fills nil fields", "Opt{Complete:true, InnerPrefix:false} and similar explicit combinations"),
 "C14_c": ("typed getters load 8 bytes with one Uint64 and truncate; builder pads Leaves.Bytes by 7", "a trie loaded from data written before the change, key on one of the last leaves"),
 "C14_d": ("typed getters share a helper whose not-found test is id <= 0", "a single-key trie (leaf root has id 0)"),
 "C15_c": ("TypeEncoder size from reflect.Type.Size() (in-memory, padded) for structs", "a struct with mixed-width fields"),
 "C15_d": ("String16.Encode panics above MaxInt16 (should be MaxUint16)", "a string of 32768..65535 bytes"),
 "C16_c": ("same change as C15_c seen through array.Array of a padded struct", "struct elements with padding, at least two elements"),
 "C16_d": ("Base.Init returns InitIndex(indexes) early when elts is empty, before the length check", "len(elts)==0 with len(indexes)>0"),
 "C17_c": ("step width 1 or 2 bytes chosen from the longest step (FixedSize from data)", "one branch-free run of >=128 bytes anywhere flips every node's step to 2 bytes"),
 "C17_d": ("InnerPrefixes.PresenceBM built only when some node has a step", "a completely step-free key set K versus P+K"),
 "C18_c": ("Stat takes KeyCnt from Leaves.EltCnt (non-empty elements)", "variable-width encoder with some empty values"),
 "C18_d": ("legacy loader treats an empty children array as an empty trie", "a pre-0.5.10 stream of a single-key trie"),
 "C19_c": ("String() caches decoded labels by a key holding only 4 of the 5 words of a 257-bit bitmap", "two 257-bit nodes differing only in label 0xff"),
 "C19_d": ("getLabels uses qr.bm != 0 as short-node test and String()/NodeInfo no longer reset the session", "a normal 17-bit node rendered after a short node"),
 "C20_c": ("newVLenArray keeps a lone non-empty element without copying it", "[][]byte values with the identity encoder encode.Bytes and exactly one stored leaf"),
 "C20_d": ("NewSlimTrie normalises &opts[0] in place", "options passed by spreading a caller-owned slice (opts...)"),
 # ---- round 3 (fresh sub-agents, told the ideas of rounds 1 and 2)
 "C01_e": ("TypeEncoder.Encode re-uses one buffer held by the encoder", "a *encode.TypeEncoder as value encoder and at least two distinct values (all kept slices alias the last encoding)"),
 "C01_f": ("getIthLeafBytes/getIthLeaf fast path for FixedSize>0 skips the presence bitmap", "an encoder with some empty values and one common width for the others"),
 "C02_e": ("labels of big nodes collected by a helper whose duplicate filter advances on dropped keys", "dedup on, a 257-bit node, a run of equal values crossing a byte boundary"),
 "C02_f": ("child boundaries found by binary search that skips exactly one all-dropped label group", "dedup on, >=64 unassigned keys, a run covering two whole consecutive branches"),
 "C03_e": ("getLabelIdxOfKey returns int32(b+1) computed in 8 bits: 0xff wraps to the end-of-key label", "a 257-bit node and byte 0xff at its position"),
 "C03_f": ("stored inner prefix compared by a new helper that ranges over the key string by runes", "Complete/InnerPrefix trie with a shared run containing a byte >= 0x80"),
 "C04_e": ("iterator node stack taken from a sync.Pool and Put back on every call after exhaustion", "an exhausted iterator polled twice, then two iterators advanced in turn"),
 "C04_f": ("ScanFromTo end test uses a cursor carried across callbacks instead of bytes.Compare", "end is not a stored key (or includeEnd with a shorter next key)"),
 "C05_e": ("Marshal writes into a pooled bytes.Buffer and returns its bytes", "two Marshal results alive at once, the later stream fitting the recycled buffer"),
 "C05_f": ("load-time padding of the leaf-prefix presence bitmap computes leafCnt>>6+1 words", "LeafPrefix/Complete trie whose leaf count is a non-zero multiple of 64; bytes compared after a load"),
 "C06_e": ("getStepBefore000510 subtracts the label word from the low byte only (borrow lost)", "a pre-0.5.10 stream with an inner step that is a multiple of 256 nibbles"),
 "C06_f": ("legacy label bits decoded into var idx [16]int32 although a node that is also a leaf has 17 labels", "a pre-0.5.10 node that is a leaf and has all 16 children"),
 "C07_e": ("vers.IsCompatible gate dropped; the layout dispatch alone decides", "a header version below 0.5.8, a pre-release or an unparsable string"),
 "C07_f": ("current-version fast path decodes the body into st.inner before the version is judged", "an incompatible version on a decodable body, then a lookup on the same instance"),
 "C08_e": ("order check compares only the suffixes after the prefix shared by the first and last key", ">=3 keys, an inner key out of order inside that prefix"),
 "C08_f": ("16-bit step codec typed int16: the decoder sign-extends", "InnerPrefix off, a branch-free run of 32768..65535 half-bytes"),
 "C10_e": ("searchID compares the leaf tail only on tries that store both prefix kinds", "LeafPrefix-only trie: Get says not found, Search/RangeGet report a value"),
 "C10_f": ("Unmarshal version dispatch as a switch that groups 0.5.11 with the current version", "a 0.5.11 stream: loads without fix-ups, lookups panic"),
 "C11_e": ("scan key buffer set to the stored leaf prefix slice instead of copying it", "Complete trie, a leaf directly under a 4-bit root with a key longer than 64 bytes, a scan past it"),
 "C11_f": ("Stat() rebuilds the level table of the shared instance on every call", "two goroutines in Stat on one instance"),
 "C12_e": ("NewSlimIndex passes only the first and last key of a run sharing one offset to the trie", "a block of >=3 keys whose interior key is routed to the next block"),
 "C12_f": ("short-bitmap extraction moved into a helper whose straddling test is to>>6 != from>>6", "the last inner node is short and Inners ends on a 64-bit boundary"),
 "C13_e": ("getNode takes the bit length of a big node's stored prefix from its byte count (marker byte included)", "InnerPrefix/Complete, a 257-bit node with a non-empty prefix"),
 "C13_f": ("option flags cached in creator bools with a copy/paste slip: leafPrefix = *opt.InnerPrefix", "Opt{LeafPrefix:true} alone and a retained key with a leaf tail"),
 "C14_e": ("typed getters skip a big root through a first-byte table that ignores the root's own step", "all keys share a leading run and >10 distinct bytes follow"),
 "C14_f": ("typed getters use a one-pass leaf-ordinal walk that does not re-align after a stored inner prefix", "InnerPrefix-only trie, a prefixed node entered at a half-byte offset"),
 "C15_e": ("Int.Decode assembles 32-bit words read as int32 (low word sign-extended)", "64-bit platform, a value with bit 31 set and other upper bits"),
 "C15_f": ("TypeEncoder.Decode fast path returns builtin integers for defined integer types", "a TypeEncoder for `type ID uint32`"),
 "C16_e": ("InitIndex skips the ascending scan when last-first == len-1", "an invalid list whose endpoints are len-1 apart, e.g. [1 3 2 4]"),
 "C16_f": ("InitElts encodes big arrays in 8 concurrent chunks of n/8 (tail n%8 never encoded)", "n >= 65536 and n % 8 != 0"),
 "C17_e": ("nodes are made 257-bit until the end of the level once one wide node was seen", "a level whose first node is wide and whose other nodes have 2 children"),
 "C17_f": ("the builder's bitmap counters come from a sync.Pool and are never cleared", "a small trie built after a large one in the same process"),
 "C18_e": ("getIthInnerFrom returns ithInner<<8 for big nodes (256 instead of 257 bits per node)", ">=2 big inner nodes and labels in the last bits before a level's first inner node"),
 "C18_f": ("legacy loader initialises a separate SlimTrie and copies back inner and vars but not levels", "any pre-0.5.10 stream, then Stat"),
 "C19_e": ("labels rendered by a helper that zero-pads to 4 bits only: 8-bit labels are not fixed-width and sort wrongly", "a 257-bit node whose labels differ in significant bit length"),
 "C19_f": ("String() output cached in the trie; only Reset clears it", "a rendered trie re-used as the target of a direct Unmarshal"),
 "C20_e": ("same idea as C05_e (pooled Marshal buffer, with a size cap)", "two Marshal results alive at once, streams <= 64 KiB"),
 "C20_f": ("Marshal memoises the stream and the first caller gets the cached array itself", "a stream >= 4 KiB, the first result overwritten, Marshal again"),
 # ---- round 4 (fresh sub-agents, told the ideas of rounds 1-3)
 "C01_g": ("short-bitmap extraction factored into getShortBM(from,to) whose straddling test is to>>6 != from>>6", "the last inner node is short and Inners ends on a 64-bit boundary"),
 "C01_h": ("creator objects pooled (sync.Pool); the steps buffer prefix4BitLens is not detached from the returned Slim", "build A without InnerPrefix, build B, then query A"),
 "C02_g": ("rightMost takes a node's last child from the start of the next inner node (getIthInnerFrom(i+1)) instead of decoding the node", "predecessor walk through the last inner node when the inner data ends on a 64-bit boundary"),
 "C02_h": ("getIthLeaf slices Leaves.Bytes at ith*FixedSize when FixedSize>0, skipping the presence bitmap", "an encoder that encodes some values to zero bytes and the rest to one width"),
 "C03_g": ("short-node conversion loop ranges over every inner node (big nodes matched on their first word)", "a big node whose labels below 0x3f are only control bytes equal to a popular small bitmap"),
 "C03_h": ("newVLenArray decides fixed-size by totalSize == lastSize*count", "String16 values of sizes 5,3,4 in a Complete trie"),
 "C03_i": ("normalizeOpt rewritten with setDefault: Complete only defaults InnerPrefix/LeafPrefix", "Opt{Complete:true, InnerPrefix:false}"),
 "C04_g": ("scan label cursor rewritten word-at-a-time; end test of big nodes is labelBit > 0xff (bit 256 never yielded)", "Complete trie with a 257-bit node and a key whose byte there is 0xff"),
 "C04_h": ("same newVLenArray aggregate slip as C03_h, seen through scans", "variable-width values whose sizes average to the last one"),
 "C05_g": ("LeafPrefixes != nil tests replaced by a cached vars.WithLeafPrefix = LeafPrefixes.Bytes != nil", "LeafPrefix/Complete trie in which no leaf has a tail, after a marshal round trip (proto3 drops empty bytes)"),
 "C05_h": ("SlimTrie gains XXX_Size/XXX_Marshal with a size memo cleared only by Reset", "proto.Size, then direct Unmarshal of another stream, then proto.Size"),
 "C06_g": ("before000512FixLeafSize made nil-safe with getters; the encoder size is read and divided by before leaves are known to exist", "0.5.10/0.5.11 key-only stream loaded with encode.Dummy or a nil encoder"),
 "C06_h": ("Unmarshal split in two; st.inner assigned only after decode; empty legacy trie returns early without init", "empty pre-0.5.10 stream loaded into a used instance"),
 "C07_g": ("Marshal appends a CRC32 trailer; verifyChecksum treats <4 trailing bytes as no trailer", "a stream cut inside the 4-byte trailer"),
 "C07_h": ("header version read by a hand-written headerVersion(buf) that slices up to the NUL byte", "a 16-byte version without NUL terminator: panic instead of ErrIncompatible"),
 "C08_g": ("same short-node conversion over all nodes as C03_g (range loop with get17bitmap)", "big node whose low labels equal a frequent small bitmap"),
 "C08_h": ("fail-fast pre-check: neighbouring keys sharing more than 65535 half-bytes are rejected", "a third key branching inside the shared run makes every step fit: valid list rejected"),
 "C09_g": ("searchID fast path when the key ends at an inner node sets rID = rightChild without the child-range test", "a retained key whose only extensions are de-duplicated keys (single-child node)"),
 "C09_h": ("same rightMost rewrite as C02_g", "64k inner nodes and the left neighbour under the last inner node"),
 "C09_i": ("legacy leaf presence bitmap filled word by word, last word = Mask[n&63]", "0.5.10/0.5.11 stream whose leaf count is a multiple of 64"),
 "C10_g": ("GetID fast path for a big root skips the root's stored prefix without comparing it", "InnerPrefix/Complete trie with a big root that has a prefix; query differing inside the prefix"),
 "C10_h": ("Marshal strips rank/select indexes, Unmarshal re-indexes but forgets Leaves.PositionBM", "variable-width values after a marshal round trip"),
 "C11_g": ("Marshal clears and restores st.inner.XXX_unrecognized around the encoding", "two overlapping Marshal calls on a trie loaded from 0.5.10/0.5.11 data"),
 "C11_h": ("String() memoises decoded label strings in an unsynchronised package-level map", "two overlapping String() calls with a bitmap not seen before in the process"),
 "C12_g": ("child subsets drop their leading not-kept keys when at least two kept keys remain", "sparse index: a block's tail key shares a branch with the start keys of two following blocks"),
 "C12_h": ("getLabelIdxOfKey early-return refactoring ends in int32(w+1) with w a byte", "big node and an indexed key with byte 0xff there"),
 "C13_g": ("steps stored in 1 byte when every step fits, bound maxStepBits <= 1<<10 (256 units do not fit)", "longest branch-free run exactly 128 bytes, no InnerPrefix"),
 "C13_h": ("key tail copied into a scratch buffer kept in the SlimTrie for the leaf-prefix comparison", "two goroutines querying a trie with leaf prefixes"),
 "C14_g": ("TypeEncoder.Decode fast path: the int64 case reads Uint32", "int64 values outside 0..2^32-1 encoded with NewTypeEncoder(int64(0))"),
 "C14_h": ("same legacy presence-bitmap word fill as C09_i", "0.5.10-format data with a multiple of 64 leaves: Get panics, GetI* still answer"),
 "C15_g": ("TypeEncoder.Encode returns a slice into a pooled scratch buffer", "two Encode results kept before use"),
 "C15_h": ("String16.Decode fast path table for 1-byte strings built with string(rune(i))", "a one-byte string >= 0x80"),
 "C16_g": ("Array.Init stores the element encoder before Base.Init validates", "a rejected Init followed by a valid Init with another element type"),
 "C16_h": ("InitElts bulk-encodes typed slices with binary.Write using the package byte order, not the encoder's", "an Array whose EltEncoder was preset with a big-endian TypeEncoder"),
 "C17_g": ("257-bit nodes only while fromKeyBit>>3 < maxBigDepth (absolute key position)", "wide nodes below the root and a common prefix of 2-3 bytes"),
 "C17_h": ("Marshal result cached in the trie, cleared by Reset but not by Unmarshal", "Marshal, direct Unmarshal of a small index into the same object, Marshal"),
 "C18_g": ("level table taken from snapshots in the builder loop that count leaves with c.leafCnt (0 without values)", "a fresh trie built with values == nil"),
 "C18_h": ("Marshal buffer from a sync.Pool, Put back by defer while its bytes are returned", "marshal A, marshal a smaller B before A's bytes are consumed"),
 "C19_g": ("String() sanity check calls Rank128 at n.to", "inner bitmaps ending exactly on a 64-bit boundary"),
 "C19_h": ("same newVLenArray aggregate slip as C03_h, seen through String()", "String16 values x, yyy, zz"),
 "C20_g": ("encode.Bytes.Encode zero-pads short values by appending to the caller's slice", "values that are sub-slices with spare capacity of one arena"),
 "C20_h": ("encodeValues returns the caller's [][]byte for encode.Bytes and newToKeep nils dropped records", "[][]byte values, encode.Bytes, dedup on, adjacent equal values"),
 # ---- round 5 (j: two cooperating sites; k: multi-step sequence or unusual input)
 "C01_j": ("vars.Complete = LeafPrefixes != nil dispatches GetID to a loop that assumes every run is a stored inner prefix", "Opt{LeafPrefix:true} without InnerPrefix and a key whose path crosses a step"),
 "C01_k": ("TypeEncoder.Decode fast path hands plain integers to the little-endian decoders, Encode honours m.Endian", "a TypeEncoder built with binary.BigEndian"),
 "C02_j": ("newSlim stores a big-mode node as 17-bit when de-duplication leaves <=10 labels; addInner/build count big nodes by bitmap size", "dedup on, >10 distinct bytes among all keys but <=10 kept, followed by a dense subset"),
 "C02_k": ("String16 length header read by a helper returning int(b[0]<<8 | b[1])", "String16 values of 256 bytes or more"),
 "C03_j": ("NewSlimTrie records maxKeyLen, GetID rejects longer keys; Unmarshal/Reset never refresh it", "a trie built from short keys reused as the receiver of Unmarshal of a stream with longer keys"),
 "C03_k": ("a subset with one retained key collapses to a leaf that takes index and prefix from keys[s], which may be a dropped key", "Complete, default dedup, a run of equal values crossing a branch"),
 "C04_j": ("iterator takes the leaf ordinal from qr.ithLeaf; getLeafPrefix returns before ranking the leaf when no leaf prefixes are stored", "Complete trie in which no leaf carries a leaf prefix, scan with values"),
 "C04_k": ("inner-prefix conversion re-gated from <0.5.12 to <0.5.11", "a 0.5.11 stream"),
 "C05_j": ("Stat prefers a keyCnt recorded by NewSlimTrie = len(keys); cleared by Unmarshal/Reset", "dedup folds keys: built and loaded Stat differ"),
 "C05_k": ("Unmarshal checks Leaves.FixedSize against the receiver's encoder size and returns ErrIncompatible", "String16 values that all have one length"),
 "C06_j": ("InnerPrefixes.PresenceBM indexed r64 with a load-time re-index only when len(RankIndex) != len(Words)", "0.5.10/0.5.11 stream with 65-128 inner nodes"),
 "C06_k": ("prefix conversion composed in a 64-byte stack buffer under pl <= len(small), needs pl+1", "a 0.5.10/0.5.11 stream with an inner prefix of exactly 64 bytes"),
 "C07_j": ("emptiness cached in vars.Empty, lookups test st.isEmpty(); rejected loads replace inner but not vars", "instance holding data, rejected Unmarshal, then any lookup panics"),
 "C07_k": ("empty-body fast path right after the version gate (BodySize == 0: init and return)", "a legacy three-section stream whose first section is empty, cut anywhere after it"),
 "C08_j": ("order check moved into checkArgs(), which returns early when values == nil", "unsorted keys with values == nil"),
 "C08_k": ("leafPrefixLens narrowed to []uint16", "LeafPrefix/Complete and a key tail of 65536 bytes or more"),
 "C09_j": ("load fix-ups run on every stream; a prefix is converted only if isBitstr() says it is not converted yet (ambiguous sniff)", "0.5.10/0.5.11 InnerPrefix stream whose shared prefix ends in a mask-like byte"),
 "C09_k": ("Unmarshal validates the header first and decodes into the existing *Slim", "a SlimTrie copied by value (SlimIndex) and a direct Unmarshal on one handle"),
 "C10_j": ("TypeEncoder Encode/Decode fast paths for unsigned ints: Decode always little-endian", "TypeEncoder with binary.BigEndian"),
 "C10_k": ("cmpLeafPrefix compares the tail with for i := range tail (runes)", "multi-byte UTF-8 in the leaf tail, query differing in a continuation byte"),
 "C11_j": ("per-trie querySession template with a scratch buffer; sessions are value copies sharing its backing array", "two goroutines in Search/RangeGet/scan on a trie with leaf prefixes"),
 "C11_k": ("iterators record the deepest stack in vars.ScanDepth", "a scan deeper than twice the path to its first key; concurrent readers"),
 "C14_j": ("typed getters share getLeafInt() returning -1 for not found; GetI64 passes size 8", "a stored int64 value of -1"),
 "C14_k": ("typed getters read st.vars.LeafBytes before GetID", "Reset or a refused proto.Unmarshal, then a typed getter panics"),
 "C15_j": ("storeInt/loadInt pick the width from len(b); Decode calls loadInt before slicing b to Size", "big-endian TypeEncoder and a remaining buffer of 2/4/8 bytes longer than the value"),
 "C15_k": ("hand-written decodeValue skips blank struct fields without advancing the offset", "a struct with a blank _ field"),
 "C16_j": ("Base caches eltSize where the encoder is installed; Base.Get uses it", "&array.Array{} with EltEncoder assigned directly, filled by proto.Unmarshal"),
 "C16_k": ("InitIndex sets a dense flag and GetBytes skips the bitmap when set", "dense array, then proto.Unmarshal of a sparse array into the same object"),
 "C18_j": ("indexit(r128) always appends the closing total; initLevels reads the node total from RankIndex[last]", "a stream written under the old index convention with an odd number of label words"),
 "C18_k": ("version dispatch as a switch with the upgrade case written >=0.5.10 <0.5.11", "a 0.5.11 stream loads as an empty trie"),
 "C19_j": ("build() trims trailing zero entries of ShortTable; getNode indexes it with bm & (len-1)", "ShortSize > 0 and a trimmed length that is not a power of two"),
 "C19_k": ("legacy presence bitmap through newDenseBM(): last word = Mask[n&63]", "0.5.10/0.5.11 stream whose leaf count is a multiple of 64"),
 "C20_j": ("Marshal assembles the stream by appending to a package-level header prefix with spare capacity", "a stream of at most 64 bytes (empty trie): the shared array is handed out"),
 "C20_k": ("per-trie proto.Buffer: Unmarshal SetBuf()s the input, Marshal Reset()s and writes into it", "legacy stream in a sub-slice of a larger buffer, then Marshal"),
}

def props():
    return sorted(json.loads(l)["id"] for l in open(os.path.join(VERIF, "properties.jsonl")))

def claimed():
    m = json.load(open(os.path.join(VERIF, "MANIFEST.json")))
    return sorted(c["property_id"] for c in m["checks"])

def run_seed(seed, props):
    """one scratch copy, one load, every check (slimlint -props)"""
    patch = os.path.join(SEEDED, seed, "patch.diff")
    env = dict(os.environ, MUTLINES="400")
    p = subprocess.run([os.path.join(VERIF, "bin", "mutcheck"), patch] + props, capture_output=True, text=True, errors="replace", env=env)
    out = p.stdout + p.stderr
    res = {}
    cur = None
    glob_err = "SKIP" in out or ("ERROR: cannot load" in out)
    for ln in out.splitlines():
        if ln.startswith("--- C") and " exit=" in ln:
            cur = ln.split()[1]
            res[cur] = ["silent", set()]
            continue
        if cur is None:
            continue
        if "VIOLATION property=" in ln:
            res[cur][0] = "VIOLATION"
        elif ln.startswith("ERROR") and res[cur][0] != "VIOLATION":
            res[cur][0] = "error"
        if ("[violated/" in ln or "[undecided/" in ln) and len(ln.split(" ")) > 1:
            res[cur][1].add(ln.split(" ")[1].rstrip(":"))
    return seed, {q: (("error", []) if (glob_err or q not in res) else (res[q][0], sorted(res[q][1]))) for q in props}

def main():
    args = sys.argv[1:]
    jobs = 8
    if args[:1] == ["-j"]:
        jobs = int(args[1]); args = args[2:]
    seeds = sorted(d for d in os.listdir(SEEDED) if os.path.isfile(os.path.join(SEEDED, d, "verdict.txt"))
                   and open(os.path.join(SEEDED, d, "verdict.txt")).read().strip() == "CONFIRMED")
    if args:
        seeds = [s for s in seeds if s in args]
    cl = claimed()
    results = {}
    with cf.ThreadPoolExecutor(max_workers=jobs) as ex:
        futs = [ex.submit(run_seed, s, cl) for s in seeds]
        for f in cf.as_completed(futs):
            s, r = f.result()
            results[s] = r
    rows = []
    for s in seeds:
        prop = s.split("_")[0]
        what, needs = INFO.get(s, ("", ""))
        caught = {p: r for p, (st, r) in results[s].items() if st == "VIOLATION"}
        errs = [p for p, (st, _) in results[s].items() if st == "error"]
        meta = {
            "id": s,
            "breaks_property": prop,
            "change": what,
            "needs_to_manifest": needs,
            "origin": "fresh sub-agent given only the property text and a scratch worktree of /repo",
            "confirmed_by": "tools/confirm_seed.sh: applied to a scratch worktree of /repo HEAD; build ok; unedited suite passes with the change; demonstration fails with the change and passes without it (see confirm.log)",
            "own_property_check_detects": prop in caught,
            "detected_by": {p: r for p, r in sorted(caught.items())},
            "check_errors": errs,
            "audit_cmd": "tools/seed_audit.py " + s,
        }
        json.dump(meta, open(os.path.join(SEEDED, s, "meta.json"), "w"), indent=1)
        rows.append((s, prop, prop in caught, sorted(caught), what))
    with open(os.path.join(SEEDED, "AUDIT.md"), "w") as f:
        f.write("# Seeded changes vs. checks\n\nGenerated by tools/seed_audit.py. Every change compiles, passes the unedited suite and breaks its property (confirm.log).\n\n")
        f.write("| seed | property | caught by its own check | caught by | change |\n|---|---|---|---|---|\n")
        for s, prop, own, by, what in rows:
            f.write(f"| {s} | {prop} | {'yes' if own else 'NO'} | {', '.join(by) or '-'} | {what} |\n")
        own = sum(1 for r in rows if r[2]); anyc = sum(1 for r in rows if r[3])
        f.write(f"\n{own} of {len(rows)} caught by the check of the property they were written against; {anyc} of {len(rows)} caught by some check.\n")
    for s, prop, own, by, what in rows:
        print(f"{s:7s} own={'Y' if own else 'n'} by={','.join(by)}")

if __name__ == "__main__":
    main()
