#!/bin/bash
# file_controls.sh <round> <workdir> : files <workdir>/<area>/<rN>/{patch.diff,NOTES.md} as seeded/ref<round>_<area>_<rN>
set -u
round=$1; work=$2
VERIF=$(cd "$(dirname "$0")/.." && pwd)
for d in "$work"/*/r?; do
  [ -f "$d/patch.diff" ] || continue
  area=$(basename "$(dirname "$d")"); rn=$(basename "$d")
  id="ref${round}_${area}_${rn}"
  out="$VERIF/seeded/$id"
  mkdir -p "$out"
  cp "$d/patch.diff" "$out/patch.diff"
  [ -f "$d/NOTES.md" ] && cp "$d/NOTES.md" "$out/NOTES.md"
  cat > "$out/meta.json" <<EOM
{
 "id": "$id",
 "kind": "behaviour-preserving refactoring (negative control)",
 "origin": "fresh sub-agent given only an area of the code base and a scratch worktree of /repo; asked for behaviour-preserving maintainer clean-ups that change the shape of the code substantially; built and ran the whole suite on each and compared old and new behaviour with a differential harness of its own (case counts in NOTES.md)",
 "expected": "every check stays silent",
 "audit_cmd": "tools/refactor_audit.sh on a directory holding this patch"
}
EOM
  echo "filed $id"
done
