// Package runewalk is a positive control for the "keys are bytes" rule.
package runewalk

// CmpByRunes compares a key with a stored prefix by ranging over the string:
// wrong for bytes >= 0x80.
func CmpByRunes(s string, prefix []byte) int {
	for j, c := range s {
		if j >= len(prefix) {
			return 0
		}
		if byte(c) != prefix[j] {
			if byte(c) < prefix[j] {
				return -1
			}
			return 1
		}
	}
	return 0
}

// CmpByBytes is the negative control.
func CmpByBytes(s string, prefix []byte) int {
	for j := 0; j < len(s); j++ {
		if j >= len(prefix) {
			return 0
		}
		if s[j] != prefix[j] {
			if s[j] < prefix[j] {
				return -1
			}
			return 1
		}
	}
	return 0
}
