package main

import (
	"fmt"
	"go/token"
	"go/types"
	"sort"
	"strings"

	"golang.org/x/tools/go/ssa"
)

// addends splits an or/add term into (coefficient, rest) pairs.
func addends(t *term) map[string]int64 {
	out := map[string]int64{}
	var parts []*term
	if t.op == "or" || t.op == "add" {
		parts = t.args
	} else {
		parts = []*term{t}
	}
	for _, x := range parts {
		k, rest := splitCoef(x)
		if rest == nil {
			out["#const"] += k
			continue
		}
		out[rest.String()] += k
	}
	return out
}

// getterShape describes a "found iff id != -1" accessor, possibly delegating
// to a helper with the same shape.
type getterShape struct {
	idCall   *ssa.Call // the id lookup on the key (in f or in the helper it delegates to)
	idFn     *ssa.Function
	cond     string        // normalised not-found condition on the id
	notFound *ssa.Return   // in f
	found    *ssa.Return   // in f
	value    *term         // found value of f in terms of trie data and the id
	ordCall  *ssa.Call     // the call that turns the id into a leaf ordinal
	ordFn    *ssa.Function // function containing ordCall
	env      *evaluator
	helper   *ssa.Function
	why      string
}

func keyParamOf(f *ssa.Function) *ssa.Parameter {
	for _, prm := range f.Params {
		if isStringType(prm.Type()) {
			return prm
		}
	}
	return nil
}

// analyseGetter analyses f; env binds f's parameters when f is a helper called from a getter.
func analyseGetter(p *Program, f *ssa.Function, getID *ssa.Function) getterShape {
	return analyseGetterRec(p, f, getID, nil, 0)
}

func analyseGetterRec(p *Program, f *ssa.Function, getID *ssa.Function, bind map[ssa.Value]*term, depth int) getterShape {
	var gs getterShape
	keyParam := keyParamOf(f)
	if keyParam == nil {
		gs.why = "no key parameter"
		return gs
	}
	e := newEval(p)
	for k, v := range bind {
		e.env[k] = v
	}
	gs.env = e
	rets := returnsOf(f)
	// direct form: id := idFn(st, key); if id == -1 { return zero, false }; return V, true
	for _, c := range callsIn(f) {
		if call, ok := c.(*ssa.Call); ok && calleeOf(call) == getID {
			if len(call.Call.Args) == 2 && call.Call.Args[1] == keyParam {
				gs.idCall = call
				gs.idFn = getID
			}
		}
	}
	if gs.idCall != nil {
		iff, ok := lastInstr(gs.idCall.Block()).(*ssa.If)
		if !ok {
			gs.why = "the id does not control the first branch"
			return gs
		}
		plain := newEval(p)
		gs.cond = plain.eval(iff.Cond).String()
		idTerm := plain.eval(gs.idCall).String()
		nfSucc := -1
		switch gs.cond {
		case "cmp:==(" + idTerm + ",-1)":
			nfSucc = 0
		case "cmp:!=(" + idTerm + ",-1)":
			nfSucc = 1
			gs.cond = "cmp:==(" + idTerm + ",-1)"
		default:
			gs.why = "the first branch does not test id == -1 (condition " + gs.cond + ")"
			return gs
		}
		// normalise the key symbol so that conditions of different functions compare
		gs.cond = strings.ReplaceAll(gs.cond, ","+keyParam.Name()+")", ",KEY)")
		nf, okNF := lastInstr(iff.Block().Succs[nfSucc]).(*ssa.Return)
		if !okNF {
			gs.why = "the not-found branch does not return at once"
			return gs
		}
		gs.notFound = nf
		for _, r := range rets {
			if r != nf {
				if gs.found != nil {
					gs.why = "more than one found return"
					return gs
				}
				gs.found = r
			}
		}
		if gs.found == nil {
			gs.why = "no found return"
			return gs
		}
		// ordinal call: a trie call (not the id lookup) taking the id
		for _, c := range callsIn(f) {
			if call, ok := c.(*ssa.Call); ok && call != gs.idCall && calleeOf(call) != nil && trieScope(calleeOf(call)) {
				for _, a := range call.Call.Args {
					if a == gs.idCall {
						gs.ordCall = call
						gs.ordFn = f
					}
				}
			}
		}
		if len(gs.found.Results) >= 1 {
			gs.value = e.eval(gs.found.Results[0])
		}
		return gs
	}
	// delegating form: v, ok := helper(st, key, ...); if !ok { return zero, false }; return decode(v), true
	if depth >= 2 {
		gs.why = "does not look the key up with " + shortFn(getID)
		return gs
	}
	for _, c := range callsIn(f) {
		call, ok := c.(*ssa.Call)
		if !ok {
			continue
		}
		h := calleeOf(call)
		if h == nil || !trieScope(h) || len(h.Blocks) == 0 || h == f {
			continue
		}
		passesKey := false
		for _, a := range call.Call.Args {
			if a == keyParam {
				passesKey = true
			}
		}
		if !passesKey || h.Signature.Results().Len() != 2 || !isBoolType(h.Signature.Results().At(1).Type()) {
			continue
		}
		hb := map[ssa.Value]*term{}
		for i, prm := range h.Params {
			if i < len(call.Call.Args) {
				a := call.Call.Args[i]
				if _, isBasic := a.Type().Underlying().(*types.Basic); isBasic && !isStringType(a.Type()) {
					hb[prm] = e.eval(a)
				}
			}
		}
		hs := analyseGetterRec(p, h, getID, hb, depth+1)
		if hs.why != "" {
			gs.why = "delegates to " + shortFn(h) + ", which " + hs.why
			return gs
		}
		plain := newEval(p)
		if len(hs.notFound.Results) != 2 || plain.eval(hs.notFound.Results[1]).String() != "false" || plain.eval(hs.found.Results[1]).String() != "true" {
			gs.why = "delegates to " + shortFn(h) + ", whose flag is not the constant false/true on the two branches of the id test"
			return gs
		}
		var v0, v1 ssa.Value
		for _, ref := range *call.Referrers() {
			if ex, ok := ref.(*ssa.Extract); ok {
				if ex.Index == 0 {
					v0 = ex
				} else {
					v1 = ex
				}
			}
		}
		iff, ok := lastInstr(call.Block()).(*ssa.If)
		if !ok || v1 == nil {
			gs.why = "the helper's flag does not control the first branch"
			return gs
		}
		nfSucc := -1
		cond := iff.Cond
		neg := false
		for {
			if u, ok := cond.(*ssa.UnOp); ok && u.Op == token.NOT {
				neg = !neg
				cond = u.X
				continue
			}
			break
		}
		if cond == v1 {
			nfSucc = 1
			if neg {
				nfSucc = 0
			}
		}
		if nfSucc < 0 {
			gs.why = "the first branch does not test the helper's found flag"
			return gs
		}
		nf, okNF := lastInstr(iff.Block().Succs[nfSucc]).(*ssa.Return)
		if !okNF {
			gs.why = "the not-found branch does not return at once"
			return gs
		}
		gs.notFound = nf
		for _, r := range rets {
			if r != nf {
				if gs.found != nil {
					gs.why = "more than one found return"
					return gs
				}
				gs.found = r
			}
		}
		if gs.found == nil {
			gs.why = "no found return"
			return gs
		}
		gs.idCall, gs.idFn, gs.cond, gs.ordCall, gs.ordFn, gs.helper = hs.idCall, hs.idFn, hs.cond, hs.ordCall, hs.ordFn, h
		if v0 != nil && hs.value != nil {
			e.env[v0] = hs.value
		}
		if len(gs.found.Results) >= 1 {
			gs.value = e.eval(gs.found.Results[0])
		}
		return gs
	}
	gs.why = "does not look the key up with " + shortFn(getID)
	return gs
}

func checkC14(p *Program, r *Report) {
	r.Explanation = "Decided for every query string and every trie: (found) each GetI8/16/32/64 and Get call GetID(key), return not-found exactly when it is -1 and otherwise report found=true — the found flags are identical by construction; (ordinal) the typed getter takes the leaf ordinal from the same function Get's value path uses; (layout) the value returned normalises to the little-endian assembly sum over j<W of byte[W*ordinal+j]*2^(8j) of Leaves.Bytes with W = Sizeof(intW), each byte once, with no bits shifted out of a narrower type, and W is the constant size of the matching encoder encode.I{8W}."
	r.NotCovered = "That Leaves of an integer-valued trie is dense and fixed-size (true by newVLenArray for non-empty fixed-width values, a data fact)."
	r.Trusted = []string{"go/ssa", "go/types Sizes"}
	get := p.Method(p.Trie, "SlimTrie", "Get")
	// the id function is whatever Get itself uses on its key (GetID today): the typed
	// getters must use the same one, so a consistent refactoring of both is accepted
	getID := p.Method(p.Trie, "SlimTrie", "GetID")
	if get != nil {
		for _, c := range callsIn(get) {
			if call, ok := c.(*ssa.Call); ok && calleeOf(call) != nil && trieScope(calleeOf(call)) && len(call.Call.Args) == 2 &&
				isStringType(call.Call.Args[1].Type()) && types.Identical(call.Type(), types.Typ[types.Int32]) {
				if _, isParam := call.Call.Args[1].(*ssa.Parameter); isParam {
					getID = calleeOf(call)
				}
			}
		}
	}
	r.Rule("C14.found", "structure+E6", "found flag: not-found iff GetID(key) == -1, as in Get", 5)
	if getID == nil || get == nil {
		r.Unk("(*trie.SlimTrie).Get/GetID", "", "anchor not found")
		return
	}
	gShape := analyseGetter(p, get, getID)
	if gShape.why != "" {
		r.Bad("(*trie.SlimTrie).Get", p.Pos(get.Pos()), gShape.why)
	} else {
		e := newEval(p)
		nfOK := len(gShape.notFound.Results) == 2 && e.eval(gShape.notFound.Results[1]).String() == "false"
		fOK := len(gShape.found.Results) == 2 && e.eval(gShape.found.Results[1]).String() == "true"
		r.Check(nfOK && fOK, "(*trie.SlimTrie).Get", p.Pos(get.Pos()), "not-found iff GetID(key) == -1", "the found flag is not the constant false/true on the two branches of GetID(key) == -1")
	}
	getReach := trieReach(get)
	type res struct {
		f     *ssa.Function
		shape getterShape
		w     int64
	}
	var getters []res
	for _, n := range []int{8, 16, 32, 64} {
		name := fmt.Sprintf("GetI%d", n)
		f := p.Method(p.Trie, "SlimTrie", name)
		if f == nil {
			r.Unk("(*trie.SlimTrie)."+name, "", "anchor not found")
			continue
		}
		r.Func(shortFn(f))
		sh := analyseGetter(p, f, getID)
		if sh.why != "" {
			r.Bad("(*trie.SlimTrie)."+name, p.Pos(f.Pos()), sh.why)
			continue
		}
		e := newEval(p)
		nfOK := len(sh.notFound.Results) == 2 && e.eval(sh.notFound.Results[1]).String() == "false" && e.eval(sh.notFound.Results[0]).String() == "0"
		fOK := len(sh.found.Results) == 2 && e.eval(sh.found.Results[1]).String() == "true"
		via := ""
		if sh.helper != nil {
			via = " (through " + shortFn(sh.helper) + ")"
		}
		r.Check(nfOK && fOK && sh.cond == gShape.cond, "(*trie.SlimTrie)."+name, p.Pos(f.Pos()), "returns (0,false) iff GetID(key) == -1, else (v,true); same test as Get"+via,
			"the found flag differs from Get's: condition "+sh.cond+" vs "+gShape.cond)
		w := p.Sizes.Sizeof(f.Signature.Results().At(0).Type())
		getters = append(getters, res{f, sh, w})
	}

	r.Rule("C14.ordinal", "call graph", "the leaf ordinal comes from the function Get's value path uses", 4)
	r.Rule("C14.layout", "E6+types", "value = little-endian assembly of W bytes at W*ordinal", 4)
	for _, g := range getters {
		name := "(*trie.SlimTrie)." + g.f.Name()
		ordCall := g.shape.ordCall
		r.curRule = r.Rules[len(r.Rules)-2]
		if ordCall == nil {
			r.Bad(name+" ordinal", p.Pos(g.f.Pos()), "the leaf ordinal is not obtained by a call on the id GetID returned")
			continue
		}
		r.Check(getReach[calleeOf(ordCall)], name+" ordinal", p.Pos(ordCall.Pos()), "from "+shortFn(calleeOf(ordCall))+", which Get's value path also uses",
			shortFn(calleeOf(ordCall))+" is not on Get's value path: the two may locate different leaves")
		r.curRule = r.Rules[len(r.Rules)-1]
		e := newEval(p)
		ords := e.inline(ordCall)
		if g.shape.ordFn != nil && g.shape.ordFn != g.f {
			// the ordinal is computed inside the helper: evaluate it there
			ords = newEval(p).inline(ordCall)
		}
		if len(ords) == 0 {
			r.Unk(name+" layout", p.Pos(ordCall.Pos()), "cannot evaluate the ordinal symbolically ("+shortFn(calleeOf(ordCall))+" is not a single-block function)")
			continue
		}
		T := ords[0]
		val := g.shape.value
		if val == nil {
			val = e.eval(g.shape.found.Results[0])
		}
		got := addends(val)
		want := map[string]int64{}
		for j := int64(0); j < g.w; j++ {
			idx := O("add", mulTerms(K(g.w), T), K(j))
			bt := ON("idx", "", S("Slim.Leaves.Bytes"), idx)
			want[bt.String()] = int64(1) << uint(8*j)
		}
		ok := len(got) == len(want)
		for k, c := range want {
			// the top byte of a signed 64-bit value has coefficient 2^56 (no overflow in int64 terms)
			if got[k] != c {
				ok = false
			}
		}
		detail := ""
		if !ok {
			var gs, ws []string
			for k, c := range got {
				gs = append(gs, fmt.Sprintf("%d*%s", c, abbreviate(k)))
			}
			for k, c := range want {
				ws = append(ws, fmt.Sprintf("%d*%s", c, abbreviate(k)))
			}
			sort.Strings(gs)
			sort.Strings(ws)
			detail = fmt.Sprintf("value is {%s}, want the %d-byte little-endian assembly {%s} with T the leaf ordinal", strings.Join(gs, " + "), g.w, strings.Join(ws, " + "))
		}
		r.Check(ok, name+" layout", p.Pos(g.shape.found.Pos()), fmt.Sprintf("sum over j<%d of Leaves.Bytes[%d*ordinal+j] * 2^(8j)", g.w, g.w), detail)
		// width agrees with the encoder
		encName := "I" + fmt.Sprint(8*g.w)
		if gs := p.ValueMethod(p.Enc, encName, "GetEncodedSize"); gs != nil {
			ee := newEval(p)
			rets := returnsOf(gs)
			sz := ""
			if len(rets) == 1 {
				sz = ee.eval(rets[0].Results[0]).String()
			}
			r.Check(sz == fmt.Sprint(g.w), name+" width = encode."+encName+" size", p.Pos(gs.Pos()), "both "+fmt.Sprint(g.w)+" bytes", "encoder size "+sz+" differs from getter width "+fmt.Sprint(g.w))
		} else {
			r.Unk(name+" width = encode."+encName+" size", "", "encoder not found")
		}
	}
	_ = types.Typ
}

// abbreviate shortens long terms for messages by replacing the ordinal.
func abbreviate(s string) string {
	if len(s) > 90 {
		return s[:40] + "…" + s[len(s)-40:]
	}
	return s
}

func init() { checks["C14"] = checkC14 }
