package main

import (
	"fmt"
	"go/types"
	"sort"
	"strings"

	"golang.org/x/tools/go/ssa"
)

const (
	idBmDecode   = "github.com/openacid/low/bmtree.Decode"
	idBmAllPaths = "github.com/openacid/low/bmtree.AllPaths"
	idBmSlice    = "github.com/openacid/low/bitmap.Slice"
	idBmOf       = "github.com/openacid/low/bitmap.Of"
	idBmOfMany   = "github.com/openacid/low/bitmap.OfMany"
)

// u64Kind classifies the provenance of a []uint64 value: "words" (bitmap
// words, with the size in bits they were cut with, as a term), "paths" (a list
// of label paths) or "" (unknown).
type u64Kind struct {
	kind string
	size *term
	why  string
}

func kindOfU64(p *Program, e *evaluator, v ssa.Value, depth int) u64Kind {
	if depth > 6 {
		return u64Kind{}
	}
	switch x := v.(type) {
	case *ssa.Call:
		switch {
		case calleeIs(x, idBmDecode), calleeIs(x, idPathsOf), calleeIs(x, idBmAllPaths):
			return u64Kind{kind: "paths", why: "result of " + funcID(calleeOf(x))}
		case calleeIs(x, idBmSlice) && len(x.Call.Args) == 3:
			return u64Kind{kind: "words", size: O("add", e.eval(x.Call.Args[2]), mulTerms(K(-1), e.eval(x.Call.Args[1]))), why: "bitmap.Slice(words, from, to)"}
		case calleeIs(x, idBmOf), calleeIs(x, idBmOfMany):
			return u64Kind{kind: "words", why: "bitmap.Of"}
		}
	case *ssa.Slice:
		// []uint64{x}: a one-word literal
		if al, ok := x.X.(*ssa.Alloc); ok {
			if at, ok := al.Type().(*types.Pointer).Elem().Underlying().(*types.Array); ok && at.Len() == 1 {
				return u64Kind{kind: "words", why: "one-word literal"}
			}
		}
	case *ssa.UnOp:
		if wp := wirePathOf(x); strings.HasSuffix(wp, ".Words") {
			return u64Kind{kind: "words", why: wp}
		}
	case *ssa.Extract:
		if c, ok := x.Tuple.(*ssa.Call); ok {
			if g := calleeOf(c); g != nil && trieScope(g) && len(g.Blocks) > 0 {
				// all returns of g agree on the kind of that result
				res := u64Kind{}
				for i, ret := range returnsOf(g) {
					ge := newEval(p)
					k := kindOfU64(p, ge, ret.Results[x.Index], depth+1)
					if i == 0 {
						res = k
					} else if k.kind != res.kind {
						if k.kind == "" || res.kind == "" {
							// unknown provenance on one return: no definite conflict
							return u64Kind{}
						}
						return u64Kind{kind: "mixed", why: "returns of " + g.Name() + " disagree: " + res.kind + " (" + res.why + ") and " + k.kind + " (" + k.why + ")"}
					}
				}
				res.size = nil
				return res
			}
		}
	case *ssa.Phi:
		res := u64Kind{}
		for i, ed := range x.Edges {
			k := kindOfU64(p, e, ed, depth+1)
			if i == 0 {
				res = k
			} else if k.kind != res.kind {
				if k.kind == "" || res.kind == "" {
					return u64Kind{}
				}
				return u64Kind{kind: "mixed", why: "branches disagree"}
			}
		}
		return res
	}
	return u64Kind{}
}

func checkC19(p *Program, r *Report) {
	r.Explanation = "Decided clauses: (kinds) on the rendering path no list of label paths is ever passed where bitmap words are expected, every function that returns a (bitmap, size) pair returns bitmap words on all of its returns together with the size those words were cut with (to-from for a slice of the label bitmap, the 17-bit node size for a table entry), and each bmtree.Decode(size, bm) receives the size returned with its bitmap — the defect class that made String() panic on tries with table-compressed short nodes; (order) labels are rendered through a slice that is sorted before use (map iteration order cannot leak); (empty) String on an empty trie returns before touching the node-type bitmap. (session-valid) the label decoder reads conditionally assigned session fields only under their validity discriminator (shared with C10): the renderer decodes every node into one reused session."
	r.NotCovered = "Everything else in the rendering: that each node is shown once, child ids, the tree layout produced by openacid/low/tree."
	r.Trusted = []string{"go/ssa", "openacid/low bmtree/bitmap API contracts (words vs paths)"}
	str := p.Method(p.Trie, "SlimTrie", "String")
	r.Rule("C19.kinds", "E8", "bitmap words and path lists are not confused; decode size = build size", 2)
	if str == nil {
		r.Unk("(*trie.SlimTrie).String", "", "anchor not found")
		return
	}
	reach := trieReach(str)
	for _, f := range p.FuncsOf(triePath) {
		if f.Signature.Recv() != nil && isNamed(f.Signature.Recv().Type(), triePath, "slimTrieStringly") {
			for g := range trieReach(f) {
				reach[g] = true
			}
		}
	}
	var fs []*ssa.Function
	for f := range reach {
		if trieScope(f) && f.Synthetic == "" {
			fs = append(fs, f)
			r.Func(shortFn(f))
		}
	}
	sort.Slice(fs, func(i, j int) bool { return fs[i].String() < fs[j].String() })
	nDec := 0
	for _, f := range fs {
		e := newEval(p)
		for _, c := range callsIn(f) {
			call, ok := c.(*ssa.Call)
			if !ok || !calleeIs(call, idBmDecode) || len(call.Call.Args) != 2 {
				continue
			}
			nDec++
			construct := fmt.Sprintf("bmtree.Decode #%d in %s", nDec, shortFn(f))
			sizeArg, bmArg := call.Call.Args[0], call.Call.Args[1]
			k := kindOfU64(p, e, bmArg, 0)
			switch k.kind {
			case "paths", "mixed":
				r.Bad(construct, p.Pos(call.Pos()), "the bitmap argument is not bitmap words: "+k.why+"; decoding a path list as a bitmap panics or invents labels")
				continue
			case "":
				r.OK(construct, p.Pos(call.Pos()), "bitmap argument of unknown provenance (no conflict)")
				continue
			}
			// size pairing
			okSize := false
			detail := ""
			if ex, ok := bmArg.(*ssa.Extract); ok {
				if sx, ok := sizeArg.(*ssa.Extract); ok && sx.Tuple == ex.Tuple && sx.Index != ex.Index {
					okSize = true
					detail = "size and bitmap are the two results of one call"
				}
			}
			if !okSize && k.size != nil && e.eval(sizeArg).String() == k.size.String() {
				okSize = true
				detail = "size is the width the words were cut with"
			}
			if !okSize && k.size == nil {
				if _, ok := bmArg.(*ssa.Extract); !ok {
					okSize = true
					detail = "size of unknown provenance (no conflict)"
				}
			}
			r.Check(okSize, construct, p.Pos(call.Pos()), "bitmap words ("+k.why+"); "+detail, "the size passed ("+abbreviate(e.eval(sizeArg).String())+") is not the size returned with / used to cut the bitmap")
		}
	}
	if nDec == 0 {
		r.Unk("bmtree.Decode on the rendering path", p.Pos(str.Pos()), "no label decoding found under String()")
	}
	// functions returning (words, size)
	for _, f := range fs {
		sig := f.Signature
		if sig.Results().Len() != 2 || !isU64Slice(sig.Results().At(0).Type()) || !isIntType(sig.Results().At(1).Type()) {
			continue
		}
		var bad []string
		for _, ret := range returnsOf(f) {
			e := newEval(p)
			k := kindOfU64(p, e, ret.Results[0], 0)
			sz := e.eval(ret.Results[1])
			switch {
			case k.kind == "paths" || k.kind == "mixed":
				bad = append(bad, "return at "+p.Pos(ret.Pos())+" hands out "+k.kind+" ("+k.why+") as the bitmap")
			case k.kind == "words" && k.size != nil && sz.String() != k.size.String():
				bad = append(bad, "return at "+p.Pos(ret.Pos())+": size "+sz.String()+" is not the width "+k.size.String()+" of the slice")
			case k.kind == "words" && k.why == "one-word literal" && !(isK(sz) && sz.c == 17):
				bad = append(bad, "return at "+p.Pos(ret.Pos())+": a table entry is a 17-bit node bitmap, size returned is "+sz.String())
			}
		}
		r.Check(len(bad) == 0, "(bitmap, size) pair returned by "+shortFn(f), p.Pos(f.Pos()), "bitmap words with their own size on every return", strings.Join(bad, "; "))
	}

	// ---- order
	r.Rule("C19.order", "E10", "labels are rendered in sorted order", 1)
	nRange := 0
	for _, f := range fs {
		instrsOf(f, func(_ *ssa.BasicBlock, in ssa.Instruction) {
			rg, ok := in.(*ssa.Range)
			if !ok {
				return
			}
			if _, isMap := rg.X.Type().Underlying().(*types.Map); !isMap {
				return
			}
			nRange++
			why, good := mapRangeDiscipline(p, f, rg)
			r.Check(why == "", fmt.Sprintf("range over map #%d in %s", nRange, shortFn(f)), p.Pos(rg.Pos()), good, why)
		})
	}
	if nRange == 0 {
		r.OK("map iteration on the rendering path", "", "none")
	}

	// ---- empty
	r.Rule("C19.empty", "E3", "String() on an empty trie returns before any bitmap access", 1)
	guarded := false
	if iff, ok := lastInstr(str.Blocks[0]).(*ssa.If); ok {
		if x, nilSucc, ok := nilTest(iff.Cond); ok && wirePathOf(x) == "Slim.NodeTypeBM" {
			if ret, ok := lastInstr(str.Blocks[0].Succs[nilSucc]).(*ssa.Return); ok && len(ret.Results) == 1 {
				if s, ok := constString(ret.Results[0]); ok && s == "" {
					guarded = true
				}
			}
		}
		for _, in := range str.Blocks[0].Instrs {
			if c, ok := in.(ssa.CallInstruction); ok && takesTrie(calleeOf(c)) {
				guarded = false
			}
		}
	}
	r.Check(guarded, "(*trie.SlimTrie).String on an empty trie", p.Pos(str.Pos()), "first statement: return \"\" if the node-type bitmap is nil", "String() does not start with the empty-trie test")
	// ---- session typestate (shared with C10): the renderer decodes every node into one reused
	// session; a label decoder that reads a field left over from the previous node renders wrong labels
	checkSessionTypestate(p, r, "C19.session-valid")
	// ---- a loaded trie renders what was loaded: every field String() reads is replaced by every load
	checkFreshFor(p, r, "C19.fresh", str, "String", 1)
	checkRankEnd(p, r, "C19.rank-end", fs)
	// ---- leaf lines carry the retained values (shared with C01): value array layout decided per element
	checkVLenWidth(p, r, "C19.vlen-width")
	// String() decodes every inner node: a short-node or presence bitmap that does not cover all
	// ordinals is out of range for the last nodes
	r.Explanation += " (capacity) presence and short-node bitmaps are built with a capacity that covers every ordinal probed (rule shared with C01)."
	checkCapacity(p, r, "C19.capacity")
	// String() reads every inner node through the node decoder of the lookups
	r.Explanation += " (bitslice) the index into the short-node table is exactly the stored bits of the node, with no read beyond the node's last word (rule shared with C01/C10)."
	checkBitSlice(p, r, "C19.bitslice")
}

func isU64Slice(t types.Type) bool {
	s, ok := t.Underlying().(*types.Slice)
	return ok && types.Identical(s.Elem(), types.Typ[types.Uint64])
}

func init() { checks["C19"] = checkC19 }
