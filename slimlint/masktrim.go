package main

// Last-word trimming lint. "words[k] &= mask(n & 63)" (bitmap.Mask[n&63] or
// (1<<(n&63))-1) clears the bits above the n-th of a bitmap's last word — and
// the whole word when n is a multiple of 64, because mask(0) = 0. As a rank
// mask ("bits below position i") mask(0) = 0 is right; as an in-place trim of
// a stored word it is only right under a dominating test that n&63 != 0.
// The rule looks at every store into an element of a []uint64 whose value is,
// as a normalised term, and(<that element>, mask(and(63, n))).

import (
	"fmt"
	"go/token"
	"go/types"
	"strings"

	"golang.org/x/tools/go/ssa"
)

type trimSite struct {
	fn      *ssa.Function
	st      *ssa.Store
	n       string
	guarded bool
}

func maskTrimSites(p *Program, fns []*ssa.Function) []trimSite {
	var out []trimSite
	for _, f := range fns {
		if f.Synthetic != "" || len(f.Blocks) == 0 {
			continue
		}
		e := newEval(p)
		instrsOf(f, func(b *ssa.BasicBlock, in ssa.Instruction) {
			st, ok := in.(*ssa.Store)
			if !ok {
				return
			}
			ia, ok := st.Addr.(*ssa.IndexAddr)
			if !ok {
				return
			}
			sl, ok := ia.X.Type().Underlying().(*types.Slice)
			if !ok || !types.Identical(sl.Elem(), types.Typ[types.Uint64]) {
				return
			}
			// store form: words[last] = mask(n&63) into a slice made with (n+63)>>6 words — the last
			// word holds 64 bits when n is a multiple of 64 and mask(0) = 0 wipes them
			if t := e.eval(st.Val); t.op == "mask" && len(t.args) == 1 && strings.HasPrefix(t.args[0].String(), "and(63,") {
				a := t.args[0].String()
				nTerm := strings.TrimSuffix(strings.TrimPrefix(a, "and(63,"), ")")
				if mk, ok := ia.X.(*ssa.MakeSlice); ok {
					lt := e.eval(mk.Len).String()
					// the length term mentions 63+n shifted by 6 (conversions aside)
					if strings.Contains(lt, "shr:s(add(63,"+nTerm+"),6)") || strings.Contains(lt, "shr:u(add(63,"+nTerm+"),6)") {
						out = append(out, trimSite{fn: f, st: st, n: nTerm, guarded: maskGuarded(e, f, b, a)})
					}
				}
				return
			}
			bo, ok := st.Val.(*ssa.BinOp)
			if !ok || bo.Op != token.AND {
				return
			}
			// one operand is a load of the same element
			var other ssa.Value
			for _, pr := range [][2]ssa.Value{{bo.X, bo.Y}, {bo.Y, bo.X}} {
				if ld, ok := pr[0].(*ssa.UnOp); ok && ld.Op == token.MUL {
					if ia2, ok := ld.X.(*ssa.IndexAddr); ok && ia2.X == ia.X && e.eval(ia2.Index).String() == e.eval(ia.Index).String() {
						other = pr[1]
					}
				}
			}
			if other == nil {
				return
			}
			t := e.eval(other)
			if t.op != "mask" || len(t.args) != 1 {
				return
			}
			a := t.args[0].String()
			if !strings.HasPrefix(a, "and(63,") {
				return
			}
			nTerm := strings.TrimSuffix(strings.TrimPrefix(a, "and(63,"), ")")
			guarded := maskGuarded(e, f, b, a)
			out = append(out, trimSite{fn: f, st: st, n: nTerm, guarded: guarded})
		})
	}
	return out
}

// maskGuarded: block b is dominated by the non-zero side of a test of the term a (= n&63) against 0.
func maskGuarded(e *evaluator, f *ssa.Function, b *ssa.BasicBlock, a string) bool {
	guarded := false
	for _, blk := range f.Blocks {
		iff, ok := lastInstr(blk).(*ssa.If)
		if !ok {
			continue
		}
		c, ok := iff.Cond.(*ssa.BinOp)
		if !ok || (c.Op != token.NEQ && c.Op != token.EQL && c.Op != token.GTR) {
			continue
		}
		x, y := e.eval(c.X).String(), e.eval(c.Y).String()
		if !((x == a && y == "0") || (y == a && x == "0")) {
			continue
		}
		nz := 0
		if c.Op == token.EQL {
			nz = 1
		}
		s := blk.Succs[nz]
		if len(s.Preds) == 1 && s.Dominates(b) {
			guarded = true
		}
	}
	return guarded
}

func checkMaskTrim(p *Program, r *Report, rule string, fns []*ssa.Function) {
	r.Rule(rule, "E6+CFG", "no bitmap word is trimmed in place with mask(n&63) unless n&63 != 0", 0)
	sites := maskTrimSites(p, fns)
	ord := map[*ssa.Function]int{}
	for _, s := range sites {
		ord[s.fn]++
		r.Func(shortFn(s.fn))
		r.Check(s.guarded, fmt.Sprintf("in-place trim #%d in %s", ord[s.fn], shortFn(s.fn)), p.Pos(s.st.Pos()), "under a test that "+s.n+"&63 != 0",
			"the word is ANDed in place with (or overwritten by) mask("+s.n+"&63) without a dominating test that "+s.n+"&63 != 0: when "+s.n+" is a multiple of 64 the mask is 0 and the whole last word is cleared")
	}
	if len(sites) == 0 {
		r.Note("%s: no in-place trim of a bitmap word with mask(n&63) in the analysed functions", rule)
	}
}

func controlMaskTrim(fx *Program, r *Report, rule string) {
	pkg := fx.FxPkg("masktrim")
	if pkg == nil {
		r.Control(rule, "fixtures/masktrim", false, "fixture package not loaded")
		return
	}
	for _, tc := range []struct {
		fn   string
		want bool
	}{{"AllOnesWrong", true}, {"AllOnesRight", false}, {"StoreWrong", true}, {"StoreRight", false}, {"StoreSpare", false}} {
		f := pkg.Func(tc.fn)
		if f == nil {
			r.Control(rule, "masktrim."+tc.fn, false, "function not found")
			continue
		}
		sites := maskTrimSites(fx, []*ssa.Function{f})
		bad := 0
		for _, s := range sites {
			if !s.guarded {
				bad++
			}
		}
		r.Control(rule, "masktrim."+tc.fn, (len(sites) == 1 || tc.fn == "StoreSpare") && (bad > 0) == tc.want, fmt.Sprintf("expected flagged=%v: %d trim site(s), %d unguarded", tc.want, len(sites), bad))
	}
}
