package main

import (
	"fmt"
	"os"
	"path/filepath"
	"strings"

	"golang.org/x/tools/go/packages"
	"golang.org/x/tools/go/ssa"
	"golang.org/x/tools/go/ssa/ssautil"
)

// LoadFixtures loads the positive-control packages under slimlint/fixtures.
// They are tiny self-contained packages (std imports only) on which the
// engines must report a violation on every run.
func LoadFixtures(verif string) (*Program, error) {
	dir := filepath.Join(verif, "slimlint")
	env := []string{}
	for _, e := range os.Environ() {
		if strings.HasPrefix(e, "GOFLAGS=") || strings.HasPrefix(e, "GOWORK=") || strings.HasPrefix(e, "GOARCH=") {
			continue
		}
		env = append(env, e)
	}
	env = append(env, "GOFLAGS=-mod=vendor", "GOPROXY=off", "GOSUMDB=off", "GOWORK=off", "GOTOOLCHAIN=local")
	pc := &packages.Config{Mode: packages.LoadAllSyntax, Dir: dir, Env: env}
	pkgs, err := packages.Load(pc, "./fixtures/...")
	if err != nil {
		return nil, err
	}
	if len(pkgs) == 0 {
		return nil, fmt.Errorf("no fixture packages found")
	}
	if packages.PrintErrors(pkgs) > 0 {
		return nil, fmt.Errorf("fixture packages do not type-check")
	}
	prog, _ := ssautil.AllPackages(pkgs, ssa.InstantiateGenerics)
	prog.Build()
	p := &Program{Cfg: Config{Name: "fixtures"}, Repo: dir, Pkgs: pkgs, Prog: prog, Fset: prog.Fset}
	p.allFuncs = ssautil.AllFunctions(prog)
	p.Sizes = pkgs[0].TypesSizes
	return p, nil
}

// FxPkg returns a fixture package by its last path element.
func (p *Program) FxPkg(name string) *ssa.Package {
	for _, sp := range p.Prog.AllPackages() {
		if strings.HasSuffix(sp.Pkg.Path(), "/fixtures/"+name) {
			return sp
		}
	}
	return nil
}
