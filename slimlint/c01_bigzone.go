package main

// C01.bigzone — the leading BigInnerCnt inner nodes keep the 257-bit layout.
//
// Readers decide by position: an inner node whose ordinal is below
// Slim.BigInnerCnt is decoded as a 257-bit bitmap, every other one as a 17-bit
// bitmap or a short code. The builder appends sizes as nodes are created and
// later rewrites, in place, the entries it replaces with short codes. Such an
// in-place rewrite (a store into an element of the size list or of the bitmap
// list that is not an append) must be confined to ordinals >= the counter that
// is published as BigInnerCnt: established by the loop's start value or by a
// dominating comparison with that counter.

import (
	"fmt"
	"go/token"
	"strings"

	"golang.org/x/tools/go/ssa"
)

func checkBigZone(p *Program, r *Report, rule string) {
	r.Rule(rule, "E3", "in-place node-size/bitmap rewrites touch only ordinals >= BigInnerCnt", 2)
	// the counter published as BigInnerCnt
	var bigField string
	for _, f := range p.FuncsOf(triePath) {
		instrsOf(f, func(_ *ssa.BasicBlock, in ssa.Instruction) {
			st, ok := in.(*ssa.Store)
			if !ok {
				return
			}
			if _, fv, fa := fieldOfAddr(st.Addr); fa != nil && fv.Name() == "BigInnerCnt" {
				if n := namedOf(fa.X.Type()); n != nil && n.Obj().Name() == "Slim" {
					if ld, ok := deref(st.Val); ok {
						if _, sv, sa := fieldOfAddr(ld); sa != nil {
							bigField = sv.Name()
						}
					}
				}
			}
		})
	}
	if bigField == "" {
		r.Unk("Slim.BigInnerCnt source", "", "cannot find the builder counter stored into Slim.BigInnerCnt")
		return
	}
	isBigLoad := func(v ssa.Value) bool {
		for {
			if cv, ok := v.(*ssa.Convert); ok {
				v = cv.X
				continue
			}
			break
		}
		ld, ok := deref(v)
		if !ok {
			return false
		}
		_, fv, fa := fieldOfAddr(ld)
		return fa != nil && fv.Name() == bigField
	}
	strip := func(v ssa.Value) ssa.Value {
		for {
			if cv, ok := v.(*ssa.Convert); ok {
				v = cv.X
				continue
			}
			return v
		}
	}
	// lower bound proof for an index value at a block
	var geBig func(idx ssa.Value, at *ssa.BasicBlock, d int) bool
	geBig = func(idx ssa.Value, at *ssa.BasicBlock, d int) bool {
		if d > 4 {
			return false
		}
		idx = strip(idx)
		if isBigLoad(idx) {
			return true
		}
		// (b) dominating comparison idx >= big / idx < big
		fn := at.Parent()
		for _, b := range fn.Blocks {
			iff, ok := lastInstr(b).(*ssa.If)
			if !ok {
				continue
			}
			bo, ok := iff.Cond.(*ssa.BinOp)
			if !ok {
				continue
			}
			x, y := strip(bo.X), strip(bo.Y)
			safe := -1
			switch {
			case x == idx && isBigLoad(y) && bo.Op == token.GEQ, y == idx && isBigLoad(x) && bo.Op == token.LEQ:
				safe = 0
			case x == idx && isBigLoad(y) && bo.Op == token.LSS, y == idx && isBigLoad(x) && bo.Op == token.GTR:
				safe = 1
			}
			if safe < 0 {
				continue
			}
			s := b.Succs[safe]
			if len(s.Preds) == 1 && s.Dominates(at) {
				return true
			}
		}
		// (c) counter + a non-negative offset: "innerI := c.bigCnt + int32(i)" with i the index of a range
		// over the tail list[bigCnt:]
		if bo, ok := idx.(*ssa.BinOp); ok && bo.Op == token.ADD {
			for _, pr := range [][2]ssa.Value{{bo.X, bo.Y}, {bo.Y, bo.X}} {
				if isBigLoad(pr[0]) && loopIndexNonNeg(strip(pr[1]), 0) {
					return true
				}
			}
		}
		// (a) loop variable: phi(start, phi+positive)
		if ph, ok := idx.(*ssa.Phi); ok {
			okAll := true
			for i, e := range ph.Edges {
				pred := ph.Block().Preds[i]
				if ph.Block().Dominates(pred) {
					// back edge: idx + positive constant
					bo, ok := strip(e).(*ssa.BinOp)
					if !ok || bo.Op != token.ADD {
						okAll = false
						continue
					}
					k, isK := constInt(bo.Y)
					if !(strip(bo.X) == ph && isK && k > 0) {
						okAll = false
					}
					continue
				}
				if !geBig(e, pred, d+1) {
					okAll = false
				}
			}
			return okAll
		}
		return false
	}
	// the per-node lists the Inners bitmap is assembled from: the two arguments of bitmap.OfMany
	// (today creator.innerBMs and creator.innerSizes)
	lists := map[string]bool{}
	for _, f := range p.FuncsOf(triePath) {
		for _, c := range callsIn(f) {
			if g := calleeOf(c); g != nil && strings.HasSuffix(funcID(g), "/bitmap.OfMany") {
				for _, a := range c.Common().Args {
					if ld, ok := deref(a); ok {
						if _, fv, fa := fieldOfAddr(ld); fa != nil {
							lists[fv.Name()] = true
						}
					}
				}
			}
		}
	}
	if len(lists) == 0 {
		r.Unk("per-node bitmap/size lists", "", "no call of bitmap.OfMany on builder fields found (anchor not found)")
		return
	}
	listFields := map[string]bool{}
	n := 0
	for _, f := range p.FuncsOf(triePath) {
		if !trieScope(f) {
			continue
		}
		instrsOf(f, func(b *ssa.BasicBlock, in ssa.Instruction) {
			st, ok := in.(*ssa.Store)
			if !ok {
				return
			}
			ia, ok := st.Addr.(*ssa.IndexAddr)
			if !ok {
				return
			}
			ld, ok := deref(ia.X)
			if !ok {
				return
			}
			_, fv, fa := fieldOfAddr(ld)
			if fa == nil || !lists[fv.Name()] {
				return
			}
			listFields[fv.Name()] = true
			n++
			r.Func(shortFn(f))
			construct := fmt.Sprintf("in-place rewrite of the builder's %s in %s", fv.Name(), shortFn(f))
			r.Check(geBig(ia.Index, b, 0), construct, p.Pos(st.Pos()), "index >= builder."+bigField+" (the counter published as BigInnerCnt) by loop start or dominating comparison",
				"the rewritten ordinal is not bounded below by builder."+bigField+": one of the leading 257-bit nodes can be re-encoded as a short/17-bit node while every reader still decodes the first BigInnerCnt nodes as 257-bit — all later node offsets shift")
		})
	}
	if n == 0 {
		r.Note("%s: the builder performs no in-place rewrite of node sizes or bitmaps", rule)
	}
}

// loopIndexNonNeg: v is a non-negative loop index: a constant >= 0, a phi over non-negative starts and
// "itself + positive constant", or the index of a range loop (phi(-1, next) + 1).
func loopIndexNonNeg(v ssa.Value, d int) bool {
	if d > 4 || v == nil {
		return false
	}
	switch x := v.(type) {
	case *ssa.Const:
		k, ok := constInt(x)
		return ok && k >= 0
	case *ssa.Convert:
		return loopIndexNonNeg(x.X, d+1)
	case *ssa.BinOp:
		if x.Op != token.ADD {
			return false
		}
		k, isK := constInt(x.Y)
		if !isK || k < 0 {
			return false
		}
		if ph, ok := x.X.(*ssa.Phi); ok {
			// range index: phi(-1, this)
			okAll := true
			for _, ed := range ph.Edges {
				if ed == ssa.Value(x) {
					continue
				}
				if c, ok := constInt(ed); !ok || c+k < 0 {
					okAll = false
				}
			}
			if okAll {
				return true
			}
		}
		return loopIndexNonNeg(x.X, d+1)
	case *ssa.Phi:
		for _, ed := range x.Edges {
			if bo, ok := ed.(*ssa.BinOp); ok && bo.Op == token.ADD && bo.X == ssa.Value(x) {
				if k, isK := constInt(bo.Y); isK && k > 0 {
					continue
				}
				return false
			}
			if !loopIndexNonNeg(ed, d+1) {
				return false
			}
		}
		return true
	}
	return false
}
