package main

import (
	"go/constant"
	"go/token"
	"go/types"
	"sort"
	"strings"

	"golang.org/x/tools/go/ssa"
)

// ---------------------------------------------------------------------------
// resolved-callee helpers

// calleeOf returns the statically resolved callee of a call, or nil.
func calleeOf(c ssa.CallInstruction) *ssa.Function {
	return c.Common().StaticCallee()
}

// funcID is a stable identifier of a resolved function: "<pkgpath>.<Name>" or
// "(<pkgpath>.T).<Name>" / "(*<pkgpath>.T).<Name>". It is derived from the
// type-checked object, not from source text.
func funcID(f *ssa.Function) string {
	if f == nil {
		return ""
	}
	if f.Origin() != nil && f.Origin() != f {
		return funcID(f.Origin())
	}
	if o, ok := f.Object().(*types.Func); ok && o != nil {
		return o.FullName()
	}
	return f.String()
}

// isFunc tells whether f is the function id (see funcID).
func isFunc(f *ssa.Function, id string) bool { return f != nil && funcID(f) == id }

// calleeIs: call statically resolves to the named function.
func calleeIs(c ssa.CallInstruction, ids ...string) bool {
	f := calleeOf(c)
	if f == nil {
		return false
	}
	id := funcID(f)
	for _, x := range ids {
		if id == x {
			return true
		}
	}
	return false
}

// invokeIs: call is an interface method invocation of the given method name
// on an interface whose method is declared in the given package path ("" = any).
func invokeIs(c ssa.CallInstruction, pkg, method string) bool {
	cm := c.Common()
	if !cm.IsInvoke() {
		return false
	}
	if cm.Method.Name() != method {
		return false
	}
	if pkg == "" {
		return true
	}
	return cm.Method.Pkg() != nil && cm.Method.Pkg().Path() == pkg
}

// instrsOf iterates over all instructions of a function.
func instrsOf(f *ssa.Function, fn func(b *ssa.BasicBlock, in ssa.Instruction)) {
	for _, b := range f.Blocks {
		for _, in := range b.Instrs {
			fn(b, in)
		}
	}
}

// callsIn lists the call instructions of a function (incl. defer/go).
func callsIn(f *ssa.Function) []ssa.CallInstruction {
	var out []ssa.CallInstruction
	instrsOf(f, func(_ *ssa.BasicBlock, in ssa.Instruction) {
		if c, ok := in.(ssa.CallInstruction); ok {
			out = append(out, c)
		}
	})
	return out
}

func returnsOf(f *ssa.Function) []*ssa.Return {
	var rs []*ssa.Return
	for _, b := range f.Blocks {
		if len(b.Instrs) == 0 {
			continue
		}
		if r, ok := b.Instrs[len(b.Instrs)-1].(*ssa.Return); ok {
			rs = append(rs, r)
		}
	}
	return rs
}

func lastInstr(b *ssa.BasicBlock) ssa.Instruction {
	if len(b.Instrs) == 0 {
		return nil
	}
	return b.Instrs[len(b.Instrs)-1]
}

func isNilConst(v ssa.Value) bool {
	c, ok := v.(*ssa.Const)
	return ok && c.IsNil()
}

func constInt(v ssa.Value) (int64, bool) {
	c, ok := v.(*ssa.Const)
	if !ok || c.Value == nil || c.Value.Kind() != constant.Int {
		return 0, false
	}
	i, ok := constant.Int64Val(c.Value)
	return i, ok
}

func constString(v ssa.Value) (string, bool) {
	c, ok := v.(*ssa.Const)
	if !ok || c.Value == nil || c.Value.Kind() != constant.String {
		return "", false
	}
	return constant.StringVal(c.Value), true
}

func constBool(v ssa.Value) (bool, bool) {
	c, ok := v.(*ssa.Const)
	if !ok || c.Value == nil || c.Value.Kind() != constant.Bool {
		return false, false
	}
	return constant.BoolVal(c.Value), true
}

// fieldOfAddr: if v is &x.f returns the struct type and field.
func fieldOfAddr(v ssa.Value) (*types.Struct, *types.Var, *ssa.FieldAddr) {
	fa, ok := v.(*ssa.FieldAddr)
	if !ok {
		return nil, nil, nil
	}
	pt, ok := fa.X.Type().Underlying().(*types.Pointer)
	if !ok {
		return nil, nil, nil
	}
	st, ok := pt.Elem().Underlying().(*types.Struct)
	if !ok {
		return nil, nil, nil
	}
	return st, st.Field(fa.Field), fa
}

// namedOf returns the named type behind a (pointer to) named type.
func namedOf(t types.Type) *types.Named {
	if t == nil {
		return nil
	}
	if p, ok := t.(*types.Pointer); ok {
		t = p.Elem()
	}
	if p, ok := t.Underlying().(*types.Pointer); ok && t != t.Underlying() {
		_ = p
	}
	n, _ := t.(*types.Named)
	return n
}

// isNamed: t (or *t) is the named type pkgpath.name.
func isNamed(t types.Type, pkg, name string) bool {
	n := namedOf(t)
	return n != nil && n.Obj().Name() == name && n.Obj().Pkg() != nil && n.Obj().Pkg().Path() == pkg
}

// fieldAddrOn: v is &X.<field> where X has (pointer to) named type pkg.typ.
func fieldAddrOn(v ssa.Value, pkg, typ, field string) (*ssa.FieldAddr, bool) {
	_, fv, fa := fieldOfAddr(v)
	if fa == nil || fv.Name() != field {
		return nil, false
	}
	if !isNamed(fa.X.Type(), pkg, typ) {
		return nil, false
	}
	return fa, true
}

// ---------------------------------------------------------------------------
// dominators / post-dominators

type domInfo struct {
	fn   *ssa.Function
	n    int
	pdom [][]bool // pdom[i][j]: j post-dominates i (index n = virtual exit)
}

// postDom computes post-dominator sets. If skipAbort is set, edges into
// "abort-only" regions (every path ends in panic, or in a return classified as
// abort by isAbortRet) are ignored (termination-insensitive).
func postDom(fn *ssa.Function, isAbortRet func(*ssa.Return) bool) (*domInfo, []bool) {
	n := len(fn.Blocks)
	d := &domInfo{fn: fn, n: n}
	abortOnly := make([]bool, n)
	for _, b := range fn.Blocks {
		switch l := lastInstr(b).(type) {
		case *ssa.Panic:
			abortOnly[b.Index] = true
		case *ssa.Return:
			if isAbortRet != nil && isAbortRet(l) {
				abortOnly[b.Index] = true
			}
		}
	}
	for ch := true; ch; {
		ch = false
		for _, b := range fn.Blocks {
			if abortOnly[b.Index] || len(b.Succs) == 0 {
				continue
			}
			all := true
			for _, x := range b.Succs {
				if !abortOnly[x.Index] {
					all = false
				}
			}
			if all {
				abortOnly[b.Index] = true
				ch = true
			}
		}
	}
	exit := n
	pd := make([][]bool, n+1)
	for i := range pd {
		pd[i] = make([]bool, n+1)
		for j := range pd[i] {
			pd[i][j] = true
		}
	}
	for j := range pd[exit] {
		pd[exit][j] = j == exit
	}
	succs := func(b *ssa.BasicBlock) []int {
		if len(b.Succs) == 0 {
			return []int{exit}
		}
		var s []int
		for _, x := range b.Succs {
			if abortOnly[x.Index] && !abortOnly[b.Index] {
				continue
			}
			s = append(s, x.Index)
		}
		if len(s) == 0 {
			return []int{exit}
		}
		return s
	}
	for changed := true; changed; {
		changed = false
		for i := n - 1; i >= 0; i-- {
			b := fn.Blocks[i]
			nw := make([]bool, n+1)
			first := true
			for _, s := range succs(b) {
				if first {
					copy(nw, pd[s])
					first = false
				} else {
					for j := range nw {
						nw[j] = nw[j] && pd[s][j]
					}
				}
			}
			nw[i] = true
			for j := range nw {
				if nw[j] != pd[i][j] {
					changed = true
				}
			}
			pd[i] = nw
		}
	}
	d.pdom = pd
	return d, abortOnly
}

type ctlDep struct {
	branch *ssa.BasicBlock
	succ   int
}

// controlDeps computes control dependence (Ferrante et al.) from
// post-dominators; termination-insensitive with respect to isAbortRet.
func controlDeps(fn *ssa.Function, isAbortRet func(*ssa.Return) bool) map[*ssa.BasicBlock][]ctlDep {
	res := map[*ssa.BasicBlock][]ctlDep{}
	if len(fn.Blocks) == 0 {
		return res
	}
	d, abortOnly := postDom(fn, isAbortRet)
	pd := d.pdom
	for _, a := range fn.Blocks {
		if len(a.Succs) < 2 {
			continue
		}
		for si, s := range a.Succs {
			if abortOnly[s.Index] && !abortOnly[a.Index] {
				continue
			}
			for _, b := range fn.Blocks {
				if pd[s.Index][b.Index] && !(pd[a.Index][b.Index] && a != b) {
					res[b] = append(res[b], ctlDep{a, si})
				}
			}
		}
	}
	return res
}

// reachableFrom returns the set of blocks reachable from b (including b),
// optionally not passing through blocks for which stop returns true (the stop
// block itself is included but not expanded).
func reachableFrom(b *ssa.BasicBlock, stop func(*ssa.BasicBlock) bool) map[*ssa.BasicBlock]bool {
	seen := map[*ssa.BasicBlock]bool{}
	var walk func(x *ssa.BasicBlock)
	walk = func(x *ssa.BasicBlock) {
		if seen[x] {
			return
		}
		seen[x] = true
		if stop != nil && stop(x) {
			return
		}
		for _, s := range x.Succs {
			walk(s)
		}
	}
	walk(b)
	return seen
}

// instrIndex returns the index of an instruction in its block.
func instrIndex(in ssa.Instruction) int {
	for i, x := range in.Block().Instrs {
		if x == in {
			return i
		}
	}
	return -1
}

// instrDominates: a is executed before b on every path from entry to b.
func instrDominates(a, b ssa.Instruction) bool {
	if a.Block() == b.Block() {
		return instrIndex(a) < instrIndex(b)
	}
	return a.Block().Dominates(b.Block())
}

// ---------------------------------------------------------------------------
// misc

func sortedKeys(m map[string]bool) []string {
	out := make([]string, 0, len(m))
	for k := range m {
		out = append(out, k)
	}
	sort.Strings(out)
	return out
}

func isStringType(t types.Type) bool {
	b, ok := t.Underlying().(*types.Basic)
	return ok && b.Info()&types.IsString != 0
}

func isByteSlice(t types.Type) bool {
	s, ok := t.Underlying().(*types.Slice)
	if !ok {
		return false
	}
	b, ok := s.Elem().Underlying().(*types.Basic)
	return ok && (b.Kind() == types.Byte || b.Kind() == types.Uint8)
}

func isIntType(t types.Type) bool {
	b, ok := t.Underlying().(*types.Basic)
	return ok && b.Info()&types.IsInteger != 0
}

func isBoolType(t types.Type) bool {
	b, ok := t.Underlying().(*types.Basic)
	return ok && b.Info()&types.IsBoolean != 0
}

func isErrorType(t types.Type) bool {
	return types.Identical(t, types.Universe.Lookup("error").Type())
}

// deref strips a load.
func deref(v ssa.Value) (ssa.Value, bool) {
	u, ok := v.(*ssa.UnOp)
	if ok && u.Op == token.MUL {
		return u.X, true
	}
	return nil, false
}

func shortFn(f *ssa.Function) string {
	s := f.String()
	s = strings.ReplaceAll(s, slimPath+"/", "")
	s = strings.ReplaceAll(s, "github.com/openacid/", "")
	return s
}

// exportedMethods of *T in pkg, sorted.
func (p *Program) exportedMethods(pkg *ssa.Package, typ string) []*ssa.Function {
	n := p.NamedType(pkg, typ)
	if n == nil {
		return nil
	}
	ms := p.Prog.MethodSets.MethodSet(types.NewPointer(n))
	var out []*ssa.Function
	for i := 0; i < ms.Len(); i++ {
		sel := ms.At(i)
		if !sel.Obj().Exported() {
			continue
		}
		if f := p.Prog.MethodValue(sel); f != nil {
			out = append(out, f)
		}
	}
	sort.Slice(out, func(i, j int) bool { return out[i].Name() < out[j].Name() })
	return out
}

// cmpOf: cond is a comparison — directly, or through a single-block boolean helper of the analysed set
// whose result is a comparison of its parameters and constants ("func stepOverflows(n int32) bool
// { return n >= limit }"). Operands that are parameters of the helper are replaced by the arguments of
// the call, so the result reads as if the comparison were written at the call site.
func cmpOf(cond ssa.Value) (token.Token, ssa.Value, ssa.Value, token.Pos, bool) {
	switch x := cond.(type) {
	case *ssa.BinOp:
		switch x.Op {
		case token.EQL, token.NEQ, token.LSS, token.LEQ, token.GTR, token.GEQ:
			return x.Op, x.X, x.Y, x.Pos(), true
		}
	case *ssa.Call:
		h := calleeOf(x)
		if h == nil || !inAnalysed(h) || len(h.Blocks) != 1 || x.Call.IsInvoke() {
			return 0, nil, nil, token.NoPos, false
		}
		ret, ok := lastInstr(h.Blocks[0]).(*ssa.Return)
		if !ok || len(ret.Results) != 1 {
			return 0, nil, nil, token.NoPos, false
		}
		bo, ok := ret.Results[0].(*ssa.BinOp)
		if !ok {
			return 0, nil, nil, token.NoPos, false
		}
		switch bo.Op {
		case token.EQL, token.NEQ, token.LSS, token.LEQ, token.GTR, token.GEQ:
		default:
			return 0, nil, nil, token.NoPos, false
		}
		bind := func(v ssa.Value) (ssa.Value, bool) {
			for {
				if cv, ok := v.(*ssa.Convert); ok {
					v = cv.X
					continue
				}
				break
			}
			if _, isK := v.(*ssa.Const); isK {
				return v, true
			}
			for i, prm := range h.Params {
				if v == ssa.Value(prm) && i < len(x.Call.Args) {
					return x.Call.Args[i], true
				}
			}
			return nil, false
		}
		a, ok1 := bind(bo.X)
		b, ok2 := bind(bo.Y)
		if ok1 && ok2 {
			return bo.Op, a, b, x.Pos(), true
		}
	}
	return 0, nil, nil, token.NoPos, false
}
