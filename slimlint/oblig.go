package main

import (
	"bufio"
	"encoding/json"
	"fmt"
	"os"
	"path/filepath"
	"sort"
	"strings"
)

// Status of one obligation.
type Status string

const (
	Discharged Status = "discharged"
	Violated   Status = "violated"
	Undecided  Status = "undecided"
)

// Obligation is one instance of a rule on one construct of the code base.
// It is keyed by Rule+Construct (never by line); Pos is for the reader.
type Obligation struct {
	Rule      string `json:"rule"`
	Construct string `json:"construct"`
	Pos       string `json:"pos,omitempty"`
	Status    Status `json:"status"`
	Detail    string `json:"detail,omitempty"`
	Config    string `json:"config,omitempty"`
}

func (o Obligation) Key() string { return o.Rule + " :: " + o.Construct }

// RuleInfo describes a rule for the evidence file.
type RuleInfo struct {
	Name      string `json:"name"`
	Engine    string `json:"engine"`
	What      string `json:"what"`
	Floor     int    `json:"floor"`
	Instances int    `json:"instances"`
}

// Control is a positive control: a fixture the rule must flag on every run.
type Control struct {
	Rule    string `json:"rule"`
	Fixture string `json:"fixture"`
	Flagged bool   `json:"flagged"`
	Detail  string `json:"detail,omitempty"`
}

// Report collects everything one property check produces on one configuration.
type Report struct {
	Prop        string
	Config      string
	Rules       []*RuleInfo
	Obls        []Obligation
	Controls    []Control
	Funcs       map[string]bool
	CallSites   int
	Notes       []string
	Explanation string
	NotCovered  string
	Trusted     []string
	Assumptions []string
	curRule     *RuleInfo
}

func NewReport(prop, cfg string) *Report {
	return &Report{Prop: prop, Config: cfg, Funcs: map[string]bool{}}
}

// Rule starts a new rule; subsequent Add calls belong to it.
func (r *Report) Rule(name, engine, what string, floor int) {
	ri := &RuleInfo{Name: name, Engine: engine, What: what, Floor: floor}
	r.Rules = append(r.Rules, ri)
	r.curRule = ri
}

func (r *Report) add(st Status, construct, pos, detail string) {
	if r.curRule == nil {
		panic("obligation outside a rule")
	}
	r.curRule.Instances++
	r.Obls = append(r.Obls, Obligation{Rule: r.curRule.Name, Construct: construct, Pos: pos, Status: st, Detail: detail, Config: r.Config})
}

func (r *Report) OK(construct, pos, detail string)  { r.add(Discharged, construct, pos, detail) }
func (r *Report) Bad(construct, pos, detail string) { r.add(Violated, construct, pos, detail) }
func (r *Report) Unk(construct, pos, detail string) { r.add(Undecided, construct, pos, detail) }
func (r *Report) Note(f string, a ...interface{})   { r.Notes = append(r.Notes, fmt.Sprintf(f, a...)) }
func (r *Report) Func(name string)                  { r.Funcs[name] = true }
func (r *Report) Check(ok bool, construct, pos, good, bad string) {
	if ok {
		r.OK(construct, pos, good)
	} else {
		r.Bad(construct, pos, bad)
	}
}

// Control records a positive control result.
func (r *Report) Control(rule, fixture string, flagged bool, detail string) {
	r.Controls = append(r.Controls, Control{Rule: rule, Fixture: fixture, Flagged: flagged, Detail: detail})
}

// finishFloors turns floor shortfalls into undecided obligations.
func (r *Report) finishFloors() {
	for _, ri := range r.Rules {
		if ri.Instances < ri.Floor {
			r.Obls = append(r.Obls, Obligation{Rule: ri.Name, Construct: "floor", Status: Undecided, Config: r.Config,
				Detail: fmt.Sprintf("rule matched %d instance(s), below its floor %d: the mechanism the rule is anchored on was not found (would pass vacuously)", ri.Instances, ri.Floor)})
		}
	}
}

// ---------------------------------------------------------------------------
// known findings

type knownFinding struct {
	Prop, Rule, Construct, What string
}

type knownFile struct {
	Open  []knownFinding
	Fixed []string
}

// readKnown parses KNOWN_FINDINGS.txt. Lines:
//
//	open: property=<id> rule=<rule> construct=<construct> :: <what fails>
//	fixed: property=<id> <commit> <what failed>
func readKnown(path string) knownFile {
	var kf knownFile
	f, err := os.Open(path)
	if err != nil {
		return kf
	}
	defer f.Close()
	sc := bufio.NewScanner(f)
	for sc.Scan() {
		line := strings.TrimSpace(sc.Text())
		if strings.HasPrefix(line, "fixed:") {
			kf.Fixed = append(kf.Fixed, line)
			continue
		}
		if !strings.HasPrefix(line, "open:") {
			continue
		}
		rest := strings.TrimSpace(strings.TrimPrefix(line, "open:"))
		what := ""
		if i := strings.Index(rest, " :: "); i >= 0 {
			what = rest[i+4:]
			rest = rest[:i]
		}
		k := knownFinding{What: what}
		// property=.. rule=.. construct=<rest of line>
		if i := strings.Index(rest, "construct="); i >= 0 {
			k.Construct = strings.TrimSpace(rest[i+len("construct="):])
			rest = rest[:i]
		}
		for _, tok := range strings.Fields(rest) {
			if strings.HasPrefix(tok, "property=") {
				k.Prop = tok[len("property="):]
			}
			if strings.HasPrefix(tok, "rule=") {
				k.Rule = tok[len("rule="):]
			}
		}
		kf.Open = append(kf.Open, k)
	}
	return kf
}

// ---------------------------------------------------------------------------
// evidence

type evidence struct {
	PropertyID  string                 `json:"property_id"`
	Tier        string                 `json:"tier"`
	Seed        int                    `json:"seed"`
	Level       string                 `json:"level"`
	Coverage    map[string]interface{} `json:"coverage"`
	Assumptions []string               `json:"assumptions"`
	WallS       float64                `json:"wall_s"`
	Violations  int                    `json:"violations"`
}

type outcome struct {
	exit       int
	violations []Obligation
	known      []Obligation
}

// finish merges per-config reports, writes evidence and replay files, prints
// VIOLATION / KNOWN-FINDING lines and returns the exit code.
func finish(prop, tier string, seed int, reps []*Report, verifDir string, wall float64, extra map[string]interface{}) int {
	kf := readKnown(filepath.Join(verifDir, "KNOWN_FINDINGS.txt"))
	var all []Obligation
	rulesSeen := map[string]*RuleInfo{}
	var rules []*RuleInfo
	funcs := map[string]bool{}
	callSites := 0
	var controls []Control
	var notes []string
	var cfgs []string
	for _, r := range reps {
		r.finishFloors()
		all = append(all, r.Obls...)
		for _, ri := range r.Rules {
			if old, ok := rulesSeen[ri.Name]; ok {
				if ri.Instances > old.Instances {
					old.Instances = ri.Instances
				}
				continue
			}
			c := *ri
			rulesSeen[ri.Name] = &c
			rules = append(rules, &c)
		}
		for f := range r.Funcs {
			funcs[f] = true
		}
		if r.CallSites > callSites {
			callSites = r.CallSites
		}
		controls = append(controls, r.Controls...)
		for _, n := range r.Notes {
			notes = append(notes, "["+r.Config+"] "+n)
		}
		cfgs = append(cfgs, r.Config)
	}
	var viol, known []Obligation
	discharged := 0
	for _, o := range all {
		if o.Status == Discharged {
			discharged++
			continue
		}
		isKnown := false
		for _, k := range kf.Open {
			if k.Prop == prop && k.Rule == o.Rule && k.Construct == o.Construct && o.Status == Violated {
				isKnown = true
			}
		}
		if isKnown {
			known = append(known, o)
		} else {
			viol = append(viol, o)
		}
	}
	brokenControls := 0
	for _, c := range controls {
		if !c.Flagged {
			brokenControls++
		}
	}

	// samples: a spread of actual obligations (every non-discharged one, plus
	// the first few discharged ones of every rule).
	var samples []Obligation
	perRule := map[string]int{}
	for _, o := range all {
		if o.Status != Discharged {
			samples = append(samples, o)
			continue
		}
		if perRule[o.Rule] < 4 {
			perRule[o.Rule]++
			samples = append(samples, o)
		}
	}
	fl := make([]string, 0, len(funcs))
	for f := range funcs {
		fl = append(fl, f)
	}
	sort.Strings(fl)
	r0 := reps[0]
	cov := map[string]interface{}{
		"explanation":           r0.Explanation,
		"not_covered":           r0.NotCovered,
		"obligations":           len(all),
		"discharged":            discharged,
		"undecided_or_violated": len(viol) + len(known),
		"checker_cmd":           fmt.Sprintf("bin/check %s %s", prop, tier),
		"trusted_base":          r0.Trusted,
		"build_configs":         cfgs,
		"rules":                 rules,
		"functions_analysed":    len(fl),
		"functions":             fl,
		"call_sites":            callSites,
		"positive_controls":     controls,
		"samples":               samples,
		"notes":                 notes,
		"known_findings_fixed":  kf.Fixed,
		"evaluations":           len(all),
		"distinct_nontrivial":   distinctKeys(all),
		"rule":                  "one evaluation = one obligation (rule instance on one construct of the current source, per build configuration); distinct = distinct rule+construct keys; every obligation is non-trivial in that it names a construct found in the analysed source",
		"exhaustive":            true,
	}
	for k, v := range extra {
		cov[k] = v
	}
	ev := evidence{PropertyID: prop, Tier: tier, Seed: seed, Level: "other", Coverage: cov,
		Assumptions: r0.Assumptions, WallS: wall, Violations: len(viol)}
	if ev.Assumptions == nil {
		ev.Assumptions = []string{}
	}
	evDir := filepath.Join(verifDir, "evidence")
	os.MkdirAll(evDir, 0o755)
	b, _ := json.MarshalIndent(ev, "", " ")
	if err := os.WriteFile(filepath.Join(evDir, prop+".json"), append(b, '\n'), 0o644); err != nil {
		fmt.Println("ERROR: cannot write evidence:", err)
		return 2
	}

	for _, o := range known {
		what := o.Detail
		fmt.Printf("KNOWN-FINDING: property=%s %s [%s] %s: %s\n", prop, o.Pos, o.Rule, o.Construct, what)
	}
	if brokenControls > 0 {
		for _, c := range controls {
			if !c.Flagged {
				fmt.Printf("ERROR: positive control not flagged: rule %s fixture %s (%s) — the checker is broken\n", c.Rule, c.Fixture, c.Detail)
			}
		}
		return 2
	}
	if len(viol) == 0 {
		fmt.Printf("OK property=%s tier=%s configs=%s obligations=%d discharged=%d rules=%d functions=%d (%.1fs)\n",
			prop, tier, strings.Join(cfgs, ","), len(all), discharged, len(rules), len(fl), wall)
		return 0
	}
	replayDir := filepath.Join(evDir, "replay")
	os.MkdirAll(replayDir, 0o755)
	replay := filepath.Join(replayDir, prop+".json")
	rb, _ := json.MarshalIndent(map[string]interface{}{"property_id": prop, "tier": tier, "obligations": viol}, "", " ")
	os.WriteFile(replay, append(rb, '\n'), 0o644)
	for _, o := range viol {
		fmt.Printf("%s %s: [%s/%s] %s — %s\n", o.Pos, o.Rule, o.Status, o.Config, o.Construct, o.Detail)
	}
	fmt.Printf("VIOLATION property=%s replay=%s\n", prop, replay)
	return 1
}

func distinctKeys(obls []Obligation) int {
	m := map[string]bool{}
	for _, o := range obls {
		m[o.Key()] = true
	}
	return len(m)
}

// borrowRule runs another property's rule set on a scratch report and takes over the obligations of one
// of its rules under a name of this property (for rules that are woven into a larger check function).
func borrowRule(p *Program, r *Report, from func(*Program, *Report), srcRule, dstRule string) {
	saved := r.curRule
	defer func() { r.curRule = saved }()
	sub := NewReport(r.Prop, r.Config)
	from(p, sub)
	for _, ri := range sub.Rules {
		if ri.Name == srcRule {
			r.Rule(dstRule, ri.Engine, ri.What, ri.Floor)
		}
	}
	if r.curRule == nil || r.curRule.Name != dstRule {
		r.Rule(dstRule, "borrowed", "rule "+srcRule+" not found in its check", 1)
		return
	}
	for _, o := range sub.Obls {
		if o.Rule == srcRule {
			r.add(o.Status, o.Construct, o.Pos, o.Detail)
		}
	}
}
