package main

// C05.nil-empty — proto3 drops empty bytes and empty repeated fields on the
// wire: a field that is "empty but not nil" in a freshly built message is nil
// after Marshal/Unmarshal. Message pointers are different: a present but empty
// sub-message is encoded (with length 0) and stays non-nil. So a loaded trie
// can only answer like the built one if no decision rests on the nil-ness of a
// slice-typed field of a wire message (directly or through a generated getter).

import (
	"fmt"
	"go/token"
	"go/types"
	"strings"

	"golang.org/x/tools/go/ssa"
)

func isWireStruct(t types.Type) bool {
	if pt, ok := t.Underlying().(*types.Pointer); ok {
		t = pt.Elem()
	}
	st, ok := t.Underlying().(*types.Struct)
	if !ok {
		return false
	}
	for i := 0; i < st.NumFields(); i++ {
		if st.Field(i).Name() == "XXX_unrecognized" {
			return true
		}
	}
	return false
}

// wireSliceSource: v is a slice loaded from a field of a wire message, or the result of a
// generated getter (method Get<Field> of a wire message) returning a slice.
func wireSliceSource(v ssa.Value, d int) string {
	if d > 4 || v == nil {
		return ""
	}
	if _, ok := v.Type().Underlying().(*types.Slice); !ok {
		return ""
	}
	switch x := v.(type) {
	case *ssa.UnOp:
		if x.Op == token.MUL {
			if st, fv, fa := fieldOfAddr(x.X); fa != nil && st != nil && isWireStruct(fa.X.Type()) && !strings.HasPrefix(fv.Name(), "XXX_") {
				return namedOf(fa.X.Type()).Obj().Name() + "." + fv.Name()
			}
		}
	case *ssa.Call:
		if g := calleeOf(x); g != nil && g.Signature.Recv() != nil && strings.HasPrefix(g.Name(), "Get") && isWireStruct(g.Signature.Recv().Type()) {
			return namedOf(g.Signature.Recv().Type()).Obj().Name() + "." + strings.TrimPrefix(g.Name(), "Get")
		}
	case *ssa.Phi:
		for _, ed := range x.Edges {
			if s := wireSliceSource(ed, d+1); s != "" {
				return s
			}
		}
	}
	return ""
}

type nilEmptySite struct {
	fn    *ssa.Function
	pos   token.Pos
	field string
}

func nilEmptySites(fns []*ssa.Function) []nilEmptySite {
	var out []nilEmptySite
	for _, f := range fns {
		if f.Synthetic != "" || len(f.Blocks) == 0 {
			continue
		}
		// generated code (the getters themselves) compares only message pointers; skip methods of wire structs named Get*/XXX_*
		if f.Signature.Recv() != nil && isWireStruct(f.Signature.Recv().Type()) && (strings.HasPrefix(f.Name(), "Get") || strings.HasPrefix(f.Name(), "XXX_")) {
			continue
		}
		instrsOf(f, func(_ *ssa.BasicBlock, in ssa.Instruction) {
			bo, ok := in.(*ssa.BinOp)
			if !ok || (bo.Op != token.EQL && bo.Op != token.NEQ) {
				return
			}
			for _, pr := range [][2]ssa.Value{{bo.X, bo.Y}, {bo.Y, bo.X}} {
				if !isNilConst(pr[1]) {
					continue
				}
				if s := wireSliceSource(pr[0], 0); s != "" {
					out = append(out, nilEmptySite{f, bo.Pos(), s})
				}
			}
		})
	}
	return out
}

func checkNilEmpty(p *Program, r *Report, rule string) {
	r.Rule(rule, "SSA", "no decision rests on the nil-ness of a bytes/repeated field of a wire message", 0)
	var fns []*ssa.Function
	for _, f := range p.FuncsOf(triePath) {
		fns = append(fns, f)
	}
	sites := nilEmptySites(fns)
	for i, s := range sites {
		r.Func(shortFn(s.fn))
		r.Bad(fmt.Sprintf("nil test #%d of wire field %s in %s", i+1, s.field, shortFn(s.fn)), p.Pos(s.pos),
			"the field is a bytes/repeated field: proto3 does not encode it when empty, so an empty non-nil value built by the constructor is nil after Marshal/Unmarshal and the loaded trie decides differently from the built one; test len() or the presence of the enclosing message")
	}
	r.Note("%s: %d function(s) of package trie scanned, %d nil test(s) of slice-typed wire fields", rule, len(fns), len(sites))
}

func controlNilEmpty(fx *Program, r *Report, rule string) {
	pkg := fx.FxPkg("nilempty")
	if pkg == nil {
		r.Control(rule, "fixtures/nilempty", false, "fixture package not loaded")
		return
	}
	for _, tc := range []struct {
		fn   string
		want bool
	}{{"HasTailsWrong", true}, {"HasTailsGetterWrong", true}, {"HasWordsWrong", true}, {"HasSectionRight", false}, {"HasBytesRight", false}} {
		f := pkg.Func(tc.fn)
		if f == nil {
			r.Control(rule, "nilempty."+tc.fn, false, "function not found")
			continue
		}
		n := len(nilEmptySites([]*ssa.Function{f}))
		r.Control(rule, "nilempty."+tc.fn, (n > 0) == tc.want, fmt.Sprintf("expected flagged=%v: %d nil test(s) of slice-typed wire fields", tc.want, n))
	}
}
