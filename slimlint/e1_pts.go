package main

// E1 — effect / alias analysis.
//
// Inclusion-based (Andersen) points-to analysis over go/ssa, restricted to the
// functions reachable from a rule's entry points. Context-insensitive,
// flow-insensitive, field-sensitive for locally allocated and global objects,
// slice/array/map elements collapsed. It records every write effect with the
// abstract objects of its target and the final contents relation.

import (
	"fmt"
	"go/token"
	"go/types"
	"sort"
	"strings"

	"golang.org/x/tools/go/ssa"
)

type objKind int

const (
	kAlloc  objKind = iota // allocated during the analysed activation (per site)
	kGlobal                // package-level variable
	kShared                // seeded: memory other goroutines can see (closed under loads)
	kParam                 // seeded: caller-owned memory (BUF, KEYS, VALUES, OPTS, ...)
	kStr                   // immutable string bytes
	kFunc                  // function value
	kExt                   // fresh memory produced by a summarised external (closed under loads)
	kRoot                  // seeded receiver that is being (re)initialised (C20.load): tracked for retention only
)

func (k objKind) String() string {
	return [...]string{"alloc", "global", "shared", "param", "str", "func", "ext", "root"}[k]
}

type aobj struct {
	kind   objKind
	name   string
	parent *aobj
	subs   map[int]*aobj
	fn     *ssa.Function // for kFunc / closures
	site   ssa.Instruction
	inFn   *ssa.Function // allocating function (for iterator isolation)
	// initial: stands for whatever a package-level variable holds initially (closed under loads)
	initial bool
}

func (o *aobj) String() string { return o.kind.String() + ":" + o.name }

func (o *aobj) root() *aobj {
	for o.parent != nil {
		o = o.parent
	}
	return o
}

// sub returns the field sub-object; seeded and external objects are collapsed.
func (o *aobj) sub(f int) *aobj {
	switch o.kind {
	case kAlloc, kGlobal, kRoot:
	default:
		return o
	}
	if o.subs == nil {
		o.subs = map[int]*aobj{}
	}
	if s, ok := o.subs[f]; ok {
		return s
	}
	s := &aobj{kind: o.kind, name: fmt.Sprintf("%s.%d", o.name, f), parent: o, site: o.site, inFn: o.inFn}
	o.subs[f] = s
	return s
}

type oset map[*aobj]bool

// WriteEffect is one write whose target may be tracked memory.
type WriteEffect struct {
	Pos    token.Pos
	Fn     *ssa.Function
	What   string
	Target *aobj
	Instr  ssa.Instruction
}

// ExtCall is a call that carries tracked memory into an unsummarised external.
type ExtCall struct {
	Pos    token.Pos
	Fn     *ssa.Function
	Callee string
	Why    string
}

type ptsAnalysis struct {
	p        *Program
	pts      map[ssa.Value]oset
	tuple    map[ssa.Value]map[int]oset
	contents map[*aobj]oset
	objs     map[interface{}]*aobj
	strdata  *aobj
	changed  bool
	reach    map[*ssa.Function]bool
	order    []*ssa.Function

	writes     map[string]WriteEffect
	allWrites  int
	extcalls   map[string]ExtCall
	extSeen    map[string]bool // external callees that received tracked memory (summarised)
	userCalls  map[string]bool // calls into user code through library-declared interfaces / API func params
	syncFns    map[*ssa.Function]bool
	lockFns    map[*ssa.Function]bool
	callSites  int
	tracked    func(*aobj) bool
	userIfaces map[string]bool
}

func newPts(p *Program) *ptsAnalysis {
	a := &ptsAnalysis{p: p, pts: map[ssa.Value]oset{}, tuple: map[ssa.Value]map[int]oset{}, contents: map[*aobj]oset{},
		objs: map[interface{}]*aobj{}, reach: map[*ssa.Function]bool{}, writes: map[string]WriteEffect{},
		extcalls: map[string]ExtCall{}, extSeen: map[string]bool{}, userCalls: map[string]bool{},
		syncFns: map[*ssa.Function]bool{}, lockFns: map[*ssa.Function]bool{}}
	a.strdata = &aobj{kind: kStr, name: "STRDATA"}
	a.tracked = func(o *aobj) bool {
		switch o.kind {
		case kShared, kGlobal, kStr, kParam:
			return true
		}
		return false
	}
	return a
}

// seedObj creates a seeded object. Seeded shared/param/ext objects are closed
// under loads (everything reachable from them is the same abstract object).
func (a *ptsAnalysis) seedObj(kind objKind, name string) *aobj {
	o := &aobj{kind: kind, name: name}
	if kind == kShared || kind == kParam || kind == kExt {
		a.contents[o] = oset{o: true}
	}
	return o
}

func (a *ptsAnalysis) objFor(key interface{}, kind objKind, name string, site ssa.Instruction, fn *ssa.Function) *aobj {
	if o, ok := a.objs[key]; ok {
		return o
	}
	o := &aobj{kind: kind, name: name, site: site, inFn: fn}
	if kind == kExt {
		a.contents[o] = oset{o: true}
	}
	a.objs[key] = o
	return o
}

func (a *ptsAnalysis) add(v ssa.Value, o *aobj) {
	s := a.pts[v]
	if s == nil {
		s = oset{}
		a.pts[v] = s
	}
	if !s[o] {
		s[o] = true
		a.changed = true
	}
}

func (a *ptsAnalysis) addAll(v ssa.Value, src oset) {
	for o := range src {
		a.add(v, o)
	}
}

func (a *ptsAnalysis) addTuple(v ssa.Value, i int, src oset) {
	m := a.tuple[v]
	if m == nil {
		m = map[int]oset{}
		a.tuple[v] = m
	}
	s := m[i]
	if s == nil {
		s = oset{}
		m[i] = s
	}
	for o := range src {
		if !s[o] {
			s[o] = true
			a.changed = true
		}
	}
}

func (a *ptsAnalysis) addContents(o *aobj, src oset) {
	s := a.contents[o]
	if s == nil {
		s = oset{}
		a.contents[o] = s
	}
	for x := range src {
		if !s[x] {
			s[x] = true
			a.changed = true
		}
	}
}

// loadFrom: what a load through a pointer to o may yield.
func (a *ptsAnalysis) loadFrom(dst ssa.Value, o *aobj) {
	a.addAll(dst, a.contents[o])
	if rt := o.root(); rt.kind == kGlobal {
		// whatever a package-level variable was initialised with (package init functions are
		// not reachable from the entries): one closed object per variable, itself process-wide
		type initKey struct{ o *aobj }
		io := rt
		if !rt.initial {
			io = a.objFor(initKey{rt}, kGlobal, "contents of "+rt.name, nil, nil)
			io.initial = true
			if !a.contents[io][io] {
				a.addContents(io, oset{io: true})
			}
		}
		a.add(dst, io)
	}
	for p := o.parent; p != nil; p = p.parent {
		a.addAll(dst, a.contents[p])
	}
	a.addSubs(dst, o)
}

func (a *ptsAnalysis) addSubs(dst ssa.Value, o *aobj) {
	for _, s := range o.subs {
		a.addAll(dst, a.contents[s])
		a.addSubs(dst, s)
	}
}

func pointerLike(t types.Type) bool {
	switch u := t.Underlying().(type) {
	case *types.Pointer, *types.Slice, *types.Map, *types.Chan, *types.Signature, *types.Interface:
		return true
	case *types.Basic:
		return u.Kind() == types.UnsafePointer || u.Info()&types.IsString != 0 || u.Kind() == types.UntypedNil
	case *types.Struct:
		for i := 0; i < u.NumFields(); i++ {
			if pointerLike(u.Field(i).Type()) {
				return true
			}
		}
	case *types.Array:
		return pointerLike(u.Elem())
	case *types.Tuple:
		for i := 0; i < u.Len(); i++ {
			if pointerLike(u.At(i).Type()) {
				return true
			}
		}
	}
	return false
}

func (a *ptsAnalysis) val(v ssa.Value) oset {
	switch v := v.(type) {
	case *ssa.Global:
		a.add(v, a.objFor(v, kGlobal, v.String(), nil, nil))
	case *ssa.Const:
		if isStringType(v.Type()) {
			a.add(v, a.strdata)
		}
	case *ssa.Function:
		o := a.objFor(v, kFunc, v.String(), nil, nil)
		o.fn = v
		a.add(v, o)
	}
	return a.pts[v]
}

func (a *ptsAnalysis) reachFn(f *ssa.Function) {
	if f == nil || a.reach[f] {
		return
	}
	a.reach[f] = true
	a.order = append(a.order, f)
	a.changed = true
}

func (a *ptsAnalysis) recordWrite(fn *ssa.Function, instr ssa.Instruction, targets oset, what string) {
	a.allWrites++
	if a.syncFns[fn] || a.holdsLock(fn) {
		return
	}
	for o := range targets {
		if a.tracked(o) {
			k := fmt.Sprintf("%s|%s|%s|%s", a.p.Pos(instr.Pos()), what, o, fn)
			a.writes[k] = WriteEffect{Pos: instr.Pos(), Fn: fn, What: what, Target: o, Instr: instr}
		}
	}
}

// holdsLock: the function takes a sync.Mutex/RWMutex write lock in its entry
// block before any store and releases it by defer — accepted idiom for a
// synchronised write.
func (a *ptsAnalysis) holdsLock(fn *ssa.Function) bool {
	if v, ok := a.lockFns[fn]; ok {
		return v
	}
	res := false
	if len(fn.Blocks) > 0 {
		locked, deferred := false, false
		for _, in := range fn.Blocks[0].Instrs {
			switch x := in.(type) {
			case *ssa.Store, *ssa.MapUpdate:
				if !locked {
					goto done
				}
			case *ssa.Call:
				if calleeIs(x, "(*sync.Mutex).Lock", "(*sync.RWMutex).Lock") {
					locked = true
				}
			case *ssa.Defer:
				if calleeIs(x, "(*sync.Mutex).Unlock", "(*sync.RWMutex).Unlock") && locked {
					deferred = true
				}
			}
		}
	done:
		res = locked && deferred
	}
	a.lockFns[fn] = res
	return res
}

// reachesTracked: does any tracked object lie in the transitive contents of o?
func (a *ptsAnalysis) reachesTracked(o *aobj, seen map[*aobj]bool) *aobj {
	if seen[o] {
		return nil
	}
	seen[o] = true
	if a.tracked(o) && o.kind != kStr && o.kind != kGlobal {
		return o
	}
	for c := range a.contents[o] {
		if r := a.reachesTracked(c, seen); r != nil {
			return r
		}
	}
	for _, s := range o.subs {
		if r := a.reachesTracked(s, seen); r != nil {
			return r
		}
	}
	return nil
}

func (a *ptsAnalysis) doFunc(fn *ssa.Function) {
	for _, b := range fn.Blocks {
		for _, instr := range b.Instrs {
			switch in := instr.(type) {
			case *ssa.Alloc:
				a.add(in, a.objFor(in, kAlloc, fmt.Sprintf("%s@%s", in.Comment, a.p.Pos(in.Pos())), in, fn))
			case *ssa.MakeSlice:
				a.add(in, a.objFor(in, kAlloc, "makeslice@"+a.p.Pos(in.Pos()), in, fn))
			case *ssa.MakeMap:
				a.add(in, a.objFor(in, kAlloc, "makemap@"+a.p.Pos(in.Pos()), in, fn))
			case *ssa.MakeChan:
				a.add(in, a.objFor(in, kAlloc, "makechan@"+a.p.Pos(in.Pos()), in, fn))
			case *ssa.MakeClosure:
				o := a.objFor(in, kAlloc, "closure@"+a.p.Pos(in.Pos()), in, fn)
				cf := in.Fn.(*ssa.Function)
				o.fn = cf
				a.add(in, o)
				for i, bnd := range in.Bindings {
					a.addAll(cf.FreeVars[i], a.val(bnd))
				}
			case *ssa.MakeInterface:
				a.addAll(in, a.val(in.X))
			case *ssa.FieldAddr:
				for o := range a.val(in.X) {
					a.add(in, o.sub(in.Field))
				}
			case *ssa.Field:
				a.addAll(in, a.val(in.X))
			case *ssa.IndexAddr:
				a.addAll(in, a.val(in.X))
			case *ssa.Index:
				// string index yields a byte; array value index yields the element
				if pointerLike(in.Type()) {
					a.addAll(in, a.val(in.X))
				}
			case *ssa.Slice:
				a.addAll(in, a.val(in.X))
			case *ssa.Phi:
				for _, e := range in.Edges {
					a.addAll(in, a.val(e))
				}
			case *ssa.ChangeType:
				a.addAll(in, a.val(in.X))
			case *ssa.ChangeInterface:
				a.addAll(in, a.val(in.X))
			case *ssa.SliceToArrayPointer:
				a.addAll(in, a.val(in.X))
			case *ssa.Convert:
				ft, tt := in.X.Type().Underlying(), in.Type().Underlying()
				_, fs := ft.(*types.Slice)
				_, ts := tt.(*types.Slice)
				if (fs && isStringType(in.Type())) || (ts && isStringType(in.X.Type())) {
					// string <-> []byte / []rune: copies
					a.add(in, a.objFor(in, kAlloc, "convert@"+a.p.Pos(in.Pos()), in, fn))
				} else if pointerLike(in.Type()) {
					// unsafe.Pointer round trips alias
					a.addAll(in, a.val(in.X))
				}
			case *ssa.TypeAssert:
				if in.CommaOk {
					a.addTuple(in, 0, a.val(in.X))
				}
				a.addAll(in, a.val(in.X))
			case *ssa.Extract:
				if m := a.tuple[in.Tuple]; m != nil {
					a.addAll(in, m[in.Index])
				} else if _, isCall := in.Tuple.(*ssa.Call); !isCall {
					a.addAll(in, a.val(in.Tuple))
				}
			case *ssa.UnOp:
				if in.Op == token.MUL {
					if pointerLike(in.Type()) {
						for o := range a.val(in.X) {
							a.loadFrom(in, o)
						}
					}
				} else if in.Op == token.ARROW {
					for o := range a.val(in.X) {
						a.addAll(in, a.contents[o])
					}
				}
			case *ssa.Lookup:
				if pointerLike(in.Type()) {
					for o := range a.val(in.X) {
						if in.CommaOk {
							a.addTuple(in, 0, a.contents[o])
						}
						a.addAll(in, a.contents[o])
					}
				}
			case *ssa.Range:
				a.addAll(in, a.val(in.X))
			case *ssa.Next:
				for o := range a.val(in.Iter) {
					a.addTuple(in, 1, a.contents[o])
					a.addTuple(in, 2, a.contents[o])
					a.addAll(in, a.contents[o])
				}
			case *ssa.BinOp:
				if pointerLike(in.Type()) { // string concatenation
					a.add(in, a.objFor(in, kAlloc, "concat@"+a.p.Pos(in.Pos()), in, fn))
				}
			case *ssa.Store:
				tg := a.val(in.Addr)
				a.recordWrite(fn, in, tg, "store")
				if pointerLike(in.Val.Type()) {
					for o := range tg {
						a.addContents(o, a.val(in.Val))
					}
				}
			case *ssa.MapUpdate:
				tg := a.val(in.Map)
				a.recordWrite(fn, in, tg, "map update")
				for o := range tg {
					if pointerLike(in.Value.Type()) {
						a.addContents(o, a.val(in.Value))
					}
					if pointerLike(in.Key.Type()) {
						a.addContents(o, a.val(in.Key))
					}
				}
			case *ssa.Send:
				tg := a.val(in.Chan)
				a.recordWrite(fn, in, tg, "channel send")
				for o := range tg {
					a.addContents(o, a.val(in.X))
				}
			case ssa.CallInstruction:
				a.doCall(fn, in)
			}
		}
	}
}

// userInterface: interface type declared inside the analysed set whose
// implementations may be supplied by the user of the library.
func declaredInAnalysed(m *types.Func) bool {
	if m == nil || m.Pkg() == nil {
		return false
	}
	p := m.Pkg().Path()
	return hasPrefixPath(p, slimPath) || hasPrefixPath(p, lowPath) || hasPrefixPath(p, mustPath)
}

func (a *ptsAnalysis) calleesOf(site ssa.CallInstruction, fn *ssa.Function) (in []*ssa.Function, ext []*ssa.Function, dynamicUnknown bool) {
	c := site.Common()
	if sc := c.StaticCallee(); sc != nil {
		if inAnalysed(sc) && len(sc.Blocks) > 0 {
			return []*ssa.Function{sc}, nil, false
		}
		return nil, []*ssa.Function{sc}, false
	}
	if c.IsInvoke() {
		if n := a.p.CHA().Nodes[fn]; n != nil {
			for _, e := range n.Out {
				if e.Site == site && e.Callee.Func != nil {
					cf := e.Callee.Func
					if inAnalysed(cf) && len(cf.Blocks) > 0 {
						in = append(in, cf)
					}
				}
			}
		}
		return in, nil, false
	}
	// function value: resolve through points-to
	seen := map[*ssa.Function]bool{}
	for o := range a.val(c.Value) {
		if o.fn != nil && !seen[o.fn] {
			seen[o.fn] = true
			if inAnalysed(o.fn) && len(o.fn.Blocks) > 0 {
				in = append(in, o.fn)
			} else {
				ext = append(ext, o.fn)
			}
		}
	}
	if len(in) == 0 && len(ext) == 0 {
		dynamicUnknown = true
	}
	return in, ext, dynamicUnknown
}

func (a *ptsAnalysis) bindCall(fn *ssa.Function, site ssa.CallInstruction, callee *ssa.Function) {
	c := site.Common()
	a.reachFn(callee)
	var resVal ssa.Value
	if v, ok := site.(ssa.Value); ok {
		resVal = v
	}
	args := c.Args
	params := callee.Params
	if c.IsInvoke() {
		if len(params) > 0 {
			a.addAll(params[0], a.val(c.Value))
			params = params[1:]
		}
	}
	for i, p := range params {
		if i < len(args) {
			a.addAll(p, a.val(args[i]))
		}
	}
	// closures called through a value: bind free variables from the closure objects
	if !c.IsInvoke() && c.StaticCallee() == nil {
		for o := range a.val(c.Value) {
			if o.fn == callee {
				if mc, ok := o.site.(*ssa.MakeClosure); ok {
					for i, bnd := range mc.Bindings {
						a.addAll(callee.FreeVars[i], a.val(bnd))
					}
				}
			}
		}
	}
	if resVal != nil {
		for _, r := range returnsOf(callee) {
			for i, rv := range r.Results {
				if pointerLike(rv.Type()) {
					if len(r.Results) > 1 {
						a.addTuple(resVal, i, a.val(rv))
					}
					a.addAll(resVal, a.val(rv))
				}
			}
		}
	}
}

func (a *ptsAnalysis) doCall(fn *ssa.Function, site ssa.CallInstruction) {
	c := site.Common()
	a.callSites++
	var resVal ssa.Value
	if v, ok := site.(ssa.Value); ok {
		resVal = v
	}
	if bi, ok := c.Value.(*ssa.Builtin); ok {
		switch bi.Name() {
		case "append":
			x := a.val(c.Args[0])
			a.recordWrite(fn, site, x, "append")
			fresh := a.objFor(site, kAlloc, "append@"+a.p.Pos(site.Pos()), site, fn)
			a.addAll(resVal, x)
			a.add(resVal, fresh)
			et := c.Args[0].Type().Underlying().(*types.Slice).Elem()
			if pointerLike(et) && len(c.Args) > 1 {
				for o := range a.pts[resVal] {
					for s := range a.val(c.Args[1]) {
						a.addContents(o, a.contents[s])
					}
				}
			}
		case "copy":
			x := a.val(c.Args[0])
			a.recordWrite(fn, site, x, "copy")
			if st, ok := c.Args[0].Type().Underlying().(*types.Slice); ok && pointerLike(st.Elem()) {
				for o := range x {
					for s := range a.val(c.Args[1]) {
						a.addContents(o, a.contents[s])
					}
				}
			}
		case "delete", "clear":
			a.recordWrite(fn, site, a.val(c.Args[0]), bi.Name())
		}
		return
	}
	in, ext, unknown := a.calleesOf(site, fn)
	for _, callee := range in {
		a.bindCall(fn, site, callee)
	}
	all := append([]ssa.Value{}, c.Args...)
	if c.IsInvoke() {
		all = append([]ssa.Value{c.Value}, all...)
	}
	for _, callee := range ext {
		a.external(fn, site, funcID(callee), all, resVal)
	}
	if c.IsInvoke() {
		id := ifaceMethodID(c.Method)
		if _, ok := extSummaries[id]; ok {
			a.external(fn, site, id, all, resVal)
		} else if declaredInAnalysed(c.Method) {
			// interface declared by the library: other implementations are user code
			a.userCall(fn, site, id, all, resVal)
		} else if len(in) == 0 {
			a.external(fn, site, id, all, resVal)
		}
	}
	if unknown {
		// a function value with no known target: an API parameter (user callback)
		a.userCall(fn, site, "func value "+c.Value.Name(), all, resVal)
	}
}

func ifaceMethodID(m *types.Func) string {
	if m == nil {
		return "?"
	}
	recv := m.Type().(*types.Signature).Recv()
	if recv != nil {
		if n := namedOf(recv.Type()); n != nil && n.Obj().Pkg() != nil {
			return "iface " + n.Obj().Pkg().Path() + "." + n.Obj().Name() + "." + m.Name()
		}
		if n := namedOf(recv.Type()); n != nil {
			return "iface " + n.Obj().Name() + "." + m.Name() // error.Error
		}
	}
	if m.Pkg() != nil {
		return "iface " + m.Pkg().Path() + ".?." + m.Name()
	}
	return "iface ?." + m.Name()
}

// userCall: control passes to code supplied by the user of the library. The
// claim excludes what that code does; its results are treated as fresh memory
// that may alias its arguments.
func (a *ptsAnalysis) userCall(fn *ssa.Function, site ssa.CallInstruction, id string, args []ssa.Value, resVal ssa.Value) {
	a.userCalls[fmt.Sprintf("%s: %s in %s", a.p.Pos(site.Pos()), id, shortFn(fn))] = true
	if resVal != nil && pointerLike(resVal.Type()) {
		o := a.objFor(site, kExt, "user:"+id+"@"+a.p.Pos(site.Pos()), site, fn)
		a.add(resVal, o)
		if tup, ok := resVal.Type().(*types.Tuple); ok {
			for i := 0; i < tup.Len(); i++ {
				a.addTuple(resVal, i, oset{o: true})
			}
		}
		for _, arg := range args {
			if pointerLike(arg.Type()) {
				a.addAll(resVal, a.val(arg))
				if tup, ok := resVal.Type().(*types.Tuple); ok {
					for i := 0; i < tup.Len(); i++ {
						a.addTuple(resVal, i, a.val(arg))
					}
				}
			}
		}
	}
}

func (a *ptsAnalysis) external(fn *ssa.Function, site ssa.CallInstruction, id string, args []ssa.Value, resVal ssa.Value) {
	sum, ok := lookupSummary(id)
	setRes := func(s oset) {
		if resVal == nil {
			return
		}
		a.addAll(resVal, s)
		if tup, ok := resVal.Type().(*types.Tuple); ok {
			for i := 0; i < tup.Len(); i++ {
				if pointerLike(tup.At(i).Type()) {
					a.addTuple(resVal, i, s)
				}
			}
		}
	}
	if !ok {
		// unsummarised: undecided if tracked memory can reach it
		for i, arg := range args {
			if !pointerLike(arg.Type()) || isStringType(arg.Type()) {
				continue
			}
			for o := range a.val(arg) {
				if t := a.reachesTracked(o, map[*aobj]bool{}); t != nil {
					k := fmt.Sprintf("%s|%s|%d", a.p.Pos(site.Pos()), id, i)
					a.extcalls[k] = ExtCall{Pos: site.Pos(), Fn: fn, Callee: id, Why: fmt.Sprintf("argument %d reaches %s", i, t)}
				}
			}
		}
		if resVal != nil && pointerLike(resVal.Type()) {
			o := a.objFor(site, kExt, "extret:"+id+"@"+a.p.Pos(site.Pos()), site, fn)
			setRes(oset{o: true})
			for _, arg := range args {
				if pointerLike(arg.Type()) {
					setRes(a.val(arg))
				}
			}
		}
		return
	}
	// summarised
	for i, arg := range args {
		if !pointerLike(arg.Type()) || isStringType(arg.Type()) {
			continue
		}
		for o := range a.val(arg) {
			if t := a.reachesTracked(o, map[*aobj]bool{}); t != nil {
				a.extSeen[id] = true
				_ = i
			}
		}
	}
	for _, w := range sum.writes {
		if w < len(args) {
			if sum.sync {
				a.allWrites++
				continue
			}
			a.recordWrite(fn, site, a.val(args[w]), "write by "+id)
		}
	}
	for _, st := range sum.stores {
		if st[0] < len(args) && st[1] < len(args) {
			for o := range a.val(args[st[0]]) {
				a.addContents(o, a.val(args[st[1]]))
			}
		}
	}
	for _, fi := range sum.calls {
		if fi < len(args) {
			for o := range a.val(args[fi]) {
				if o.fn != nil && inAnalysed(o.fn) && len(o.fn.Blocks) > 0 {
					a.reachFn(o.fn)
					if sum.sync {
						a.syncFns[o.fn] = true
					}
					if mc, ok := o.site.(*ssa.MakeClosure); ok {
						for i, bnd := range mc.Bindings {
							a.addAll(o.fn.FreeVars[i], a.val(bnd))
						}
					}
				}
			}
		}
	}
	var fresh *aobj
	needFresh := sum.ret == "fresh" || len(sum.fills) > 0
	if needFresh {
		fresh = a.objFor(site, kExt, "ext:"+id+"@"+a.p.Pos(site.Pos()), site, fn)
	}
	for _, f := range sum.fills {
		if f < len(args) {
			for o := range a.val(args[f]) {
				a.addContents(o, oset{fresh: true})
			}
		}
	}
	switch {
	case sum.ret == "fresh":
		setRes(oset{fresh: true})
		for _, h := range sum.retHolds {
			if h < len(args) {
				a.addContents(fresh, a.val(args[h]))
			}
		}
	case sum.ret == "args":
		for _, arg := range args {
			if pointerLike(arg.Type()) {
				setRes(a.val(arg))
			}
		}
	case strings.HasPrefix(sum.ret, "arg:"):
		var n int
		fmt.Sscanf(sum.ret, "arg:%d", &n)
		if n < len(args) {
			setRes(a.val(args[n]))
		}
	case strings.HasPrefix(sum.ret, "contents:"):
		var n int
		fmt.Sscanf(sum.ret, "contents:%d", &n)
		if n < len(args) {
			for o := range a.val(args[n]) {
				s := oset{}
				for c := range a.contents[o] {
					s[c] = true
				}
				for _, sb := range o.subs {
					for c := range a.contents[sb] {
						s[c] = true
					}
				}
				if o.kind == kShared || o.kind == kParam || o.kind == kExt {
					s[o] = true
				}
				setRes(s)
			}
		}
	}
}

// solve runs to fixpoint.
func (a *ptsAnalysis) solve() int {
	for iter := 1; ; iter++ {
		a.changed = false
		fns := append([]*ssa.Function{}, a.order...)
		for _, f := range fns {
			a.doFunc(f)
		}
		if !a.changed {
			return iter
		}
		if iter > 200 {
			panic("E1: no fixpoint after 200 passes")
		}
	}
}

func (a *ptsAnalysis) sortedWrites() []WriteEffect {
	keys := make([]string, 0, len(a.writes))
	for k := range a.writes {
		keys = append(keys, k)
	}
	sort.Strings(keys)
	out := make([]WriteEffect, 0, len(keys))
	for _, k := range keys {
		out = append(out, a.writes[k])
	}
	return out
}

func (a *ptsAnalysis) sortedExt() []ExtCall {
	keys := make([]string, 0, len(a.extcalls))
	for k := range a.extcalls {
		keys = append(keys, k)
	}
	sort.Strings(keys)
	out := make([]ExtCall, 0, len(keys))
	for _, k := range keys {
		out = append(out, a.extcalls[k])
	}
	return out
}

// reachableObjs walks contents and sub-objects from roots.
func (a *ptsAnalysis) reachableObjs(roots oset, visit func(o *aobj, path string) bool) {
	seen := map[*aobj]bool{}
	var walk func(o *aobj, path string)
	walk = func(o *aobj, path string) {
		if seen[o] {
			return
		}
		seen[o] = true
		if !visit(o, path) {
			return
		}
		for c := range a.contents[o] {
			walk(c, path+" -> "+c.String())
		}
		for _, s := range o.subs {
			walk(s, path)
		}
	}
	var rs []*aobj
	for r := range roots {
		rs = append(rs, r)
	}
	sort.Slice(rs, func(i, j int) bool { return rs[i].String() < rs[j].String() })
	for _, r := range rs {
		walk(r, r.String())
	}
}
