// Package aliasing is a positive control for the C20 rules: loaders that keep
// or write their input buffer and a builder that writes caller-owned memory.
package aliasing

import "sort"

type msg struct {
	Bytes []byte
}

type T struct {
	inner *msg
}

type Opt struct {
	A *bool
	B *bool
}

// LoadZeroCopy re-points a byte field into the caller's buffer.
func (t *T) LoadZeroCopy(buf []byte) {
	t.inner = &msg{}
	t.inner.Bytes = buf[4:]
}

// LoadInPlace rewrites the caller's buffer while parsing.
func (t *T) LoadInPlace(buf []byte) {
	t.inner = &msg{}
	for i := range buf {
		buf[i] ^= 0xff
	}
	t.inner.Bytes = append([]byte{}, buf...)
}

// LoadCopy is the negative control.
func (t *T) LoadCopy(buf []byte) {
	t.inner = &msg{}
	t.inner.Bytes = append([]byte{}, buf[4:]...)
}

// BuildSorting sorts the caller's keys.
func BuildSorting(keys []string, opts ...Opt) *T {
	sort.Strings(keys)
	return &T{inner: &msg{}}
}

// BuildNormalizing sets defaults in the caller's option struct and flips a caller bool.
func BuildNormalizing(keys []string, opts ...Opt) *T {
	if len(opts) > 0 {
		o := &opts[0]
		if o.A == nil {
			v := true
			o.A = &v
		}
		if o.B != nil {
			*o.B = true
		}
	}
	return &T{inner: &msg{}}
}

// BuildClean is the negative control.
func BuildClean(keys []string, opts ...Opt) *T {
	o := Opt{}
	if len(opts) > 0 {
		o = opts[0]
	}
	if o.A == nil {
		v := true
		o.A = &v
	}
	ks := append([]string{}, keys...)
	sort.Strings(ks)
	return &T{inner: &msg{Bytes: []byte(ks[0])}}
}

// Enc mirrors encode.Encoder; Ident is an identity encoder like encode.Bytes.
type Enc interface {
	Encode(d interface{}) []byte
}

type Ident struct{}

func (Ident) Encode(d interface{}) []byte { return d.([]byte) }

// BuildKeepingValues keeps the encoded bytes of a lone value without copying
// them: with an identity encoder that is the caller's own slice.
func BuildKeepingValues(e Enc, vals interface{}) *T {
	vs := vals.([][]byte)
	var elts [][]byte
	for _, v := range vs {
		elts = append(elts, e.Encode(v))
	}
	if len(elts) == 1 {
		return &T{inner: &msg{Bytes: elts[0]}}
	}
	return &T{inner: &msg{}}
}

// BuildCopyingValues is the negative control: encoded bytes are packed into a fresh buffer.
func BuildCopyingValues(e Enc, vals interface{}) *T {
	vs := vals.([][]byte)
	var buf []byte
	for _, v := range vs {
		buf = append(buf, e.Encode(v)...)
	}
	return &T{inner: &msg{Bytes: buf}}
}
