package main

import (
	"go/token"
	"go/types"
	"strings"

	"golang.org/x/tools/go/ssa"
)

// wirePathOf renders the access path of a value loaded from the wire message,
// e.g. "Slim.InnerPrefixes.PositionBM", following field loads and generated
// protobuf getters back to a value of type *trie.Slim. Returns "" if the value
// is not such a load. For values rooted at a *VLenArray / *Bitmap parameter the
// path starts with "VLenArray" / "Bitmap".
func wirePathOf(v ssa.Value) string {
	return wirePathRec(v, 0)
}

func wireRootName(t types.Type) string {
	n := namedOf(t)
	if n == nil || n.Obj().Pkg() == nil {
		return ""
	}
	if _, ok := t.Underlying().(*types.Pointer); !ok {
		if _, ok2 := t.(*types.Pointer); !ok2 {
			return ""
		}
	}
	switch n.Obj().Pkg().Path() {
	case triePath:
		switch n.Obj().Name() {
		case "Slim", "VLenArray", "Bitmap":
			return n.Obj().Name()
		}
	case arrayPath:
		switch n.Obj().Name() {
		case "Array32", "Base", "Array", "U16", "U32", "U64", "I16", "I32", "I64", "Bits":
			return "Array32"
		}
	}
	return ""
}

func wirePathRec(v ssa.Value, depth int) string {
	if depth > 12 || v == nil {
		return ""
	}
	switch x := v.(type) {
	case *ssa.UnOp:
		if x.Op != token.MUL {
			return ""
		}
		// load of a field
		if _, fv, fa := fieldOfAddr(x.X); fa != nil {
			base := wirePathRec(fa.X, depth+1)
			if base == "" {
				// the message itself: field of type *Slim loaded from a non-wire struct (st.inner)
				if r := wireRootName(x.Type()); r == "Slim" {
					return "Slim"
				}
				return ""
			}
			if fv.Embedded() {
				return base
			}
			return base + "." + fv.Name()
		}
		// load of a local variable holding a message pointer: follow single store
		if al, ok := x.X.(*ssa.Alloc); ok {
			var st *ssa.Store
			n := 0
			for _, ref := range *al.Referrers() {
				if s, ok := ref.(*ssa.Store); ok && s.Addr == al {
					st = s
					n++
				}
			}
			if n == 1 {
				return wirePathRec(st.Val, depth+1)
			}
		}
		return ""
	case *ssa.FieldAddr:
		// address of an embedded struct (Base.Array32)
		_, fv, fa := fieldOfAddr(x)
		if fa != nil && fv.Embedded() {
			return wirePathRec(fa.X, depth+1)
		}
		return ""
	case *ssa.Parameter:
		return wireRootName(x.Type())
	case *ssa.FreeVar:
		return ""
	case *ssa.Call:
		// generated getter (*T).GetX()
		f := calleeOf(x)
		if f != nil && f.Signature.Recv() != nil && strings.HasPrefix(f.Name(), "Get") && len(x.Call.Args) == 1 {
			if r := wireRootName(f.Signature.Recv().Type()); r != "" {
				base := wirePathRec(x.Call.Args[0], depth+1)
				if base != "" {
					return base + "." + strings.TrimPrefix(f.Name(), "Get")
				}
			}
		}
		return ""
	case *ssa.Phi:
		// all edges agree
		p := ""
		for i, e := range x.Edges {
			q := wirePathRec(e, depth+1)
			if i == 0 {
				p = q
			} else if q != p {
				return ""
			}
		}
		return p
	case *ssa.Alloc:
		return ""
	}
	if r := wireRootName(v.Type()); r == "Slim" {
		if _, ok := v.(*ssa.Parameter); ok {
			return r
		}
	}
	return ""
}

// wireAddrPath: path of the field whose address v is (for stores).
func wireAddrPath(v ssa.Value) string {
	_, fv, fa := fieldOfAddr(v)
	if fa == nil {
		return ""
	}
	base := wirePathOf(fa.X)
	if base == "" {
		if r := wireRootName(fa.X.Type()); r != "" {
			// store through a locally allocated message
			if _, ok := fa.X.(*ssa.Alloc); ok {
				return r + "(new)." + fv.Name()
			}
			return r + "(?)." + fv.Name()
		}
		return ""
	}
	return base + "." + fv.Name()
}

// trieReach: functions of package trie reachable from roots through static
// calls and closure creation (closures may be returned to the user).
func trieReach(roots ...*ssa.Function) map[*ssa.Function]bool {
	seen := map[*ssa.Function]bool{}
	var walk func(f *ssa.Function)
	walk = func(f *ssa.Function) {
		if f == nil || seen[f] || !inSlim(f) || len(f.Blocks) == 0 {
			return
		}
		seen[f] = true
		instrsOf(f, func(_ *ssa.BasicBlock, in ssa.Instruction) {
			switch x := in.(type) {
			case *ssa.MakeClosure:
				walk(x.Fn.(*ssa.Function))
			case ssa.CallInstruction:
				walk(calleeOf(x))
			}
		})
	}
	for _, f := range roots {
		walk(f)
	}
	return seen
}

// nilTest decodes "X == nil" / "X != nil": returns X and the index of the
// successor taken when X is nil.
func nilTest(cond ssa.Value) (ssa.Value, int, bool) {
	neg := false
	for {
		if u, ok := cond.(*ssa.UnOp); ok && u.Op == token.NOT {
			neg = !neg
			cond = u.X
			continue
		}
		break
	}
	b, ok := cond.(*ssa.BinOp)
	if !ok || (b.Op != token.EQL && b.Op != token.NEQ) {
		return nil, 0, false
	}
	var x ssa.Value
	switch {
	case isNilConst(b.Y):
		x = b.X
	case isNilConst(b.X):
		x = b.Y
	default:
		return nil, 0, false
	}
	nilSucc := 0
	if b.Op == token.NEQ {
		nilSucc = 1
	}
	if neg {
		nilSucc = 1 - nilSucc
	}
	return x, nilSucc, true
}

// takesTrie: function of package trie with a *SlimTrie receiver or parameter.
func takesTrie(f *ssa.Function) bool {
	if f == nil || !trieScope(f) {
		return false
	}
	for _, p := range f.Params {
		if isNamed(p.Type(), triePath, "SlimTrie") {
			return true
		}
	}
	return false
}

// blockPostDominatesEntry: b lies on every path from entry to a normal return
// (paths ending in panic are ignored).
func blockPostDominatesEntry(f *ssa.Function, b *ssa.BasicBlock) bool {
	d, _ := postDom(f, nil)
	return d.pdom[0][b.Index]
}
