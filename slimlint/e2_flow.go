package main

// E2 — labelled information flow over the builder.
//
// Abstract interpretation of an entry function and everything it calls inside
// a scope (package trie), context-sensitive by cloning along call strings,
// field-sensitive on abstract objects (one object per allocation site per
// context, one cell per field path, elements collapsed), flow-insensitive
// inside a function except for control dependence, which is computed from
// post-dominators, closed transitively and termination-insensitive.

import (
	"fmt"
	"go/token"
	"go/types"
	"os"
	"sort"
	"strings"

	"golang.org/x/tools/go/ssa"
)

type lset map[string]bool

func (l lset) addAll(o lset) bool {
	ch := false
	for k := range o {
		if !l[k] {
			l[k] = true
			ch = true
		}
	}
	return ch
}

func (l lset) String() string { return "{" + strings.Join(sortedKeys(l), ",") + "}" }

func (l lset) hasPrefix(p string) bool {
	for k := range l {
		if strings.HasPrefix(k, p) {
			return true
		}
	}
	return false
}

func (l lset) withPrefix(ps ...string) []string {
	var out []string
	for k := range l {
		for _, p := range ps {
			if strings.HasPrefix(k, p) {
				out = append(out, k)
				break
			}
		}
	}
	sort.Strings(out)
	return out
}

type fobject struct {
	name  string
	typ   types.Type // type of the allocated thing (element type for slices: the slice type)
	cells map[string]*fcell
	site  token.Pos
	ctx   string
	kind  string // alloc, make, append, conv, ext, seed, global
	actl  lset   // control labels in force where the object is allocated (with polarity)
}

type foset map[*fobject]bool

type fcell struct {
	labels lset
	pts    foset
}

func (o *fobject) cell(k string) *fcell {
	c := o.cells[k]
	if c == nil {
		c = &fcell{labels: lset{}, pts: foset{}}
		o.cells[k] = c
	}
	return c
}

type faddr struct {
	o *fobject
	k string
}

type aval struct {
	labels lset
	pts    foset
	addrs  map[faddr]bool
}

func newAval() *aval { return &aval{labels: lset{}, pts: foset{}, addrs: map[faddr]bool{}} }

type fctx struct {
	fn         *ssa.Function
	key        string
	vals       map[ssa.Value]*aval
	ctl        lset
	ret        *aval
	cdeps      map[*ssa.BasicBlock][]ctlDep
	retParts   []*aval
	tupleParts map[ssa.Value][]*aval
	depth      int
	abortRet   func(*ssa.Return) bool // returns after which the caller of this activation gives up
}

// storeEvent records one abstract store.
type storeEvent struct {
	pos    token.Pos
	fn     *ssa.Function
	obj    *fobject
	key    string
	labels lset  // labels of the stored value
	ctl    lset  // control labels in force
	pts    foset // objects the stored value may point to (pointer stores)
}

// callRecord records the abstract arguments of one call in one context.
type callRecord struct {
	site   ssa.CallInstruction
	fn     *ssa.Function
	ctx    *fctx
	callee string
	args   []*aval
	ctl    lset
}

var debugFlow = os.Getenv("SLIMLINT_DEBUG") != ""

type flowAnalysis struct {
	lastChange string
	p          *Program
	ctxs       map[string]*fctx
	order      []string
	objs       map[string]*fobject
	changed    bool
	scope      func(*ssa.Function) bool
	optType    types.Type
	events     map[string]*storeEvent
	calls      map[string]*callRecord
	barrier    func(*fobject) bool // work-list objects
	recursed   []string
	abortRet   func(*ssa.Return) bool
	maxDepth   int
	optAlias   map[*types.Var]string // bool fields that only ever hold a copy of one option's value
}

func newFlow(p *Program) *flowAnalysis {
	return &flowAnalysis{p: p, ctxs: map[string]*fctx{}, objs: map[string]*fobject{}, events: map[string]*storeEvent{},
		calls: map[string]*callRecord{}, maxDepth: 12,
		abortRet: func(r *ssa.Return) bool {
			// "no result": a return whose first result is the nil constant and that has >= 2 results
			return len(r.Results) >= 2 && isNilConst(r.Results[0])
		}}
}

func (it *flowAnalysis) obj(key, kind string, t types.Type, pos token.Pos, ctx string) *fobject {
	o := it.objs[key]
	if o == nil {
		o = &fobject{name: key, typ: t, cells: map[string]*fcell{}, site: pos, ctx: ctx, kind: kind}
		it.objs[key] = o
	}
	return o
}

func (c *fctx) get(it *flowAnalysis, v ssa.Value) *aval {
	a := c.vals[v]
	if a == nil {
		a = newAval()
		c.vals[v] = a
		if g, ok := v.(*ssa.Global); ok {
			o := it.obj("global:"+g.String(), "global", g.Type(), g.Pos(), "")
			a.addrs[faddr{o, ""}] = true
			a.pts[o] = true
		}
	}
	return a
}

func (it *flowAnalysis) merge(dst, src *aval) {
	if dst.labels.addAll(src.labels) {
		it.changed = true
		it.lastChange = "L183"
	}
	for o := range src.pts {
		if !dst.pts[o] {
			dst.pts[o] = true
			it.changed = true
			it.lastChange = "L188"
		}
	}
	for ad := range src.addrs {
		if !dst.addrs[ad] {
			dst.addrs[ad] = true
			it.changed = true
			it.lastChange = "L194"
		}
	}
}

func (it *flowAnalysis) addLabels(dst *aval, l lset) {
	if dst.labels.addAll(l) {
		it.changed = true
		it.lastChange = "L201"
	}
}

func (it *flowAnalysis) addPts(dst *aval, o *fobject) {
	if !dst.pts[o] {
		dst.pts[o] = true
		it.changed = true
		it.lastChange = "L208"
	}
}

// carriesBytes: can a value of this type hold key material (bytes)?
func carriesBytes(t types.Type, d int) bool {
	if d > 4 {
		return true
	}
	if isStringType(t) || isByteSlice(t) {
		return true
	}
	switch u := t.Underlying().(type) {
	case *types.Slice:
		return carriesBytes(u.Elem(), d+1)
	case *types.Array:
		return carriesBytes(u.Elem(), d+1)
	case *types.Pointer:
		return carriesBytes(u.Elem(), d+1)
	case *types.Map:
		return carriesBytes(u.Elem(), d+1) || carriesBytes(u.Key(), d+1)
	case *types.Struct:
		for i := 0; i < u.NumFields(); i++ {
			if carriesBytes(u.Field(i).Type(), d+1) {
				return true
			}
		}
	case *types.Interface, *types.Signature:
		return true
	case *types.Tuple:
		for i := 0; i < u.Len(); i++ {
			if carriesBytes(u.At(i).Type(), d+1) {
				return true
			}
		}
	}
	return false
}

const lblKey = "keybytes"

// lblKeyData marks every value computed from the keys, integers and (through control
// dependence) decisions included; unlike keybytes it is never stripped by type.
const lblKeyData = "keydata"

// filter drops the keybytes label unless the type can carry key material.
func filter(l lset, t types.Type) lset {
	if !l[lblKey] || carriesBytes(t, 0) {
		return l
	}
	return stripKB(l)
}

// depol: a control label that flows into a VALUE loses its polarity — the
// value depends on the option, which says nothing about the option's value on
// the paths where the value is used later.
func depol(l lset) lset {
	need := false
	for k := range l {
		if strings.HasPrefix(k, "opt:") && (strings.HasSuffix(k, "+") || strings.HasSuffix(k, "-")) {
			need = true
		}
	}
	if !need {
		return l
	}
	r := lset{}
	for k := range l {
		if strings.HasPrefix(k, "opt:") && (strings.HasSuffix(k, "+") || strings.HasSuffix(k, "-")) {
			r[k[:len(k)-1]] = true
		} else {
			r[k] = true
		}
	}
	return r
}

func stripKB(l lset) lset {
	if !l[lblKey] {
		return l
	}
	r := lset{}
	for k := range l {
		if k != lblKey {
			r[k] = true
		}
	}
	return r
}

func targets(a *aval) []faddr {
	var out []faddr
	for ad := range a.addrs {
		out = append(out, ad)
	}
	if len(a.addrs) == 0 {
		for o := range a.pts {
			out = append(out, faddr{o, ""})
		}
	}
	return out
}

// worklistFiltered: the labels of a slice value; if it may be the work list,
// the barrier labels (which elements exist is what defines the nodes) are dropped.
func (it *flowAnalysis) worklistFiltered(x *aval) lset {
	if it.barrier == nil {
		return x.labels
	}
	isBar := false
	for o := range x.pts {
		if it.barrier(o) {
			isBar = true
		}
	}
	if !isBar {
		return x.labels
	}
	tmp := lset{}
	for k := range x.labels {
		if !barrierLabel(k) {
			tmp[k] = true
		}
	}
	return tmp
}

// barrierLabel: labels that do not pass through the work list.
func barrierLabel(k string) bool {
	return k == "keepmask" || k == "values" || strings.HasPrefix(k, "opt:DedupValue")
}

func (it *flowAnalysis) loadCell(dst *aval, c *fcell, t types.Type, barrier bool) {
	if barrier {
		tmp := lset{}
		for k := range c.labels {
			if !barrierLabel(k) {
				tmp[k] = true
			}
		}
		it.addLabels(dst, filter(tmp, t))
	} else {
		it.addLabels(dst, filter(c.labels, t))
	}
	for o := range c.pts {
		it.addPts(dst, o)
	}
}

func (it *flowAnalysis) load(dst *aval, from *aval, t types.Type) {
	for _, ad := range targets(from) {
		bar := it.barrier != nil && it.barrier(ad.o)
		if _, ok := ad.o.typ.Underlying().(*types.Slice); ok && isBoolSliceObj(ad.o) {
			it.addLabels(dst, lset{"keepmask": true})
		}
		if ad.k == "" {
			// whole-object load (struct copy): every cell
			for _, cc := range ad.o.cells {
				it.loadCell(dst, cc, t, bar)
			}
			continue
		}
		// the cell itself, every enclosing path (whole-struct stores) and every nested path
		for k, cc := range ad.o.cells {
			if k == ad.k || k == "" || strings.HasPrefix(ad.k, k+".") || strings.HasPrefix(k, ad.k+".") {
				it.loadCell(dst, cc, t, bar)
			}
		}
	}
	it.addLabels(dst, filter(from.labels, t))
}

func isBoolSliceObj(o *fobject) bool {
	s, ok := o.typ.Underlying().(*types.Slice)
	if !ok {
		return false
	}
	return isBoolType(s.Elem())
}

func (it *flowAnalysis) store(c *fctx, in ssa.Instruction, to *aval, v *aval, ctl lset) {
	for _, ad := range targets(to) {
		cl := ad.o.cell(ad.k)
		if cl.labels.addAll(v.labels) {
			it.changed = true
			it.lastChange = "L340"
		}
		if cl.labels.addAll(depol(ctl)) {
			it.changed = true
			it.lastChange = "L343"
		}
		if cl.labels.addAll(stripKB(to.labels)) {
			it.changed = true
			it.lastChange = "L346"
		}
		for o := range v.pts {
			if !cl.pts[o] {
				cl.pts[o] = true
				it.changed = true
				it.lastChange = "L351"
			}
		}
		ek := fmt.Sprintf("%d|%s|%s|%s", in.Pos(), c.key, ad.o.name, ad.k)
		ev := it.events[ek]
		if ev == nil {
			ev = &storeEvent{pos: in.Pos(), fn: c.fn, obj: ad.o, key: ad.k, labels: lset{}, ctl: lset{}}
			it.events[ek] = ev
		}
		ev.labels.addAll(v.labels)
		ev.ctl.addAll(ctl)
		for o := range v.pts {
			if ev.pts == nil {
				ev.pts = foset{}
			}
			ev.pts[o] = true
		}
	}
}

// onlyIfOpt: the store event establishes a non-nil pointer only if option opt
// is true: it executes only under opt+ (and never under opt-), or everything
// it can store was allocated only under opt+ (a helper that returns nil when
// the option is off and whose result is stored unconditionally).
func (ev *storeEvent) onlyIfOpt(opt string) bool {
	plus, minus := "opt:"+opt+"+", "opt:"+opt+"-"
	if ev.ctl[plus] && !ev.ctl[minus] {
		return true
	}
	if len(ev.pts) == 0 {
		return false
	}
	for o := range ev.pts {
		if o.kind != "alloc" || !o.actl[plus] || o.actl[minus] {
			return false
		}
	}
	return true
}

// structCopy copies cell-wise from the source struct(s) to the destination
// struct(s). Returns false if the shapes are not addressable (fall back to a flat store).
func (it *flowAnalysis) structCopy(c *fctx, in ssa.Instruction, to, from *aval, ctl lset) bool {
	src, dst := targets(from), targets(to)
	if len(src) == 0 || len(dst) == 0 {
		return false
	}
	for _, s := range src {
		for k, cl := range s.o.cells {
			var sub string
			switch {
			case s.k == "" && k != "":
				sub = k
			case s.k != "" && strings.HasPrefix(k, s.k+"."):
				sub = k[len(s.k)+1:]
			case k == s.k:
				sub = ""
			default:
				continue
			}
			labs := cl.labels
			if it.barrier != nil && it.barrier(s.o) {
				labs = lset{}
				for l := range cl.labels {
					if !barrierLabel(l) {
						labs[l] = true
					}
				}
			}
			v := &aval{labels: labs, pts: cl.pts, addrs: map[faddr]bool{}}
			for _, d := range dst {
				dk := sub
				if d.k != "" {
					if sub == "" {
						dk = d.k
					} else {
						dk = d.k + "." + sub
					}
				}
				t := newAval()
				t.addrs[faddr{d.o, dk}] = true
				t.labels = to.labels
				it.store(c, in, t, v, ctl)
			}
		}
	}
	return true
}

// structCopyQuiet copies cells from source addresses to destination addresses
// without recording store events (building a value object from memory).
func (it *flowAnalysis) structCopyQuiet(from, to *aval) {
	for _, s := range targets(from) {
		bar := it.barrier != nil && it.barrier(s.o)
		for k, cl := range s.o.cells {
			var sub string
			switch {
			case s.k == "" && k != "":
				sub = k
			case s.k != "" && strings.HasPrefix(k, s.k+"."):
				sub = k[len(s.k)+1:]
			case k == s.k:
				sub = ""
			default:
				continue
			}
			for _, d := range targets(to) {
				dk := sub
				if d.k != "" {
					if sub == "" {
						dk = d.k
					} else {
						dk = d.k + "." + sub
					}
				}
				dc := d.o.cell(dk)
				for l := range cl.labels {
					if bar && barrierLabel(l) {
						continue
					}
					if !dc.labels[l] {
						dc.labels[l] = true
						it.changed = true
					}
				}
				for p := range cl.pts {
					if !dc.pts[p] {
						dc.pts[p] = true
						it.changed = true
					}
				}
			}
		}
	}
}

func (it *flowAnalysis) context(fn *ssa.Function, key string, depth int) *fctx {
	return it.contextAbort(fn, key, depth, nil)
}

// abortValueAt: site is a call with a single boolean result that the caller only branches on, and the
// edge taken for one of the two values leads only to the caller's own abort returns ("if !c.addInner(…)
// { return nil, err }"): that value. A return of the callee with that constant is then an abort return of
// this activation — the same termination-insensitive reading as for "return nil, err" itself.
func (it *flowAnalysis) abortValueAt(c *fctx, site ssa.CallInstruction) (bool, bool) {
	call, ok := site.(*ssa.Call)
	if !ok || !isBoolType(call.Type()) || call.Referrers() == nil {
		return false, false
	}
	ar := c.abortRet
	if ar == nil {
		ar = it.abortRet
	}
	_, abortOnly := postDom(c.fn, ar)
	found, val := false, false
	for _, ref := range *call.Referrers() {
		switch x := ref.(type) {
		case *ssa.DebugRef:
			continue
		case *ssa.If:
			b := x.Block()
			t, f := abortOnly[b.Succs[0].Index], abortOnly[b.Succs[1].Index]
			if t == f {
				return false, false
			}
			v := t // the value whose edge aborts
			if found && v != val {
				return false, false
			}
			found, val = true, v
		default:
			return false, false
		}
	}
	return val, found
}

func (it *flowAnalysis) contextAbort(fn *ssa.Function, key string, depth int, abortVal *bool) *fctx {
	k := key + "|" + fn.String()
	c := it.ctxs[k]
	if c == nil {
		c = &fctx{fn: fn, key: k, vals: map[ssa.Value]*aval{}, ctl: lset{}, ret: newAval(), depth: depth}
		c.abortRet = it.abortRet
		if abortVal != nil {
			av := *abortVal
			base := it.abortRet
			c.abortRet = func(r *ssa.Return) bool {
				if base != nil && base(r) {
					return true
				}
				if len(r.Results) == 1 {
					if cv, ok := constBool(r.Results[0]); ok && cv == av {
						return true
					}
				}
				return false
			}
		}
		c.cdeps = controlDeps(fn, c.abortRet)
		it.ctxs[k] = c
		it.order = append(it.order, k)
		it.changed = true
		it.lastChange = "L373"
	}
	return c
}

// optLabel: v is the bool loaded through a *bool field of the option struct.
// optAliases: bool fields of package trie's structs all of whose stores, anywhere in the package,
// store exactly the value of one and the same option (a builder that reads the flags once into plain
// bools: c.leafPrefix = *opt.LeafPrefix). A branch on such a field is a branch on that option.
func (it *flowAnalysis) optAliases() map[*types.Var]string {
	if it.optAlias != nil {
		return it.optAlias
	}
	it.optAlias = map[*types.Var]string{}
	conflict := map[*types.Var]bool{}
	for _, f := range it.p.FuncsOf(triePath) {
		instrsOf(f, func(_ *ssa.BasicBlock, in ssa.Instruction) {
			st, ok := in.(*ssa.Store)
			if !ok || !isBoolType(st.Val.Type()) {
				return
			}
			_, fv, fa := fieldOfAddr(st.Addr)
			if fa == nil {
				return
			}
			if pt, ok := fa.X.Type().Underlying().(*types.Pointer); ok && it.optType != nil && types.Identical(pt.Elem(), it.optType) {
				return // the option struct itself
			}
			name, isOpt := it.optLabelDirect(st.Val)
			if !isOpt {
				conflict[fv] = true
				return
			}
			if old, ok := it.optAlias[fv]; ok && old != name {
				conflict[fv] = true
				return
			}
			it.optAlias[fv] = name
		})
	}
	for v := range conflict {
		delete(it.optAlias, v)
	}
	return it.optAlias
}

func (it *flowAnalysis) optLabel(v ssa.Value) (string, bool) {
	if name, ok := it.optLabelDirect(v); ok {
		return name, true
	}
	// a load of a field that only ever holds a copy of one option
	if ld, ok := deref(v); ok {
		if _, fv, fa := fieldOfAddr(ld); fa != nil && isBoolType(fv.Type()) {
			if name, ok := it.optAliases()[fv]; ok {
				return name, true
			}
		}
	}
	return "", false
}

func (it *flowAnalysis) optLabelDirect(v ssa.Value) (string, bool) {
	x, ok := deref(v)
	if !ok {
		return "", false
	}
	pp, ok := deref(x)
	if !ok {
		return "", false
	}
	st, fv, fa := fieldOfAddr(pp)
	if fa == nil {
		return "", false
	}
	pt := fa.X.Type().Underlying().(*types.Pointer)
	if !types.Identical(pt.Elem(), it.optType) {
		return "", false
	}
	_ = st
	return "opt:" + fv.Name(), true
}

// condOpt: the branch condition is exactly an option bool (possibly negated).
func (it *flowAnalysis) condOpt(cond ssa.Value) (string, bool, bool) {
	neg := false
	for {
		if u, ok := cond.(*ssa.UnOp); ok && u.Op == token.NOT {
			neg = !neg
			cond = u.X
			continue
		}
		break
	}
	if b, ok := cond.(*ssa.BinOp); ok && (b.Op == token.EQL || b.Op == token.NEQ) {
		// *o.Complete == true
		if cv, ok2 := constBool(b.Y); ok2 {
			if name, ok3 := it.optLabel(b.X); ok3 {
				if (b.Op == token.EQL) != cv {
					neg = !neg
				}
				return name, neg, true
			}
		}
	}
	if name, ok := it.optLabel(cond); ok {
		return name, neg, true
	}
	return "", false, false
}

func (it *flowAnalysis) blockCtl(c *fctx, b *ssa.BasicBlock) lset {
	return it.blockCtlRec(c, b, map[*ssa.BasicBlock]bool{}, true)
}

// blockCtlLocal: the control labels of b that arise inside the function itself, without the ones the
// context inherited from its call site.
func (it *flowAnalysis) blockCtlLocal(c *fctx, b *ssa.BasicBlock) lset {
	return it.blockCtlRec(c, b, map[*ssa.BasicBlock]bool{}, false)
}

func (it *flowAnalysis) blockCtlRec(c *fctx, b *ssa.BasicBlock, seen map[*ssa.BasicBlock]bool, inherit bool) lset {
	l := lset{}
	if inherit {
		l.addAll(c.ctl)
	}
	if seen[b] {
		return l
	}
	seen[b] = true
	for _, d := range c.cdeps[b] {
		if d.branch != b {
			l.addAll(it.blockCtlRec(c, d.branch, seen, inherit))
		}
		iff, ok := lastInstr(d.branch).(*ssa.If)
		if !ok {
			continue
		}
		cond := c.get(it, iff.Cond)
		name, neg, isOpt := it.condOpt(iff.Cond)
		for k := range cond.labels {
			if isOpt && k == name {
				pol := "+"
				if (d.succ == 1) != neg {
					pol = "-"
				}
				l[k+pol] = true
				continue
			}
			if k != lblKey {
				l[k] = true
			}
		}
	}
	return l
}

func (it *flowAnalysis) run(c *fctx) {
	for _, b := range c.fn.Blocks {
		ctl := it.blockCtl(c, b)
		for _, instr := range b.Instrs {
			it.step(c, b, instr, ctl)
		}
	}
}

func shortKey(k string) string {
	h := uint32(2166136261)
	for i := 0; i < len(k); i++ {
		h = (h ^ uint32(k[i])) * 16777619
	}
	return fmt.Sprintf("%08x", h)
}

func (it *flowAnalysis) step(c *fctx, b *ssa.BasicBlock, instr ssa.Instruction, ctl lset) {
	switch in := instr.(type) {
	case *ssa.Alloc:
		et := in.Type().(*types.Pointer).Elem()
		o := it.obj(fmt.Sprintf("alloc:%s:%s@%s#%s", et, in.Comment, it.p.Pos(in.Pos()), shortKey(c.key)), "alloc", et, in.Pos(), c.key)
		if o.actl == nil {
			o.actl = lset{}
		}
		o.actl.addAll(ctl)
		it.addPts(c.get(it, in), o)
	case *ssa.MakeSlice, *ssa.MakeMap:
		v := in.(ssa.Value)
		o := it.obj(fmt.Sprintf("make:%s@%s#%s", v.Type(), it.p.Pos(in.Pos()), shortKey(c.key)), "make", v.Type(), in.Pos(), c.key)
		it.addPts(c.get(it, v), o)
	case *ssa.FieldAddr:
		a := c.get(it, in)
		x := c.get(it, in.X)
		_, fv, _ := fieldOfAddr(in)
		fname := fv.Name()
		for _, ad := range targets(x) {
			k := fname
			if ad.k != "" {
				k = ad.k + "." + fname
			}
			na := faddr{ad.o, k}
			if !a.addrs[na] {
				a.addrs[na] = true
				it.changed = true
				it.lastChange = "L506"
			}
		}
		it.addLabels(a, stripKB(x.labels))
	case *ssa.IndexAddr:
		a := c.get(it, in)
		x := c.get(it, in.X)
		for o := range x.pts {
			na := faddr{o, "*"}
			if !a.addrs[na] {
				a.addrs[na] = true
				it.changed = true
				it.lastChange = "L517"
			}
		}
		for ad := range x.addrs { // pointer to array
			if !a.addrs[ad] {
				a.addrs[ad] = true
				it.changed = true
				it.lastChange = "L523"
			}
		}
		it.addLabels(a, stripKB(it.worklistFiltered(x)))
		it.addLabels(a, stripKB(c.get(it, in.Index).labels))
	case *ssa.Index:
		a := c.get(it, in)
		x := c.get(it, in.X)
		it.addLabels(a, filter(x.labels, in.Type()))
		it.addLabels(a, stripKB(c.get(it, in.Index).labels))
	case *ssa.Field:
		x := c.get(it, in.X)
		hasVO := false
		for o := range x.pts {
			if o.kind == "sval" {
				hasVO = true
			}
		}
		if hasVO {
			a := c.get(it, in)
			st, _ := in.X.Type().Underlying().(*types.Struct)
			fname := st.Field(in.Field).Name()
			from := newAval()
			for o := range x.pts {
				if o.kind == "sval" {
					from.addrs[faddr{o, fname}] = true
				}
			}
			if _, isStruct := in.Type().Underlying().(*types.Struct); isStruct {
				vo := it.obj(fmt.Sprintf("sval:%s@%s#%s", in.Name(), it.p.Pos(in.Pos()), shortKey(c.key)), "sval", in.Type(), in.Pos(), c.key)
				to := newAval()
				to.addrs[faddr{vo, ""}] = true
				it.structCopyQuiet(from, to)
				it.addPts(a, vo)
			} else {
				it.load(a, from, in.Type())
			}
			break
		}
		it.merge(c.get(it, in), x)
	case *ssa.Slice:
		a := c.get(it, in)
		x := c.get(it, in.X)
		it.addLabels(a, filter(x.labels, in.Type()))
		for o := range x.pts {
			it.addPts(a, o)
		}
		for ad := range x.addrs { // slicing a pointer to array
			it.addPts(a, ad.o)
		}
		for _, v := range []ssa.Value{in.Low, in.High, in.Max} {
			if v != nil {
				it.addLabels(a, stripKB(c.get(it, v).labels))
			}
		}
	case *ssa.UnOp:
		a := c.get(it, in)
		x := c.get(it, in.X)
		if in.Op == token.MUL {
			if _, isStruct := in.Type().Underlying().(*types.Struct); isStruct && len(targets(x)) > 0 {
				// a struct VALUE is represented by a value object with the same cells, so that
				// passing, returning and storing it keeps the fields apart
				vo := it.obj(fmt.Sprintf("sval:%s@%s#%s", in.Name(), it.p.Pos(in.Pos()), shortKey(c.key)), "sval", in.Type(), in.Pos(), c.key)
				to := newAval()
				to.addrs[faddr{vo, ""}] = true
				it.structCopyQuiet(x, to)
				it.addPts(a, vo)
				it.addLabels(a, stripKB(x.labels))
				break
			}
			it.load(a, x, in.Type())
			if name, ok := it.optLabel(in); ok {
				it.addLabels(a, lset{name: true})
			}
		} else {
			it.addLabels(a, filter(x.labels, in.Type()))
		}
	case *ssa.BinOp:
		a := c.get(it, in)
		it.addLabels(a, filter(c.get(it, in.X).labels, in.Type()))
		it.addLabels(a, filter(c.get(it, in.Y).labels, in.Type()))
		if isStringType(in.Type()) && in.Op == token.ADD {
			o := it.obj(fmt.Sprintf("concat@%s#%s", it.p.Pos(in.Pos()), shortKey(c.key)), "conv", in.Type(), in.Pos(), c.key)
			o.cell("*").labels.addAll(a.labels)
			it.addPts(a, o)
		}
	case *ssa.Phi:
		a := c.get(it, in)
		for _, e := range in.Edges {
			it.merge(a, c.get(it, e))
		}
		for _, p := range b.Preds {
			it.addLabels(a, depol(stripKB(it.blockCtl(c, p))))
		}
		it.addLabels(a, depol(stripKB(ctl)))
	case *ssa.Convert:
		a := c.get(it, in)
		x := c.get(it, in.X)
		it.addLabels(a, filter(x.labels, in.Type()))
		if (isStringType(in.Type()) || isByteSlice(in.Type())) && (isStringType(in.X.Type()) || isByteSlice(in.X.Type())) {
			o := it.obj(fmt.Sprintf("conv@%s#%s", it.p.Pos(in.Pos()), shortKey(c.key)), "conv", in.Type(), in.Pos(), c.key)
			o.cell("*").labels.addAll(x.labels)
			for p := range x.pts {
				o.cell("*").labels.addAll(p.cell("*").labels)
			}
			it.addPts(a, o)
		} else {
			for o := range x.pts {
				it.addPts(a, o)
			}
		}
	case *ssa.ChangeType:
		it.merge(c.get(it, in), c.get(it, in.X))
	case *ssa.MakeInterface:
		it.merge(c.get(it, in), c.get(it, in.X))
	case *ssa.ChangeInterface:
		it.merge(c.get(it, in), c.get(it, in.X))
	case *ssa.TypeAssert:
		it.merge(c.get(it, in), c.get(it, in.X))
	case *ssa.Extract:
		a := c.get(it, in)
		x := c.get(it, in.Tuple)
		if parts := c.tupleParts[in.Tuple]; parts != nil && in.Index < len(parts) && parts[in.Index] != nil {
			it.merge(a, parts[in.Index])
			break
		}
		it.addLabels(a, filter(x.labels, in.Type()))
		if pointerLike(in.Type()) {
			for o := range x.pts {
				it.addPts(a, o)
			}
		}
	case *ssa.Lookup:
		a := c.get(it, in)
		x := c.get(it, in.X)
		for o := range x.pts {
			it.addLabels(a, filter(o.cell("*").labels, in.Type()))
			for p := range o.cell("*").pts {
				it.addPts(a, p)
			}
		}
		it.addLabels(a, filter(x.labels, in.Type()))
		it.addLabels(a, filter(c.get(it, in.Index).labels, in.Type()))
	case *ssa.Range:
		it.merge(c.get(it, in), c.get(it, in.X))
	case *ssa.Next:
		a := c.get(it, in)
		x := c.get(it, in.Iter)
		for o := range x.pts {
			it.addLabels(a, o.cell("*").labels)
			for p := range o.cell("*").pts {
				it.addPts(a, p)
			}
		}
		it.addLabels(a, x.labels)
	case *ssa.Store:
		// whole-struct copy: keep the fields apart (the value is represented by value objects)
		if _, isStruct := in.Val.Type().Underlying().(*types.Struct); isStruct {
			v := c.get(it, in.Val)
			src := newAval()
			for o := range v.pts {
				if o.kind == "sval" {
					src.addrs[faddr{o, ""}] = true
				}
			}
			if len(src.addrs) > 0 && it.structCopy(c, in, c.get(it, in.Addr), src, stripKB(ctl)) {
				break
			}
		}
		if al, ok := in.Addr.(*ssa.Alloc); ok && al.Parent() == c.fn {
			// the cell of a local variable of this activation (a variable captured by a closure lives
			// in such a cell): it exists only if the call happened, and so does every reader; the
			// condition under which the function was called is not information the cell carries
			it.store(c, in, c.get(it, in.Addr), c.get(it, in.Val), stripKB(it.blockCtlLocal(c, in.Block())))
			break
		}
		it.store(c, in, c.get(it, in.Addr), c.get(it, in.Val), stripKB(ctl))
	case *ssa.MapUpdate:
		m := c.get(it, in.Map)
		v := newAval()
		for _, src := range []*aval{c.get(it, in.Value), c.get(it, in.Key)} {
			v.labels.addAll(src.labels)
			for o := range src.pts {
				v.pts[o] = true
			}
		}
		to := newAval()
		for o := range m.pts {
			to.addrs[faddr{o, "*"}] = true
		}
		it.store(c, in, to, v, stripKB(ctl))
	case *ssa.Return:
		for i, r := range in.Results {
			rv := c.get(it, r)
			if c.retParts == nil {
				c.retParts = make([]*aval, len(in.Results))
			}
			if c.retParts[i] == nil {
				c.retParts[i] = newAval()
			}
			it.merge(c.retParts[i], rv)
			// which return is taken matters to the result only if the returns differ: a function
			// whose every return hands back the same SSA value (typically its own parameter) yields
			// that value on every path
			rc := ctl
			if sameResultOnAllReturns(c.fn, i) {
				rc = c.ctl
			}
			it.addLabels(c.retParts[i], depol(stripKB(rc)))
			it.merge(c.ret, rv)
			it.addLabels(c.ret, depol(stripKB(rc)))
		}
	case *ssa.MakeClosure:
		a := c.get(it, in)
		for _, bnd := range in.Bindings {
			it.merge(a, c.get(it, bnd))
		}
	case ssa.CallInstruction:
		it.call(c, in, ctl)
	}
}

func (it *flowAnalysis) call(c *fctx, site ssa.CallInstruction, ctl lset) {
	cm := site.Common()
	var res *aval
	if v, ok := site.(ssa.Value); ok {
		res = c.get(it, v)
	}
	args := cm.Args
	if bi, ok := cm.Value.(*ssa.Builtin); ok {
		switch bi.Name() {
		case "append":
			x := c.get(it, args[0])
			it.addLabels(res, x.labels)
			for o := range x.pts {
				it.addPts(res, o)
			}
			o := it.obj(fmt.Sprintf("append:%s@%s#%s", args[0].Type(), it.p.Pos(site.Pos()), shortKey(c.key)), "append", args[0].Type(), site.Pos(), c.key)
			it.addPts(res, o)
			// the new backing array also holds the old elements
			for oo := range x.pts {
				if oo != o {
					if o.cell("*").labels.addAll(oo.cell("*").labels) {
						it.changed = true
						it.lastChange = "L697"
					}
					for p := range oo.cell("*").pts {
						if !o.cell("*").pts[p] {
							o.cell("*").pts[p] = true
							it.changed = true
							it.lastChange = "L702"
						}
					}
				}
			}
			if len(args) > 1 {
				y := c.get(it, args[1])
				elems := newAval()
				for oo := range y.pts {
					elems.labels.addAll(oo.cell("*").labels)
					for p := range oo.cell("*").pts {
						elems.pts[p] = true
					}
					// struct elements: nested cells
					for k, cl := range oo.cells {
						if strings.HasPrefix(k, "*.") {
							elems.labels.addAll(cl.labels)
							for p := range cl.pts {
								elems.pts[p] = true
							}
						}
					}
				}
				elems.labels.addAll(y.labels)
				to := newAval()
				for oo := range res.pts {
					to.addrs[faddr{oo, "*"}] = true
				}
				it.store(c, site, to, elems, stripKB(ctl))
			}
		case "copy":
			x := c.get(it, args[0])
			y := c.get(it, args[1])
			elems := newAval()
			for oo := range y.pts {
				elems.labels.addAll(oo.cell("*").labels)
				for p := range oo.cell("*").pts {
					elems.pts[p] = true
				}
			}
			elems.labels.addAll(y.labels)
			to := newAval()
			for oo := range x.pts {
				to.addrs[faddr{oo, "*"}] = true
			}
			it.store(c, site, to, elems, stripKB(ctl))
		case "len", "cap":
			if res != nil {
				x := c.get(it, args[0])
				isBar := false
				if it.barrier != nil {
					for o := range x.pts {
						if it.barrier(o) {
							isBar = true
						}
					}
				}
				l := stripKB(x.labels)
				if isBar {
					tmp := lset{}
					for k := range l {
						if !barrierLabel(k) {
							tmp[k] = true
						}
					}
					l = tmp
				}
				it.addLabels(res, l)
			}
		}
		return
	}
	callee := cm.StaticCallee()
	rec := func(name string) {
		k := fmt.Sprintf("%d|%s", site.Pos(), c.key)
		r := it.calls[k]
		if r == nil {
			r = &callRecord{site: site, fn: c.fn, ctx: c, callee: name, ctl: lset{}}
			it.calls[k] = r
		}
		r.args = r.args[:0]
		for _, a := range args {
			r.args = append(r.args, c.get(it, a))
		}
		r.ctl.addAll(stripKB(ctl))
	}
	if callee != nil {
		rec(funcID(callee))
	} else if cm.IsInvoke() {
		rec(ifaceMethodID(cm.Method))
	}
	if callee != nil && it.scope(callee) && len(callee.Blocks) > 0 {
		ckey := c.key + ">" + it.p.Pos(site.Pos())
		if strings.Count(ckey, "|"+callee.String()) > 0 || c.depth >= it.maxDepth {
			it.recursed = append(it.recursed, callee.String()+" at "+it.p.Pos(site.Pos()))
			return
		}
		var abortVal *bool
		if av, ok := it.abortValueAt(c, site); ok {
			abortVal = &av
		}
		cc := it.contextAbort(callee, ckey, c.depth+1, abortVal)
		if cc.ctl.addAll(stripKB(ctl)) {
			it.changed = true
			it.lastChange = "L801"
		}
		for i, p := range callee.Params {
			if i < len(args) {
				it.merge(cc.get(it, p), c.get(it, args[i]))
			}
		}
		if mc, ok := cm.Value.(*ssa.MakeClosure); ok {
			for i, fv := range callee.FreeVars {
				it.merge(cc.get(it, fv), c.get(it, mc.Bindings[i]))
			}
		}
		if res != nil && cc.retParts != nil {
			if c.tupleParts == nil {
				c.tupleParts = map[ssa.Value][]*aval{}
			}
			if len(cc.retParts) == 1 {
				it.merge(res, cc.retParts[0])
			} else {
				c.tupleParts[site.(ssa.Value)] = cc.retParts
				it.merge(res, cc.ret)
			}
		}
		return
	}
	// external / dynamic: pure summary — the result depends on all arguments
	if res != nil {
		v := site.(ssa.Value)
		all := append([]ssa.Value{}, args...)
		if cm.IsInvoke() {
			all = append(all, cm.Value)
		}
		lab := lset{}
		for _, a := range all {
			av := c.get(it, a)
			lab.addAll(av.labels)
			seen := foset{}
			var walk func(o *fobject, d int)
			walk = func(o *fobject, d int) {
				if seen[o] || d > 3 {
					return
				}
				seen[o] = true
				for _, cl := range o.cells {
					lab.addAll(cl.labels)
					for p := range cl.pts {
						walk(p, d+1)
					}
				}
			}
			for o := range av.pts {
				walk(o, 0)
			}
			for ad := range av.addrs {
				walk(ad.o, 0)
			}
		}
		lab.addAll(depol(stripKB(ctl)))
		name := "dyn"
		if callee != nil {
			name = callee.String()
		} else if cm.IsInvoke() {
			name = cm.Method.Name()
		}
		if pointerLike(v.Type()) {
			o := it.obj(fmt.Sprintf("ext:%s@%s#%s", name, it.p.Pos(site.Pos()), shortKey(c.key)), "ext", v.Type(), site.Pos(), c.key)
			if o.cell("*").labels.addAll(filter(lab, v.Type())) {
				it.changed = true
				it.lastChange = "L868"
			}
			it.addPts(res, o)
		}
		it.addLabels(res, filter(lab, v.Type()))
	}
}

// solve runs all contexts to a fixpoint.
func (it *flowAnalysis) solve() int {
	for i := 1; ; i++ {
		it.changed = false
		keys := append([]string{}, it.order...)
		for _, k := range keys {
			it.run(it.ctxs[k])
		}
		if !it.changed {
			return i
		}
		if i > 300 {
			panic("E2: no fixpoint after 300 passes")
		}
		if debugFlow {
			fmt.Println("pass", i, "contexts", len(it.ctxs), "objects", len(it.objs), "lastChange", it.lastChange)
		}
	}
}

// ---------------------------------------------------------------------------
// reading the abstract output message

// wireField is one field path of the abstract output message with the labels
// that reach it.
type wireField struct {
	path   string
	labels lset
	ptr    bool // the field is a pointer to a message
	stores []*storeEvent
}

// wirePaths walks the abstract object(s) of a message and returns, per wire
// field path, the union of labels. Pointer fields to messages are followed.
func (it *flowAnalysis) wirePaths(roots foset, rootName string) map[string]*wireField {
	out := map[string]*wireField{}
	var walk func(o *fobject, prefix string, seen foset)
	walk = func(o *fobject, prefix string, seen foset) {
		if seen[o] {
			return
		}
		seen[o] = true
		st, ok := o.typ.Underlying().(*types.Struct)
		if !ok {
			return
		}
		for i := 0; i < st.NumFields(); i++ {
			f := st.Field(i)
			if strings.HasPrefix(f.Name(), "XXX_") {
				continue
			}
			path := prefix + "." + f.Name()
			wf := out[path]
			if wf == nil {
				wf = &wireField{path: path, labels: lset{}}
				out[path] = wf
			}
			_, isPtr := f.Type().Underlying().(*types.Pointer)
			wf.ptr = isPtr
			for k, cl := range o.cells {
				if k == f.Name() || k == "" || strings.HasPrefix(k, f.Name()+".") {
					wf.labels.addAll(cl.labels)
					for p := range cl.pts {
						if isPtr {
							walk(p, path, seen)
						} else {
							// slice contents: element cell labels
							for _, ec := range p.cells {
								wf.labels.addAll(ec.labels)
							}
						}
					}
				}
			}
			for _, ev := range it.events {
				if ev.obj == o && (ev.key == f.Name() || ev.key == "") {
					wf.stores = append(wf.stores, ev)
				}
			}
		}
	}
	for o := range roots {
		walk(o, rootName, foset{})
	}
	return out
}

// reachable collects all objects reachable from roots.
func (it *flowAnalysis) reachable(roots foset) foset {
	seen := foset{}
	var walk func(o *fobject)
	walk = func(o *fobject) {
		if seen[o] {
			return
		}
		seen[o] = true
		for _, cl := range o.cells {
			for p := range cl.pts {
				walk(p)
			}
		}
	}
	for o := range roots {
		walk(o)
	}
	return seen
}

func (it *flowAnalysis) sortedEvents() []*storeEvent {
	keys := make([]string, 0, len(it.events))
	for k := range it.events {
		keys = append(keys, k)
	}
	sort.Strings(keys)
	out := make([]*storeEvent, 0, len(keys))
	for _, k := range keys {
		out = append(out, it.events[k])
	}
	return out
}

func (it *flowAnalysis) sortedCalls() []*callRecord {
	keys := make([]string, 0, len(it.calls))
	for k := range it.calls {
		keys = append(keys, k)
	}
	sort.Strings(keys)
	out := make([]*callRecord, 0, len(keys))
	for _, k := range keys {
		out = append(out, it.calls[k])
	}
	return out
}

// sameResultOnAllReturns: every return of fn has the same SSA value as its i-th result (and there is
// more than one return, otherwise the question does not arise and the ordinary rule applies).
func sameResultOnAllReturns(fn *ssa.Function, i int) bool {
	var first ssa.Value
	n := 0
	for _, ret := range returnsOf(fn) {
		if i >= len(ret.Results) {
			return false
		}
		if n == 0 {
			first = ret.Results[i]
		} else if ret.Results[i] != first {
			return false
		}
		n++
	}
	if n < 2 {
		return false
	}
	return true
}
