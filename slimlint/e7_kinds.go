package main

// E7 — bitmap index-kind typestate.
//
// Every trie.Bitmap carries a rank or select index whose kind (r64, r128, s32)
// is fixed where it is built (newBM(..., kind) / indexit(kind), kinds are
// string constants) and assumed where it is read (bitmap.Rank64 => r64,
// bitmap.Rank128 => r128, bitmap.Select32R64 => s32, the hand-inlined idiom
// RankIndex[i>>6] + OnesCount64(Words[i>>6] & Mask[i&63]) => r64). Sites are
// attributed to wire field paths; receiver-relative sites (methods of
// *VLenArray / *Bitmap, constructors returning them) are bound at call sites.

import (
	"fmt"
	"regexp"
	"sort"
	"strings"

	"golang.org/x/tools/go/ssa"
)

type kindFact struct {
	path string // wire path of the Bitmap message, e.g. Slim.Inners or VLenArray.PresenceBM
	kind string
	pos  string
	fn   *ssa.Function
	how  string
}

// newPath: like wirePathOf but a freshly allocated message is a root too.
func newPath(v ssa.Value) string { return newPathRec(v, 0) }

func newPathRec(v ssa.Value, d int) string {
	if d > 12 || v == nil {
		return ""
	}
	if wp := wirePathOf(v); wp != "" {
		return wp
	}
	switch x := v.(type) {
	case *ssa.Call:
		// a freshly built message returned by a constructor
		if r := wireRootName(x.Type()); r == "Slim" {
			return r
		}
	case *ssa.Alloc:
		if r := wireRootName(x.Type()); r != "" {
			return r
		}
	case *ssa.UnOp:
		if _, fv, fa := fieldOfAddr(x.X); fa != nil {
			base := newPathRec(fa.X, d+1)
			if base != "" {
				if fv.Embedded() {
					return base
				}
				return base + "." + fv.Name()
			}
		}
		if al, ok := x.X.(*ssa.Alloc); ok {
			var st *ssa.Store
			n := 0
			for _, ref := range *al.Referrers() {
				if s, ok := ref.(*ssa.Store); ok && s.Addr == al {
					st = s
					n++
				}
			}
			if n == 1 {
				return newPathRec(st.Val, d+1)
			}
		}
	case *ssa.Phi:
		p := ""
		for i, e := range x.Edges {
			q := newPathRec(e, d+1)
			if isNilConst(e) {
				continue
			}
			if p == "" || i == 0 {
				p = q
			} else if q != p {
				return ""
			}
		}
		return p
	}
	return ""
}

var kindNames = map[string]bool{"r64": true, "r128": true, "s32": true}

// builtKinds: if call builds/indexes a Bitmap with constant kinds, return them.
func builtKinds(call *ssa.Call) ([]string, bool) {
	f := calleeOf(call)
	if f == nil || !trieScope(f) {
		return nil, false
	}
	sig := f.Signature
	if len(call.Call.Args) == 0 {
		return nil, false
	}
	last := call.Call.Args[len(call.Call.Args)-1]
	if !sig.Variadic() {
		// single-kind form: f(..., kind string)
		k, ok := constString(last)
		if !ok || !kindNames[k] || !isStringType(last.Type()) {
			return nil, false
		}
		return []string{k}, true
	}
	ks, ok := stringConsts(last)
	if !ok || len(ks) == 0 {
		return nil, false
	}
	for _, k := range ks {
		if !kindNames[k] {
			return nil, false
		}
	}
	return ks, true
}

type kindEngine struct {
	p       *Program
	writers []kindFact
	readers []kindFact
	// receiver/result-relative summaries
	resultKinds map[*ssa.Function][]kindFact // facts about the object a function returns (path rooted at its type)
	recvReads   map[*ssa.Function][]kindFact // requirements on the receiver (path rooted at VLenArray/Bitmap)
	problems    []string
}

var reIdiom = regexp.MustCompile(`idx\(([A-Za-z0-9_.()]+)\.RankIndex,shr:s\(`)

func runKindEngine(p *Program) *kindEngine {
	ke := &kindEngine{p: p, resultKinds: map[*ssa.Function][]kindFact{}, recvReads: map[*ssa.Function][]kindFact{}}
	fns := p.FuncsOf(triePath)
	var src []*ssa.Function
	for _, f := range fns {
		if f.Synthetic == "" && !strings.HasSuffix(p.File(f.Pos()), ".pb.go") {
			src = append(src, f)
		}
	}
	// pass 1: local facts
	type local struct {
		w, r []kindFact
	}
	loc := map[*ssa.Function]*local{}
	for _, f := range src {
		l := &local{}
		loc[f] = l
		e := newEval(p)
		instrsOf(f, func(_ *ssa.BasicBlock, in ssa.Instruction) {
			call, ok := in.(*ssa.Call)
			if !ok {
				// inlined r64 idiom: an ADD whose term has the shape
				if bo, ok := in.(*ssa.BinOp); ok && bo.Op.String() == "+" {
					t := e.eval(bo).String()
					if m := reIdiom.FindStringSubmatch(t); m != nil && strings.Contains(t, "popcnt(and(idx("+m[1]+".Words,shr:s(") {
						stride6 := strings.Contains(t, "idx("+m[1]+".RankIndex,shr:s(") && strings.Contains(t, ",6))")
						// only the outermost add of the idiom: operands are the index load and the popcount
						if isIdiomRoot(bo) {
							k := "r64"
							if !stride6 {
								k = "r?"
							}
							l.r = append(l.r, kindFact{path: m[1], kind: k, pos: p.Pos(bo.Pos()), fn: f, how: "inlined RankIndex[i>>6]+popcount idiom"})
						}
					} else if strings.Contains(t, ".RankIndex,") && strings.Contains(t, "popcnt(") && isIdiomRoot(bo) {
						ke.problems = append(ke.problems, "rank idiom with mismatched Words/RankIndex at "+p.Pos(bo.Pos())+": "+abbreviate(t))
					}
				}
				return
			}
			// readers
			switch {
			case calleeIs(call, idRank64), calleeIs(call, idRank128):
				k := "r64"
				if calleeIs(call, idRank128) {
					k = "r128"
				}
				w, ri := newPath(call.Call.Args[0]), newPath(call.Call.Args[1])
				if strings.HasPrefix(w, "Array32") {
					return // legacy arrays: C06.kind
				}
				if !strings.HasSuffix(w, ".Words") || !strings.HasSuffix(ri, ".RankIndex") || strings.TrimSuffix(w, ".Words") != strings.TrimSuffix(ri, ".RankIndex") {
					ke.problems = append(ke.problems, fmt.Sprintf("%s: %s is given words=%q index=%q: not the Words and RankIndex of one bitmap", p.Pos(call.Pos()), k, w, ri))
					return
				}
				l.r = append(l.r, kindFact{path: strings.TrimSuffix(w, ".Words"), kind: k, pos: p.Pos(call.Pos()), fn: f, how: "bitmap.Rank" + k[1:]})
			case calleeIs(call, idSelect):
				w, si, ri := newPath(call.Call.Args[0]), newPath(call.Call.Args[1]), newPath(call.Call.Args[2])
				b := strings.TrimSuffix(w, ".Words")
				if !strings.HasSuffix(w, ".Words") || si != b+".SelectIndex" || ri != b+".RankIndex" {
					ke.problems = append(ke.problems, fmt.Sprintf("%s: Select32R64 is given words=%q select=%q rank=%q: not the three parts of one bitmap", p.Pos(call.Pos()), w, si, ri))
					return
				}
				l.r = append(l.r, kindFact{path: b, kind: "s32", pos: p.Pos(call.Pos()), fn: f, how: "bitmap.Select32R64"})
			}
			// writers
			if ks, ok := builtKinds(call); ok {
				g := calleeOf(call)
				if g.Signature.Recv() != nil && isNamed(g.Signature.Recv().Type(), triePath, "Bitmap") {
					// b.indexit(kinds): receiver path
					pth := newPath(call.Call.Args[0])
					for _, k := range ks {
						l.w = append(l.w, kindFact{path: pth, kind: k, pos: p.Pos(call.Pos()), fn: f, how: g.Name()})
					}
				} else if g.Signature.Results().Len() == 1 && isNamed(g.Signature.Results().At(0).Type(), triePath, "Bitmap") {
					// x = newBM(..., kinds): where is the result stored?
					dst := storedTo(call)
					for _, k := range ks {
						l.w = append(l.w, kindFact{path: dst, kind: k, pos: p.Pos(call.Pos()), fn: f, how: g.Name()})
					}
				}
			}
		})
	}
	// pass 2: lift receiver-relative / result-relative facts to call sites (two rounds for wrappers)
	rooted := func(path string) bool { return strings.HasPrefix(path, "Slim.") || path == "Slim" }
	for _, f := range src {
		for _, w := range loc[f].w {
			if rooted(w.path) {
				ke.writers = append(ke.writers, w)
			} else if w.path != "" {
				ke.resultKinds[f] = append(ke.resultKinds[f], w)
			} else {
				ke.problems = append(ke.problems, "cannot attribute the bitmap built at "+w.pos+" to a wire field")
			}
		}
		for _, r := range loc[f].r {
			if rooted(r.path) {
				ke.readers = append(ke.readers, r)
			} else if r.path != "" {
				ke.recvReads[f] = append(ke.recvReads[f], r)
			} else {
				ke.problems = append(ke.problems, "cannot attribute the rank/select query at "+r.pos+" to a wire field")
			}
		}
	}
	for round := 0; round < 3; round++ {
		for _, f := range src {
			instrsOf(f, func(_ *ssa.BasicBlock, in ssa.Instruction) {
				call, ok := in.(*ssa.Call)
				if !ok {
					return
				}
				g := calleeOf(call)
				if g == nil {
					return
				}
				// receiver requirements
				if rs := ke.recvReads[g]; len(rs) > 0 && len(call.Call.Args) > 0 {
					base := newPath(call.Call.Args[0])
					for _, rq := range rs {
						root := strings.SplitN(rq.path, ".", 2)
						sub := ""
						if len(root) == 2 {
							sub = "." + root[1]
						}
						nf := kindFact{path: base + sub, kind: rq.kind, pos: p.Pos(call.Pos()), fn: f, how: rq.how + " in " + g.Name()}
						if base == "" {
							continue
						}
						if rooted(nf.path) {
							ke.addReader(nf)
						} else {
							ke.addRecv(f, nf)
						}
					}
				}
				// result kinds
				if ws := ke.resultKinds[g]; len(ws) > 0 {
					dst := storedTo(call)
					if dst == "" {
						// returned as is by a wrapper
						for _, ret := range returnsOf(f) {
							for _, res := range ret.Results {
								if res == ssa.Value(call) {
									for _, w := range ws {
										ke.addResult(f, w)
									}
								}
							}
						}
						return
					}
					for _, w := range ws {
						root := strings.SplitN(w.path, ".", 2)
						sub := ""
						if len(root) == 2 {
							sub = "." + root[1]
						}
						nf := kindFact{path: dst + sub, kind: w.kind, pos: w.pos, fn: w.fn, how: w.how + " via " + g.Name()}
						if rooted(nf.path) {
							ke.addWriter(nf)
						} else {
							ke.addResult(f, nf)
						}
					}
				}
			})
		}
	}
	return ke
}

func isIdiomRoot(bo *ssa.BinOp) bool {
	// the ADD is not itself an operand of another ADD that also matches (avoid double counting)
	for _, ref := range *bo.Referrers() {
		if b2, ok := ref.(*ssa.BinOp); ok && b2.Op.String() == "+" {
			return false
		}
	}
	// one operand is a load from a RankIndex element
	for _, op := range []ssa.Value{bo.X, bo.Y} {
		if ld, ok := deref(op); ok {
			if ia, ok := ld.(*ssa.IndexAddr); ok {
				if strings.HasSuffix(newPath(ia.X), ".RankIndex") {
					return true
				}
			}
		}
	}
	return false
}

// storedTo: the wire path a call's result is stored into (directly or through a local).
func storedTo(call *ssa.Call) string {
	for _, ref := range *call.Referrers() {
		if st, ok := ref.(*ssa.Store); ok && st.Val == ssa.Value(call) {
			if _, fv, fa := fieldOfAddr(st.Addr); fa != nil {
				base := newPath(fa.X)
				if base != "" {
					return base + "." + fv.Name()
				}
			}
		}
	}
	return ""
}

func (ke *kindEngine) has(list []kindFact, f kindFact) bool {
	for _, x := range list {
		if x.path == f.path && x.kind == f.kind && x.pos == f.pos {
			return true
		}
	}
	return false
}
func (ke *kindEngine) addReader(f kindFact) {
	if !ke.has(ke.readers, f) {
		ke.readers = append(ke.readers, f)
	}
}
func (ke *kindEngine) addWriter(f kindFact) {
	if !ke.has(ke.writers, f) {
		ke.writers = append(ke.writers, f)
	}
}
func (ke *kindEngine) addRecv(fn *ssa.Function, f kindFact) {
	if !ke.has(ke.recvReads[fn], f) {
		ke.recvReads[fn] = append(ke.recvReads[fn], f)
	}
}
func (ke *kindEngine) addResult(fn *ssa.Function, f kindFact) {
	if !ke.has(ke.resultKinds[fn], f) {
		ke.resultKinds[fn] = append(ke.resultKinds[fn], f)
	}
}

func (ke *kindEngine) byPath() (map[string][]kindFact, map[string][]kindFact, []string) {
	w, r := map[string][]kindFact{}, map[string][]kindFact{}
	set := map[string]bool{}
	for _, f := range ke.writers {
		w[f.path] = append(w[f.path], f)
		set[f.path] = true
	}
	for _, f := range ke.readers {
		r[f.path] = append(r[f.path], f)
		set[f.path] = true
	}
	paths := sortedKeys(set)
	sort.Strings(paths)
	return w, r, paths
}
