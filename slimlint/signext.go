package main

import (
	"fmt"
	"go/token"
	"go/types"
	"sort"

	"golang.org/x/tools/go/ssa"
)

// checkSignExtend (<id>.sign-extend): a stored quantity (a step, a length, an offset) is decoded from
// bytes. If the bytes are assembled in a SIGNED integer type narrower than the type the result is used
// in — int16(b[0])<<8 | int16(b[1]), then int32(w) — every value whose top bit is set is sign-extended
// to a negative number: cursors run backwards and indexes are out of range, but only for quantities of
// half the representable range and more, which no test data has. The rule flags a widening conversion
// from a signed integer type whose operand is assembled from byte-typed leaves by shifts, ors and adds
// in that same type and can reach the sign bit (leaf width + shift >= width of the type).
func signExtendSites(p *Program, fns []*ssa.Function) (sites []string, judged int) {
	for _, f := range fns {
		if f == nil || len(f.Blocks) == 0 {
			continue
		}
		e := newEval(p)
		instrsOf(f, func(_ *ssa.BasicBlock, in ssa.Instruction) {
			cv, ok := in.(*ssa.Convert)
			if !ok {
				return
			}
			sb, ok1 := cv.X.Type().Underlying().(*types.Basic)
			db, ok2 := cv.Type().Underlying().(*types.Basic)
			if !ok1 || !ok2 || sb.Info()&types.IsInteger == 0 || db.Info()&types.IsInteger == 0 || sb.Info()&types.IsUnsigned != 0 {
				return
			}
			ws, wd := e.width(cv.X.Type()), e.width(cv.Type())
			if ws == 0 || wd == 0 || ws >= wd {
				return
			}
			// the operand: assembled from byte leaves in the narrow signed type?
			top, assembled := assembledTop(e, cv.X, cv.X.Type(), 0)
			if !assembled {
				return
			}
			judged++
			if top >= ws {
				sites = append(sites, fmt.Sprintf("%s: %s assembled from bytes reaches bit %d of %s and is then widened to %s", p.Pos(cv.Pos()), cv.X.Name(), top-1, cv.X.Type(), cv.Type()))
			}
		})
	}
	sort.Strings(sites)
	return sites, judged
}

// assembledTop: v (of type t) is built from conversions of narrower unsigned values to t by <<, |, +, ^:
// one more than the highest bit position it can set.
func assembledTop(e *evaluator, v ssa.Value, t types.Type, d int) (int, bool) {
	if d > 8 {
		return 0, false
	}
	switch x := v.(type) {
	case *ssa.Convert:
		if !types.Identical(x.Type(), t) {
			return 0, false
		}
		sb, ok := x.X.Type().Underlying().(*types.Basic)
		if !ok || sb.Info()&types.IsUnsigned == 0 {
			return 0, false
		}
		w := e.bits(x.X)
		if w == 0 || w > e.width(x.X.Type()) {
			w = e.width(x.X.Type())
		}
		if e.width(x.X.Type()) >= e.width(t) {
			return 0, false
		}
		return w, true
	case *ssa.BinOp:
		switch x.Op {
		case token.OR, token.ADD, token.XOR:
			a, ok1 := assembledTop(e, x.X, t, d+1)
			b, ok2 := assembledTop(e, x.Y, t, d+1)
			if !ok1 || !ok2 {
				return 0, false
			}
			if b > a {
				a = b
			}
			if x.Op == token.ADD {
				a++
			}
			return a, true
		case token.SHL:
			k, ok := constInt(x.Y)
			if !ok {
				return 0, false
			}
			a, ok := assembledTop(e, x.X, t, d+1)
			if !ok {
				return 0, false
			}
			return a + int(k), true
		}
	}
	return 0, false
}

func checkSignExtend(p *Program, r *Report, rule string) {
	saved := r.curRule
	defer func() { r.curRule = saved }()
	r.Rule(rule, "SSA + widths", "no byte-assembled quantity is widened from a signed type it can fill", 0)
	var fs []*ssa.Function
	for _, f := range p.FuncsOf(triePath) {
		if trieScope(f) && f.Synthetic == "" && len(f.Blocks) > 0 {
			fs = append(fs, f)
		}
	}
	sort.Slice(fs, func(i, j int) bool { return funcID(fs[i]) < funcID(fs[j]) })
	sites, judged := signExtendSites(p, fs)
	detail := ""
	if len(sites) > 0 {
		detail = sites[0] + ": quantities of half the range and more decode as negative numbers (a stored step then moves the cursor backwards, an index is out of range)"
	}
	r.Check(len(sites) == 0, "byte-assembled quantities of package trie", "", fmt.Sprintf("%d function(s), %d widening conversion(s) of byte-assembled signed values, none can reach the sign bit", len(fs), judged), detail)
}

func controlSignExtend(fx *Program, r *Report, rule string) {
	pkg := fx.FxPkg("signext")
	if pkg == nil {
		r.Control(rule, "fixtures/signext", false, "fixture package not loaded")
		return
	}
	for _, tc := range []struct {
		fn   string
		want bool
	}{{"Wrong", true}, {"Right", false}, {"Spare", false}} {
		f := pkg.Func(tc.fn)
		if f == nil {
			r.Control(rule, "signext."+tc.fn, false, "function not found")
			continue
		}
		sites, _ := signExtendSites(fx, []*ssa.Function{f})
		r.Control(rule, "signext."+tc.fn, (len(sites) > 0) == tc.want, fmt.Sprintf("expected flagged=%v: %d site(s)", tc.want, len(sites)))
	}
}
