package main

// Structural identification of the query session record and of the roles of
// its fields, so that the rules that speak about them survive renames. The
// session type is the named struct of package trie that the exact-match id
// function (the exported GetID) allocates and hands to other functions of the
// package. Roles:
//   key       the only string field
//   keyBitLen the integer field stored from a term containing len(...) where a session is created
//   from      the field a node decoder stores 257*i into (start of a big node's bitmap)
//   to        the other field whose every decoder store is from + something
//   bm        the only uint64 field
//   wordSize  the field decoders store only the constants 4 and 8 into
//   stepLen   the integer field a decoder both resets to 0 and assigns a computed length
// A role that cannot be inferred keeps today's name, so that a rename shows up
// as an undecided obligation of the rule that needs it, never as silence.

import (
	"go/token"
	"go/types"
	"strings"

	"golang.org/x/tools/go/ssa"
)

type sessionInfo struct {
	typ                                             *types.Named
	key, keyBitLen, from, to, bm, wordSize, stepLen string
}

var curSess = &sessionInfo{key: "key", keyBitLen: "keyBitLen", from: "from", to: "to", bm: "bm", wordSize: "wordSize", stepLen: "innerPrefixLen"}

func inferSessionInfo(p *Program) *sessionInfo {
	si := &sessionInfo{key: "key", keyBitLen: "keyBitLen", from: "from", to: "to", bm: "bm", wordSize: "wordSize", stepLen: "innerPrefixLen"}
	if p.Trie == nil {
		return si
	}
	getID := p.Method(p.Trie, "SlimTrie", "GetID")
	// ---- the type
	var find func(f *ssa.Function, d int)
	seen := map[*ssa.Function]bool{}
	find = func(f *ssa.Function, d int) {
		if f == nil || seen[f] || d > 2 || len(f.Blocks) == 0 || si.typ != nil {
			return
		}
		seen[f] = true
		instrsOf(f, func(_ *ssa.BasicBlock, in ssa.Instruction) {
			al, ok := in.(*ssa.Alloc)
			if !ok || si.typ != nil {
				return
			}
			n := namedOf(al.Type())
			if n == nil || n.Obj().Pkg() == nil || n.Obj().Pkg().Path() != triePath {
				return
			}
			if _, isStruct := n.Underlying().(*types.Struct); !isStruct {
				return
			}
			for _, ref := range *al.Referrers() {
				if c, ok := ref.(ssa.CallInstruction); ok {
					if g := calleeOf(c); g != nil && trieScope(g) {
						si.typ = n
					}
				}
			}
		})
		// or the session comes from a constructor of the package and is handed on
		if si.typ == nil {
			instrsOf(f, func(_ *ssa.BasicBlock, in ssa.Instruction) {
				c, ok := in.(*ssa.Call)
				if !ok || si.typ != nil {
					return
				}
				g := calleeOf(c)
				if g == nil || !trieScope(g) {
					return
				}
				n := namedOf(c.Type())
				if n == nil || n.Obj().Pkg() == nil || n.Obj().Pkg().Path() != triePath {
					return
				}
				if _, isPtr := c.Type().Underlying().(*types.Pointer); !isPtr {
					return
				}
				if _, isStruct := n.Underlying().(*types.Struct); !isStruct {
					return
				}
				for _, ref := range *c.Referrers() {
					if c2, ok := ref.(ssa.CallInstruction); ok {
						if g2 := calleeOf(c2); g2 != nil && trieScope(g2) {
							si.typ = n
						}
					}
				}
			})
		}
		for _, c := range callsIn(f) {
			if g := calleeOf(c); g != nil && trieScope(g) {
				find(g, d+1)
			}
		}
	}
	find(getID, 0)
	if si.typ == nil {
		if n := p.NamedType(p.Trie, "querySession"); n != nil {
			si.typ = n
		}
		return si
	}
	st := si.typ.Underlying().(*types.Struct)
	// ---- key, bm by type
	nStr, nU64 := 0, 0
	for i := 0; i < st.NumFields(); i++ {
		f := st.Field(i)
		if isStringType(f.Type()) {
			nStr++
			si.key = f.Name()
		}
		if b, ok := f.Type().Underlying().(*types.Basic); ok && b.Kind() == types.Uint64 {
			nU64++
			si.bm = f.Name()
		}
	}
	if nStr != 1 {
		si.key = "key"
	}
	if nU64 != 1 {
		si.bm = "bm"
	}
	isS := func(v ssa.Value) bool { return namedOf(v.Type()) == si.typ }
	// ---- stores by role
	type storeInfo struct {
		terms  []string
		consts map[int64]bool
		nonK   bool
	}
	dec := map[string]*storeInfo{} // stores through a parameter (decoders)
	e := newEval(p)
	for _, f := range p.FuncsOf(triePath) {
		if !trieScope(f) || f.Synthetic != "" {
			continue
		}
		instrsOf(f, func(_ *ssa.BasicBlock, in ssa.Instruction) {
			stx, ok := in.(*ssa.Store)
			if !ok {
				return
			}
			_, fv, fa := fieldOfAddr(stx.Addr)
			if fa == nil || !isS(fa.X) {
				return
			}
			if _, isAlloc := fa.X.(*ssa.Alloc); isAlloc {
				// creation site
				if isIntType(fv.Type()) && strings.Contains(e.eval(stx.Val).String(), "len(") {
					si.keyBitLen = fv.Name()
				}
				return
			}
			if _, isParam := fa.X.(*ssa.Parameter); !isParam {
				return
			}
			d := dec[fv.Name()]
			if d == nil {
				d = &storeInfo{consts: map[int64]bool{}}
				dec[fv.Name()] = d
			}
			if k, ok := constInt(stx.Val); ok {
				d.consts[k] = true
			} else {
				d.nonK = true
			}
			d.terms = append(d.terms, e.eval(stx.Val).String())
		})
	}
	for name, d := range dec {
		for _, t := range d.terms {
			if strings.HasPrefix(t, "mul(257,") {
				si.from = name
			}
		}
	}
	for name, d := range dec {
		if name == si.from || len(d.terms) == 0 {
			continue
		}
		all := true
		for _, t := range d.terms {
			// to = from + <size>: an integer sum over the from field (not a call that merely takes it)
			if !strings.HasPrefix(t, "add(") || !strings.Contains(t, "."+si.from) || strings.Contains(t, "call:") {
				all = false
			}
		}
		if all && isIntField(st, name) && name != si.bm {
			si.to = name
		}
		if !d.nonK && len(d.consts) == 2 && d.consts[4] && d.consts[8] {
			si.wordSize = name
		}
		if d.consts[0] && d.nonK && isIntField(st, name) && name != si.to {
			si.stepLen = name
		}
	}
	return si
}

func isIntField(st *types.Struct, name string) bool {
	for i := 0; i < st.NumFields(); i++ {
		if st.Field(i).Name() == name {
			return isIntType(st.Field(i).Type())
		}
	}
	return false
}

// isSessionType: t (or what it points to) is the query session record.
func isSessionType(t types.Type) bool {
	n := namedOf(t)
	if n == nil {
		return false
	}
	if curSess.typ != nil {
		return n == curSess.typ
	}
	return n.Obj().Name() == "querySession" && n.Obj().Pkg() != nil && n.Obj().Pkg().Path() == triePath
}

var _ = token.ADD
