package main

// E4 — finite version-table evaluation.
//
// The compatible-version list and all vers.Check / vers.IsCompatible specs in
// Unmarshal and its callees are compile-time string constants. They are
// extracted from the SSA, evaluated ON CONSTANTS at analysis time with the
// library vers delegates to (blang/semver v3.5.1), and the CFG of Unmarshal and
// its version-dependent callees is specialised per version by folding the
// version predicates. Paths of the specialised CFG are enumerated with the
// events the rules are stated on. Nothing of slim is executed.

import (
	"fmt"
	"go/constant"
	"go/token"
	"go/types"
	"sort"
	"strings"

	"github.com/blang/semver"
	"golang.org/x/tools/go/ssa"
)

const (
	idVersCheck  = "github.com/openacid/low/vers.Check"
	idVersCompat = "github.com/openacid/low/vers.IsCompatible"
	idReadHeader = "github.com/openacid/low/pbcmpl.ReadHeader"
	idPbUnmarsh  = "github.com/openacid/low/pbcmpl.Unmarshal"
	idPbMarshal  = "github.com/openacid/low/pbcmpl.Marshal"
)

// stringConsts extracts the constant strings of a []string built as a
// composite literal / varargs array (Slice of an Alloc with constant stores).
func stringConsts(v ssa.Value) ([]string, bool) { return stringConstsR(v, nil) }

// stringConstsR: as stringConsts; resolve, when given, maps a non-constant
// element to the value it denotes in the current frame (a parameter's actual,
// a field of a constant table's element).
func stringConstsR(v ssa.Value, resolve func(ssa.Value) ssa.Value) ([]string, bool) {
	if c, ok := v.(*ssa.Const); ok && c.IsNil() {
		return nil, true
	}
	sl, ok := v.(*ssa.Slice)
	if !ok {
		return nil, false
	}
	alloc, ok := sl.X.(*ssa.Alloc)
	if !ok {
		return nil, false
	}
	at, ok := alloc.Type().(*types.Pointer).Elem().Underlying().(*types.Array)
	if !ok {
		return nil, false
	}
	vals := map[int64]string{}
	for _, ref := range *alloc.Referrers() {
		ia, ok := ref.(*ssa.IndexAddr)
		if !ok {
			if _, isSlice := ref.(*ssa.Slice); isSlice {
				continue
			}
			return nil, false
		}
		idx, ok := constInt(ia.Index)
		if !ok {
			return nil, false
		}
		for _, r2 := range *ia.Referrers() {
			st, ok := r2.(*ssa.Store)
			if !ok {
				return nil, false
			}
			s, ok := constString(st.Val)
			if !ok && resolve != nil {
				s, ok = constString(resolve(st.Val))
			}
			if !ok {
				return nil, false
			}
			vals[idx] = s
		}
	}
	if int64(len(vals)) != at.Len() {
		return nil, false
	}
	out := make([]string, len(vals))
	for i, s := range vals {
		out[i] = s
	}
	return out, true
}

// semverCheck mirrors vers.Check/IsCompatible on constants: version in range?
func semverCheck(ver string, specs []string) (bool, error) {
	v, err := semver.Parse(ver)
	if err != nil {
		return false, nil // IsCompatible: unparsable version is incompatible
	}
	r, err := semver.ParseRange(strings.Join(specs, " || "))
	if err != nil {
		return false, err
	}
	return r(v), nil
}

// specsOfValue resolves a []string value to constants, looking through a call
// to a function that returns a constant list (compatibleVersions()).
func specsOfValue(v ssa.Value) ([]string, bool) { return specsOfValueR(v, nil) }

func specsOfValueR(v ssa.Value, resolve func(ssa.Value) ssa.Value) ([]string, bool) {
	if s, ok := stringConstsR(v, resolve); ok {
		return s, true
	}
	if c, ok := v.(*ssa.Call); ok {
		if f := calleeOf(c); f != nil && len(f.Blocks) > 0 {
			var res []string
			n := 0
			for _, r := range returnsOf(f) {
				if len(r.Results) != 1 {
					return nil, false
				}
				s, ok := stringConsts(r.Results[0])
				if !ok {
					return nil, false
				}
				res = s
				n++
			}
			if n == 1 {
				return res, true
			}
		}
	}
	return nil, false
}

// ---------------------------------------------------------------------------

type vevent struct {
	kind   string // reset, store, header, parse, ok, fail, gate, fixup, build, init, call
	detail string
	pos    token.Pos
	instr  ssa.Instruction
}

func (e vevent) String() string {
	if e.detail == "" {
		return e.kind
	}
	return e.kind + ":" + e.detail
}

type vpath struct {
	events []vevent
	ret    string // "nil", "err:incompatible", "err:other", "panic", "noreturn"
	retPos token.Pos
}

func (p vpath) has(kind, detail string) bool {
	for _, e := range p.events {
		if e.kind == kind && (detail == "" || e.detail == detail) {
			return true
		}
	}
	return false
}

func (p vpath) String() string {
	var s []string
	for _, e := range p.events {
		s = append(s, e.String())
	}
	return strings.Join(s, "; ") + " => " + p.ret
}

// effect summary of an atomic (not version-dependent) callee
type effSummary struct {
	stStores    map[string]bool // fields of *SlimTrie stored (transitively)
	wireWrites  map[string]bool // wire paths of an existing message written in place (stores, copy)
	buildsSlim  bool            // returns a freshly built *Slim
	paramWrites map[int]bool    // parameters whose pointee (a byte slice) is written in place
}

type versEngine struct {
	p           *Program
	un          *ssa.Function
	compat      []string
	compatOK    bool
	noGate      bool // no vers.IsCompatible call under Unmarshal at all
	verDep      map[*ssa.Function]bool
	eff         map[*ssa.Function]*effSummary
	undecided   []string
	maxPaths    int
	slimT       *types.Named
	stT         *types.Named
	errIncompat *ssa.Global
}

func newVersEngine(p *Program) *versEngine {
	e := &versEngine{p: p, verDep: map[*ssa.Function]bool{}, eff: map[*ssa.Function]*effSummary{}, maxPaths: 50000}
	e.un = p.Method(p.Trie, "SlimTrie", "Unmarshal")
	e.slimT = p.NamedType(p.Trie, "Slim")
	e.stT = p.NamedType(p.Trie, "SlimTrie")
	if g, ok := p.Trie.Members["ErrIncompatible"].(*ssa.Global); ok {
		e.errIncompat = g
	}
	// the compatible list: the second argument of the vers.IsCompatible call under Unmarshal — a
	// constant []string, or the single constant list some function (method or not) returns
	if e.un != nil {
		n := 0
		seen := map[*ssa.Function]bool{}
		var scan func(f *ssa.Function, d int)
		scan = func(f *ssa.Function, d int) {
			if f == nil || seen[f] || d > 2 || len(f.Blocks) == 0 || !trieScope(f) {
				return
			}
			seen[f] = true
			for _, c := range callsIn(f) {
				if calleeIs(c, idVersCompat) && len(c.Common().Args) == 2 {
					n++
					if s, ok := specsOfValue(c.Common().Args[1]); ok {
						e.compat = s
						e.compatOK = true
					}
					continue
				}
				scan(calleeOf(c), d+1)
			}
		}
		scan(e.un, 0)
		if n != 1 {
			e.compatOK = false
		}
		if n == 0 {
			e.noGate = true
		}
	}
	return e
}

// hasVersionPredicate: f (or a trie callee it passes a string to) calls vers.Check / IsCompatible.
func (e *versEngine) hasVersionPredicate(f *ssa.Function, seen map[*ssa.Function]bool) bool {
	if v, ok := e.verDep[f]; ok {
		return v
	}
	if seen[f] {
		return false
	}
	seen[f] = true
	res := false
	for _, c := range callsIn(f) {
		if calleeIs(c, idVersCheck, idVersCompat) {
			res = true
		}
		if g := calleeOf(c); g != nil && trieScope(g) && len(g.Blocks) > 0 && g != f {
			if e.hasVersionPredicate(g, seen) {
				res = true
			}
		}
	}
	e.verDep[f] = res
	return res
}

// effects computes the transitive effect summary of a trie-scope function.
func (e *versEngine) effects(f *ssa.Function) *effSummary {
	if s, ok := e.eff[f]; ok {
		return s
	}
	s := &effSummary{stStores: map[string]bool{}, wireWrites: map[string]bool{}, paramWrites: map[int]bool{}}
	e.eff[f] = s
	paramIdxOf := func(v ssa.Value) int {
		for {
			if sl, ok := v.(*ssa.Slice); ok {
				v = sl.X
				continue
			}
			break
		}
		for i, prm := range f.Params {
			if v == ssa.Value(prm) {
				return i
			}
		}
		return -1
	}
	if strings.HasSuffix(e.p.File(f.Pos()), ".pb.go") {
		return s
	}
	instrsOf(f, func(_ *ssa.BasicBlock, in ssa.Instruction) {
		switch x := in.(type) {
		case *ssa.Store:
			if _, fv, fa := fieldOfAddr(x.Addr); fa != nil {
				if isNamed(fa.X.Type(), triePath, "SlimTrie") {
					s.stStores[fv.Name()] = true
				}
			}
			if wp := wireAddrPath(x.Addr); wp != "" && !strings.Contains(wp, "(new)") {
				s.wireWrites[wp] = true
			}
			// element store into wire bytes
			if ia, ok := x.Addr.(*ssa.IndexAddr); ok {
				if wp := wirePathOf(ia.X); wp != "" {
					s.wireWrites[wp+"[]"] = true
				}
				if pi := paramIdxOf(ia.X); pi >= 0 {
					s.paramWrites[pi] = true
				}
			}
		case *ssa.Call:
			if bi, ok := x.Call.Value.(*ssa.Builtin); ok && bi.Name() == "copy" {
				dst := x.Call.Args[0]
				if sl, ok := dst.(*ssa.Slice); ok {
					dst = sl.X
				}
				if wp := wirePathOf(dst); wp != "" {
					s.wireWrites[wp+"[]"] = true
				}
				if pi := paramIdxOf(dst); pi >= 0 {
					s.paramWrites[pi] = true
				}
			}
			if calleeOf(x) == nil && !x.Call.IsInvoke() {
				for _, g := range tableCallTargets(x.Call.Value) {
					if trieScope(g) && len(g.Blocks) > 0 && g != f {
						gs := e.effects(g)
						for k := range gs.stStores {
							s.stStores[k] = true
						}
						for k := range gs.wireWrites {
							s.wireWrites[k] = true
						}
					}
				}
			}
			if g := calleeOf(x); g != nil && trieScope(g) && len(g.Blocks) > 0 && g != f {
				gs := e.effects(g)
				for k := range gs.stStores {
					s.stStores[k] = true
				}
				for k := range gs.wireWrites {
					s.wireWrites[k] = true
				}
				// a helper that rewrites a slice it is handed: the write lands where the argument points
				for pi := range gs.paramWrites {
					if pi >= len(x.Call.Args) {
						continue
					}
					arg := x.Call.Args[pi]
					for {
						if sl, ok := arg.(*ssa.Slice); ok {
							arg = sl.X
							continue
						}
						break
					}
					if wp := wirePathOf(arg); wp != "" {
						s.wireWrites[wp+"[]"] = true
					}
					if qi := paramIdxOf(arg); qi >= 0 {
						s.paramWrites[qi] = true
					}
				}
			}
		}
	})
	// builds a Slim: single result *Slim coming from a fresh allocation in f
	if f.Signature.Results().Len() == 1 && e.slimT != nil {
		if pt, ok := f.Signature.Results().At(0).Type().(*types.Pointer); ok && types.Identical(pt.Elem(), e.slimT) {
			s.buildsSlim = true
		}
	}
	return s
}

type vframe struct {
	fn      *ssa.Function
	verVals map[ssa.Value]bool
	stVals  map[ssa.Value]bool
	actual  map[ssa.Value]ssa.Value // parameter -> the caller's argument value (for message types)
	parent  *vframe
	iter    map[*ssa.Phi]int64 // current iteration of loops over constant tables (see tableLoopPhi)
}

// ---- loops over constant tables ------------------------------------------
//
// A maintainer may drive the loader from a table: "for _, step := range
// upgradeSteps { if vers.Check(ver, step.spec) { step.apply(st) } }" or a local
// list of (section name, message). When the table is a composite literal of
// constant length — local, or a package-level variable assigned only by its
// initialiser — the loop is unrolled: the index phi is bound to 0..N-1 and
// fields of the current element resolve to the values the literal stores.

// tableBase: the array behind a constant table slice.
func tableBase(v ssa.Value) *ssa.Alloc {
	switch x := v.(type) {
	case *ssa.Slice:
		if al, ok := x.X.(*ssa.Alloc); ok && x.Low == nil && x.High == nil {
			if _, isArr := al.Type().(*types.Pointer).Elem().Underlying().(*types.Array); isArr {
				return al
			}
		}
	case *ssa.UnOp:
		if x.Op != token.MUL {
			return nil
		}
		g, ok := x.X.(*ssa.Global)
		if !ok || g.Pkg == nil {
			return nil
		}
		var base *ssa.Alloc
		n := 0
		for _, m := range g.Pkg.Members {
			f, ok := m.(*ssa.Function)
			if !ok {
				continue
			}
			fs := append([]*ssa.Function{f}, f.AnonFuncs...)
			for _, h := range fs {
				instrsOf(h, func(_ *ssa.BasicBlock, in ssa.Instruction) {
					if st, ok := in.(*ssa.Store); ok && st.Addr == ssa.Value(g) {
						n++
						if h.Name() == "init" {
							base = tableBase(st.Val)
						}
					}
				})
			}
		}
		// methods are not package members: any other store to the global disqualifies it
		for _, t := range g.Pkg.Prog.RuntimeTypes() {
			_ = t
		}
		if n == 1 {
			return base
		}
	}
	return nil
}

// tableCallTargets: the functions a call through an element of a constant table can reach: every
// entry of the table (the loop over it calls each of them once).
func tableCallTargets(v ssa.Value) []*ssa.Function {
	ld, ok := v.(*ssa.UnOp)
	if !ok || ld.Op != token.MUL {
		return nil
	}
	ia, ok := ld.X.(*ssa.IndexAddr)
	if !ok {
		return nil
	}
	al := tableBase(ia.X)
	if al == nil {
		return nil
	}
	n := al.Type().(*types.Pointer).Elem().Underlying().(*types.Array).Len()
	var out []*ssa.Function
	for i := int64(0); i < n; i++ {
		sv := tableStore(al, i, -1)
		for {
			if ct, ok := sv.(*ssa.ChangeType); ok {
				sv = ct.X
				continue
			}
			break
		}
		switch x := sv.(type) {
		case *ssa.Function:
			out = append(out, x)
		case *ssa.MakeClosure:
			if fn, ok := x.Fn.(*ssa.Function); ok {
				out = append(out, fn)
			}
		default:
			return nil
		}
	}
	return out
}

func tableLen(v ssa.Value) (int64, bool) {
	if al := tableBase(v); al != nil {
		return al.Type().(*types.Pointer).Elem().Underlying().(*types.Array).Len(), true
	}
	return 0, false
}

// tableStore: the value the literal stores into element i (field k, or the element itself when k < 0).
func tableStore(al *ssa.Alloc, i int64, k int) ssa.Value {
	var out ssa.Value
	n := 0
	for _, ref := range *al.Referrers() {
		ia, ok := ref.(*ssa.IndexAddr)
		if !ok {
			continue
		}
		if c, ok := constInt(ia.Index); !ok || c != i {
			continue
		}
		for _, r2 := range *ia.Referrers() {
			switch x := r2.(type) {
			case *ssa.Store:
				if x.Addr != ssa.Value(ia) {
					continue
				}
				if k < 0 {
					out = x.Val
					n++
					continue
				}
				// *elem = *complit: the field value is what the literal stores into the complit local
				if ld, ok := x.Val.(*ssa.UnOp); ok && ld.Op == token.MUL {
					if c, ok := ld.X.(*ssa.Alloc); ok {
						for _, r3 := range *c.Referrers() {
							fa, ok := r3.(*ssa.FieldAddr)
							if !ok || fa.Field != k {
								continue
							}
							for _, r4 := range *fa.Referrers() {
								if st, ok := r4.(*ssa.Store); ok && st.Addr == ssa.Value(fa) {
									out = st.Val
									n++
								}
							}
						}
					}
				}
			case *ssa.FieldAddr:
				if x.Field != k {
					continue
				}
				for _, r3 := range *x.Referrers() {
					if st, ok := r3.(*ssa.Store); ok && st.Addr == ssa.Value(x) {
						out = st.Val
						n++
					}
				}
			}
		}
	}
	if n != 1 {
		return nil
	}
	return out
}

// tableLoopPhi: ph is the index of a range loop: phi [const, ph + 1].
func tableLoopPhi(ph *ssa.Phi) (int64, bool) {
	if len(ph.Edges) < 2 {
		return 0, false
	}
	var start int64
	okS, okI := false, true
	nInc := 0
	for _, ed := range ph.Edges {
		if c, ok := constInt(ed); ok {
			if okS && c != start {
				return 0, false
			}
			start, okS = c, true
			continue
		}
		inc := false
		if bo, ok := ed.(*ssa.BinOp); ok && bo.Op == token.ADD && bo.X == ssa.Value(ph) {
			if k, ok := constInt(bo.Y); ok && k == 1 {
				inc = true
				nInc++
			}
		}
		if !inc {
			okI = false
		}
	}
	okI = okI && nInc > 0
	if !okS || !okI {
		return 0, false
	}
	// the loop test compares the index (or index+1) with the length of a constant table
	bounded := false
	for _, ref := range *ph.Referrers() {
		cands := []ssa.Value{}
		if bo, ok := ref.(*ssa.BinOp); ok {
			cands = append(cands, bo)
			if bo.Op == token.ADD && bo.Referrers() != nil {
				for _, r2 := range *bo.Referrers() {
					if b2, ok := r2.(*ssa.BinOp); ok {
						cands = append(cands, b2)
					}
				}
			}
		}
		for _, c := range cands {
			bo := c.(*ssa.BinOp)
			switch bo.Op {
			case token.LSS, token.LEQ, token.GTR, token.GEQ:
			default:
				continue
			}
			for _, side := range []ssa.Value{bo.X, bo.Y} {
				if call, ok := side.(*ssa.Call); ok {
					if bi, ok := call.Call.Value.(*ssa.Builtin); ok && bi.Name() == "len" && len(call.Call.Args) == 1 {
						if _, ok := tableLen(call.Call.Args[0]); ok {
							bounded = true
						}
					}
				}
			}
		}
	}
	return start, bounded
}

func (fr *vframe) intVal(v ssa.Value) (int64, bool) {
	switch x := v.(type) {
	case *ssa.Const:
		return constInt(x)
	case *ssa.Phi:
		if fr.iter != nil {
			if i, ok := fr.iter[x]; ok {
				return i, true
			}
		}
	case *ssa.BinOp:
		a, ok1 := fr.intVal(x.X)
		b, ok2 := fr.intVal(x.Y)
		if ok1 && ok2 {
			switch x.Op {
			case token.ADD:
				return a + b, true
			case token.SUB:
				return a - b, true
			}
		}
	case *ssa.Call:
		if bi, ok := x.Call.Value.(*ssa.Builtin); ok && bi.Name() == "len" && len(x.Call.Args) == 1 {
			return tableLen(x.Call.Args[0])
		}
	}
	return 0, false
}

// intCond folds an integer comparison of known values (the loop test of an unrolled table loop).
func (fr *vframe) intCond(v ssa.Value) (bool, bool) {
	bo, ok := v.(*ssa.BinOp)
	if !ok {
		return false, false
	}
	a, ok1 := fr.intVal(bo.X)
	b, ok2 := fr.intVal(bo.Y)
	if !ok1 || !ok2 {
		return false, false
	}
	switch bo.Op {
	case token.LSS:
		return a < b, true
	case token.LEQ:
		return a <= b, true
	case token.GTR:
		return a > b, true
	case token.GEQ:
		return a >= b, true
	case token.EQL:
		return a == b, true
	case token.NEQ:
		return a != b, true
	}
	return false, false
}

// resolve maps a value to what it denotes on the current path: a parameter to
// the caller's argument (resolved in the caller's frame), a field of the
// current element of a constant table to the value the literal stores.
func (fr *vframe) resolve(v ssa.Value) ssa.Value {
	for d := 0; d < 8 && fr != nil; d++ {
		if a, ok := fr.actual[v]; ok && fr.parent != nil {
			return fr.parent.resolve(a)
		}
		var ia *ssa.IndexAddr
		k := -1
		switch x := v.(type) {
		case *ssa.Field:
			if ld, ok := x.X.(*ssa.UnOp); ok && ld.Op == token.MUL {
				ia, _ = ld.X.(*ssa.IndexAddr)
				k = x.Field
			}
		case *ssa.UnOp:
			if x.Op == token.MUL {
				if fa, ok := x.X.(*ssa.FieldAddr); ok {
					ia, _ = fa.X.(*ssa.IndexAddr)
					k = fa.Field
					// the range variable: a local that is assigned, as a whole, only copies of table elements
					if al, ok := fa.X.(*ssa.Alloc); ok && ia == nil {
						var src *ssa.IndexAddr
						n := 0
						for _, ref := range *al.Referrers() {
							if st, ok := ref.(*ssa.Store); ok && st.Addr == ssa.Value(al) {
								n++
								if ld, ok := st.Val.(*ssa.UnOp); ok && ld.Op == token.MUL {
									src, _ = ld.X.(*ssa.IndexAddr)
								}
							}
						}
						if n == 1 && src != nil {
							ia = src
						}
					}
				} else if a2, ok := x.X.(*ssa.IndexAddr); ok {
					ia = a2
				}
			}
		}
		if ia == nil {
			return v
		}
		al := tableBase(ia.X)
		if al == nil {
			return v
		}
		i, ok := fr.intVal(ia.Index)
		if !ok {
			return v
		}
		nv := tableStore(al, i, k)
		if nv == nil {
			return v
		}
		v = nv
	}
	return v
}

func (fr *vframe) iterKey() string {
	if len(fr.iter) == 0 {
		return ""
	}
	var s []string
	for ph, i := range fr.iter {
		s = append(s, fmt.Sprintf("%s=%d", ph.Name(), i))
	}
	sort.Strings(s)
	return strings.Join(s, ",")
}

// resolveArg follows parameters to the outermost caller's argument.
func (fr *vframe) resolveArg(v ssa.Value) ssa.Value {
	for f := fr; f != nil; f = f.parent {
		a, ok := f.actual[v]
		if !ok {
			break
		}
		v = a
	}
	return v
}

// containsRead: f (transitively, within package trie) calls a stream read.
func (e *versEngine) containsRead(f *ssa.Function, seen map[*ssa.Function]bool) bool {
	if seen[f] {
		return false
	}
	seen[f] = true
	for _, c := range callsIn(f) {
		if calleeIs(c, idReadHeader, idPbUnmarsh) {
			return true
		}
		if g := calleeOf(c); g != nil && trieScope(g) && len(g.Blocks) > 0 && e.containsRead(g, seen) {
			return true
		}
	}
	return false
}

// fold evaluates a bool value under the version binding.
func (e *versEngine) fold(v ssa.Value, fr *vframe, ver string) (bool, bool) {
	switch x := v.(type) {
	case *ssa.Call:
		if calleeIs(x, idVersCheck) && len(x.Call.Args) == 2 && fr.verVals[x.Call.Args[0]] {
			specs, ok := specsOfValueR(x.Call.Args[1], fr.resolve)
			if !ok {
				e.undecided = append(e.undecided, "vers.Check with non-constant specs at "+e.p.Pos(x.Pos()))
				return false, false
			}
			r, err := semverCheck(ver, specs)
			if err != nil {
				e.undecided = append(e.undecided, fmt.Sprintf("unparsable spec %q at %s: %v", specs, e.p.Pos(x.Pos()), err))
				return false, false
			}
			return r, true
		}
		if calleeIs(x, idVersCompat) && len(x.Call.Args) == 2 && fr.verVals[x.Call.Args[0]] {
			specs, ok := specsOfValue(x.Call.Args[1])
			if !ok {
				e.undecided = append(e.undecided, "vers.IsCompatible with non-constant specs at "+e.p.Pos(x.Pos()))
				return false, false
			}
			r, err := semverCheck(ver, specs)
			if err != nil {
				return false, true // IsCompatible returns false on an unparsable range
			}
			return r, true
		}
	case *ssa.UnOp:
		if x.Op == token.NOT {
			if b, ok := e.fold(x.X, fr, ver); ok {
				return !b, true
			}
		}
	case *ssa.BinOp:
		// ver == "x" comparisons on the version string
		if x.Op == token.EQL || x.Op == token.NEQ {
			var other ssa.Value
			if fr.verVals[x.X] {
				other = x.Y
			} else if fr.verVals[x.Y] {
				other = x.X
			}
			if other != nil {
				if s, ok := constString(other); ok {
					return (ver == s) == (x.Op == token.EQL), true
				}
			}
		}
	case *ssa.Phi:
		// short-circuit && / || of foldable operands
		var val, set bool
		for _, ed := range x.Edges {
			b, ok := e.foldEdge(ed, fr, ver)
			if !ok {
				return false, false
			}
			if set && b != val {
				return false, false
			}
			val, set = b, true
		}
		return val, set
	}
	return false, false
}

func (e *versEngine) foldEdge(v ssa.Value, fr *vframe, ver string) (bool, bool) {
	if b, ok := constBool(v); ok {
		return b, true
	}
	return e.fold(v, fr, ver)
}

// isGate: the call is a version predicate on the version value.
func isVersionPredicate(v ssa.Value) bool {
	for {
		if u, ok := v.(*ssa.UnOp); ok && u.Op == token.NOT {
			v = u.X
			continue
		}
		break
	}
	c, ok := v.(*ssa.Call)
	return ok && calleeIs(c, idVersCheck, idVersCompat)
}

// leaveClass: v is the error result of a callee that was expanded on this path:
// return the class recorded when it was left ("" if v is not such a value).
func leaveClass(v ssa.Value, ev []vevent) string {
	var call ssa.Value = v
	if ex, ok := v.(*ssa.Extract); ok {
		call = ex.Tuple
	}
	c, ok := call.(*ssa.Call)
	if !ok {
		return ""
	}
	for i := len(ev) - 1; i >= 0; i-- {
		if ev[i].kind == "leave" && ev[i].instr == ssa.Instruction(c) {
			if j := strings.Index(ev[i].detail, "="); j >= 0 {
				return ev[i].detail[j+1:]
			}
		}
	}
	return ""
}

// errClassIn: like errClass, but a value returned by an expanded callee takes
// the class recorded for this path.
func (e *versEngine) errClassIn(v ssa.Value, depth int, ev []vevent) string {
	if cls := leaveClass(v, ev); cls != "" {
		return cls
	}
	if c, ok := v.(*ssa.Call); ok {
		for _, a := range c.Call.Args {
			if isErrorType(a.Type()) {
				if cls := leaveClass(a, ev); cls != "" && cls != "nil" {
					return cls
				}
			}
		}
	}
	return e.errClass(v, depth)
}

// errClass classifies a returned error value.
func (e *versEngine) errClass(v ssa.Value, depth int) string {
	if isNilConst(v) {
		return "nil"
	}
	if depth > 6 {
		return "err:other"
	}
	switch x := v.(type) {
	case *ssa.UnOp:
		if x.Op == token.MUL {
			if g, ok := x.X.(*ssa.Global); ok && e.errIncompat != nil && g == e.errIncompat {
				return "err:incompatible"
			}
		}
	case *ssa.Call:
		for _, a := range x.Call.Args {
			if isErrorType(a.Type()) {
				if c := e.errClass(a, depth+1); c == "err:incompatible" {
					return c
				}
			}
		}
	case *ssa.MakeInterface:
		return e.errClass(x.X, depth+1)
	case *ssa.ChangeInterface:
		return e.errClass(x.X, depth+1)
	case *ssa.Phi:
		cls := ""
		for _, ed := range x.Edges {
			c := e.errClass(ed, depth+1)
			if cls == "" {
				cls = c
			} else if cls != c {
				return "err:mixed"
			}
		}
		return cls
	case *ssa.Extract:
		return "err:other"
	}
	return "err:other"
}

// readCallOfErr: if v is the error result extracted from a ReadHeader /
// pbcmpl.Unmarshal call, return that call.
func readCallOfErr(v ssa.Value) *ssa.Call {
	ex, ok := v.(*ssa.Extract)
	if !ok {
		return nil
	}
	c, ok := ex.Tuple.(*ssa.Call)
	if !ok || !calleeIs(c, idReadHeader, idPbUnmarsh) {
		return nil
	}
	if !isErrorType(ex.Type()) {
		return nil
	}
	return c
}

func msgTypeOfParse(c *ssa.Call) (string, ssa.Value) {
	return msgTypeOfParseIn(c, nil)
}

func msgTypeOfParseIn(c *ssa.Call, fr *vframe) (string, ssa.Value) {
	if len(c.Call.Args) < 2 {
		return "?", nil
	}
	a := c.Call.Args[1]
	if fr != nil {
		a = fr.resolve(a)
	}
	if mi, ok := a.(*ssa.MakeInterface); ok {
		a = mi.X
	}
	t := a.Type().String()
	t = strings.ReplaceAll(t, slimPath+"/", "")
	return t, a
}

// markVersionValues: the values of fn that hold the header's version: GetVersion() calls on the
// header returned by pbcmpl.ReadHeader, and the corresponding result of a call to a helper of package
// trie that returns such a value (headerVersion(buf) (string, error)).
func markVersionValues(fn *ssa.Function, into map[ssa.Value]bool) {
	instrsOf(fn, func(_ *ssa.BasicBlock, in ssa.Instruction) {
		c, ok := in.(*ssa.Call)
		if !ok {
			return
		}
		if c.Call.IsInvoke() && c.Call.Method.Name() == "GetVersion" {
			if ex, ok := c.Call.Value.(*ssa.Extract); ok {
				if rc, ok := ex.Tuple.(*ssa.Call); ok && calleeIs(rc, idReadHeader) {
					into[c] = true
				}
			}
			return
		}
		if g := calleeOf(c); g != nil && trieScope(g) && g != fn {
			if ri := versionResultIndex(g, 0); ri >= 0 {
				if g.Signature.Results().Len() == 1 {
					into[c] = true
				}
				if refs := c.Referrers(); refs != nil {
					for _, ref := range *refs {
						if ex, ok := ref.(*ssa.Extract); ok && ex.Index == ri {
							into[ex] = true
						}
					}
				}
			}
		}
	})
}

// versionResultIndex: the index of the result of g that is the header's version on its success
// returns (-1 if none).
func versionResultIndex(g *ssa.Function, depth int) int {
	if g == nil || len(g.Blocks) == 0 || depth > 1 {
		return -1
	}
	own := map[ssa.Value]bool{}
	instrsOf(g, func(_ *ssa.BasicBlock, in ssa.Instruction) {
		if c, ok := in.(*ssa.Call); ok && c.Call.IsInvoke() && c.Call.Method.Name() == "GetVersion" {
			if ex, ok := c.Call.Value.(*ssa.Extract); ok {
				if rc, ok := ex.Tuple.(*ssa.Call); ok && calleeIs(rc, idReadHeader) {
					own[c] = true
				}
			}
		}
	})
	if len(own) == 0 {
		return -1
	}
	for _, ret := range returnsOf(g) {
		for i, rv := range ret.Results {
			if own[rv] {
				return i
			}
		}
	}
	return -1
}

// versionSourceCall: the ReadHeader call whose header's version is tested, when its reader is
// bytes.NewReader over the given buffer value (a parameter of fn).
func versionSourceOK(fn *ssa.Function, buf ssa.Value) (ok bool, pos token.Pos) {
	instrsOf(fn, func(_ *ssa.BasicBlock, in ssa.Instruction) {
		c, isC := in.(*ssa.Call)
		if !isC || !c.Call.IsInvoke() || c.Call.Method.Name() != "GetVersion" {
			return
		}
		ex, isE := c.Call.Value.(*ssa.Extract)
		if !isE {
			return
		}
		rc, isR := ex.Tuple.(*ssa.Call)
		if !isR || !calleeIs(rc, idReadHeader) {
			return
		}
		arg := rc.Call.Args[0]
		if mi, isM := arg.(*ssa.MakeInterface); isM {
			arg = mi.X
		}
		if nr, isN := arg.(*ssa.Call); isN && calleeIs(nr, "bytes.NewReader") && nr.Call.Args[0] == buf {
			ok, pos = true, c.Pos()
		}
	})
	return
}

// explore enumerates the feasible paths of Unmarshal for one version.
func (e *versEngine) explore(ver string) ([]vpath, bool) {
	var out []vpath
	truncated := false
	un := e.un
	root := &vframe{fn: un, verVals: map[ssa.Value]bool{}, stVals: map[ssa.Value]bool{}}
	if len(un.Params) > 0 {
		root.stVals[un.Params[0]] = true
	}
	// the version value: GetVersion() on the header returned by ReadHeader
	markVersionValues(un, root.verVals)
	memo := map[string]bool{}
	var run func(fr *vframe, b *ssa.BasicBlock, start int, ev []vevent, seen map[string]int, depth int, k func(ev []vevent, ret *ssa.Return))
	evKey := func(ev []vevent) string {
		var s []string
		for _, x := range ev {
			s = append(s, x.String())
		}
		return strings.Join(s, ";")
	}
	run = func(fr *vframe, b *ssa.BasicBlock, start int, ev []vevent, seen map[string]int, depth int, k func(ev []vevent, ret *ssa.Return)) {
		if len(out) > e.maxPaths {
			truncated = true
			return
		}
		if start == 0 {
			// index phis of loops over constant tables advance by one per arrival
			for _, in := range b.Instrs {
				ph, ok := in.(*ssa.Phi)
				if !ok {
					break
				}
				if st, ok := tableLoopPhi(ph); ok {
					if fr.iter == nil {
						fr.iter = map[*ssa.Phi]int64{}
					}
					old, had := fr.iter[ph]
					if had {
						fr.iter[ph] = old + 1
					} else {
						fr.iter[ph] = st
					}
					defer func() {
						if had {
							fr.iter[ph] = old
						} else {
							delete(fr.iter, ph)
						}
					}()
				}
			}
			sk := fmt.Sprintf("%d|%s", b.Index, fr.iterKey())
			if seen[sk] >= 1 {
				return
			}
			seen[sk]++
			defer func() { seen[sk]-- }()
			if depth == 0 {
				mk := fmt.Sprintf("%p|%d|%s|%s", fr.fn, b.Index, fr.iterKey(), evKey(ev))
				if memo[mk] {
					return
				}
				memo[mk] = true
			}
		}
		for i := start; i < len(b.Instrs); i++ {
			switch in := b.Instrs[i].(type) {
			case *ssa.Store:
				if _, fv, fa := fieldOfAddr(in.Addr); fa != nil && fr.stVals[fa.X] {
					d := fv.Name()
					if al, ok := in.Val.(*ssa.Alloc); ok && e.slimT != nil && types.Identical(al.Type().(*types.Pointer).Elem(), e.slimT) && allocIsZero(al) {
						ev = append(ev, vevent{kind: "reset", detail: d, pos: in.Pos(), instr: in})
					} else {
						ev = append(ev, vevent{kind: "store", detail: d, pos: in.Pos(), instr: in})
					}
				}
			case *ssa.Call:
				switch {
				case calleeIs(in, idReadHeader):
					ev = append(ev, vevent{kind: "header", pos: in.Pos(), instr: in})
				case calleeIs(in, idPbUnmarsh):
					t, _ := msgTypeOfParseIn(in, fr)
					ev = append(ev, vevent{kind: "parse", detail: t, pos: in.Pos(), instr: in})
				default:
					g := calleeOf(in)
					if g == nil && !in.Call.IsInvoke() {
						// a function taken from the current element of a constant table
						if f2, ok := fr.resolve(in.Call.Value).(*ssa.Function); ok {
							g = f2
						}
					}
					if g == nil || !trieScope(g) || len(g.Blocks) == 0 {
						break
					}
					passesVer, passesSt := false, false
					for _, a := range in.Call.Args {
						if fr.verVals[a] {
							passesVer = true
						}
						if fr.stVals[a] || loadedFromSt(fr.stVals, a, 0) {
							passesSt = true
						}
					}
					if ((passesVer && e.hasVersionPredicate(g, map[*ssa.Function]bool{})) || e.containsRead(g, map[*ssa.Function]bool{})) && depth < 5 {
						nf := &vframe{fn: g, verVals: map[ssa.Value]bool{}, stVals: map[ssa.Value]bool{}, actual: map[ssa.Value]ssa.Value{}, parent: fr}
						for pi, prm := range g.Params {
							if pi < len(in.Call.Args) {
								nf.actual[prm] = in.Call.Args[pi]
								if fr.verVals[in.Call.Args[pi]] {
									nf.verVals[prm] = true
								}
								if fr.stVals[in.Call.Args[pi]] {
									nf.stVals[prm] = true
								}
							}
						}
						markVersionValues(g, nf.verVals)
						rest := i + 1
						ev2 := append(append([]vevent{}, ev...), vevent{kind: "enter", detail: g.Name(), pos: in.Pos()})
						run(nf, g.Blocks[0], 0, ev2, map[string]int{}, depth+1, func(evs []vevent, cret *ssa.Return) {
							// a helper that returns the version it read: the caller's copy is the version too
							if cret != nil {
								for ri, rv := range cret.Results {
									if !nf.verVals[rv] {
										continue
									}
									if len(cret.Results) == 1 {
										fr.verVals[in] = true
									}
									if refs := in.Referrers(); refs != nil {
										for _, ref := range *refs {
											if ex, ok := ref.(*ssa.Extract); ok && ex.Index == ri {
												fr.verVals[ex] = true
											}
										}
									}
								}
							}
							cls := ""
							if cret != nil && len(cret.Results) > 0 {
								last := cret.Results[len(cret.Results)-1]
								if isErrorType(last.Type()) {
									cls = e.errClassIn(last, 0, evs)
								}
							}
							evs = append(append([]vevent{}, evs...), vevent{kind: "leave", detail: g.Name() + "=" + cls, pos: in.Pos(), instr: in})
							run(fr, b, rest, evs, seen, depth, k)
						})
						return
					}
					// atomic callee
					s := e.effects(g)
					if passesSt || len(s.wireWrites) > 0 {
						if s.stStores["vars"] && s.stStores["levels"] || (len(s.stStores) > 0 && !s.stStores["inner"]) {
							ev = append(ev, vevent{kind: "init", detail: strings.Join(sortedKeys(s.stStores), ","), pos: in.Pos(), instr: in})
						} else if len(s.stStores) > 0 {
							ev = append(ev, vevent{kind: "store", detail: strings.Join(sortedKeys(s.stStores), ","), pos: in.Pos(), instr: in})
						}
						if len(s.wireWrites) > 0 && passesSt {
							// writes relative to a message parameter (a fix-up written as a method of the array it
							// rewrites) are named by the wire path of the argument
							ww := map[string]bool{}
							for k := range s.wireWrites {
								nk := k
								for pi, prm := range g.Params {
									if pi >= len(in.Call.Args) {
										break
									}
									root := wireRootName(prm.Type())
									if root == "" {
										continue
									}
									ap := wirePathOf(in.Call.Args[pi])
									if ap == "" || ap == root {
										continue
									}
									switch {
									case strings.HasPrefix(k, root+"(?)"):
										nk = ap + strings.TrimPrefix(k, root+"(?)")
									case strings.HasPrefix(k, root+"."):
										nk = ap + strings.TrimPrefix(k, root)
									}
								}
								ww[nk] = true
							}
							ev = append(ev, vevent{kind: "fixup", detail: strings.Join(sortedKeys(ww), ","), pos: in.Pos(), instr: in})
						}
					}
					if s.buildsSlim && g.Signature.Recv() != nil {
						ev = append(ev, vevent{kind: "build", detail: g.Name(), pos: in.Pos(), instr: in})
					}
				}
			case *ssa.Return:
				k(ev, in)
				return
			case *ssa.Panic:
				if depth == 0 {
					out = append(out, vpath{events: append([]vevent{}, ev...), ret: "panic", retPos: in.Pos()})
				}
				return
			case *ssa.If:
				if val, ok := fr.intCond(in.Cond); ok {
					if val {
						run(fr, b.Succs[0], 0, ev, seen, depth, k)
					} else {
						run(fr, b.Succs[1], 0, ev, seen, depth, k)
					}
					return
				}
				if val, ok := e.fold(in.Cond, fr, ver); ok {
					gate := "pass"
					if !val {
						gate = "reject"
					}
					if isVersionPredicate(in.Cond) {
						ev = append(append([]vevent{}, ev...), vevent{kind: "gate", detail: gate + "@" + e.p.Pos(in.Cond.Pos()), pos: in.Cond.Pos(), instr: in})
					}
					if val {
						run(fr, b.Succs[0], 0, ev, seen, depth, k)
					} else {
						run(fr, b.Succs[1], 0, ev, seen, depth, k)
					}
					return
				}
				// error returned by an expanded callee: its class on this path is known
				if x, nilSucc, ok := nilTest(in.Cond); ok {
					if cls := leaveClass(x, ev); cls != "" {
						if cls == "nil" {
							run(fr, b.Succs[nilSucc], 0, ev, seen, depth, k)
						} else {
							run(fr, b.Succs[1-nilSucc], 0, ev, seen, depth, k)
						}
						return
					}
				}
				// error test of a stream read: record outcome
				if x, nilSucc, ok := nilTest(in.Cond); ok {
					if rc := readCallOfErr(x); rc != nil {
						name := "header"
						if calleeIs(rc, idPbUnmarsh) {
							name, _ = msgTypeOfParse(rc)
						}
						evOK := append(append([]vevent{}, ev...), vevent{kind: "ok", detail: name, pos: in.Pos(), instr: rc})
						evFail := append(append([]vevent{}, ev...), vevent{kind: "fail", detail: name, pos: in.Pos(), instr: rc})
						run(fr, b.Succs[nilSucc], 0, evOK, seen, depth, k)
						run(fr, b.Succs[1-nilSucc], 0, evFail, seen, depth, k)
						return
					}
				}
				run(fr, b.Succs[0], 0, append([]vevent{}, ev...), seen, depth, k)
				run(fr, b.Succs[1], 0, append([]vevent{}, ev...), seen, depth, k)
				return
			case *ssa.Jump:
				run(fr, b.Succs[0], 0, ev, seen, depth, k)
				return
			}
		}
	}
	run(root, un.Blocks[0], 0, nil, map[string]int{}, 0, func(ev []vevent, ret *ssa.Return) {
		cls := "noreturn"
		if ret != nil && len(ret.Results) == 1 {
			cls = e.errClassIn(ret.Results[0], 0, ev)
		}
		p := vpath{events: append([]vevent{}, ev...), ret: cls}
		if ret != nil {
			p.retPos = ret.Pos()
		}
		out = append(out, p)
	})
	// dedupe
	seenP := map[string]bool{}
	var uniq []vpath
	for _, p := range out {
		k := p.String()
		if !seenP[k] {
			seenP[k] = true
			uniq = append(uniq, p)
		}
	}
	sort.Slice(uniq, func(i, j int) bool { return uniq[i].String() < uniq[j].String() })
	return uniq, truncated
}

// allocIsZero: a composite literal &T{} with no field initialised.
func allocIsZero(al *ssa.Alloc) bool {
	for _, ref := range *al.Referrers() {
		switch ref.(type) {
		case *ssa.FieldAddr:
			return false
		}
	}
	return true
}

// versionOf strips the operator of a spec: "==0.5.8" -> "0.5.8", exact?
func specVersion(spec string) (string, bool) {
	s := strings.TrimSpace(spec)
	op := ""
	for len(s) > 0 && strings.ContainsRune("=<>!~^ ", rune(s[0])) {
		op += string(s[0])
		s = s[1:]
	}
	op = strings.TrimSpace(op)
	exact := op == "==" || op == "=" || op == ""
	if strings.ContainsAny(s, " |&<>") {
		exact = false
	}
	return s, exact
}

func constStringOfFunc(f *ssa.Function) (string, bool) {
	if f == nil {
		return "", false
	}
	rs := returnsOf(f)
	if len(rs) != 1 || len(rs[0].Results) != 1 {
		return "", false
	}
	c, ok := rs[0].Results[0].(*ssa.Const)
	if !ok || c.Value == nil || c.Value.Kind() != constant.String {
		return "", false
	}
	return constant.StringVal(c.Value), true
}

// loadedFromSt: v is loaded through fields of the trie being loaded (st.inner, st.inner.Leaves, ...):
// a helper handed such a value rewrites the loaded message just like one handed the trie.
func loadedFromSt(stVals map[ssa.Value]bool, v ssa.Value, d int) bool {
	if d > 6 || v == nil {
		return false
	}
	if stVals[v] {
		return d > 0
	}
	switch x := v.(type) {
	case *ssa.UnOp:
		if x.Op == token.MUL {
			return loadedFromSt(stVals, x.X, d+1)
		}
	case *ssa.FieldAddr:
		return loadedFromSt(stVals, x.X, d+1)
	case *ssa.Field:
		return loadedFromSt(stVals, x.X, d+1)
	}
	return false
}
