package main

import (
	"fmt"
	"go/token"
	"go/types"
	"sort"
	"strings"

	"golang.org/x/tools/go/ssa"
)

// keyIndexFunc finds the function of package trie that indexes the query key
// by a bit position (reads one byte of the key of a query session).
func keyIndexFuncs(p *Program) []*ssa.Function {
	var out []*ssa.Function
	for _, f := range p.FuncsOf(triePath) {
		if f.Synthetic != "" {
			continue
		}
		found := false
		instrsOf(f, func(_ *ssa.BasicBlock, in ssa.Instruction) {
			if x, idx := stringIndex(in); x != nil {
				_ = idx
				// key of a session?
				if ld, ok := deref(x); ok {
					if _, fv, fa := fieldOfAddr(ld); fa != nil && isSessionType(fa.X.Type()) && isStringType(fv.Type()) {
						found = true
					}
				}
			}
		})
		if found {
			out = append(out, f)
		}
	}
	return out
}

// stringIndex: the instruction reads one byte of a string: returns (string, index).
func stringIndex(in ssa.Instruction) (ssa.Value, ssa.Value) {
	switch x := in.(type) {
	case *ssa.Lookup:
		if isStringType(x.X.Type()) {
			return x.X, x.Index
		}
	case *ssa.Index:
		if isStringType(x.X.Type()) {
			return x.X, x.Index
		}
	}
	return nil, nil
}

// descentInfo describes a descent loop: the label lookup calls with their cursor argument.
type lookupCall struct {
	call   *ssa.Call
	cursor ssa.Value
}

func lookupCallsIn(f *ssa.Function, lookups map[*ssa.Function]int) []lookupCall {
	var out []lookupCall
	for _, c := range callsIn(f) {
		call, ok := c.(*ssa.Call)
		if !ok {
			continue
		}
		if idx, ok := lookups[calleeOf(call)]; ok && idx < len(call.Call.Args) {
			out = append(out, lookupCall{call, call.Call.Args[idx]})
		}
	}
	return out
}

func checkC10(p *Program, r *Report) {
	r.Explanation = "Decided guards and by-construction consistency: (overrun) in every descent, a cursor advance by a step length loaded from trie data (the no-stored-prefix mode) is followed on every path to the next label lookup by a comparison of that cursor with the key's bit length whose failing edge leaves the descent; (keyindex) the only byte index into the query key is dominated by cursor < keyBitLen of the same session, and every session that carries a key is created with keyBitLen = 8*len(key) of that key; (empty) on every call path from an exported API to a dereference of the node-type bitmap a nil test of it with an early exit dominates; (node-decoder) the node decoder of the lookup path computes the same bit-range and short-bitmap terms under the same guards as its sibling copies, so no copy reads the straddled word unguarded; (same-descent) Get and GetI8..GetI64 derive hit and leaf from one GetID call, RangeGet and Search from one three-way descent, and the two descents update the cursor with the same set of normalised terms. (session-valid) the node decoders assign bm / innerPrefix / leafPrefix of the caller's reused session only for some nodes; each is stored on a decoder path iff the discriminator the decoder assigns on every path says valid (to-from == ShortSize, hasInnerPrefix, hasLeafPrefix; producers judged on guarded summaries with store effects) and every load of it elsewhere sits under the valid edge of a branch on that discriminator of the same session, so no lookup uses a previous node's value."
	r.NotCovered = "Absence of panics for arbitrary queries in general (needs data invariants of a well-formed trie: alignment of cursor and key length, well-formed ranks); equality of the two descents' results."
	r.Trusted = []string{"go/ssa"}

	// ---- anchors: key index function and the lookup chain
	kif := keyIndexFuncs(p)
	r.Rule("C10.keyindex", "E3+E6", "key bytes are read only below the key length; sessions carry the right length", 2)
	if len(kif) == 0 {
		r.Unk("key index function", "", "no function indexes the key of a query session by a bit position")
		return
	}
	lookups := map[*ssa.Function]int{} // function -> index of the cursor argument
	for _, f := range kif {
		r.Func(shortFn(f))
		e := newEval(p)
		instrsOf(f, func(b *ssa.BasicBlock, in ssa.Instruction) {
			sx, sidx := stringIndex(in)
			if sx == nil {
				return
			}
			ix := in
			idx := e.eval(sidx).String()
			// index must be cursor>>3 of a parameter
			var cur *ssa.Parameter
			for i, prm := range f.Params {
				if idx == "shr:s("+prm.Name()+",3)" {
					cur = prm
					lookups[f] = i
				}
			}
			construct := "key byte read in " + shortFn(f)
			if cur == nil {
				r.Unk(construct, p.Pos(ix.Pos()), "index "+idx+" is not cursor>>3 of a parameter")
				return
			}
			// dominated by the edge on which cursor < session.keyBitLen holds
			okGuard := false
			for d := b; d != nil; d = d.Idom() {
				iff, ok := lastInstr(d).(*ssa.If)
				if !ok || d == b {
					continue
				}
				bo, ok := iff.Cond.(*ssa.BinOp)
				if !ok {
					continue
				}
				x, y := e.eval(bo.X).String(), e.eval(bo.Y).String()
				isCur := func(t string) bool { return t == cur.Name() }
				isLen := func(t string) bool { return strings.HasSuffix(t, ".keyBitLen") }
				ltSucc := -1 // successor on which cur < len holds
				switch {
				case isCur(x) && isLen(y) && bo.Op == token.LSS:
					ltSucc = 0
				case isCur(x) && isLen(y) && bo.Op == token.GEQ:
					ltSucc = 1
				case isLen(x) && isCur(y) && bo.Op == token.GTR:
					ltSucc = 0
				case isLen(x) && isCur(y) && bo.Op == token.LEQ:
					ltSucc = 1
				}
				if ltSucc < 0 {
					continue
				}
				// the read must be unreachable from the other successor
				if !reachableFrom(d.Succs[1-ltSucc], nil)[b] {
					okGuard = true
				}
			}
			r.Check(okGuard, construct, p.Pos(ix.Pos()), "dominated by cursor < keyBitLen of the session", "the byte read key[cursor>>3] is not dominated by a cursor < keyBitLen test: a cursor at or beyond the key end reads out of range")
		})
	}
	// callers that pass a cursor through (one level)
	for _, f := range p.FuncsOf(triePath) {
		if f.Synthetic != "" {
			continue
		}
		for _, c := range callsIn(f) {
			if call, ok := c.(*ssa.Call); ok {
				if ai, ok := lookups[calleeOf(call)]; ok && ai < len(call.Call.Args) {
					if prm, ok := call.Call.Args[ai].(*ssa.Parameter); ok {
						for i, q := range f.Params {
							if q == prm {
								if _, dup := lookups[f]; !dup {
									lookups[f] = i
								}
							}
						}
					}
				}
			}
		}
	}
	// session creation sites
	nSess := 0
	for _, f := range p.FuncsOf(triePath) {
		if f.Synthetic != "" {
			continue
		}
		e := newEval(p)
		byBase := map[ssa.Value]map[string]string{}
		pos := map[ssa.Value]token.Pos{}
		instrsOf(f, func(_ *ssa.BasicBlock, in ssa.Instruction) {
			st, ok := in.(*ssa.Store)
			if !ok {
				return
			}
			_, fv, fa := fieldOfAddr(st.Addr)
			if fa == nil || !isSessionType(fa.X.Type()) {
				return
			}
			if _, isAlloc := fa.X.(*ssa.Alloc); !isAlloc {
				return
			}
			role := ""
			switch fv.Name() {
			case curSess.key:
				role = "key"
			case curSess.keyBitLen:
				role = "keyBitLen"
			}
			if role != "" {
				if byBase[fa.X] == nil {
					byBase[fa.X] = map[string]string{}
					pos[fa.X] = st.Pos()
				}
				byBase[fa.X][role] = e.eval(st.Val).String()
			}
		})
		for base, m := range byBase {
			if m["key"] == "" && m["keyBitLen"] == "" {
				continue
			}
			nSess++
			bitLen := mulTerms(K(8), ON("len", "", S(m["key"])))
			want := bitLen.String()
			if platformIntBytes > 4 {
				want = ON("conv", "int32", bitLen).String()
			}
			r.Check(m["key"] != "" && m["keyBitLen"] == want, fmt.Sprintf("query session created in %s", shortFn(f)), p.Pos(pos[base]),
				"keyBitLen = 8*len(key) of the same key", fmt.Sprintf("key=%s keyBitLen=%s, want keyBitLen = 8*len(key)", m["key"], m["keyBitLen"]))
		}
	}
	if nSess == 0 {
		r.Unk("query session creation", "", "no site creates a query session with a key")
	}

	// ---- overrun
	r.Rule("C10.overrun", "E3", "a step-mode cursor advance is checked against the key length before the next label lookup", 2)
	var descents []*ssa.Function
	for _, f := range p.FuncsOf(triePath) {
		if f.Synthetic != "" || f.Parent() != nil {
			continue
		}
		if _, isLookup := lookups[f]; isLookup {
			continue
		}
		if len(lookupCallsIn(f, lookups)) > 0 {
			descents = append(descents, f)
		}
	}
	nAdv := 0
	for _, d := range descents {
		r.Func(shortFn(d))
		e := newEval(p)
		lcs := lookupCallsIn(d, lookups)
		for _, lc := range lcs {
			// advances: ADD of (cursor phi chain, load of a session field) flowing into lc.cursor
			for _, adv := range stepAdvances(d, lc.cursor) {
				nAdv++
				construct := fmt.Sprintf("step advance #%d of the cursor in %s", nAdv, shortFn(d))
				why := overrunGuarded(p, e, d, adv, lc)
				r.Check(why == "", construct, p.Pos(adv.Pos()), "every path to the label lookup passes a cursor-vs-key-length test with an exit", why)
			}
		}
	}
	if nAdv == 0 {
		r.Unk("step-mode cursor advance", "", "no descent advances its cursor by a stored step length (anchor not found)")
	}

	// ---- empty
	r.Rule("C10.empty", "E3 interprocedural", "the node-type bitmap is never dereferenced on an empty trie", 10)
	checkEmptyGuard(p, r)

	// ---- node decoder siblings (shared with C01.layout): a copy that reads a word the others
	// guard (the word straddled by a short node) panics on tries whose bitmap ends there
	checkLayoutSiblings(p, r, "C10.node-decoder")

	// ---- a hit carries a supplied value: lookups locate leaf bytes only through the leaf array's decoder
	checkLeafDecoder(p, r, "C10.leaf-decoder")

	// ---- a hit carries a supplied value: the value array layout decision is per element
	checkVLenWidth(p, r, "C10.vlen-width")

	// ---- session typestate: no lookup reads a session field left over from a previous node
	checkSessionTypestate(p, r, "C10.session-valid")

	checkTailConsistent(p, r)
	checkBitSlice(p, r, "C10.bitslice")
	checkArrayBound(p, r, "C10.array-bound")
	// "a reported hit always carries a value that was supplied at build time": the codec's round trip
	checkCodecsAs(p, r, "C10")
	r.Explanation += " (sign-extend) no quantity decoded from bytes is assembled in a signed type it can fill and then widened: a stored step never decodes as a negative number."
	checkSignExtend(p, r, "C10.sign-extend")
	{
		prev := r.curRule
		r.Explanation += " (capacity) a presence bitmap whose entries are ordinals is built with a capacity that covers every ordinal its readers probe: last counter-derived ordinal plus one, or the bound of the loop whose indexes are listed."
		checkCapacity(p, r, "C10.capacity")
		r.curRule = prev
	}
	{
		var fs []*ssa.Function
		var roots []*ssa.Function
		for _, n := range []string{"Get", "GetID", "RangeGet", "Search"} {
			if m := p.Method(p.Trie, "SlimTrie", n); m != nil {
				roots = append(roots, m)
			}
		}
		for f := range trieReach(roots...) {
			fs = append(fs, f)
		}
		sort.Slice(fs, func(i, j int) bool { return fs[i].String() < fs[j].String() })
		checkRankEnd(p, r, "C10.rank-end", fs)
	}

	// ---- keys are bytes: no lookup or scan walks key material by runes
	checkNoRuneWalk(p, r, "C10.bytes-not-runes", p.Method(p.Trie, "SlimTrie", "Get"), p.Method(p.Trie, "SlimTrie", "GetID"), p.Method(p.Trie, "SlimTrie", "RangeGet"),
		p.Method(p.Trie, "SlimTrie", "Search"), p.Method(p.Trie, "SlimTrie", "ScanFrom"), p.Method(p.Trie, "SlimTrie", "ScanFromTo"), p.Method(p.Trie, "SlimTrie", "NewIter"), p.Trie.Func("NewSlimTrie"))

	// ---- same descent
	r.Rule("C10.same-descent", "structure+E6", "one descent per answer family; equal cursor arithmetic", 3)
	getID := p.Method(p.Trie, "SlimTrie", "GetID")
	get := p.Method(p.Trie, "SlimTrie", "Get")
	if getID != nil && get != nil {
		gs := summariseGetter(p, get, getID)
		idS := idTermOfGet(gs)
		why := gs.why
		if why == "" && idS == "" {
			why = "its not-found answers are not given under one condition id == -1 on the key"
		}
		if why == "" {
			for _, fp := range gs.nf {
				if fp.pcKey() != "(-1 == "+idS+")" {
					why = "a not-found answer is given under [" + abbreviate(fp.pcKey()) + "]"
				}
			}
			for _, fp := range gs.found {
				has := false
				for _, c := range fp.pc {
					if c == "(-1 != "+idS+")" {
						has = true
					}
				}
				v := fp.results[0].String()
				if !has {
					why = "a found answer is given under [" + abbreviate(fp.pcKey()) + "], not under GetID(key) != -1"
				} else if (strings.Contains(v, "Slim.") || strings.Contains(v, "VLenArray.")) && !strings.Contains(v, idS) {
					why = "the value " + abbreviate(v) + " of a found answer is not derived from the id of that lookup"
				}
			}
		}
		r.Check(why == "", "Get derives hit and value from one GetID call", p.Pos(get.Pos()),
			"found iff GetID(key) != -1; the value is the leaf of that id", "Get does not derive both its flag and its value from one GetID(key) call: "+why)
	} else {
		r.Unk("Get/GetID", "", "anchor not found")
	}
	var sets []string
	var names []string
	for _, d := range descents {
		hasStep := false
		lcs := lookupCallsIn(d, lookups)
		for _, lc := range lcs {
			if len(stepAdvances(d, lc.cursor)) > 0 {
				hasStep = true
			}
		}
		if !hasStep {
			continue
		}
		names = append(names, shortFn(d))
		sets = append(sets, strings.Join(cursorUpdates(p, d, lcs[0].cursor), " ; "))
	}
	if len(sets) >= 2 {
		same := true
		for _, s := range sets[1:] {
			if s != sets[0] {
				same = false
			}
		}
		r.Check(same, "cursor arithmetic of the step-mode descents "+strings.Join(names, " / "), "", "identical update terms: "+sets[0], "cursor update terms differ: "+strings.Join(sets, "  VS  "))
	} else {
		r.Unk("cursor arithmetic of the step-mode descents", "", fmt.Sprintf("found %d step-mode descents, expected the exact-match and the three-way descent", len(sets)))
	}
	// ---- every descent reachable from the point lookups handles step mode: a trie built without
	// InnerPrefix stores only the length of a branch-free run; a descent that does not advance the cursor
	// by it is right only where a witness of option InnerPrefix is known non-nil
	{
		prevRule := r.curRule
		defer func() { _ = prevRule }()
		r.Rule("C10.step-mode", "call graph + CFG", "a descent without step handling is reached only under a witness of stored inner prefixes", 0)
		var roots []*ssa.Function
		for _, n := range []string{"Get", "GetID", "RangeGet", "Search", "GetI8", "GetI16", "GetI32", "GetI64"} {
			if m := p.Method(p.Trie, "SlimTrie", n); m != nil {
				roots = append(roots, m)
			}
		}
		reach := trieReach(roots...)
		var witnesses map[string]bool
		for _, d := range descents {
			if !reach[d] {
				continue
			}
			hasStep := false
			lcs := lookupCallsIn(d, lookups)
			for _, lc := range lcs {
				if len(stepAdvances(d, lc.cursor)) > 0 {
					hasStep = true
				}
			}
			if hasStep {
				continue
			}
			if witnesses == nil {
				witnesses = optionWitnesses(newBuilderFlow(p), "InnerPrefix")
			}
			var bad []string
			sites := 0
			for g := range reach {
				for _, c := range callsIn(g) {
					if calleeOf(c) != d {
						continue
					}
					sites++
					guarded := false
					for x := c.Block(); x != nil && !guarded; x = x.Idom() {
						id := x.Idom()
						if id == nil {
							break
						}
						iff, ok := lastInstr(id).(*ssa.If)
						if !ok || len(x.Preds) != 1 {
							continue
						}
						v, nilSucc, ok := nilTest(iff.Cond)
						if !ok || !witnesses[wirePathOf(v)] {
							continue
						}
						if id.Succs[1-nilSucc] == x {
							guarded = true
						}
					}
					if !guarded {
						bad = append(bad, "called from "+shortFn(g)+" at "+p.Pos(c.Pos()))
					}
				}
			}
			sort.Strings(bad)
			r.Func(shortFn(d))
			r.Check(len(bad) == 0 && sites > 0, "descent "+shortFn(d)+" without step handling", p.Pos(d.Pos()), fmt.Sprintf("each of its %d call(s) under the lookups is dominated by a non-nil witness of option InnerPrefix %v", sites, sortedKeys(witnesses)),
				"the descent never advances the cursor by a stored step length, and is "+strings.Join(firstN(dedupStrings(bad), 3), "; ")+" without a dominating test that inner prefixes are stored (witnesses "+strings.Join(sortedKeys(witnesses), ",")+"): on a trie built without InnerPrefix every key below a step is missed")
		}
		r.curRule = prevRule
	}
	// RangeGet / Search share the three-way descent (same obligation as C02.index)
	rg, se := p.Method(p.Trie, "SlimTrie", "RangeGet"), p.Method(p.Trie, "SlimTrie", "Search")
	if rg != nil && se != nil {
		shared := ""
		a := map[*ssa.Function]bool{}
		for _, c := range callsIn(rg) {
			if g := calleeOf(c); g != nil && trieScope(g) && g.Signature.Results().Len() == 3 {
				a[g] = true
			}
		}
		for _, c := range callsIn(se) {
			if g := calleeOf(c); g != nil && a[g] {
				shared = shortFn(g)
			}
		}
		r.Check(shared != "", "RangeGet and Search share one descent", p.Pos(rg.Pos()), "both call "+shared, "no common three-result descent")
	}
}

func usesValue(v ssa.Value, target ssa.Value) bool {
	seen := map[ssa.Value]bool{}
	var walk func(x ssa.Value, d int) bool
	walk = func(x ssa.Value, d int) bool {
		if x == target {
			return true
		}
		if seen[x] || d > 8 {
			return false
		}
		seen[x] = true
		if in, ok := x.(ssa.Instruction); ok {
			var ops []*ssa.Value
			for _, op := range in.Operands(ops) {
				if op != nil && *op != nil && walk(*op, d+1) {
					return true
				}
			}
		}
		return false
	}
	return walk(v, 0)
}

// phiClosure: the set of values connected to v through phis (the cursor variable).
func phiClosure(v ssa.Value) map[ssa.Value]bool {
	out := map[ssa.Value]bool{}
	var walk func(x ssa.Value)
	walk = func(x ssa.Value) {
		if out[x] {
			return
		}
		out[x] = true
		if ph, ok := x.(*ssa.Phi); ok {
			for _, e := range ph.Edges {
				walk(e)
			}
		}
		// follow arithmetic that keeps it a cursor: x = y + z, x = y & c + z
		if b, ok := x.(*ssa.BinOp); ok && (b.Op == token.ADD) {
			walk(b.X)
			walk(b.Y)
		}
		if b, ok := x.(*ssa.BinOp); ok && (b.Op == token.AND) {
			walk(b.X)
		}
		// the cursor handed to a helper that returns the advanced cursor ("i, r = qr.skipInnerPrefix(i)")
		if ch := cursorHelperOf(x); ch != nil {
			walk(ch.arg)
		}
	}
	walk(v)
	return out
}

// cursorHelper: x is result #k of a call of a loop-free trie function h whose result #k is, on every
// return, computed from its integer parameter prm (the cursor) by additions of session length fields
// and alignment masks: the call continues the cursor variable of the caller.
type cursorHelper struct {
	call *ssa.Call
	h    *ssa.Function
	prm  *ssa.Parameter
	arg  ssa.Value
	idx  int
}

func cursorHelperOf(x ssa.Value) *cursorHelper {
	idx := 0
	var call *ssa.Call
	switch y := x.(type) {
	case *ssa.Extract:
		call, _ = y.Tuple.(*ssa.Call)
		idx = y.Index
	case *ssa.Call:
		call = y
	}
	if call == nil {
		return nil
	}
	h := calleeOf(call)
	if h == nil || !trieScope(h) || len(h.Blocks) == 0 || hasLoop(h) {
		return nil
	}
	hasSess := false
	for _, prm := range h.Params {
		if isSessionPtr(prm) {
			hasSess = true
		}
	}
	if !hasSess {
		return nil
	}
	var found *ssa.Parameter
	for _, ret := range returnsOf(h) {
		if idx >= len(ret.Results) || !isIntType(ret.Results[idx].Type()) {
			return nil
		}
		// base of the returned value: strip "+ field", "& mask"
		var base func(v ssa.Value, d int) *ssa.Parameter
		base = func(v ssa.Value, d int) *ssa.Parameter {
			if d > 6 {
				return nil
			}
			switch z := v.(type) {
			case *ssa.Parameter:
				return z
			case *ssa.BinOp:
				if z.Op == token.ADD || z.Op == token.AND {
					if b := base(z.X, d+1); b != nil {
						return b
					}
					if z.Op == token.ADD {
						return base(z.Y, d+1)
					}
				}
			case *ssa.Phi:
				for _, ed := range z.Edges {
					if b := base(ed, d+1); b != nil {
						return b
					}
				}
			}
			return nil
		}
		b := base(ret.Results[idx], 0)
		if b == nil || !isIntType(b.Type()) || (found != nil && found != b) {
			return nil
		}
		found = b
	}
	if found == nil {
		return nil
	}
	for i, prm := range h.Params {
		if prm == found && i < len(call.Call.Args) {
			return &cursorHelper{call: call, h: h, prm: found, arg: call.Call.Args[i], idx: idx}
		}
	}
	return nil
}

// stepAdvance: an unaligned "cursor + stored step length"; carrier is the value that holds the advanced
// cursor in the descent itself (the addition, or the result of the helper call that contains it).
type stepAdvance struct {
	bin     *ssa.BinOp
	carrier ssa.Value
}

func (a stepAdvance) Pos() token.Pos { return a.bin.Pos() }

// stepAdvances: ADD instructions "cursor + <session length field>" where the
// cursor operand is not aligned by a mask (plain step mode), feeding cursor v.
func stepAdvances(f *ssa.Function, v ssa.Value) []stepAdvance {
	cl := phiClosure(v)
	var out []stepAdvance
	isLenField := func(y ssa.Value) bool {
		ld, ok := deref(y)
		if !ok {
			return false
		}
		_, fv, fa := fieldOfAddr(ld)
		return fa != nil && isSessionType(fa.X.Type()) && isIntType(fv.Type()) && fv.Name() == curSess.stepLen
	}
	unaligned := func(b *ssa.BinOp) bool {
		if b.Op != token.ADD {
			return false
		}
		var cur ssa.Value
		if isLenField(b.Y) {
			cur = b.X
		} else if isLenField(b.X) {
			cur = b.Y
		} else {
			return false
		}
		// aligned advance (prefix mode): cursor & ^7 + len — exempt (a prefix comparison precedes it)
		if m, ok := cur.(*ssa.BinOp); ok && m.Op == token.AND {
			return false
		}
		return true
	}
	for x := range cl {
		if b, ok := x.(*ssa.BinOp); ok && unaligned(b) {
			out = append(out, stepAdvance{b, b})
		}
		// inside a cursor helper: the additions that reach its returned cursor
		if ch := cursorHelperOf(x); ch != nil {
			for _, ret := range returnsOf(ch.h) {
				for y := range phiClosure(ret.Results[ch.idx]) {
					if b, ok := y.(*ssa.BinOp); ok && unaligned(b) {
						out = append(out, stepAdvance{b, x})
					}
				}
			}
		}
	}
	sort.Slice(out, func(i, j int) bool { return out[i].Pos() < out[j].Pos() })
	return out
}

// overrunGuarded: from the advance, every path (within the iteration) to the
// lookup call passes through a test of the advanced cursor against the key
// length with an exiting edge.
func overrunGuarded(p *Program, e *evaluator, f *ssa.Function, sa stepAdvance, lc lookupCall) string {
	// values that carry the advanced cursor
	adv := sa.carrier
	advBlock := func() *ssa.BasicBlock {
		if in, ok := adv.(ssa.Instruction); ok {
			return in.Block()
		}
		return f.Blocks[0]
	}()
	carries := map[ssa.Value]bool{adv: true}
	for _, b := range f.Blocks {
		for _, in := range b.Instrs {
			if ph, ok := in.(*ssa.Phi); ok {
				for _, ed := range ph.Edges {
					if ed == adv {
						carries[ph] = true
					}
				}
			}
		}
	}
	keyLen := func(t string) bool {
		return strings.HasPrefix(t, "conv:int32(mul(8,len(") || strings.HasPrefix(t, "mul(8,len(") || strings.HasSuffix(t, ".keyBitLen")
	}
	// guard blocks: If comparing a carrier with the key length, one edge leaves (does not reach the lookup)
	guards := map[*ssa.BasicBlock]bool{}
	for _, b := range f.Blocks {
		iff, ok := lastInstr(b).(*ssa.If)
		if !ok {
			continue
		}
		bo, ok := iff.Cond.(*ssa.BinOp)
		if !ok {
			continue
		}
		var other ssa.Value
		exceedSucc := -1
		switch {
		case carries[bo.X]:
			other = bo.Y
			switch bo.Op {
			case token.GTR, token.GEQ:
				exceedSucc = 0
			case token.LEQ, token.LSS:
				exceedSucc = 1
			}
		case carries[bo.Y]:
			other = bo.X
			switch bo.Op {
			case token.LSS, token.LEQ:
				exceedSucc = 0
			case token.GTR, token.GEQ:
				exceedSucc = 1
			}
		}
		if other == nil || exceedSucc < 0 || !keyLen(e.eval(other).String()) {
			continue
		}
		// the exceeding edge must not reach the lookup without passing the loop header again
		header := loopHeaderOf(lc.call.Block())
		rs := reachableFrom(b.Succs[exceedSucc], func(x *ssa.BasicBlock) bool { return x == header })
		if !rs[lc.call.Block()] {
			guards[b] = true
		}
	}
	if len(guards) == 0 {
		return "the cursor advanced by a stored step at " + p.Pos(sa.Pos()) + " is never compared with the key length before the label lookup at " + p.Pos(lc.call.Pos()) + ": a key shorter than the step matches labels beyond its end"
	}
	// every path adv -> lookup (not crossing the loop header) passes a guard
	header := loopHeaderOf(lc.call.Block())
	rs := reachableFrom(advBlock, func(x *ssa.BasicBlock) bool { return guards[x] || (x == header && x != advBlock) })
	if guards[advBlock] {
		return ""
	}
	if rs[lc.call.Block()] && !guards[lc.call.Block()] {
		// reachable without passing a guard?
		seen := map[*ssa.BasicBlock]bool{}
		var walk func(b *ssa.BasicBlock) bool
		walk = func(b *ssa.BasicBlock) bool {
			if seen[b] {
				return false
			}
			seen[b] = true
			if b == lc.call.Block() {
				return true
			}
			if guards[b] || (b == header && b != advBlock) {
				return false
			}
			// a branch on the session's "has a stored prefix" flag: on the side where it is true the advance
			// was not a step advance (a prefix comparison was made instead)
			skip := -1
			if iff, ok := lastInstr(b).(*ssa.If); ok && sa.carrier != ssa.Value(sa.bin) {
				c := iff.Cond
				neg := false
				for {
					if u, ok := c.(*ssa.UnOp); ok && u.Op == token.NOT {
						c, neg = u.X, !neg
						continue
					}
					break
				}
				if ld, ok := c.(*ssa.UnOp); ok && ld.Op == token.MUL {
					if _, fv, fa := fieldOfAddr(ld.X); fa != nil && isSessionPtr(fa.X) && isBoolType(fv.Type()) && stepFlagOf(sa) == fv.Name() {
						skip = 0
						if neg {
							skip = 1
						}
					}
				}
			}
			for si, s := range b.Succs {
				if si == skip {
					continue
				}
				if walk(s) {
					return true
				}
			}
			return false
		}
		if walk(advBlock) {
			return "a path from the step advance at " + p.Pos(sa.Pos()) + " reaches the label lookup at " + p.Pos(lc.call.Pos()) + " without a cursor-vs-key-length test"
		}
	}
	return ""
}

// cursorUpdates: normalised update terms of the cursor variable, with the
// cursor itself written CUR.
func cursorUpdates(p *Program, f *ssa.Function, v ssa.Value) []string {
	cl := phiClosure(v)
	e := newEval(p)
	set := map[string]bool{}
	// additions inside a cursor helper, its cursor parameter written CUR and its session SESSION
	for x := range cl {
		ch := cursorHelperOf(x)
		if ch == nil {
			continue
		}
		he := newEval(p)
		for _, ret := range returnsOf(ch.h) {
			for y := range phiClosure(ret.Results[ch.idx]) {
				b, ok := y.(*ssa.BinOp)
				if !ok || b.Op != token.ADD {
					continue
				}
				tt := mapSyms(he.eval(b), func(n string) string {
					if n == ch.prm.Name() {
						return "CUR"
					}
					for _, prm := range ch.h.Params {
						if isSessionPtr(prm) && strings.HasPrefix(n, prm.Name()+".") {
							return "SESSION." + strings.TrimPrefix(n, prm.Name()+".")
						}
					}
					return n
				})
				set[tt.String()] = true
			}
		}
	}
	for x := range cl {
		b, ok := x.(*ssa.BinOp)
		if !ok || b.Op != token.ADD {
			continue
		}
		phiNames := map[string]bool{}
		for y := range cl {
			if ph, ok := y.(*ssa.Phi); ok {
				phiNames[e.eval(ph).String()] = true
			}
		}
		tt := mapSyms(e.eval(b), func(n string) string {
			if phiNames[n] {
				return "CUR"
			}
			// the session may be a parameter (qr) or a local composite literal
			for _, pre := range []string{"local:complit.", "qr."} {
				if strings.HasPrefix(n, pre) {
					return "SESSION." + strings.TrimPrefix(n, pre)
				}
			}
			return n
		})
		t := tt.String()
		set[t] = true
	}
	return sortedKeys(set)
}

// checkEmptyGuard: every exported entry reaches dereferences of NodeTypeBM only under a nil guard.
func checkEmptyGuard(p *Program, r *Report) {
	isNTDeref := func(in ssa.Instruction) bool {
		// load of a field of the NodeTypeBM message, or passing its fields to a call
		if ld, ok := in.(*ssa.UnOp); ok && ld.Op == token.MUL {
			if _, _, fa := fieldOfAddr(ld.X); fa != nil && wirePathOf(fa.X) == "Slim.NodeTypeBM" {
				return true
			}
		}
		return false
	}
	// sentinel results: what a function returns on its own "bitmap is nil" branch
	sentinels := map[*ssa.Function]map[int]int64{}
	for _, f := range p.FuncsOf(triePath) {
		if f.Synthetic != "" || len(f.Blocks) == 0 {
			continue
		}
		iff, ok := lastInstr(f.Blocks[0]).(*ssa.If)
		if !ok {
			continue
		}
		x, nilSucc, ok := nilTest(iff.Cond)
		if !ok || wirePathOf(x) != "Slim.NodeTypeBM" {
			continue
		}
		ret, ok := lastInstr(f.Blocks[0].Succs[nilSucc]).(*ssa.Return)
		if !ok {
			continue
		}
		m := map[int]int64{}
		for i, res := range ret.Results {
			if c, ok := constInt(res); ok {
				m[i] = c
			}
		}
		if len(m) > 0 {
			sentinels[f] = m
		}
	}
	// a function that returns constants when a callee reports its empty-trie sentinel inherits a sentinel
	for round := 0; round < 3; round++ {
		for _, f := range p.FuncsOf(triePath) {
			if f.Synthetic != "" || len(f.Blocks) == 0 || sentinels[f] != nil {
				continue
			}
			for _, b := range f.Blocks {
				iff, ok := lastInstr(b).(*ssa.If)
				if !ok {
					continue
				}
				bo, ok := iff.Cond.(*ssa.BinOp)
				if !ok || (bo.Op != token.EQL && bo.Op != token.NEQ) {
					continue
				}
				c, okc := constInt(bo.Y)
				v := bo.X
				if !okc {
					continue
				}
				var call *ssa.Call
				idx := 0
				switch y := v.(type) {
				case *ssa.Call:
					call = y
				case *ssa.Extract:
					call, _ = y.Tuple.(*ssa.Call)
					idx = y.Index
				}
				if call == nil || sentinels[calleeOf(call)] == nil {
					continue
				}
				if sv, ok := sentinels[calleeOf(call)][idx]; !ok || sv != c {
					continue
				}
				eqSucc := 0
				if bo.Op == token.NEQ {
					eqSucc = 1
				}
				ret, ok := lastInstr(b.Succs[eqSucc]).(*ssa.Return)
				if !ok {
					continue
				}
				m := map[int]int64{}
				for i, res := range ret.Results {
					if cc, ok := constInt(res); ok {
						m[i] = cc
					}
				}
				if len(m) > 0 && b.Dominates(ret.Block()) {
					sentinels[f] = m
				}
				break
			}
		}
	}
	// a wrapper that returns a callee's results unchanged inherits its sentinel
	for round := 0; round < 3; round++ {
		for _, f := range p.FuncsOf(triePath) {
			if f.Synthetic != "" || len(f.Blocks) == 0 || sentinels[f] != nil {
				continue
			}
			rets := returnsOf(f)
			if len(rets) != 1 {
				continue
			}
			var call *ssa.Call
			same := true
			for i, res := range rets[0].Results {
				switch x := res.(type) {
				case *ssa.Call:
					if len(rets[0].Results) == 1 {
						call = x
					} else {
						same = false
					}
				case *ssa.Extract:
					c, _ := x.Tuple.(*ssa.Call)
					if c == nil || x.Index != i || (call != nil && call != c) {
						same = false
					}
					call = c
				default:
					same = false
				}
			}
			if same && call != nil && sentinels[calleeOf(call)] != nil {
				// the call must be unconditional (dominates the return)
				if call.Block().Dominates(rets[0].Block()) {
					sentinels[f] = sentinels[calleeOf(call)]
				}
			}
		}
	}
	guardedAt := func(f *ssa.Function, in ssa.Instruction) bool {
		for d := in.Block(); d != nil; d = d.Idom() {
			iff, ok := lastInstr(d).(*ssa.If)
			if !ok || d == in.Block() {
				continue
			}
			if x, nilSucc, ok := nilTest(iff.Cond); ok && wirePathOf(x) == "Slim.NodeTypeBM" {
				if !reachableFrom(d.Succs[nilSucc], nil)[in.Block()] {
					return true
				}
				continue
			}
			// correlated guard: result of a callee compared with the sentinel it returns for an empty trie
			bo, ok := iff.Cond.(*ssa.BinOp)
			if !ok || (bo.Op != token.EQL && bo.Op != token.NEQ) {
				continue
			}
			c, okc := constInt(bo.Y)
			v := bo.X
			if !okc {
				c, okc = constInt(bo.X)
				v = bo.Y
			}
			if !okc {
				continue
			}
			var call *ssa.Call
			idx := 0
			switch y := v.(type) {
			case *ssa.Call:
				call = y
			case *ssa.Extract:
				call, _ = y.Tuple.(*ssa.Call)
				idx = y.Index
			}
			if call == nil {
				continue
			}
			sm, ok := sentinels[calleeOf(call)]
			if !ok {
				continue
			}
			if sv, ok := sm[idx]; !ok || sv != c {
				continue
			}
			eqSucc := 0
			if bo.Op == token.NEQ {
				eqSucc = 1
			}
			if !reachableFrom(d.Succs[eqSucc], nil)[in.Block()] {
				return true
			}
		}
		return false
	}
	memo := map[*ssa.Function]int{} // 0 unknown, 1 needs guard, 2 safe
	var needs func(f *ssa.Function, depth int) (bool, string)
	needs = func(f *ssa.Function, depth int) (bool, string) {
		if f == nil || !trieScope(f) || len(f.Blocks) == 0 || depth > 8 {
			return false, ""
		}
		if m := memo[f]; m == 2 {
			return false, ""
		}
		memo[f] = 2 // cycle guard
		why := ""
		res := false
		instrsOf(f, func(_ *ssa.BasicBlock, in ssa.Instruction) {
			if res {
				return
			}
			if isNTDeref(in) && !guardedAt(f, in) {
				res = true
				why = "dereference at " + p.Pos(in.Pos()) + " in " + shortFn(f)
				return
			}
			if c, ok := in.(ssa.CallInstruction); ok {
				g := calleeOf(c)
				if g != nil && g != f && takesTrie(g) {
					if n, w := needs(g, depth+1); n && !guardedAt(f, in) {
						res = true
						why = w + " via call at " + p.Pos(c.Pos())
					}
				}
			}
			if mc, ok := in.(*ssa.MakeClosure); ok {
				if n, w := needs(mc.Fn.(*ssa.Function), depth+1); n && !guardedAt(f, in) {
					res = true
					why = w + " via closure created at " + p.Pos(mc.Pos())
				}
			}
		})
		if res {
			memo[f] = 1
		}
		return res, why
	}
	for _, n := range []string{"Get", "GetID", "RangeGet", "Search", "GetI8", "GetI16", "GetI32", "GetI64", "String", "Stat"} {
		f := p.Method(p.Trie, "SlimTrie", n)
		if f == nil {
			r.Unk("(*trie.SlimTrie)."+n+" on an empty trie", "", "anchor not found")
			continue
		}
		for k := range memo {
			delete(memo, k)
		}
		nd, why := needs(f, 0)
		r.Check(!nd, "(*trie.SlimTrie)."+n+" on an empty trie", p.Pos(f.Pos()), "every dereference of the node-type bitmap is dominated by a nil test with an early exit", "reaches an unguarded "+why)
	}
	// the derived-field initialisation runs on every load, including empty streams
	if f := p.Method(p.Trie, "SlimTrie", "init"); f != nil {
		for k := range memo {
			delete(memo, k)
		}
		nd, why := needs(f, 0)
		r.Check(!nd, "(*trie.SlimTrie).init on an empty trie", p.Pos(f.Pos()), "guarded", "reaches an unguarded "+why)
	}
	_ = types.Typ
}

func init() { checks["C10"] = checkC10 }

// checkLeafDecoder: on the paths of Get/RangeGet/Search the bytes of a leaf
// value are located only by a method of the leaf array (presence bitmap and
// fixed/variable width), never by indexing Leaves.Bytes with a multiple of the
// ordinal; the typed integer getters, whose values are dense and fixed-width
// by type, are the only functions that index Leaves.Bytes directly.
func checkLeafDecoder(p *Program, r *Report, rule string) {
	r.Rule(rule, "who-may-index", "leaf value bytes are located by the leaf array decoder on lookup paths", 1)
	var roots []*ssa.Function
	for _, n := range []string{"Get", "RangeGet", "Search"} {
		if f := p.Method(p.Trie, "SlimTrie", n); f != nil {
			roots = append(roots, f)
		}
	}
	if len(roots) != 3 {
		r.Unk("lookup API", "", "Get/RangeGet/Search not all found")
		return
	}
	var direct []string
	usesDecoder := false
	for f := range trieReach(roots...) {
		if !trieScope(f) {
			continue
		}
		instrsOf(f, func(_ *ssa.BasicBlock, in ssa.Instruction) {
			switch x := in.(type) {
			case *ssa.Slice:
				if wirePathOf(x.X) == "Slim.Leaves.Bytes" {
					direct = append(direct, p.Pos(x.Pos())+" ("+shortFn(f)+")")
				}
			case *ssa.IndexAddr:
				if wirePathOf(x.X) == "Slim.Leaves.Bytes" {
					direct = append(direct, p.Pos(x.Pos())+" ("+shortFn(f)+")")
				}
			case *ssa.Call:
				g := calleeOf(x)
				if g != nil && g.Signature.Recv() != nil && isNamed(g.Signature.Recv().Type(), triePath, "VLenArray") && len(x.Call.Args) > 0 && wirePathOf(x.Call.Args[0]) == "Slim.Leaves" {
					usesDecoder = true
				}
			}
		})
	}
	sort.Strings(direct)
	switch {
	case len(direct) > 0:
		r.Bad("Get/RangeGet/Search locate leaf bytes by the decoder", direct[0][:strings.Index(direct[0], " ")], "Leaves.Bytes is indexed directly at "+strings.Join(direct, ", ")+": the presence bitmap (empty values) and variable widths are bypassed, so a hit can carry another key's bytes or panic")
	case !usesDecoder:
		r.Unk("Get/RangeGet/Search locate leaf bytes by the decoder", "", "no call of a leaf array method on Slim.Leaves found on the lookup paths")
	default:
		r.OK("Get/RangeGet/Search locate leaf bytes by the decoder", "", "only through a method of the leaf array")
	}
}

func init() {
	controlFns["C10"] = func(fx *Program, r *Report) {
		controlNoRuneWalk(fx, r, "C10.bytes-not-runes")
		controlArrayBound(fx, r, "C10.array-bound")
		controlSignExtend(fx, r, "C10.sign-extend")
	}
}

// checkTailConsistent (C10.tail-consistent): the exact-match descent and the
// three-way descent agree on WHEN a leaf tail is compared. Each compares the
// rest of the key with the stored tail under some nil tests of message
// sections (today: LeafPrefixes != nil). If one of them adds a condition (only
// on tries that also store inner prefixes, say), Get and Search/RangeGet
// disagree on the exact-match answer in the modes in between.
func checkTailConsistent(p *Program, r *Report) {
	r.Rule("C10.tail-consistent", "E11", "both descents compare the leaf tail under the same section tests", 1)
	getID := p.Method(p.Trie, "SlimTrie", "GetID")
	search := p.Method(p.Trie, "SlimTrie", "Search")
	if getID == nil || search == nil {
		r.Unk("leaf tail tests", "", "GetID/Search not found")
		return
	}
	// section tests on paths whose condition or result involves a bytes comparison with the stored tail
	sectionTests := func(ps []fpath) (map[string]bool, int) {
		out := map[string]bool{}
		n := 0
		for _, fp := range ps {
			if fp.panics {
				continue
			}
			uses := false
			for _, c := range fp.pc {
				if strings.Contains(c, "call:bytes.") && strings.Contains(c, "leafPrefix") {
					uses = true
				}
				// string(leafPrefix) == key[i>>3:] : the same comparison without the bytes package
				if strings.Contains(c, "leafPrefix") && (strings.Contains(c, " == ") || strings.Contains(c, " != ")) && strings.Contains(c, "string(") {
					uses = true
				}
			}
			for _, res := range fp.results {
				if s := res.String(); strings.Contains(s, "call:bytes.") && strings.Contains(s, "leafPrefix") {
					uses = true
				}
			}
			if !uses {
				continue
			}
			n++
			for _, c := range fp.pc {
				if (strings.Contains(c, "Slim.LeafPrefixes") || strings.Contains(c, "Slim.InnerPrefixes")) && (strings.Contains(c, "!= nil") || strings.Contains(c, "(nil != ")) {
					out[c] = true
				}
			}
		}
		return out, n
	}
	// exact-match side: the tail of GetID (or GetID itself when the loop lives in a helper)
	var exact map[string]bool
	nExact := 0
	F := getID
	header, _, exits := descentLoop(p, F)
	if header == nil {
		if ps, why := flatten(p, getID, nil, trieScope); why == "" {
			exact, nExact = sectionTests(ps)
		}
	} else {
		exact = map[string]bool{}
		for _, ex := range exits {
			if ps, why := flattenFrom(p, F, ex, nil, trieScope); why == "" {
				m, n := sectionTests(ps)
				nExact += n
				for k := range m {
					exact[k] = true
				}
			}
		}
	}
	// three-way side: loop-free helpers under the three-way descent that compare the tail
	three := map[string]bool{}
	nThree := 0
	for f := range trieReach(search) {
		if !trieScope(f) || hasLoop(f) || len(f.Blocks) == 0 || trieReach(getID)[f] {
			continue
		}
		if ps, why := flatten(p, f, nil, trieScope); why == "" {
			m, n := sectionTests(ps)
			nThree += n
			for k := range m {
				three[k] = true
			}
		}
	}
	if nExact == 0 || nThree == 0 {
		r.Unk("leaf tail tests", p.Pos(getID.Pos()), fmt.Sprintf("tail comparisons found: exact-match descent %d, three-way descent %d (anchor not found)", nExact, nThree))
		return
	}
	a, b := strings.Join(sortedKeys(exact), " & "), strings.Join(sortedKeys(three), " & ")
	r.Check(a == b, "leaf tail compared under the same section tests", p.Pos(getID.Pos()), "both under ["+a+"]",
		"the exact-match descent compares the tail under ["+a+"], the three-way descent under ["+b+"]: in the modes where these differ Get and Search/RangeGet give different exact-match answers")
}

// stepFlagOf: for a step advance inside a cursor helper, the boolean session field whose false value
// governs the advance (the addition sits on the false side of a branch on a load of that field).
func stepFlagOf(sa stepAdvance) string {
	b := sa.bin.Block()
	for d := b; d != nil; d = d.Idom() {
		id := d.Idom()
		if id == nil {
			break
		}
		iff, ok := lastInstr(id).(*ssa.If)
		if !ok || len(d.Preds) != 1 {
			continue
		}
		c := iff.Cond
		neg := false
		for {
			if u, ok := c.(*ssa.UnOp); ok && u.Op == token.NOT {
				c, neg = u.X, !neg
				continue
			}
			break
		}
		ld, ok := c.(*ssa.UnOp)
		if !ok || ld.Op != token.MUL {
			continue
		}
		_, fv, fa := fieldOfAddr(ld.X)
		if fa == nil || !isSessionPtr(fa.X) || !isBoolType(fv.Type()) {
			continue
		}
		onFalse := id.Succs[1] == d
		if neg {
			onFalse = id.Succs[0] == d
		}
		if onFalse {
			return fv.Name()
		}
	}
	return ""
}
