package main

import (
	"fmt"
	"sort"
	"strings"

	"golang.org/x/tools/go/ssa"
)

func checkC20(p *Program, r *Report) {
	r.Explanation = "Decided for every input and every stream layout (no input is looked at): (load) no write effect reachable from (*SlimTrie).Unmarshal targets the backing array of its argument, and at the points-to fixpoint that array is not reachable from the receiver or from any package-level variable (not retained); (marshal) the slice returned by Marshal points only to memory allocated during the call and is not stored in the receiver; (build) no write effect reachable from NewSlimTrie targets the caller's key slice, value slice, option struct or the bools it points to. Whole-program inclusion-based points-to analysis with summaries for std/protobuf. (build retention) no object the caller can still write — key slice, value slice and what the values point to, option struct and flags — is in the contents closure of the trie NewSlimTrie returns; Encoder implementations of the analysed packages are followed, so an identity encoder carries the caller's value memory into whatever keeps encoded bytes without copying."
	r.NotCovered = "Aliasing inside protobuf's decoder is trusted (summary justified by reading table_unmarshal.go: byte fields are copied). Retention of immutable key string data by the builder is not a violation and is not checked."
	r.Trusted = []string{"go/packages, go/types, go/ssa (x/tools v0.29.0)", "external summary table e1_summ.go"}
	r.Assumptions = []string{"user-supplied Encoder implementations do not write their inputs", "golang/protobuf 1.3.1 Unmarshal copies []byte fields out of its input"}

	c20Load(p, r)
	c20Marshal(p, r)
	c20Build(p, r)
}

func describeWrites(p *Program, ws []WriteEffect) string {
	var s []string
	for _, w := range ws {
		s = append(s, fmt.Sprintf("%s: %s to %s in %s", p.Pos(w.Pos), w.What, w.Target, shortFn(w.Fn)))
	}
	return strings.Join(firstN(s, 6), "; ")
}

func describeExt(p *Program, xs []ExtCall) string {
	var s []string
	for _, x := range xs {
		s = append(s, fmt.Sprintf("%s: unsummarised external %s (%s)", p.Pos(x.Pos), x.Callee, x.Why))
	}
	return strings.Join(firstN(s, 6), "; ")
}

func c20Load(p *Program, r *Report) {
	r.Rule("C20.load", "E1", "Unmarshal neither writes nor retains its input buffer", 2)
	un := p.Method(p.Trie, "SlimTrie", "Unmarshal")
	if un == nil || len(un.Params) < 2 {
		r.Unk("(*trie.SlimTrie).Unmarshal", "", "anchor not found")
		return
	}
	a := newPts(p)
	a.tracked = func(o *aobj) bool { return o.kind == kParam }
	st := &aobj{kind: kRoot, name: "ST(receiver)"}
	buf := a.seedObj(kParam, "BUF(Unmarshal argument)")
	a.reachFn(un)
	a.add(un.Params[0], st)
	a.add(un.Params[1], buf)
	passes := a.solveWithClosures()
	r.Note("C20.load: fixpoint after %d passes, %d functions, %d writes examined", passes, len(a.reach), a.allWrites)
	for f := range a.reach {
		r.Func(shortFn(f))
	}
	r.CallSites += a.callSites
	ws, xs := a.sortedWrites(), a.sortedExt()
	name := "(*trie.SlimTrie).Unmarshal"
	switch {
	case len(ws) > 0:
		r.Bad(name+": input not written", p.Pos(un.Pos()), describeWrites(p, ws))
	case len(xs) > 0:
		r.Unk(name+": input not written", p.Pos(un.Pos()), describeExt(p, xs))
	default:
		r.OK(name+": input not written", p.Pos(un.Pos()), fmt.Sprintf("%d reachable functions, %d write effects, none targets BUF", len(a.reach), a.allWrites))
	}
	// retention: BUF reachable from the receiver or a global?
	roots := oset{st: true}
	for _, o := range a.objs {
		if o.kind == kGlobal && o.parent == nil {
			roots[o] = true
		}
	}
	retained := ""
	a.reachableObjs(roots, func(o *aobj, path string) bool {
		if o == buf {
			if retained == "" {
				retained = path
			}
			return false
		}
		return true
	})
	if retained != "" {
		r.Bad(name+": input not retained", p.Pos(un.Pos()), "the input buffer is reachable after the call: "+retained+whereStored(p, a, buf))
	} else {
		r.OK(name+": input not retained", p.Pos(un.Pos()), "BUF is not in the contents closure of the receiver or of any package-level variable")
	}
}

// whereStored lists the store instructions that put obj into a non-local object.
func whereStored(p *Program, a *ptsAnalysis, obj *aobj) string {
	var sites []string
	for f := range a.reach {
		instrsOf(f, func(_ *ssa.BasicBlock, in ssa.Instruction) {
			if s, ok := in.(*ssa.Store); ok && pointerLike(s.Val.Type()) {
				if a.val(s.Val)[obj] {
					for t := range a.val(s.Addr) {
						if t.kind == kRoot || t.kind == kExt || t.kind == kGlobal || t.kind == kShared {
							sites = append(sites, fmt.Sprintf("%s (%s)", p.Pos(s.Pos()), shortFn(f)))
							return
						}
					}
				}
			}
		})
	}
	sort.Strings(sites)
	if len(sites) == 0 {
		return ""
	}
	return "; stored at " + strings.Join(firstN(sites, 5), ", ")
}

func c20Marshal(p *Program, r *Report) { c20MarshalAs(p, r, "C20.marshal") }

func c20MarshalAs(p *Program, r *Report, rule string) {
	r.Rule(rule, "E1", "the slice returned by Marshal is freshly allocated, not pooled and not kept by the trie", 1)
	m := p.Method(p.Trie, "SlimTrie", "Marshal")
	if m == nil {
		r.Unk("(*trie.SlimTrie).Marshal", "", "anchor not found")
		return
	}
	a := newPts(p)
	shared := a.seedObj(kShared, "SHARED(*SlimTrie)")
	a.reachFn(m)
	a.add(m.Params[0], shared)
	a.solveWithClosures()
	for f := range a.reach {
		r.Func(shortFn(f))
	}
	r.CallSites += a.callSites
	var bad []string
	n := 0
	for _, ret := range returnsOf(m) {
		if len(ret.Results) == 0 {
			continue
		}
		for o := range a.val(ret.Results[0]) {
			n++
			if o.kind != kAlloc && o.kind != kExt {
				bad = append(bad, fmt.Sprintf("%s: result may point to %s", p.Pos(ret.Pos()), o))
			}
			// memory taken from a sync.Pool is exclusive only until it is Put back: bytes that live
			// in a pooled buffer are overwritten by a later call
			if strings.Contains(o.String(), "(*sync.Pool).Get") {
				bad = append(bad, fmt.Sprintf("%s: result may point into an object taken from a sync.Pool (%s): a later Marshal re-uses that memory", p.Pos(ret.Pos()), o))
			}
		}
	}
	// anything non-shared stored into shared memory = retained by the trie
	for o := range a.contents[shared] {
		if o != shared && o.kind != kFunc {
			bad = append(bad, fmt.Sprintf("object %s is stored into the receiver", o))
		}
	}
	sort.Strings(bad)
	if len(bad) > 0 {
		r.Bad("(*trie.SlimTrie).Marshal: result independent of the trie", p.Pos(m.Pos()), strings.Join(firstN(bad, 5), "; "))
	} else if n == 0 {
		r.Unk("(*trie.SlimTrie).Marshal: result independent of the trie", p.Pos(m.Pos()), "no allocation found for the result")
	} else {
		r.OK("(*trie.SlimTrie).Marshal: result independent of the trie", p.Pos(m.Pos()), fmt.Sprintf("result points to %d object(s), all allocated during the call; nothing stored into the receiver", n))
	}
}

func c20Build(p *Program, r *Report) {
	r.Rule("C20.build", "E1", "NewSlimTrie does not write the caller's keys, values, option struct or option bools", 1)
	f := p.Trie.Func("NewSlimTrie")
	if f == nil || len(f.Params) != 4 {
		r.Unk("trie.NewSlimTrie", "", "anchor not found or signature changed")
		return
	}
	a := newPts(p)
	a.tracked = func(o *aobj) bool { return o.kind == kParam }
	a.reachFn(f)
	names := []string{"ENC(encoder argument)", "KEYS(caller's key slice)", "VALUES(caller's value slice)", "OPTS(caller's option struct and bools)"}
	for i, prm := range f.Params {
		a.add(prm, a.seedObj(kParam, names[i]))
	}
	passes := a.solveWithClosures()
	r.Note("C20.build: fixpoint after %d passes, %d functions, %d writes examined", passes, len(a.reach), a.allWrites)
	for fn := range a.reach {
		r.Func(shortFn(fn))
	}
	r.CallSites += a.callSites
	ws, xs := a.sortedWrites(), a.sortedExt()
	switch {
	case len(ws) > 0:
		r.Bad("trie.NewSlimTrie: caller memory not written", p.Pos(f.Pos()), describeWrites(p, ws))
	case len(xs) > 0:
		r.Unk("trie.NewSlimTrie: caller memory not written", p.Pos(f.Pos()), describeExt(p, xs))
	default:
		r.OK("trie.NewSlimTrie: caller memory not written", p.Pos(f.Pos()), fmt.Sprintf("%d reachable functions, %d write effects, none targets KEYS/VALUES/OPTS/ENC", len(a.reach), a.allWrites))
	}
	// retention: nothing the caller can still write (the key slice, the value slice and what the
	// values point to, the option struct and its flags) is reachable from the returned trie.
	// Encoder implementations of the analysed packages are followed, so an identity encoder
	// (encode.Bytes returns its argument) carries the caller's value memory into whatever keeps
	// the encoded bytes without copying them.
	roots, retained := retainedParams(a, f)
	if len(roots) == 0 {
		r.Unk("trie.NewSlimTrie: caller memory not retained", p.Pos(f.Pos()), "no object found for the returned trie")
	} else if len(retained) > 0 {
		var s []string
		for k, v := range retained {
			s = append(s, k+" via "+abbreviate(v))
		}
		sort.Strings(s)
		r.Bad("trie.NewSlimTrie: caller memory not retained", p.Pos(f.Pos()), "the returned trie can reach memory the caller still owns: "+strings.Join(s, "; "))
	} else {
		r.OK("trie.NewSlimTrie: caller memory not retained", p.Pos(f.Pos()), fmt.Sprintf("contents closure of the %d returned object(s) contains no KEYS/VALUES/OPTS object", len(roots)))
	}
	// also the index constructor, which builds keys/offsets itself
	if g := p.Index.Func("NewSlimIndex"); g != nil && len(g.Params) == 2 {
		b := newPts(p)
		b.tracked = func(o *aobj) bool { return o.kind == kParam }
		b.reachFn(g)
		b.add(g.Params[0], b.seedObj(kParam, "ITEMS(caller's index items)"))
		b.add(g.Params[1], b.seedObj(kParam, "READER(caller's data reader)"))
		b.solveWithClosures()
		ws, xs := b.sortedWrites(), b.sortedExt()
		switch {
		case len(ws) > 0:
			r.Bad("index.NewSlimIndex: caller memory not written", p.Pos(g.Pos()), describeWrites(p, ws))
		case len(xs) > 0:
			r.Unk("index.NewSlimIndex: caller memory not written", p.Pos(g.Pos()), describeExt(p, xs))
		default:
			r.OK("index.NewSlimIndex: caller memory not written", p.Pos(g.Pos()), fmt.Sprintf("%d reachable functions, none writes the caller's items", len(b.reach)))
		}
	}
}

func init() { checks["C20"] = checkC20 }

// retainedParams: caller-owned (kParam, other than the encoder) objects in the
// contents closure of what f returns.
func retainedParams(a *ptsAnalysis, f *ssa.Function) (oset, map[string]string) {
	roots := oset{}
	for _, ret := range returnsOf(f) {
		if len(ret.Results) > 0 {
			for o := range a.val(ret.Results[0]) {
				roots[o] = true
			}
		}
	}
	retained := map[string]string{}
	a.reachableObjs(roots, func(o *aobj, path string) bool {
		top := o
		for top.parent != nil {
			top = top.parent
		}
		if top.kind == kParam && !strings.HasPrefix(top.name, "ENC") {
			if _, dup := retained[top.name]; !dup {
				retained[top.name] = path
			}
			return false
		}
		return true
	})
	return roots, retained
}

func controlC20(fx *Program, r *Report) {
	pkg := fx.FxPkg("aliasing")
	if pkg == nil {
		r.Control("C20", "fixtures/aliasing", false, "fixture package not loaded")
		return
	}
	for _, tc := range []struct {
		m    string
		want bool
	}{{"LoadZeroCopy", true}, {"LoadInPlace", true}, {"LoadCopy", false}} {
		f := fx.Method(pkg, "T", tc.m)
		if f == nil {
			r.Control("C20.load", "aliasing."+tc.m, false, "method not found")
			continue
		}
		a := newPts(fx)
		a.tracked = func(o *aobj) bool { return o.kind == kParam }
		st := &aobj{kind: kRoot, name: "ST"}
		buf := a.seedObj(kParam, "BUF")
		a.reachFn(f)
		a.add(f.Params[0], st)
		a.add(f.Params[1], buf)
		a.solveWithClosures()
		retained := false
		a.reachableObjs(oset{st: true}, func(o *aobj, _ string) bool {
			if o == buf {
				retained = true
				return false
			}
			return true
		})
		got := len(a.writes) > 0 || retained
		r.Control("C20.load", "aliasing."+tc.m, got == tc.want, fmt.Sprintf("expected flagged=%v: %d write(s) to BUF, retained=%v", tc.want, len(a.writes), retained))
	}
	for _, tc := range []struct {
		fn   string
		want bool
	}{{"BuildSorting", true}, {"BuildNormalizing", true}, {"BuildClean", false}} {
		f := pkg.Func(tc.fn)
		if f == nil {
			r.Control("C20.build", "aliasing."+tc.fn, false, "function not found")
			continue
		}
		a := newPts(fx)
		a.tracked = func(o *aobj) bool { return o.kind == kParam }
		a.reachFn(f)
		a.add(f.Params[0], a.seedObj(kParam, "KEYS"))
		a.add(f.Params[1], a.seedObj(kParam, "OPTS"))
		a.solveWithClosures()
		r.Control("C20.build", "aliasing."+tc.fn, (len(a.writes) > 0) == tc.want, fmt.Sprintf("expected flagged=%v: %d write(s) to caller memory", tc.want, len(a.writes)))
	}
	for _, tc := range []struct {
		fn   string
		want bool
	}{{"BuildKeepingValues", true}, {"BuildCopyingValues", false}} {
		f := pkg.Func(tc.fn)
		if f == nil {
			r.Control("C20.build", "aliasing."+tc.fn, false, "function not found")
			continue
		}
		a := newPts(fx)
		a.tracked = func(o *aobj) bool { return o.kind == kParam }
		a.reachFn(f)
		a.add(f.Params[0], a.seedObj(kParam, "ENC"))
		a.add(f.Params[1], a.seedObj(kParam, "VALUES"))
		a.solveWithClosures()
		_, retained := retainedParams(a, f)
		r.Control("C20.build", "aliasing."+tc.fn, (len(retained) > 0) == tc.want, fmt.Sprintf("expected flagged=%v: retained %v", tc.want, retained))
	}
}

func init() { controlFns["C20"] = controlC20 }
