package main

import (
	"fmt"
	"go/token"
	"go/types"
	"sort"
	"strings"

	"golang.org/x/tools/go/ssa"
)

// addends splits an or/add term into (coefficient, rest) pairs.
func addends(t *term) map[string]int64 {
	out := map[string]int64{}
	var parts []*term
	if t.op == "or" || t.op == "add" {
		parts = t.args
	} else {
		parts = []*term{t}
	}
	for _, x := range parts {
		k, rest := splitCoef(x)
		if rest == nil {
			out["#const"] += k
			continue
		}
		out[rest.String()] += k
	}
	return out
}

func keyParamOf(f *ssa.Function) *ssa.Parameter {
	for _, prm := range f.Params {
		if isStringType(prm.Type()) {
			return prm
		}
	}
	return nil
}

// getterSummary is the guarded summary (E11) of a "found iff the id lookup
// succeeds" accessor with its receiver and key renamed to ST and KEY, helpers
// of package trie expanded in place.
type getterSummary struct {
	nf    []fpath // paths answering found=false
	found []fpath // paths answering found=true
	why   string
}

// idFn, when given, is kept opaque (not expanded): the answer is judged relative to its result.
func summariseGetter(p *Program, f *ssa.Function, idFn *ssa.Function) getterSummary {
	var gs getterSummary
	key := keyParamOf(f)
	if key == nil || len(f.Params) < 2 {
		gs.why = "no key parameter"
		return gs
	}
	bind := map[ssa.Value]*term{f.Params[0]: S("ST"), key: S("KEY")}
	ps, why := flatten(p, f, bind, func(g *ssa.Function) bool { return trieScope(g) && g != idFn })
	if why != "" {
		gs.why = "cannot be summarised: " + why
		return gs
	}
	for _, fp := range ps {
		if fp.panics {
			continue
		}
		if len(fp.results) != 2 {
			gs.why = "does not return (value, found)"
			return gs
		}
		switch fp.results[1].String() {
		case "false":
			gs.nf = append(gs.nf, fp)
		case "true":
			gs.found = append(gs.found, fp)
		default:
			gs.why = "the found flag " + abbreviate(fp.results[1].String()) + " is not a constant on the path [" + abbreviate(fp.pcKey()) + "]"
			return gs
		}
	}
	if len(gs.nf) == 0 || len(gs.found) == 0 {
		gs.why = fmt.Sprintf("%d not-found and %d found paths, want at least one each", len(gs.nf), len(gs.found))
	}
	return gs
}

// idTermOfGet: the term X of Get's not-found condition (-1 == X), when all its
// not-found answers are given under exactly one such condition on the key.
func idTermOfGet(gs getterSummary) string {
	x := ""
	for _, fp := range gs.nf {
		pc := dedupStrings(append([]string{}, fp.pc...))
		if len(pc) != 1 {
			return ""
		}
		a, op, b, ok := splitCond(pc[0])
		if !ok || op != "==" || a != "-1" || !strings.Contains(b, "KEY") {
			return ""
		}
		if x != "" && x != b {
			return ""
		}
		x = b
	}
	return x
}

// inlineWith evaluates the results of a single-block side-effect-free function with its parameters bound.
func inlineWith(p *Program, h *ssa.Function, args []*term) []*term {
	if len(h.Blocks) != 1 || len(args) != len(h.Params) {
		return nil
	}
	for _, in := range h.Blocks[0].Instrs {
		switch in.(type) {
		case *ssa.Store, *ssa.MapUpdate, *ssa.Panic, *ssa.Defer, *ssa.Go:
			return nil
		}
	}
	sub := newEval(p)
	for i, prm := range h.Params {
		sub.env[prm] = args[i]
	}
	ret, ok := lastInstr(h.Blocks[0]).(*ssa.Return)
	if !ok {
		return nil
	}
	var out []*term
	for _, r := range ret.Results {
		out = append(out, sub.eval(r))
	}
	return out
}

// recordResultFields: h is a single-block function whose only result is a record built in a literal
// (stores into the fields of one local, then the local is returned by value): the terms of its int32
// fields over the given arguments, in field order.
func recordResultFields(p *Program, h *ssa.Function, args []*term) []*term {
	if len(h.Blocks) != 1 || len(args) != len(h.Params) {
		return nil
	}
	ret, ok := lastInstr(h.Blocks[0]).(*ssa.Return)
	if !ok || len(ret.Results) != 1 {
		return nil
	}
	ld, ok := ret.Results[0].(*ssa.UnOp)
	if !ok || ld.Op != token.MUL {
		return nil
	}
	lit, ok := ld.X.(*ssa.Alloc)
	if !ok {
		return nil
	}
	st, ok := lit.Type().Underlying().(*types.Pointer).Elem().Underlying().(*types.Struct)
	if !ok {
		return nil
	}
	sub := newEval(p)
	for i, prm := range h.Params {
		sub.env[prm] = args[i]
	}
	vals := map[int]*term{}
	for _, in := range h.Blocks[0].Instrs {
		switch x := in.(type) {
		case *ssa.Store:
			fa, ok := x.Addr.(*ssa.FieldAddr)
			if !ok || fa.X != ssa.Value(lit) {
				return nil
			}
			if _, dup := vals[fa.Field]; dup {
				return nil
			}
			vals[fa.Field] = sub.eval(x.Val)
		case *ssa.MapUpdate, *ssa.Panic, *ssa.Defer, *ssa.Go:
			return nil
		}
	}
	var out []*term
	for fi := 0; fi < st.NumFields(); fi++ {
		if t, ok := vals[fi]; ok && types.Identical(st.Field(fi).Type(), types.Typ[types.Int32]) {
			out = append(out, t)
		}
	}
	return out
}

func checkC14(p *Program, r *Report) {
	r.Explanation = "Decided for every query string and every trie, on the guarded summaries (E11) of the accessors with helpers of package trie expanded: (found) each GetI8/16/32/64 and Get look the key up with the same id function; every not-found answer is given under exactly the condition id == -1 and is (0,false), every found answer under id != -1 and nothing else — so the found flags are identical to Get's; (ordinal) the byte offset of the value is W times the leaf ordinal that a function on Get's own value path computes from that id; (layout) the value returned normalises to the little-endian assembly sum over j<W of byte[W*ordinal+j]*2^(8j) of Leaves.Bytes with W = Sizeof(intW), each byte once and no byte outside the element read, with no bits shifted out of a narrower type, and W is the constant size of the matching encoder encode.I{8W}."
	r.NotCovered = "That Leaves of an integer-valued trie is dense and fixed-size (true by newVLenArray for non-empty fixed-width values, a data fact)."
	r.Trusted = []string{"go/ssa", "go/types Sizes"}
	get := p.Method(p.Trie, "SlimTrie", "Get")
	// the id function is whatever Get itself uses on its key (GetID today): the typed
	// getters must use the same one, so a consistent refactoring of both is accepted
	getID := p.Method(p.Trie, "SlimTrie", "GetID")
	if get != nil {
		for _, c := range callsIn(get) {
			if call, ok := c.(*ssa.Call); ok && calleeOf(call) != nil && trieScope(calleeOf(call)) && len(call.Call.Args) == 2 &&
				isStringType(call.Call.Args[1].Type()) && types.Identical(call.Type(), types.Typ[types.Int32]) {
				if _, isParam := call.Call.Args[1].(*ssa.Parameter); isParam {
					getID = calleeOf(call)
				}
			}
		}
	}
	r.Rule("C14.found", "E11", "found flag: not-found iff the id lookup of the key yields -1, as in Get", 5)
	if getID == nil || get == nil {
		r.Unk("(*trie.SlimTrie).Get/GetID", "", "anchor not found")
		return
	}
	gSum := summariseGetter(p, get, getID)
	// the id term is whatever Get's own not-found answer tests against -1 (GetID(key) today, or what
	// it expands to when GetID is a thin wrapper)
	idS := idTermOfGet(gSum)
	if idS == "" {
		idS = ON("call", funcID(getID), S("ST"), S("KEY")).String()
	}
	idT := S(idS)
	nfCond, fCond := "(-1 == "+idS+")", "(-1 != "+idS+")"
	// judge: every not-found path is exactly [id == -1]; every found path carries id != -1
	judge := func(gs getterSummary, strictFound bool, zero string) []string {
		var bad []string
		for _, fp := range gs.nf {
			pc := dedupStrings(append([]string{}, fp.pc...))
			if len(pc) != 1 || pc[0] != nfCond {
				bad = append(bad, "answers not-found under ["+abbreviate(fp.pcKey())+"], want exactly "+abbreviate(nfCond))
			}
			if zero != "" && fp.results[0].String() != zero {
				bad = append(bad, "the not-found value is "+abbreviate(fp.results[0].String())+", want "+zero)
			}
		}
		for _, fp := range gs.found {
			has := false
			var other []string
			for _, c := range dedupStrings(append([]string{}, fp.pc...)) {
				if c == fCond {
					has = true
				} else {
					other = append(other, c)
				}
			}
			if !has {
				bad = append(bad, "answers found under ["+abbreviate(fp.pcKey())+"], which does not include "+abbreviate(fCond))
			}
			if strictFound && len(other) > 0 {
				bad = append(bad, "the found answer also depends on ["+abbreviate(strings.Join(other, " & "))+"], which Get does not test")
			}
		}
		return dedupStrings(sortStr(bad))
	}
	if gSum.why != "" {
		r.Bad("(*trie.SlimTrie).Get", p.Pos(get.Pos()), gSum.why)
	} else {
		bad := judge(gSum, false, "")
		r.Check(len(bad) == 0, "(*trie.SlimTrie).Get", p.Pos(get.Pos()), "not-found iff "+shortFn(getID)+"(key) == -1", strings.Join(bad, "; "))
	}
	getReach := trieReach(get)
	type res struct {
		f   *ssa.Function
		sum getterSummary
		w   int64
	}
	var getters []res
	for _, n := range []int{8, 16, 32, 64} {
		name := fmt.Sprintf("GetI%d", n)
		f := p.Method(p.Trie, "SlimTrie", name)
		if f == nil {
			r.Unk("(*trie.SlimTrie)."+name, "", "anchor not found")
			continue
		}
		r.Func(shortFn(f))
		sum := summariseGetter(p, f, getID)
		if sum.why != "" {
			r.Bad("(*trie.SlimTrie)."+name, p.Pos(f.Pos()), sum.why)
			continue
		}
		bad := judge(sum, true, "0")
		r.Check(len(bad) == 0, "(*trie.SlimTrie)."+name, p.Pos(f.Pos()), "returns (0,false) exactly when "+shortFn(getID)+"(key) == -1, else (v,true); same test as Get", strings.Join(bad, "; "))
		w := p.Sizes.Sizeof(f.Signature.Results().At(0).Type())
		getters = append(getters, res{f, sum, w})
	}

	// candidate ordinals: what a single-block function on Get's value path computes from the id
	type cand struct {
		h *ssa.Function
		t *term
	}
	var cands []cand
	var hs []*ssa.Function
	for h := range getReach {
		hs = append(hs, h)
	}
	sort.Slice(hs, func(i, j int) bool { return hs[i].String() < hs[j].String() })
	for _, h := range hs {
		if len(h.Blocks) != 1 || len(h.Params) != 2 || !types.Identical(h.Params[1].Type(), types.Typ[types.Int32]) {
			continue
		}
		rs := h.Signature.Results()
		if rs.Len() == 1 {
			// a record constructor (leafRefOf(id) leafRef{ordinal, typeBit}): each int32 field is a candidate
			for _, t := range recordResultFields(p, h, []*term{S("ST"), idT}) {
				cands = append(cands, cand{h, t})
			}
		}
		if rs.Len() == 0 || !types.Identical(rs.At(0).Type(), types.Typ[types.Int32]) {
			continue
		}
		if out := inlineWith(p, h, []*term{S("ST"), idT}); len(out) > 0 {
			cands = append(cands, cand{h, out[0]})
		}
	}
	r.Rule("C14.ordinal", "E6", "the leaf ordinal is the one a function on Get's value path computes from the id", 4)
	r.Rule("C14.layout", "E6+types", "value = little-endian assembly of W bytes at W*ordinal", 4)
	for _, g := range getters {
		name := "(*trie.SlimTrie)." + g.f.Name()
		r.curRule = r.Rules[len(r.Rules)-2]
		if len(g.sum.found) != 1 {
			r.Bad(name+" ordinal", p.Pos(g.f.Pos()), fmt.Sprintf("%d found paths, want one", len(g.sum.found)))
			continue
		}
		val := g.sum.found[0].results[0]
		got := addends(val)
		// which candidate ordinal explains the byte of weight 1?
		var T *term
		var via *ssa.Function
		for _, c := range cands {
			b0 := ON("idx", "", S("Slim.Leaves.Bytes"), O("add", mulTerms(K(g.w), c.t), K(0)))
			if got[b0.String()] == 1 {
				T, via = c.t, c.h
				break
			}
		}
		if T == nil {
			var names []string
			for _, c := range cands {
				names = append(names, shortFn(c.h))
			}
			r.Bad(name+" ordinal", p.Pos(g.f.Pos()), fmt.Sprintf("the low byte of the value is not Leaves.Bytes[%d*ordinal] for the ordinal any of %v computes from the id: the getter and Get may locate different leaves (value %s)", g.w, names, abbreviate(val.String())))
			continue
		}
		r.OK(name+" ordinal", p.Pos(g.f.Pos()), "ordinal as computed by "+shortFn(via)+", which Get's value path also uses")
		r.curRule = r.Rules[len(r.Rules)-1]
		want := map[string]int64{}
		for j := int64(0); j < g.w; j++ {
			idx := O("add", mulTerms(K(g.w), T), K(j))
			bt := ON("idx", "", S("Slim.Leaves.Bytes"), idx)
			want[bt.String()] = int64(1) << uint(8*j)
		}
		ok := len(got) == len(want)
		for k, c := range want {
			// the top byte of a signed 64-bit value has coefficient 2^56 (no overflow in int64 terms)
			if got[k] != c {
				ok = false
			}
		}
		detail := ""
		if !ok {
			var gs, ws []string
			for k, c := range got {
				gs = append(gs, fmt.Sprintf("%d*%s", c, abbreviate(k)))
			}
			for k, c := range want {
				ws = append(ws, fmt.Sprintf("%d*%s", c, abbreviate(k)))
			}
			sort.Strings(gs)
			sort.Strings(ws)
			detail = fmt.Sprintf("value is {%s}, want the %d-byte little-endian assembly {%s} with T the leaf ordinal", strings.Join(gs, " + "), g.w, strings.Join(ws, " + "))
		}
		r.Check(ok, name+" layout", p.Pos(g.f.Pos()), fmt.Sprintf("sum over j<%d of Leaves.Bytes[%d*ordinal+j] * 2^(8j)", g.w, g.w), detail)
		// width agrees with the encoder
		encName := "I" + fmt.Sprint(8*g.w)
		if gs := p.ValueMethod(p.Enc, encName, "GetEncodedSize"); gs != nil {
			ee := newEval(p)
			rets := returnsOf(gs)
			sz := ""
			if len(rets) == 1 {
				sz = ee.eval(rets[0].Results[0]).String()
			}
			r.Check(sz == fmt.Sprint(g.w), name+" width = encode."+encName+" size", p.Pos(gs.Pos()), "both "+fmt.Sprint(g.w)+" bytes", "encoder size "+sz+" differs from getter width "+fmt.Sprint(g.w))
		} else {
			r.Unk(name+" width = encode."+encName+" size", "", "encoder not found")
		}
	}
	// Get decodes with the trie's encoder: the comparison with Get presupposes that codec's round trip
	checkCodecsAs(p, r, "C14")
	// "including loaded tries": a legacy presence bitmap assembled by hand must not trim its last word
	// with mask(n&63) unguarded, or the leaf ordinals of the getters and of Get shift together with it
	r.Explanation += " (trim) bitmap words assembled by hand under Unmarshal are not trimmed with an unguarded mask(n&63)."
	checkMaskTrim(p, r, "C14.trim", underUnmarshal(p))
	// "including loaded tries": every compatible version is routed to the loader family of its layout, so
	// that Get and the typed getters read the same leaf array after a load (rule shared with C06)
	r.Explanation += " (load-routing) each compatible version is routed to the loader and fix-ups of its layout (rule shared with C06)."
	borrowRule(p, r, checkC06, "C06.routing", "C14.load-routing")
}

// abbreviate shortens long terms for messages by replacing the ordinal.
func abbreviate(s string) string {
	if len(s) > 90 {
		return s[:40] + "…" + s[len(s)-40:]
	}
	return s
}

func init() { checks["C14"] = checkC14 }
