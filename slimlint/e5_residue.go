package main

// E5 — definite reassignment of receiver state (kill-before-use).
//
// Forward must-analysis over the CFG (specialised per version by folding the
// version predicates, see E4), interprocedural through summaries: for a method
// of *SlimTrie and each field f, on every path to a success return f is stored
// before any load of st.f that can observe the pre-call value. A load whose
// only use is a zero-length reslice (st.f[:0]) exposes no old content and is
// accepted.

import (
	"fmt"
	"go/token"
	"sort"

	"golang.org/x/tools/go/ssa"
)

type resSummary struct {
	must  map[string]bool        // fields definitely stored on every normal (success) return
	early map[string][]token.Pos // loads of a field that may observe the pre-call value
	rets  int
}

type resEngine struct {
	ve     *versEngine
	ver    string
	memo   map[string]*resSummary
	active map[string]bool
}

func newResEngine(ve *versEngine, ver string) *resEngine {
	return &resEngine{ve: ve, ver: ver, memo: map[string]*resSummary{}, active: map[string]bool{}}
}

// onlyZeroReslice: the loaded value is used only as x[:0].
func onlyZeroReslice(ld *ssa.UnOp) bool {
	refs := ld.Referrers()
	if refs == nil || len(*refs) == 0 {
		return false
	}
	for _, r := range *refs {
		sl, ok := r.(*ssa.Slice)
		if !ok || sl.X != ld {
			if _, isDbg := r.(*ssa.DebugRef); isDbg {
				continue
			}
			return false
		}
		if sl.High == nil {
			return false
		}
		if h, ok := constInt(sl.High); !ok || h != 0 {
			return false
		}
		if sl.Low != nil {
			if l, ok := constInt(sl.Low); !ok || l != 0 {
				return false
			}
		}
	}
	return true
}

type fstate map[string]bool // killed fields

func (s fstate) clone() fstate {
	c := fstate{}
	for k, v := range s {
		c[k] = v
	}
	return c
}

// summarize analyses fn; fr gives which values are the trie and the version;
// successOnly: count only returns whose error result is the nil constant.
func (re *resEngine) summarize(fr *vframe, successOnly bool, fields []string) *resSummary {
	key := fmt.Sprintf("%p|%v|%v|%v", fr.fn, paramIdx(fr.fn, fr.stVals), paramIdx(fr.fn, fr.verVals), successOnly)
	if s, ok := re.memo[key]; ok {
		return s
	}
	sum := &resSummary{must: map[string]bool{}, early: map[string][]token.Pos{}}
	if re.active[key] {
		return sum // recursion: assume nothing
	}
	re.active[key] = true
	defer func() { re.active[key] = false }()

	fn := fr.fn
	// a receiver captured by a closure lives in a cell of this function: loads of the cell are the trie too
	for _, b := range fn.Blocks {
		for _, ins := range b.Instrs {
			sto, ok := ins.(*ssa.Store)
			if !ok || !fr.stVals[sto.Val] {
				continue
			}
			al, ok := sto.Addr.(*ssa.Alloc)
			if !ok || al.Referrers() == nil {
				continue
			}
			for _, ref := range *al.Referrers() {
				if ld, ok := ref.(*ssa.UnOp); ok && ld.Op == token.MUL && ld.X == ssa.Value(al) {
					fr.stVals[ld] = true
				}
			}
		}
	}
	n := len(fn.Blocks)
	in := make([]fstate, n)
	reached := make([]bool, n)
	top := func() fstate {
		s := fstate{}
		for _, f := range fields {
			s[f] = true
		}
		return s
	}
	for i := range in {
		in[i] = top()
	}
	in[0] = fstate{}
	reached[0] = true
	earlySet := map[string]map[token.Pos]bool{}
	addEarly := func(f string, p token.Pos) {
		if earlySet[f] == nil {
			earlySet[f] = map[token.Pos]bool{}
		}
		earlySet[f][p] = true
	}
	// loops over constant tables of functions ("for _, step := range initSteps { step(st) }"): the body
	// runs once per entry, so on entering such a loop every entry's function has been called by the time
	// the loop is left. The must-effects of all entries are applied on the entry edge of the loop header
	// when the call is unconditional in the body.
	tableLoops := map[*ssa.BasicBlock][]*resSummary{}
	for _, b := range fn.Blocks {
		for _, instr := range b.Instrs {
			c, ok := instr.(*ssa.Call)
			if !ok || calleeOf(c) != nil || c.Call.IsInvoke() {
				continue
			}
			targets := tableCallTargets(c.Call.Value)
			if len(targets) == 0 {
				continue
			}
			header := loopHeaderOf(b)
			if header == nil {
				continue
			}
			uncond := true
			for i := range header.Preds {
				if header.Dominates(header.Preds[i]) && !b.Dominates(header.Preds[i]) {
					uncond = false
				}
			}
			if !uncond {
				continue
			}
			for _, g := range targets {
				if !inSlim(g) || len(g.Blocks) == 0 {
					continue
				}
				nf := &vframe{fn: g, verVals: map[ssa.Value]bool{}, stVals: map[ssa.Value]bool{}}
				any := false
				for pi, prm := range g.Params {
					if pi < len(c.Call.Args) && fr.stVals[c.Call.Args[pi]] {
						nf.stVals[prm] = true
						any = true
					}
				}
				if any {
					tableLoops[header] = append(tableLoops[header], re.summarize(nf, false, fields))
				}
			}
		}
	}
	var retStates []fstate
	work := []int{0}
	inWork := map[int]bool{0: true}
	iter := 0
	for len(work) > 0 {
		iter++
		if iter > 10000 {
			break
		}
		bi := work[0]
		work = work[1:]
		inWork[bi] = false
		b := fn.Blocks[bi]
		st := in[bi].clone()
		var succs []*ssa.BasicBlock
		for _, instr := range b.Instrs {
			switch x := instr.(type) {
			case *ssa.UnOp:
				if x.Op == token.MUL {
					if _, fv, fa := fieldOfAddr(x.X); fa != nil && fr.stVals[fa.X] {
						if !st[fv.Name()] && !onlyZeroReslice(x) {
							addEarly(fv.Name(), x.Pos())
						}
					}
				}
			case *ssa.Store:
				if _, fv, fa := fieldOfAddr(x.Addr); fa != nil && fr.stVals[fa.X] {
					st[fv.Name()] = true
				}
			case *ssa.Call:
				g := calleeOf(x)
				if g == nil || !inSlim(g) || len(g.Blocks) == 0 {
					break
				}
				nf := &vframe{fn: g, verVals: map[ssa.Value]bool{}, stVals: map[ssa.Value]bool{}}
				any := false
				for pi, prm := range g.Params {
					if pi < len(x.Call.Args) {
						if fr.stVals[x.Call.Args[pi]] {
							nf.stVals[prm] = true
							any = true
						}
						if fr.verVals[x.Call.Args[pi]] {
							nf.verVals[prm] = true
						}
					}
				}
				// a closure of the caller that captured the trie ("enterLevel := func(..) { st.levels = append(..) }")
				if mc, isMC := x.Call.Value.(*ssa.MakeClosure); isMC {
					for bi, bnd := range mc.Bindings {
						if bi >= len(g.FreeVars) {
							break
						}
						captured := fr.stVals[bnd]
						byRef := false
						if al, isAl := bnd.(*ssa.Alloc); isAl && al.Referrers() != nil {
							for _, ref := range *al.Referrers() {
								if sto, ok := ref.(*ssa.Store); ok && sto.Addr == ssa.Value(al) && fr.stVals[sto.Val] {
									captured, byRef = true, true
								}
							}
						}
						if !captured {
							continue
						}
						any = true
						fv := g.FreeVars[bi]
						if !byRef {
							nf.stVals[fv] = true
							continue
						}
						instrsOf(g, func(_ *ssa.BasicBlock, gi ssa.Instruction) {
							if ld, ok := gi.(*ssa.UnOp); ok && ld.Op == token.MUL && ld.X == ssa.Value(fv) {
								nf.stVals[ld] = true
							}
						})
					}
				}
				if !any {
					break
				}
				markVersionValues(g, nf.verVals)
				// a callee whose last result is an error contributes what it guarantees on its success
				// returns: callers proceed only on err == nil (ignoring the error of a read helper is
				// reported by C07.errors)
				subSuccess := false
				if rs := g.Signature.Results(); rs.Len() > 0 && isErrorType(rs.At(rs.Len()-1).Type()) {
					subSuccess = true
				}
				sub := re.summarize(nf, subSuccess, fields)
				for f, ps := range sub.early {
					if !st[f] {
						for _, p := range ps {
							addEarly(f, p)
						}
					}
				}
				for f := range sub.must {
					st[f] = true
				}
			case *ssa.Return:
				ok := true
				if successOnly {
					ok = len(x.Results) == 1 && isNilConst(x.Results[0])
					if !ok && len(x.Results) == 1 {
						// a returned value that may be nil (phi) counts as success too
						if re.ve.errClass(x.Results[0], 0) == "nil" {
							ok = true
						} else if _, isPhi := x.Results[0].(*ssa.Phi); isPhi {
							ok = true
						} else if c, isCall := x.Results[0].(*ssa.Call); isCall && calleeOf(c) != nil && inSlim(calleeOf(c)) && onlyReturned(c) {
							ok = true // tail call "return helper(...)": the helper's success summary was applied at the call
							// ... unless the helper merely decorates an error known to be non-nil here:
							// "if err != nil { return wrap(err, ...) }"
							for _, a := range c.Call.Args {
								if isErrorType(a.Type()) && knownNonNilAt(a, b) {
									ok = false
								}
							}
						}
					}
				}
				if ok {
					retStates = append(retStates, st.clone())
				}
			case *ssa.If:
				if val, known := re.ve.fold(x.Cond, fr, re.ver); known {
					if val {
						succs = []*ssa.BasicBlock{b.Succs[0]}
					} else {
						succs = []*ssa.BasicBlock{b.Succs[1]}
					}
				}
			}
		}
		if succs == nil {
			succs = b.Succs
		}
		for _, s := range succs {
			changed := false
			stOut := st
			if subs := tableLoops[s]; len(subs) > 0 && !s.Dominates(b) {
				stOut = st.clone()
				for _, sub := range subs {
					for f, ps := range sub.early {
						if !stOut[f] {
							for _, p := range ps {
								addEarly(f, p)
							}
						}
					}
					for f := range sub.must {
						stOut[f] = true
					}
				}
			}
			st := stOut
			if !reached[s.Index] {
				reached[s.Index] = true
				in[s.Index] = st.clone()
				changed = true
			} else {
				for f := range in[s.Index] {
					if in[s.Index][f] && !st[f] {
						in[s.Index][f] = false
						changed = true
					}
				}
			}
			if changed && !inWork[s.Index] {
				work = append(work, s.Index)
				inWork[s.Index] = true
			}
		}
	}
	sum.rets = len(retStates)
	for _, f := range fields {
		all := len(retStates) > 0
		for _, rs := range retStates {
			if !rs[f] {
				all = false
			}
		}
		if all {
			sum.must[f] = true
		}
	}
	for f, ps := range earlySet {
		for p := range ps {
			sum.early[f] = append(sum.early[f], p)
		}
		sort.Slice(sum.early[f], func(i, j int) bool { return sum.early[f][i] < sum.early[f][j] })
	}
	re.memo[key] = sum
	return sum
}

func paramIdx(f *ssa.Function, m map[ssa.Value]bool) []int {
	var out []int
	for i, p := range f.Params {
		if m[p] {
			out = append(out, i)
		}
	}
	return out
}

// onlyReturned: the call's value is used by return instructions only (a tail call).
func onlyReturned(c *ssa.Call) bool {
	refs := c.Referrers()
	if refs == nil || len(*refs) == 0 {
		return false
	}
	for _, r := range *refs {
		if _, ok := r.(*ssa.Return); !ok {
			if _, isDbg := r.(*ssa.DebugRef); isDbg {
				continue
			}
			return false
		}
	}
	return true
}

// knownNonNilAt: block b is dominated by the non-nil edge of a nil test of v.
func knownNonNilAt(v ssa.Value, b *ssa.BasicBlock) bool {
	for d := b; d != nil; d = d.Idom() {
		for _, pr := range d.Preds {
			iff, ok := lastInstr(pr).(*ssa.If)
			if !ok || len(d.Preds) != 1 {
				continue
			}
			x, nilSucc, ok := nilTest(iff.Cond)
			if !ok || x != v {
				continue
			}
			if pr.Succs[1-nilSucc] == d {
				return true
			}
		}
	}
	return false
}
