package main

import "strings"

// extSum summarises the memory effects of a function outside the analysed set.
// Argument indexes count the receiver (or invoked interface value) as 0.
// Every entry was justified by reading the pinned source (Go std of the
// toolchain, golang/protobuf 1.3.1, openacid/errors 0.8.1, blang/semver 3.5.1,
// testify 1.8.1).
type extSum struct {
	writes   []int    // pointees of these arguments are written
	stores   [][2]int // contents(arg a) may now hold what arg b points to
	calls    []int    // function-valued arguments that are invoked
	fills    []int    // pointees of these arguments are filled with fresh memory owned by the callee's result
	ret      string   // "", "fresh", "args", "arg:N", "contents:N"
	retHolds []int    // the fresh result retains these arguments
	sync     bool     // the writes are synchronised (atomic / once); not an effect
	why      string
}

var pureFresh = extSum{ret: "fresh", why: "reads its arguments; result is freshly allocated"}
var pureNone = extSum{why: "reads its arguments only"}

var extSummaries = map[string]extSum{
	// bytes / strings / sort / fmt
	"bytes.Compare":     pureNone,
	"bytes.Equal":       pureNone,
	"strings.Join":      pureFresh,
	"strings.Repeat":    pureFresh,
	"strings.Split":     pureFresh,
	"strings.TrimLeft":  {ret: "arg:0", why: "substring of the argument"},
	"strings.HasPrefix": pureNone,
	"strings.HasSuffix": pureNone,
	"strings.Index":     pureNone,
	"strings.Contains":  pureNone,
	"fmt.Sprintf":       pureFresh,
	"fmt.Sprint":        pureFresh,
	"fmt.Sprintln":      pureFresh,
	"fmt.Errorf":        pureFresh,
	"sort.Strings":      {writes: []int{0}, why: "sorts the slice in place"},
	"sort.Ints":         {writes: []int{0}, why: "sorts the slice in place"},
	"sort.Slice":        {writes: []int{0}, calls: []int{1}, why: "swaps elements of the slice; calls less"},
	"sort.SliceStable":  {writes: []int{0}, calls: []int{1}, why: "swaps elements of the slice; calls less"},
	"sort.Sort":         {writes: []int{0}, why: "calls Swap on the argument"},
	"sort.Search":       {calls: []int{1}, why: "calls f"},

	"bytes.NewBuffer":             {ret: "fresh", retHolds: []int{0}, why: "the Buffer takes ownership of buf"},
	"bytes.NewBufferString":       pureFresh,
	"bytes.NewReader":             {ret: "fresh", retHolds: []int{0}, why: "the Reader reads from b; it never writes it"},
	"(*bytes.Buffer).Write":       {writes: []int{0}, fills: []int{0}, why: "appends a copy of p to the buffer (growing its own internal array)"},
	"(*bytes.Buffer).WriteString": {writes: []int{0}, fills: []int{0}, why: "appends a copy"},
	"(*bytes.Buffer).WriteByte":   {writes: []int{0}, fills: []int{0}, why: "appends"},
	"(*bytes.Buffer).Bytes":       {ret: "contents:0", why: "returns the unread portion of the internal buffer"},
	"(*bytes.Buffer).String":      pureFresh,
	"(*bytes.Buffer).Len":         pureNone,
	"(*bytes.Buffer).Reset":       {writes: []int{0}, why: "resets the buffer"},
	"(*bytes.Buffer).Read":        {writes: []int{0, 1}, why: "advances the buffer, fills p"},
	"(*bytes.Reader).Read":        {writes: []int{0, 1}, why: "advances the reader (its own offset), copies into p"},
	"(*bytes.Reader).Len":         pureNone,
	"io.ReadFull":                 {writes: []int{0, 1}, why: "calls r.Read(buf): advances the reader, fills buf with copies"},
	"io.ReadAll":                  {writes: []int{0}, ret: "fresh", why: "reads into a fresh slice"},

	// encoding/binary
	"(encoding/binary.littleEndian).Uint16":       pureNone,
	"(encoding/binary.littleEndian).Uint32":       pureNone,
	"(encoding/binary.littleEndian).Uint64":       pureNone,
	"(encoding/binary.littleEndian).PutUint16":    {writes: []int{1}, why: "stores into b"},
	"(encoding/binary.littleEndian).PutUint32":    {writes: []int{1}, why: "stores into b"},
	"(encoding/binary.littleEndian).PutUint64":    {writes: []int{1}, why: "stores into b"},
	"(encoding/binary.littleEndian).AppendUint16": {writes: []int{1}, ret: "arg:1", why: "appends to b"},
	"(encoding/binary.littleEndian).AppendUint32": {writes: []int{1}, ret: "arg:1", why: "appends to b"},
	"(encoding/binary.littleEndian).AppendUint64": {writes: []int{1}, ret: "arg:1", why: "appends to b"},
	"(encoding/binary.bigEndian).Uint16":          pureNone,
	"(encoding/binary.bigEndian).Uint32":          pureNone,
	"(encoding/binary.bigEndian).Uint64":          pureNone,
	"(encoding/binary.bigEndian).PutUint16":       {writes: []int{1}, why: "stores into b"},
	"(encoding/binary.bigEndian).PutUint32":       {writes: []int{1}, why: "stores into b"},
	"(encoding/binary.bigEndian).PutUint64":       {writes: []int{1}, why: "stores into b"},
	"encoding/binary.Write":                       {writes: []int{0}, why: "encodes data (read only) and calls w.Write"},
	"encoding/binary.Read":                        {writes: []int{0, 2}, why: "reads from r into fresh scratch, decodes into *data (fixed-size values, no aliasing)"},
	"encoding/binary.Size":                        pureNone,

	// reflect (read-only accessors used by the library)
	"reflect.ValueOf":           {ret: "arg:0", why: "wraps the value"},
	"reflect.TypeOf":            pureFresh,
	"reflect.Indirect":          {ret: "arg:0", why: "dereference"},
	"reflect.New":               pureFresh,
	"(reflect.Value).Kind":      pureNone,
	"(reflect.Value).Len":       pureNone,
	"(reflect.Value).IsNil":     pureNone,
	"(reflect.Value).Index":     {ret: "arg:0", why: "element of the same memory"},
	"(reflect.Value).Interface": {ret: "arg:0", why: "boxes the value (copy of scalars, alias of references)"},
	"(reflect.Value).Type":      pureFresh,
	"(reflect.Value).Elem":      {ret: "arg:0", why: "pointee"},
	"(*reflect.rtype).Kind":     pureNone,
	"(*reflect.rtype).Elem":     pureFresh,
	"iface reflect.Type.Kind":   pureNone,
	"iface reflect.Type.Elem":   pureFresh,
	"iface reflect.Type.String": pureFresh,
	// the other descriptors of reflect.Type read the (immutable) type descriptor only
	"iface reflect.Type.PkgPath":    pureFresh,
	"iface reflect.Type.Name":       pureFresh,
	"iface reflect.Type.Size":       pureNone,
	"iface reflect.Type.Bits":       pureNone,
	"iface reflect.Type.Align":      pureNone,
	"iface reflect.Type.NumField":   pureNone,
	"iface reflect.Type.Len":        pureNone,
	"iface reflect.Type.Comparable": pureNone,
	"(*reflect.rtype).PkgPath":      pureFresh,
	"(*reflect.rtype).Name":         pureFresh,
	"(*reflect.rtype).String":       pureFresh,
	"(*reflect.rtype).Size":         pureNone,

	// errors: the error retains its cause/message only
	"github.com/openacid/errors.New":         pureFresh,
	"github.com/openacid/errors.Errorf":      pureFresh,
	"github.com/openacid/errors.Wrap":        {ret: "fresh", retHolds: []int{0}, why: "wraps the cause"},
	"github.com/openacid/errors.Wrapf":       {ret: "fresh", retHolds: []int{0}, why: "wraps the cause; formats args"},
	"github.com/openacid/errors.WithMessage": {ret: "fresh", retHolds: []int{0}, why: "wraps the cause"},
	"github.com/openacid/errors.WithStack":   {ret: "fresh", retHolds: []int{0}, why: "wraps the cause"},
	"github.com/openacid/errors.Cause":       {ret: "arg:0", why: "unwraps"},
	"errors.New":                             pureFresh,
	"iface error.Error":                      pureFresh,

	// protobuf 1.3.1
	"github.com/golang/protobuf/proto.Marshal": {ret: "fresh", sync: true, writes: []int{0},
		why: "reads the message into a fresh buffer; the only write is the atomic XXX_sizecache store (table_marshal.go)"},
	"github.com/golang/protobuf/proto.Size": {sync: true, writes: []int{0},
		why: "reads the message; atomic XXX_sizecache store"},
	"github.com/golang/protobuf/proto.Unmarshal": {writes: []int{1}, fills: []int{1},
		why: "resets and fills the message; []byte and string fields are copied out of the input (table_unmarshal.go: append([]byte{}, b[:x]...)); the input is only read"},

	// semver (pure value types)
	"github.com/blang/semver.Parse":      pureFresh,
	"github.com/blang/semver.ParseRange": pureFresh,
	"github.com/blang/semver.MustParse":  pureFresh,

	// sync: accepted synchronised idioms
	"(*sync.Once).Do":         {writes: []int{0}, calls: []int{1}, sync: true, why: "runs f exactly once with happens-before to all callers"},
	"(*sync.Mutex).Lock":      {writes: []int{0}, sync: true, why: "mutex"},
	"(*sync.Mutex).Unlock":    {writes: []int{0}, sync: true, why: "mutex"},
	"(*sync.RWMutex).Lock":    {writes: []int{0}, sync: true, why: "mutex"},
	"(*sync.RWMutex).Unlock":  {writes: []int{0}, sync: true, why: "mutex"},
	"(*sync.RWMutex).RLock":   {writes: []int{0}, sync: true, why: "mutex"},
	"(*sync.RWMutex).RUnlock": {writes: []int{0}, sync: true, why: "mutex"},
	"(*sync.Pool).Get":        {writes: []int{0}, sync: true, ret: "fresh", why: "hands out an object no other goroutine holds"},
	"(*sync.Pool).Put":        {writes: []int{0}, sync: true, why: "pool"},

	// interfaces declared outside the analysed set
	"iface io.Writer.Write":                                       {writes: []int{0}, fills: []int{0}, why: "consumes a copy of p into memory of its own (io.Writer contract: must not modify or retain p)"},
	"iface io.Reader.Read":                                        {writes: []int{0, 1}, why: "fills p; advances the reader"},
	"iface github.com/golang/protobuf/proto.Message.Reset":        {writes: []int{0}, why: "resets the message"},
	"iface github.com/golang/protobuf/proto.Message.String":       pureFresh,
	"iface github.com/golang/protobuf/proto.Message.ProtoMessage": pureNone,
	"iface encoding/binary.ByteOrder.Uint16":                      pureNone,
	"iface encoding/binary.ByteOrder.Uint32":                      pureNone,
	"iface encoding/binary.ByteOrder.Uint64":                      pureNone,
	"iface encoding/binary.ByteOrder.PutUint16":                   {writes: []int{1}, why: "stores into b"},
	"iface encoding/binary.ByteOrder.PutUint32":                   {writes: []int{1}, why: "stores into b"},
	"iface encoding/binary.ByteOrder.PutUint64":                   {writes: []int{1}, why: "stores into b"},
	"iface encoding/binary.ByteOrder.String":                      pureFresh,
}

// prefix summaries: whole packages of pure functions.
var extPrefixSummaries = []struct {
	prefix string
	sum    extSum
}{
	{"math/bits.", pureNone},
	{"math.", pureNone},
	{"strconv.", pureFresh},
	{"unicode/utf8.", pureNone},
	{"sync/atomic.", extSum{writes: []int{0}, sync: true, why: "atomic"}},
	{"(*sync/atomic.", extSum{writes: []int{0}, sync: true, why: "atomic"}},
	// testify assertions (only in -tags debug builds, through must/enabled): format and compare, read-only
	{"github.com/stretchr/testify/assert.", extSum{ret: "fresh", why: "compares and formats its arguments; reports through TestingT"}},
	{"github.com/stretchr/testify/require.", extSum{ret: "fresh", why: "compares and formats its arguments"}},
	{"(*github.com/stretchr/testify/assert.", extSum{ret: "fresh", why: "compares and formats its arguments"}},
	{"iface github.com/stretchr/testify/assert.TestingT.", pureNone},
}

func lookupSummary(id string) (extSum, bool) {
	if s, ok := extSummaries[id]; ok {
		return s, true
	}
	for _, p := range extPrefixSummaries {
		if strings.HasPrefix(id, p.prefix) {
			return p.sum, true
		}
	}
	return extSum{}, false
}
