package main

import (
	"fmt"
	"go/token"
	"go/types"
	"io"
	"os"
	"path/filepath"
	"sort"
	"strings"

	"golang.org/x/tools/go/callgraph"
	"golang.org/x/tools/go/callgraph/cha"
	"golang.org/x/tools/go/packages"
	"golang.org/x/tools/go/ssa"
	"golang.org/x/tools/go/ssa/ssautil"
)

const (
	slimPath  = "github.com/openacid/slim"
	triePath  = slimPath + "/trie"
	arrayPath = slimPath + "/array"
	encPath   = slimPath + "/encode"
	indexPath = slimPath + "/index"
	lowPath   = "github.com/openacid/low"
	mustPath  = "github.com/openacid/must"
)

// Config names one build configuration of /repo.
type Config struct {
	Name   string
	Tags   string
	GOARCH string
}

var configs = map[string]Config{
	"default": {Name: "default"},
	"debug":   {Name: "debug", Tags: "debug"},
	"386":     {Name: "386", GOARCH: "386"},
}

// Program is the loaded, type-checked and SSA-built repository.
type Program struct {
	Cfg   Config
	Repo  string
	Pkgs  []*packages.Package
	Prog  *ssa.Program
	Fset  *token.FileSet
	Trie  *ssa.Package
	Array *ssa.Package
	Enc   *ssa.Package
	Index *ssa.Package
	cha   *callgraph.Graph

	allFuncs map[*ssa.Function]bool
	Sizes    types.Sizes
}

// curProg: the program being analysed (for helpers that resolve parameters through call sites).
var curProg *Program

type loadError struct{ msg string }

func (e *loadError) Error() string { return e.msg }

func copyFile(src, dst string) error {
	in, err := os.Open(src)
	if err != nil {
		return err
	}
	defer in.Close()
	out, err := os.Create(dst)
	if err != nil {
		return err
	}
	defer out.Close()
	_, err = io.Copy(out, in)
	return err
}

// Load loads the four library packages of repo with all dependencies in
// source form. The go command is pointed at a scratch copy of go.mod/go.sum so
// that analysing can never write into the repository.
func Load(repo string, cfg Config, extra ...string) (*Program, error) {
	tmp, err := os.MkdirTemp("", "slimlint-mod-")
	if err != nil {
		return nil, err
	}
	defer os.RemoveAll(tmp)
	if err := copyFile(filepath.Join(repo, "go.mod"), filepath.Join(tmp, "go.mod")); err != nil {
		return nil, err
	}
	if err := copyFile(filepath.Join(repo, "go.sum"), filepath.Join(tmp, "go.sum")); err != nil {
		return nil, err
	}
	flags := []string{"-modfile=" + filepath.Join(tmp, "go.mod")}
	if cfg.Tags != "" {
		flags = append(flags, "-tags="+cfg.Tags)
	}
	env := []string{}
	for _, e := range os.Environ() {
		if strings.HasPrefix(e, "GOFLAGS=") || strings.HasPrefix(e, "GOWORK=") || strings.HasPrefix(e, "GOARCH=") ||
			strings.HasPrefix(e, "GOPROXY=") || strings.HasPrefix(e, "GOSUMDB=") || strings.HasPrefix(e, "GOTOOLCHAIN=") {
			continue
		}
		env = append(env, e)
	}
	env = append(env, "GOFLAGS=-mod=mod", "GOPROXY=off", "GOSUMDB=off", "GOWORK=off", "GOTOOLCHAIN=local")
	if cfg.GOARCH != "" {
		env = append(env, "GOARCH="+cfg.GOARCH)
	}
	pc := &packages.Config{
		Mode:       packages.LoadAllSyntax,
		Dir:        repo,
		Tests:      false,
		BuildFlags: flags,
		Env:        env,
	}
	patterns := append([]string{"./trie", "./array", "./encode", "./index"}, extra...)
	pkgs, err := packages.Load(pc, patterns...)
	if err != nil {
		return nil, &loadError{"packages.Load: " + err.Error()}
	}
	if len(pkgs) < 4 {
		return nil, &loadError{fmt.Sprintf("expected at least 4 root packages, got %d", len(pkgs))}
	}
	var errs []string
	packages.Visit(pkgs, nil, func(p *packages.Package) {
		for _, e := range p.Errors {
			errs = append(errs, e.Error())
		}
	})
	if len(errs) > 0 {
		sort.Strings(errs)
		if len(errs) > 10 {
			errs = errs[:10]
		}
		return nil, &loadError{"type-check/load errors:\n  " + strings.Join(errs, "\n  ")}
	}
	prog, _ := ssautil.AllPackages(pkgs, ssa.InstantiateGenerics)
	prog.Build()
	p := &Program{Cfg: cfg, Repo: repo, Pkgs: pkgs, Prog: prog, Fset: prog.Fset}
	p.Trie = prog.ImportedPackage(triePath)
	p.Array = prog.ImportedPackage(arrayPath)
	p.Enc = prog.ImportedPackage(encPath)
	p.Index = prog.ImportedPackage(indexPath)
	for n, sp := range map[string]*ssa.Package{"trie": p.Trie, "array": p.Array, "encode": p.Enc, "index": p.Index} {
		if sp == nil {
			return nil, &loadError{"package not loaded: " + n}
		}
		cnt := 0
		for _, m := range sp.Members {
			if _, ok := m.(*ssa.Function); ok {
				cnt++
			}
			if _, ok := m.(*ssa.Type); ok {
				cnt++
			}
		}
		if cnt == 0 {
			return nil, &loadError{"package has no functions or types: " + n}
		}
	}
	p.allFuncs = ssautil.AllFunctions(prog)
	curProg = p
	curSess = inferSessionInfo(p)
	p.Sizes = pkgs[0].TypesSizes
	platformIntBytes = p.Sizes.Sizeof(types.Typ[types.Int])
	return p, nil
}

// CHA returns the class-hierarchy call graph (built lazily).
func (p *Program) CHA() *callgraph.Graph {
	if p.cha == nil {
		p.cha = cha.CallGraph(p.Prog)
	}
	return p.cha
}

// Pos renders a position relative to the repository or the module cache.
func (p *Program) Pos(pos token.Pos) string {
	if !pos.IsValid() {
		return "-"
	}
	ps := p.Fset.Position(pos)
	return fmt.Sprintf("%s:%d", p.relFile(ps.Filename), ps.Line)
}

func (p *Program) relFile(f string) string {
	if r, err := filepath.Rel(p.Repo, f); err == nil && !strings.HasPrefix(r, "..") {
		return r
	}
	if i := strings.Index(f, "/pkg/mod/"); i >= 0 {
		return f[i+9:]
	}
	if i := strings.Index(f, "/src/"); i >= 0 && strings.Contains(f, "go") {
		return "std/" + f[i+5:]
	}
	return f
}

// File returns just the repo-relative file of a position.
func (p *Program) File(pos token.Pos) string {
	if !pos.IsValid() {
		return "-"
	}
	return p.relFile(p.Fset.Position(pos).Filename)
}

// pkgPathOf gives the package path a function belongs to, also for methods of
// instantiated/synthetic functions and closures.
func pkgPathOf(f *ssa.Function) string {
	for f.Parent() != nil {
		f = f.Parent()
	}
	if f.Pkg != nil {
		return f.Pkg.Pkg.Path()
	}
	if f.Origin() != nil && f.Origin() != f {
		return pkgPathOf(f.Origin())
	}
	if recv := f.Signature.Recv(); recv != nil {
		t := recv.Type()
		if pt, ok := t.(*types.Pointer); ok {
			t = pt.Elem()
		}
		if n, ok := t.(*types.Named); ok && n.Obj().Pkg() != nil {
			return n.Obj().Pkg().Path()
		}
	}
	if f.Object() != nil && f.Object().Pkg() != nil {
		return f.Object().Pkg().Path()
	}
	return ""
}

func hasPrefixPath(p, prefix string) bool {
	return p == prefix || strings.HasPrefix(p, prefix+"/")
}

// inSlim: function is part of the library under analysis.
func inSlim(f *ssa.Function) bool { return hasPrefixPath(pkgPathOf(f), slimPath) }

// inAnalysed: function belongs to the analysed set (slim, low, must) and has a body.
func inAnalysed(f *ssa.Function) bool {
	p := pkgPathOf(f)
	return hasPrefixPath(p, slimPath) || hasPrefixPath(p, lowPath) || hasPrefixPath(p, mustPath) || hasPrefixPath(p, "slimlint/fixtures")
}

// Method finds a method of a named type of an ssa package by name (pointer
// receiver method set).
func (p *Program) Method(pkg *ssa.Package, typ, name string) *ssa.Function {
	m := pkg.Members[typ]
	t, ok := m.(*ssa.Type)
	if !ok {
		return nil
	}
	sel := p.Prog.MethodSets.MethodSet(types.NewPointer(t.Type())).Lookup(pkg.Pkg, name)
	if sel == nil {
		return nil
	}
	return p.Prog.MethodValue(sel)
}

// ValueMethod finds a method on the value receiver method set.
func (p *Program) ValueMethod(pkg *ssa.Package, typ, name string) *ssa.Function {
	m := pkg.Members[typ]
	t, ok := m.(*ssa.Type)
	if !ok {
		return nil
	}
	sel := p.Prog.MethodSets.MethodSet(t.Type()).Lookup(pkg.Pkg, name)
	if sel == nil {
		return nil
	}
	return p.Prog.MethodValue(sel)
}

// NamedType returns a named type of a package.
func (p *Program) NamedType(pkg *ssa.Package, typ string) *types.Named {
	m := pkg.Members[typ]
	t, ok := m.(*ssa.Type)
	if !ok {
		return nil
	}
	n, _ := t.Type().(*types.Named)
	return n
}

// FuncsOf lists all functions (incl. methods and closures) with bodies whose
// package path has the given prefix, sorted by name for determinism.
func (p *Program) FuncsOf(prefixes ...string) []*ssa.Function {
	var out []*ssa.Function
	for f := range p.allFuncs {
		if len(f.Blocks) == 0 {
			continue
		}
		pp := pkgPathOf(f)
		for _, pre := range prefixes {
			if hasPrefixPath(pp, pre) {
				out = append(out, f)
				break
			}
		}
	}
	sort.Slice(out, func(i, j int) bool {
		if out[i].String() != out[j].String() {
			return out[i].String() < out[j].String()
		}
		return out[i].Pos() < out[j].Pos()
	})
	return out
}
