#!/bin/bash
# refactor_audit.sh <dir-with-variants> : runs all claimed checks against behaviour-preserving
# patches (each in <dir>/<variant>/patch.diff) on scratch copies; any VIOLATION is a false alarm.
set -u
VERIF=$(cd "$(dirname "$0")/.." && pwd)
dir=$1
props=$(python3 -c "import json;print(' '.join(c['property_id'] for c in json.load(open('$VERIF/MANIFEST.json'))['checks']))")
for v in $(ls "$dir"); do
  [ -f "$dir/$v/patch.diff" ] || continue
  out=$("$VERIF/bin/mutcheck" "$dir/$v/patch.diff" $props 2>&1)
  alarms=$(echo "$out" | grep -c "^VIOLATION")
  echo "== $v alarms=$alarms"
  echo "$out" | grep "violated/\|undecided/\|ERROR\|SKIP" | cut -c1-330
done
