// Package nilempty is a positive control for the rule that no decision may
// rest on whether a bytes / repeated field of a serialised message is nil:
// proto3 does not encode empty bytes or empty repeated fields, so "empty but
// not nil" becomes nil after a marshal round trip.
package nilempty

// Msg mimics a protobuf-generated message.
type Msg struct {
	Bytes                []byte
	Words                []uint64
	Sub                  *Msg
	XXX_unrecognized     []byte
	XXX_NoUnkeyedLiteral struct{}
}

func (m *Msg) GetBytes() []byte {
	if m != nil {
		return m.Bytes
	}
	return nil
}

func (m *Msg) GetSub() *Msg {
	if m != nil {
		return m.Sub
	}
	return nil
}

// HasTailsWrong must be flagged: nil-ness of a bytes field.
func HasTailsWrong(m *Msg) bool {
	return m.Sub.Bytes != nil
}

// HasTailsGetterWrong must be flagged: the same through generated getters.
func HasTailsGetterWrong(m *Msg) bool {
	return m.GetSub().GetBytes() != nil
}

// HasWordsWrong must be flagged: nil-ness of a repeated field.
func HasWordsWrong(m *Msg) bool {
	if m.Words == nil {
		return false
	}
	return true
}

// HasSectionRight must not be flagged: presence of a sub-message survives the round trip.
func HasSectionRight(m *Msg) bool {
	return m.Sub != nil
}

// HasBytesRight must not be flagged: length, not nil-ness.
func HasBytesRight(m *Msg) bool {
	return len(m.Sub.GetBytes()) > 0
}
