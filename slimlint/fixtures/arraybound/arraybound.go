// Package arraybound is a positive control for the rule that a slice of (or an
// index into) a local fixed-size array whose bound is guarded by a comparison
// must fit the array for the largest value the guard lets through.
package arraybound

// SmallWrong slices small[:n+1] under n <= 64: 65 bytes of a 64-byte array when n == 64.
func SmallWrong(old []byte, n int32) []byte {
	var small [64]byte
	var buf []byte
	if n <= int32(len(small)) {
		buf = small[:n+1]
	} else {
		buf = make([]byte, n+1)
	}
	copy(buf, old)
	return append([]byte(nil), buf...)
}

// SmallRight guards with n < 64.
func SmallRight(old []byte, n int32) []byte {
	var small [64]byte
	var buf []byte
	if n < int32(len(small)) {
		buf = small[:n+1]
	} else {
		buf = make([]byte, n+1)
	}
	copy(buf, old)
	return append([]byte(nil), buf...)
}

// IndexWrong writes idx[n] under n <= 16 into a 16-element array.
func IndexWrong(bm uint64) int {
	var idx [16]int32
	n := 0
	for ; bm != 0; bm &= bm - 1 {
		if n <= 16 {
			idx[n] = int32(bm & 0xff)
		}
		n++
	}
	return n + int(idx[0])
}

// IndexRight writes idx[n] under n < 16.
func IndexRight(bm uint64) int {
	var idx [16]int32
	n := 0
	for ; bm != 0; bm &= bm - 1 {
		if n < 16 {
			idx[n] = int32(bm & 0xff)
		}
		n++
	}
	return n + int(idx[0])
}

func child16(words []uint64, i int32) uint64 {
	w := words[i>>2] >> (uint(i&3) * 16) & 0xffff
	return w << 1
}

// PopWrong collects the set bits of a 17-bit value into a 16-element array.
func PopWrong(words []uint64, i int32) []int32 {
	bm := child16(words, i) | 1
	var idx [16]int32
	n := 0
	for ; bm != 0; bm &= bm - 1 {
		idx[n] = int32(bm & 0xff)
		n++
	}
	return append([]int32(nil), idx[:n]...)
}

// PopRight has room for all 17 bits.
func PopRight(words []uint64, i int32) []int32 {
	bm := child16(words, i) | 1
	var idx [17]int32
	n := 0
	for ; bm != 0; bm &= bm - 1 {
		idx[n] = int32(bm & 0xff)
		n++
	}
	return append([]int32(nil), idx[:n]...)
}

// CounterWrong records one entry per step of a walk that ends when the data says so.
func CounterWrong(next []int) int {
	var path [8]int
	depth := 0
	at := 0
	for {
		path[depth] = at
		depth++
		at = next[at]
		if at < 0 {
			break
		}
	}
	return path[0] + depth
}

// CounterRight does the same in a counted loop.
func CounterRight(next []int) int {
	var path [8]int
	at := 0
	for depth := 0; depth < 8; depth++ {
		path[depth] = at
		at = next[at]
		if at < 0 {
			break
		}
	}
	return path[0]
}
