package main

import (
	"fmt"
	"go/token"
	"go/types"
	"strings"

	"golang.org/x/tools/go/ssa"
)

var keepLabels = []string{"keepmask", "values", "opt:DedupValue"}

func checkC02(p *Program, r *Report) {
	r.Explanation = "Decided for all key/value lists: the build-side mechanism RangeGet rests on — branch positions are computed over all keys of a node's range and only labels are filtered by the keep mask. In the labelled flow analysis of the builder the bit position handed to bmtree.PathsOf/PathOf (where labels are cut and children are split) carries no keep-mask/value/DedupValue label given the node's key range (work-list barrier), the same SSA value is the prefix end recorded for the node, and sigbits.New receives exactly the caller's key slice (not a filtered copy). On the query side index.SlimIndex.RangeGet obtains its offset from (*SlimTrie).RangeGet, and RangeGet/Search share one three-way descent. (keepmask) with de-duplication on, the keep mask is filled only with the constant true or, for every index from 1 in steps of 1 and unconditionally, with the comparison of values[i-1] and values[i]: values are not sorted, so no method that skips adjacent pairs can find the first record of every run. (encode-each) every element of the encoded value list is the result of Encode on the encoder for the value at the loop index of its iteration, appended unconditionally — the bytes compared by the keep mask and stored in the leaves are the encoder's output for that record, never another record's bytes re-used under an equality test of raw values."
	r.NotCovered = "The three-way search itself (left-neighbour selection, right-most descent) depends on rank values at run time."
	r.Trusted = []string{"go/ssa; pure-function summaries for openacid/low"}
	bf := newBuilderFlow(p)
	r.Rule("C02.branchpos", "E2", "branch bit position is independent of the keep mask given the node's key range", 2)
	if flowProblems(bf, r, "C02") {
		return
	}
	for k := range bf.it.ctxs {
		r.Func(shortFn(bf.it.ctxs[k].fn))
	}
	if bf.workElem == nil {
		r.Unk("work list of "+shortFn(bf.builder), p.Pos(bf.builder.Pos()), "cannot identify exactly one work list (slice of struct that is appended to and whose length bounds the construction loop)")
		return
	}
	nPaths := 0
	var cutPos []ssa.Value
	underBuilder := trieReach(bf.builder)
	for _, cr := range bf.it.sortedCalls() {
		if !underBuilder[cr.fn] {
			continue
		}
		switch cr.callee {
		case idPathsOf, idPathOf:
			if len(cr.args) < 2 {
				continue
			}
			nPaths++
			bad := cr.args[1].labels.withPrefix(keepLabels...)
			what := "label cut position (argument frombit of " + cr.callee[strings.LastIndex(cr.callee, ".")+1:] + ")"
			construct := fmt.Sprintf("%s #%d in %s", what, nPaths, shortFn(cr.fn))
			if len(bad) > 0 {
				r.Bad(construct, p.Pos(cr.site.Pos()), fmt.Sprintf("the branch position depends on %v: it must be computed over all keys of the range, kept or not", bad))
			} else {
				r.OK(construct, p.Pos(cr.site.Pos()), fmt.Sprintf("labels %s", cr.args[1].labels))
			}
			if cr.callee == idPathsOf {
				cp := cr.site.Common().Args[1]
				if prm, ok := cp.(*ssa.Parameter); ok && cr.fn != bf.builder {
					// the cut is made in a helper: take the value the builder passes for that parameter
					for _, c2 := range callsIn(bf.builder) {
						if calleeOf(c2) == cr.fn {
							for i, q := range cr.fn.Params {
								if q == prm && i < len(c2.Common().Args) {
									cp = c2.Common().Args[i]
								}
							}
						}
					}
				}
				cutPos = append(cutPos, cp)
				// the label list is the only argument filtered by the keep mask
				if len(cr.args[0].labels.withPrefix(keepLabels...)) == 0 {
					r.Note("label list argument of PathsOf carries no keep-mask label (no de-duplication of labels?)")
				}
			}
		case idSigbitsNew:
			ok := len(cr.args) == 1 && len(cr.args[0].pts) == 1 && cr.args[0].pts[bf.keys]
			var names []string
			for o := range cr.args[0].pts {
				names = append(names, o.name)
			}
			r.Check(ok, "significant-bit index input in "+shortFn(cr.fn), p.Pos(cr.site.Pos()),
				"sigbits.New receives the caller's key slice itself", fmt.Sprintf("sigbits.New receives %v, not exactly the caller's key slice: branch positions would be computed over a different key list", names))
		}
	}
	if nPaths == 0 {
		r.Unk("label cut in "+shortFn(bf.builder), p.Pos(bf.builder.Pos()), "no call of bmtree.PathsOf/PathOf found in the construction function")
	}

	// the cut position is the same value as the prefix end recorded for the node
	r.Rule("C02.cut-is-prefix-end", "SSA", "the position where labels are cut is the value recorded as the node's prefix end", 1)
	for i, v := range cutPos {
		found := ""
		instrsOf(bf.builder, func(_ *ssa.BasicBlock, in ssa.Instruction) {
			c, ok := in.(*ssa.Call)
			if !ok {
				return
			}
			callee := calleeOf(c)
			if callee == nil || !trieScope(callee) || callee.Signature.Recv() == nil {
				return
			}
			for _, a := range c.Call.Args {
				if a == v {
					found = shortFn(callee) + " at " + p.Pos(c.Pos())
				}
			}
		})
		r.Check(found != "", fmt.Sprintf("cut position #%d of %s", i+1, shortFn(bf.builder)), p.Pos(bf.builder.Pos()),
			"also passed to "+found, "the bit position at which labels are cut is not the value handed to the builder state as prefix end")
	}

	checkRangeRouting(p, r)
	checkVLenWidth(p, r, "C02.vlen-width")
	checkLeafDecoder(p, r, "C02.leaf-decoder")
	checkKeepMask(p, r)
	checkEncodeEach(p, r)
	checkEncodeIndependent(p, r, "C02.encode-independent")
	checkCodecsAs(p, r, "C02")
	checkCapacity(p, r, "C02.capacity")
	// RangeGet on a key that was de-duplicated away answers with the left neighbour of the three-way
	// descent, finished by the right-most walk: the neighbour rules of C09 under C02's name
	r.Explanation += " (descent) the neighbour rules of the three-way descent that RangeGet shares with Search: one definition of a node's first and last child, candidates only inside the child range, left candidate finished by the right-most walk (rules shared with C09)."
	checkDescentNeighboursAs(p, r, "C02")
}

// checkRangeRouting: index.RangeGet -> SlimTrie.RangeGet; RangeGet and Search
// share one descent function.
func checkRangeRouting(p *Program, r *Report) {
	r.Rule("C02.index", "call graph", "SlimIndex.RangeGet takes its offset from SlimTrie.RangeGet and answers only through the reader", 2)
	ig := p.Method(p.Index, "SlimIndex", "RangeGet")
	tg := p.Method(p.Trie, "SlimTrie", "RangeGet")
	if ig == nil || tg == nil {
		r.Unk("RangeGet", "", "anchor not found")
		return
	}
	calls := false
	callsGet := false
	for _, f := range libraryTargets(p, ig) {
		if f == tg {
			calls = true
		}
		if f == p.Method(p.Trie, "SlimTrie", "Get") {
			callsGet = true
		}
	}
	r.Check(calls && !callsGet, "(*index.SlimIndex).RangeGet routing", p.Pos(ig.Pos()), "calls (*SlimTrie).RangeGet", "does not obtain its offset from (*SlimTrie).RangeGet only")
	// RangeGet and Search share the descent: the set of trie-package callees that
	// take the key and return ids must intersect
	se := p.Method(p.Trie, "SlimTrie", "Search")
	if se == nil {
		r.Unk("(*trie.SlimTrie).Search", "", "anchor not found")
		return
	}
	desc := func(f *ssa.Function) map[*ssa.Function]bool {
		out := map[*ssa.Function]bool{}
		for _, c := range callsIn(f) {
			g := calleeOf(c)
			if g == nil || !trieScope(g) {
				continue
			}
			sig := g.Signature
			hasKey := false
			for i := 0; i < sig.Params().Len(); i++ {
				if isStringType(sig.Params().At(i).Type()) {
					hasKey = true
				}
			}
			if hasKey && sig.Results().Len() == 3 {
				allInt := true
				for i := 0; i < 3; i++ {
					if !types.Identical(sig.Results().At(i).Type(), types.Typ[types.Int32]) {
						allInt = false
					}
				}
				if allInt {
					out[g] = true
				}
			}
		}
		return out
	}
	a, b := desc(tg), desc(se)
	shared := ""
	for f := range a {
		if b[f] {
			shared = shortFn(f)
		}
	}
	r.Check(shared != "" && len(a) == 1 && len(b) == 1, "RangeGet and Search share one three-way descent", p.Pos(tg.Pos()), "both call "+shared, "RangeGet and Search do not obtain (left, equal, right) ids from one common function")
}

func init() { checks["C02"] = checkC02 }

// checkKeepMask (C02.keepmask): with de-duplication on, record i is retained
// iff its value differs from record i-1's. Values are not sorted, so this can
// only be decided by looking at every adjacent pair: in the function that
// builds the keep mask (the []bool it returns, from the encoded values) every
// store into the mask is the constant true, or — in a loop whose index runs
// from 1 by 1 while below the mask's length, unconditionally in the body —
// the comparison of values[i-1] with values[i]. Any other way of filling the
// mask (skipping ahead, bisecting a run, comparing non-adjacent records) is
// reported.
func checkKeepMask(p *Program, r *Report) {
	r.Rule("C02.keepmask", "E6+CFG", "the keep mask compares every adjacent pair of values", 1)
	var cands []*ssa.Function
	for _, f := range p.FuncsOf(triePath) {
		if !trieScope(f) || f.Synthetic != "" || f.Signature.Results().Len() != 1 {
			continue
		}
		if sl, ok := f.Signature.Results().At(0).Type().Underlying().(*types.Slice); !ok || !isBoolType(sl.Elem()) {
			continue
		}
		for _, prm := range f.Params {
			if sl, ok := prm.Type().Underlying().(*types.Slice); ok && isByteSlice(sl.Elem()) {
				cands = append(cands, f)
				break
			}
		}
	}
	if len(cands) == 0 {
		r.Unk("keep mask builder", "", "no function of package trie builds a []bool from [][]byte values (anchor not found)")
		return
	}
	// the mask may be filled in the builder itself or in a helper it delegates the de-duplicating part to
	var bad []string
	nCmp := 0
	var names []string
	for _, KF := range cands {
		b2, n2 := keepMaskIn(p, r, KF)
		bad = append(bad, b2...)
		nCmp += n2
		names = append(names, shortFn(KF))
	}
	if nCmp == 0 && len(bad) == 0 {
		bad = append(bad, "no store into the mask compares a record's value with its predecessor's")
	}
	r.Check(len(bad) == 0, "keep mask built by "+strings.Join(names, " / "), p.Pos(cands[0].Pos()), "every entry is true or values[i-1] != values[i] for i = 1..n-1, step 1, unconditional", strings.Join(dedupStrings(sortStr(bad)), "; "))
}

func keepMaskIn(p *Program, r *Report, KF *ssa.Function) ([]string, int) {
	r.Func(shortFn(KF))
	var valuesPrm *ssa.Parameter
	for _, prm := range KF.Params {
		if sl, ok := prm.Type().Underlying().(*types.Slice); ok && isByteSlice(sl.Elem()) {
			valuesPrm = prm
		}
	}
	e := newEval(p)
	vname := e.eval(valuesPrm).String()
	var bad []string
	nCmp := 0
	instrsOf(KF, func(b *ssa.BasicBlock, in ssa.Instruction) {
		st, ok := in.(*ssa.Store)
		if !ok {
			return
		}
		ia, ok := st.Addr.(*ssa.IndexAddr)
		if !ok {
			return
		}
		if sl, ok := ia.X.Type().Underlying().(*types.Slice); !ok || !isBoolType(sl.Elem()) {
			return
		}
		if c, ok := constBool(st.Val); ok {
			if !c {
				bad = append(bad, "a record is dropped unconditionally at "+p.Pos(st.Pos()))
			}
			return
		}
		// the comparison of values[i-1] with values[i]
		I := e.eval(ia.Index)
		prev := ON("idx", "", S(vname), O("add", I, K(-1))).String()
		cur := ON("idx", "", S(vname), I).String()
		t := e.eval(st.Val).String()
		okShape := false
		for _, pair := range [][2]string{{prev, cur}, {cur, prev}} {
			cmpCall := "call:bytes.Compare(" + pair[0] + "," + pair[1] + ")"
			eqCall := "call:bytes.Equal(" + pair[0] + "," + pair[1] + ")"
			switch t {
			case "cmp:!=(" + cmpCall + ",0)", "cmp:!=(0," + cmpCall + ")", "lnot(" + eqCall + ")", "cmp:==(" + eqCall + ",false)", "cmp:!=(" + eqCall + ",true)":
				okShape = true
			}
		}
		if !okShape {
			// carried form: prev := values[0]; for i := 1.. { keep[i] = !equal(prev, values[i]); prev = values[i] }
			okShape = keepMaskCarried(st.Val, ia.Index, valuesPrm, loopHeaderOf(b))
		}
		if !okShape {
			bad = append(bad, "the mask entry stored at "+p.Pos(st.Pos())+" is "+abbreviate(t)+", not the comparison of the record's value with its predecessor's")
			return
		}
		// the index: phi(1, idx+1) at the header of the loop containing the store; loop test idx < len(mask) or n
		ph, ok := stripConv(ia.Index).(*ssa.Phi)
		header := loopHeaderOf(b)
		if !ok || header == nil || ph.Block() != header {
			bad = append(bad, "the comparison at "+p.Pos(st.Pos())+" is not indexed by the loop variable of its loop")
			return
		}
		okInit, okStep := false, true
		for i, ed := range ph.Edges {
			pred := header.Preds[i]
			if header.Dominates(pred) {
				bo, ok := stripConv(ed).(*ssa.BinOp)
				k, isK := int64(0), false
				if ok {
					k, isK = constInt(bo.Y)
				}
				if !ok || bo.Op != token.ADD || stripConv(bo.X) != ssa.Value(ph) || !isK || k != 1 {
					okStep = false
				}
				continue
			}
			if c, ok := constInt(ed); ok && c == 1 {
				okInit = true
			}
		}
		if !okInit || !okStep {
			bad = append(bad, "the loop at "+p.Pos(st.Pos())+" does not visit every index from 1 in steps of 1 (some adjacent pairs are never compared)")
			return
		}
		// unconditional in the body: the store's block dominates every latch
		for i := range ph.Edges {
			pred := header.Preds[i]
			if header.Dominates(pred) && !b.Dominates(pred) {
				bad = append(bad, "the comparison at "+p.Pos(st.Pos())+" is skipped on some iterations")
				return
			}
		}
		// loop test: idx < bound, where bound is the length the mask was made with
		iff, ok := lastInstr(header).(*ssa.If)
		okBound := false
		if ok {
			if bo, ok := iff.Cond.(*ssa.BinOp); ok && bo.Op == token.LSS && stripConv(bo.X) == ssa.Value(ph) {
				if ms, ok := ia.X.(*ssa.MakeSlice); ok && (bo.Y == ms.Len || e.eval(bo.Y).String() == e.eval(ms.Len).String()) {
					okBound = true
				}
				if e.eval(bo.Y).String() == "len("+vname+")" {
					okBound = true
				}
			}
		}
		if !okBound {
			bad = append(bad, "the loop at "+p.Pos(st.Pos())+" is not bounded by the length of the mask")
			return
		}
		nCmp++
	})
	return bad, nCmp
}

// checkEncodeEach (C02.encode-each): the encoded value of record i is the
// encoder's output for record i. In the function that turns the caller's
// values into [][]byte with the Encoder, every element appended to the result
// is the result of an Encode call on the encoder whose argument is computed
// from the loop index of that iteration, appended unconditionally. Sharing or
// re-using another record's bytes under some equality test of the raw values
// (Go == is not bit identity: +0.0 == -0.0, NaN != NaN) changes which records
// are de-duplicated and what RangeGet returns.
func checkEncodeEach(p *Program, r *Report) {
	r.Rule("C02.encode-each", "SSA", "every record's value bytes are the encoder's output for that record", 1)
	var V *ssa.Function
	var encPrm *ssa.Parameter
	for _, f := range p.FuncsOf(triePath) {
		if !trieScope(f) || f.Synthetic != "" || f.Signature.Results().Len() != 1 {
			continue
		}
		sl, ok := f.Signature.Results().At(0).Type().Underlying().(*types.Slice)
		if !ok || !isByteSlice(sl.Elem()) {
			continue
		}
		for _, prm := range f.Params {
			if isNamed(prm.Type(), encPath, "Encoder") {
				V, encPrm = f, prm
			}
		}
	}
	if V == nil {
		r.Unk("value encoding loop", "", "no function of package trie turns values into [][]byte with an encode.Encoder (anchor not found)")
		return
	}
	r.Func(shortFn(V))
	var bad []string
	nApp := 0
	var dependsOn func(v ssa.Value, target ssa.Value, d int) bool
	dependsOn = func(v ssa.Value, target ssa.Value, d int) bool {
		if v == target {
			return true
		}
		if d > 8 || v == nil {
			return false
		}
		if in, ok := v.(ssa.Instruction); ok {
			if ph, isPhi := v.(*ssa.Phi); isPhi {
				// "nil unless there is a value at the index": every non-nil edge is the value at the index
				some := false
				for _, e := range ph.Edges {
					if c, ok := e.(*ssa.Const); ok && c.IsNil() {
						continue
					}
					if !dependsOn(e, target, d+1) {
						return false
					}
					some = true
				}
				return some
			}
			var ops []*ssa.Value
			for _, op := range in.Operands(ops) {
				if op != nil && *op != nil && dependsOn(*op, target, d+1) {
					return true
				}
			}
		}
		return false
	}
	instrsOf(V, func(b *ssa.BasicBlock, in ssa.Instruction) {
		// indexed form: vals[i] = e.Encode(...)
		if st, ok := in.(*ssa.Store); ok {
			ia, ok := st.Addr.(*ssa.IndexAddr)
			if !ok {
				return
			}
			sl, ok := ia.X.Type().Underlying().(*types.Slice)
			if !ok || !isByteSlice(sl.Elem()) {
				return
			}
			nApp++
			header := loopHeaderOf(b)
			if header == nil {
				bad = append(bad, "an element is stored outside the record loop at "+p.Pos(st.Pos()))
				return
			}
			ec, ok := st.Val.(*ssa.Call)
			if !ok || !ec.Call.IsInvoke() || ec.Call.Method.Name() != "Encode" || ec.Call.Value != ssa.Value(encPrm) {
				bad = append(bad, "the bytes stored at "+p.Pos(st.Pos())+" are not the result of Encode on the encoder (another record's bytes are re-used)")
				return
			}
			// the value encoded and the slot written are those of the same loop index
			idx := stripConv(ia.Index)
			if len(ec.Call.Args) != 1 || !dependsOn(ec.Call.Args[0], idx, 0) {
				bad = append(bad, "the value encoded at "+p.Pos(ec.Pos())+" is not taken at the index of the slot it is stored into")
			}
			for i := range header.Preds {
				if header.Dominates(header.Preds[i]) && !b.Dominates(header.Preds[i]) {
					bad = append(bad, "the store at "+p.Pos(st.Pos())+" is skipped on some iterations")
				}
			}
			return
		}
		call, ok := in.(*ssa.Call)
		if !ok {
			return
		}
		bi, ok := call.Call.Value.(*ssa.Builtin)
		if !ok || bi.Name() != "append" || len(call.Call.Args) != 2 {
			return
		}
		sl, ok := call.Type().Underlying().(*types.Slice)
		if !ok || !isByteSlice(sl.Elem()) {
			return
		}
		nApp++
		header := loopHeaderOf(b)
		if header == nil {
			bad = append(bad, "an element is appended outside the record loop at "+p.Pos(call.Pos()))
			return
		}
		var idx *ssa.Phi
		for _, hin := range header.Instrs {
			if ph, ok := hin.(*ssa.Phi); ok && isIntType(ph.Type()) {
				idx = ph
			}
		}
		// appended elements: stores into the varargs array
		va, ok := call.Call.Args[1].(*ssa.Slice)
		var elems []ssa.Value
		if ok {
			if al, ok := va.X.(*ssa.Alloc); ok {
				for _, ref := range *al.Referrers() {
					if ia, ok := ref.(*ssa.IndexAddr); ok {
						for _, r2 := range *ia.Referrers() {
							if st, ok := r2.(*ssa.Store); ok {
								elems = append(elems, st.Val)
							}
						}
					}
				}
			}
		}
		if len(elems) == 0 {
			bad = append(bad, "the elements appended at "+p.Pos(call.Pos())+" cannot be identified (another slice is appended wholesale)")
			return
		}
		for _, el := range elems {
			ec, ok := el.(*ssa.Call)
			if !ok || !ec.Call.IsInvoke() || ec.Call.Method.Name() != "Encode" || ec.Call.Value != ssa.Value(encPrm) {
				bad = append(bad, "the bytes appended at "+p.Pos(call.Pos())+" are not the result of Encode on the encoder (another record's bytes are re-used)")
				continue
			}
			if idx == nil || len(ec.Call.Args) != 1 || !dependsOn(ec.Call.Args[0], idx, 0) {
				bad = append(bad, "the value encoded at "+p.Pos(ec.Pos())+" is not taken at the loop index of its iteration")
			}
		}
		for i := range header.Preds {
			pred := header.Preds[i]
			if header.Dominates(pred) && !b.Dominates(pred) {
				bad = append(bad, "the append at "+p.Pos(call.Pos())+" is skipped on some iterations")
			}
		}
	})
	if nApp == 0 {
		bad = append(bad, "no append into the result found")
	}
	r.Check(len(bad) == 0, "value bytes built by "+shortFn(V), p.Pos(V.Pos()), fmt.Sprintf("%d append(s), each Encode(value at the loop index), unconditional", nApp), strings.Join(dedupStrings(sortStr(bad)), "; "))
}

// checkEncodeIndependent (shared by C01/C02): the builder keeps the result of
// every Encode call until all values are encoded (the keep mask compares
// neighbours, the leaf array packs them afterwards), so the slices must be
// independent: for every Encoder implementation of package encode, what
// Encode returns is memory allocated by that call (or its own argument, for an
// identity encoder) — never memory the encoder object holds and re-uses.
func checkEncodeIndependent(p *Program, r *Report, rule string) {
	encs := encoderTypes(p)
	r.Rule(rule, "E1", "Encode returns memory of its own, not a buffer the encoder keeps", len(encs))
	for _, n := range encs {
		enc := encMethod(p, n, "Encode")
		if enc == nil || len(enc.Params) < 2 {
			r.Unk("encode."+n.Obj().Name()+".Encode", "", "method not found")
			continue
		}
		r.Func(shortFn(enc))
		a := newPts(p)
		recv := a.seedObj(kShared, "ENCODER(receiver)")
		arg := a.seedObj(kParam, "VALUE(argument)")
		a.reachFn(enc)
		a.add(enc.Params[0], recv)
		a.add(enc.Params[1], arg)
		a.solveWithClosures()
		held := map[*aobj]bool{}
		a.reachableObjs(oset{recv: true}, func(o *aobj, _ string) bool {
			held[o] = true
			return true
		})
		var bad []string
		for _, ret := range returnsOf(enc) {
			if len(ret.Results) == 0 {
				continue
			}
			for o := range a.val(ret.Results[0]) {
				if held[o] && o != arg {
					bad = append(bad, fmt.Sprintf("the result returned at %s may be %s, memory the encoder object holds: every slice the builder keeps then shows the last value encoded", p.Pos(ret.Pos()), o))
				}
			}
		}
		r.Check(len(bad) == 0, "encode."+n.Obj().Name()+".Encode returns independent memory", p.Pos(enc.Pos()), "result not reachable from the receiver", strings.Join(dedupStrings(sortStr(bad)), "; "))
	}
}

// keepMaskCarried: v is the (in)equality of bytes.Compare/bytes.Equal applied
// to values[idx] and a loop-carried predecessor: a phi at the loop header whose
// entry value is values[k] for a constant k and whose back-edge value is
// values[idx] of the same iteration (prev = values[i] on every iteration).
func keepMaskCarried(v ssa.Value, idx ssa.Value, values *ssa.Parameter, header *ssa.BasicBlock) bool {
	if header == nil {
		return false
	}
	var call *ssa.Call
	switch x := v.(type) {
	case *ssa.BinOp:
		if x.Op != token.NEQ && x.Op != token.EQL {
			return false
		}
		c, ok := x.X.(*ssa.Call)
		if !ok {
			c, ok = x.Y.(*ssa.Call)
		}
		if !ok {
			return false
		}
		// Compare(..) != 0, or Equal(..) == false / != true
		if calleeIs(c, "bytes.Compare") {
			k, isK := constInt(x.Y)
			if !isK {
				k, isK = constInt(x.X)
			}
			if !(isK && k == 0 && x.Op == token.NEQ) {
				return false
			}
		} else if calleeIs(c, "bytes.Equal") {
			bv, isB := constBool(x.Y)
			if !isB {
				bv, isB = constBool(x.X)
			}
			if !isB || (x.Op == token.EQL) == bv {
				return false
			}
		} else {
			return false
		}
		call = c
	case *ssa.UnOp:
		c, ok := x.X.(*ssa.Call)
		if x.Op != token.NOT || !ok || !calleeIs(c, "bytes.Equal") {
			return false
		}
		call = c
	default:
		return false
	}
	if len(call.Call.Args) != 2 {
		return false
	}
	isCur := func(a ssa.Value) bool {
		ld, ok := a.(*ssa.UnOp)
		if !ok || ld.Op != token.MUL {
			return false
		}
		ia, ok := ld.X.(*ssa.IndexAddr)
		return ok && ia.X == ssa.Value(values) && stripConv(ia.Index) == stripConv(idx)
	}
	isCarried := func(a ssa.Value) bool {
		ph, ok := a.(*ssa.Phi)
		if !ok || ph.Block() != header {
			return false
		}
		for i, ed := range ph.Edges {
			if header.Dominates(header.Preds[i]) {
				if !isCur(ed) {
					return false
				}
				continue
			}
			ld, ok := ed.(*ssa.UnOp)
			if !ok || ld.Op != token.MUL {
				return false
			}
			ia, ok := ld.X.(*ssa.IndexAddr)
			if !ok || ia.X != ssa.Value(values) {
				return false
			}
			if _, isK := constInt(ia.Index); !isK {
				return false
			}
		}
		return true
	}
	a0, a1 := call.Call.Args[0], call.Call.Args[1]
	return (isCur(a0) && isCarried(a1)) || (isCur(a1) && isCarried(a0))
}
