package main

// E6 — symbolic layout agreement.
//
// A small normaliser turns straight-line SSA integer/byte expressions into
// canonical terms: polynomials over symbols (like terms merged), shifts by
// constants folded into multiplications, byte assembly kept as a sum/or of
// scaled bytes, bitmap.Mask[k] == (1<<k)-1 == mask(k), commutative operators
// sorted. Single-block helpers of the analysed set are inlined. Anything
// outside the vocabulary becomes an opaque symbol, so two terms are only ever
// reported equal when they are equal.

import (
	"fmt"
	"go/constant"
	"go/token"
	"go/types"
	"sort"
	"strings"

	"golang.org/x/tools/go/ssa"
)

type term struct {
	op   string // const, sym, add, mul, shl, shr, and, or, xor, andnot, mask, pow2, conv, cmp, idx, slice, call, field, popcnt, neg, not, tuple
	c    int64
	name string
	args []*term
	str  string
}

func (t *term) String() string {
	if t.str != "" {
		return t.str
	}
	switch t.op {
	case "const":
		t.str = fmt.Sprint(t.c)
	case "sym":
		t.str = t.name
	default:
		var a []string
		for _, x := range t.args {
			a = append(a, x.String())
		}
		n := t.op
		if t.name != "" {
			n += ":" + t.name
		}
		t.str = n + "(" + strings.Join(a, ",") + ")"
	}
	return t.str
}

func K(c int64) *term               { return &term{op: "const", c: c} }
func S(n string) *term              { return &term{op: "sym", name: n} }
func O(op string, a ...*term) *term { return norm(&term{op: op, args: a}) }
func ON(op, name string, a ...*term) *term {
	return norm(&term{op: op, name: name, args: a})
}
func isK(t *term) bool { return t.op == "const" }

func sortTerms(ts []*term) {
	sort.Slice(ts, func(i, j int) bool { return ts[i].String() < ts[j].String() })
}

// splitCoef: t = coef * rest
func splitCoef(t *term) (int64, *term) {
	if t.op == "mul" && len(t.args) >= 2 && isK(t.args[0]) {
		rest := t.args[1:]
		if len(rest) == 1 {
			return t.args[0].c, rest[0]
		}
		return t.args[0].c, &term{op: "mul", args: rest}
	}
	if isK(t) {
		return t.c, nil
	}
	return 1, t
}

func norm(t *term) *term {
	switch t.op {
	case "add":
		coefs := map[string]int64{}
		reps := map[string]*term{}
		c := int64(0)
		var rec func(x *term)
		rec = func(x *term) {
			if x.op == "add" {
				for _, y := range x.args {
					rec(y)
				}
				return
			}
			k, rest := splitCoef(x)
			if rest == nil {
				c += k
				return
			}
			coefs[rest.String()] += k
			reps[rest.String()] = rest
		}
		for _, x := range t.args {
			rec(x)
		}
		var flat []*term
		for k, co := range coefs {
			if co == 0 {
				continue
			}
			if co == 1 {
				flat = append(flat, reps[k])
			} else {
				flat = append(flat, mulTerms(K(co), reps[k]))
			}
		}
		// pow2(j) - 1 => mask(j)
		if c == -1 {
			for i, x := range flat {
				if x.op == "pow2" {
					flat[i] = &term{op: "mask", args: x.args}
					c = 0
					break
				}
			}
		}
		if c != 0 {
			flat = append(flat, K(c))
		}
		if len(flat) == 0 {
			return K(0)
		}
		if len(flat) == 1 {
			return flat[0]
		}
		sortTerms(flat)
		return &term{op: "add", args: flat}
	case "mul":
		return mulTerms(t.args...)
	case "shl":
		if isK(t.args[1]) {
			if isK(t.args[0]) {
				return K(t.args[0].c << uint(t.args[1].c))
			}
			if t.args[1].c >= 0 && t.args[1].c < 62 {
				return mulTerms(t.args[0], K(1<<uint(t.args[1].c)))
			}
		}
		if isK(t.args[0]) && t.args[0].c == 1 {
			return &term{op: "pow2", args: []*term{t.args[1]}}
		}
		return t
	case "shr":
		if isK(t.args[0]) && isK(t.args[1]) {
			return K(t.args[0].c >> uint(t.args[1].c))
		}
		if isK(t.args[1]) && t.args[1].c == 0 {
			return t.args[0]
		}
		return t
	case "and", "or", "xor":
		var flat []*term
		var rec func(x *term)
		rec = func(x *term) {
			if x.op == t.op {
				for _, y := range x.args {
					rec(y)
				}
			} else {
				flat = append(flat, x)
			}
		}
		for _, x := range t.args {
			rec(x)
		}
		// fold constants
		var cs []*term
		var rest []*term
		for _, x := range flat {
			if isK(x) {
				cs = append(cs, x)
			} else {
				rest = append(rest, x)
			}
		}
		if len(cs) > 0 && t.op == "and" {
			// a narrowing/sign conversion under a constant mask that fits is transparent: int32(x)&1 == x&1
			m := int64(-1)
			for _, x := range cs {
				m &= x.c
			}
			if m >= 0 {
				for i, x := range rest {
					if (x.op == "conv" || x.op == "sext") && len(x.args) == 1 && bitLen(m) < convBits(x.name) {
						rest[i] = x.args[0]
					}
				}
			}
		}
		if len(cs) > 0 {
			acc := cs[0].c
			for _, x := range cs[1:] {
				switch t.op {
				case "and":
					acc &= x.c
				case "or":
					acc |= x.c
				case "xor":
					acc ^= x.c
				}
			}
			if len(rest) == 0 {
				return K(acc)
			}
			if !(t.op != "and" && acc == 0) {
				rest = append(rest, K(acc))
			}
		}
		if len(rest) == 1 {
			return rest[0]
		}
		sortTerms(rest)
		return &term{op: t.op, args: rest}
	case "conv", "sext":
		if len(t.args) == 1 && isK(t.args[0]) {
			return t.args[0]
		}
		// index arithmetic: int32(a + k) == int32(a) + k (no overflow assumed in 32/64-bit index types)
		if t.op == "conv" && convBits(t.name) >= 32 && len(t.args) == 1 && t.args[0].op == "add" {
			var parts []*term
			for _, a := range t.args[0].args {
				parts = append(parts, norm(&term{op: "conv", name: t.name, args: []*term{a}}))
			}
			return O("add", parts...)
		}
		if t.op == "sext" && len(t.args) == 1 && termNonNeg(t.args[0]) {
			return t.args[0]
		}
		return t
	case "andnot":
		// x &^ c  ==  x & ^c
		if isK(t.args[1]) {
			return O("and", t.args[0], K(^t.args[1].c))
		}
		return t
	}
	return t
}

func mulTerms(args ...*term) *term {
	var flat []*term
	c := int64(1)
	var rec func(x *term)
	rec = func(x *term) {
		if x.op == "mul" {
			for _, y := range x.args {
				rec(y)
			}
		} else if isK(x) {
			c *= x.c
		} else {
			flat = append(flat, x)
		}
	}
	for _, x := range args {
		rec(x)
	}
	if c == 0 {
		return K(0)
	}
	for i, x := range flat {
		if x.op == "add" {
			rest := append(append([]*term{}, flat[:i]...), flat[i+1:]...)
			var sum []*term
			for _, y := range x.args {
				sum = append(sum, mulTerms(append(append([]*term{K(c)}, rest...), y)...))
			}
			return O("add", sum...)
		}
	}
	if len(flat) == 0 {
		return K(c)
	}
	sortTerms(flat)
	if c != 1 {
		flat = append([]*term{K(c)}, flat...)
	}
	if len(flat) == 1 {
		return flat[0]
	}
	return &term{op: "mul", args: flat}
}

// ---------------------------------------------------------------------------

type evaluator struct {
	p     *Program
	env   map[ssa.Value]*term
	depth int
	// phiSym controls how phis are named: by comment (source variable) only
	cache    map[ssa.Value]*term
	bitsBusy map[ssa.Value]bool
	// expandPhi: render loop-free phis structurally (for sibling comparison)
	expandPhi bool
	phiBusy   map[*ssa.Phi]bool
	// recFields: field values of value records returned by expanded helpers (E11): "rec:new#1.found" -> term
	recFields map[string]*term
}

func newEval(p *Program) *evaluator {
	return &evaluator{p: p, env: map[ssa.Value]*term{}, cache: map[ssa.Value]*term{}}
}

func intBytes(t types.Type) int64 {
	if b, ok := t.Underlying().(*types.Basic); ok {
		switch b.Kind() {
		case types.Int8, types.Uint8:
			return 1
		case types.Int16, types.Uint16:
			return 2
		case types.Int32, types.Uint32:
			return 4
		case types.Int64, types.Uint64:
			return 8
		case types.Int, types.Uint, types.Uintptr:
			return platformIntBytes
		}
	}
	return 0
}

// platformIntBytes: size of int on the analysed configuration (set by Load).
var platformIntBytes int64 = 8

func isSigned(t types.Type) bool {
	b, ok := t.Underlying().(*types.Basic)
	return ok && b.Info()&types.IsInteger != 0 && b.Info()&types.IsUnsigned == 0
}

// path renders the access path of an address.
func (e *evaluator) path(v ssa.Value) string {
	switch x := v.(type) {
	case *ssa.Parameter:
		if t, ok := e.env[x]; ok {
			return t.String()
		}
		if r := wireRootName(x.Type()); r != "" {
			return r
		}
		return x.Name()
	case *ssa.FreeVar:
		return "free:" + x.Name()
	case *ssa.FieldAddr:
		_, fv, _ := fieldOfAddr(x)
		if fv.Embedded() {
			return e.path(x.X)
		}
		return e.path(x.X) + "." + fv.Name()
	case *ssa.UnOp:
		if x.Op == token.MUL {
			if wp := wirePathOf(x); wp != "" {
				return wp
			}
			return e.path(x.X)
		}
	case *ssa.Global:
		return x.Pkg.Pkg.Name() + "." + x.Name()
	case *ssa.IndexAddr:
		return e.path(x.X) + "[" + e.eval(x.Index).String() + "]"
	case *ssa.Alloc:
		if t, ok := e.env[x]; ok {
			return t.String()
		}
		// a local that holds a value record returned by an expanded helper (at := addrOf(i)): the record
		if x.Referrers() != nil {
			var rec *term
			n := 0
			for _, ref := range *x.Referrers() {
				if st, ok := ref.(*ssa.Store); ok && st.Addr == ssa.Value(x) {
					n++
					if t, ok := e.env[st.Val]; ok && t.op == "sym" && strings.HasPrefix(t.name, "rec:") {
						rec = t
					}
				}
			}
			if n == 1 && rec != nil {
				return rec.name
			}
		}
		// a local copy of a record loaded from memory once (b := xs[i]; b.f): name it by its source
		if src := soleCopySource(x); src != nil {
			return e.path(src)
		}
		return "local:" + x.Comment
	case *ssa.Slice:
		return e.eval(x).String()
	case *ssa.Phi:
		return "phi:" + x.Comment
	case *ssa.Call:
		if t, ok := e.env[v]; ok {
			return t.String()
		}
		// a constructor of the analysed packages (every return is a fresh allocation): the object it
		// returns is a local of the caller in all but name
		if g := calleeOf(x); g != nil && inAnalysed(g) && len(g.Blocks) > 0 {
			fresh := true
			n := 0
			for _, ret := range returnsOf(g) {
				if len(ret.Results) != 1 {
					fresh = false
					break
				}
				if _, ok := ret.Results[0].(*ssa.Alloc); !ok {
					fresh = false
				}
				n++
			}
			if fresh && n > 0 {
				return "local:new" + g.Name()
			}
		}
	case *ssa.Extract:
		if t, ok := e.env[v]; ok {
			return t.String()
		}
		// the object part of a constructor with an "ok" result: a fresh allocation or nil at every return
		if call, ok := x.Tuple.(*ssa.Call); ok {
			if g := calleeOf(call); g != nil && inAnalysed(g) && len(g.Blocks) > 0 {
				fresh, n := true, 0
				for _, ret := range returnsOf(g) {
					if x.Index >= len(ret.Results) {
						fresh = false
						break
					}
					switch rv := ret.Results[x.Index].(type) {
					case *ssa.Alloc:
						n++
					case *ssa.Const:
						if !rv.IsNil() {
							fresh = false
						}
					default:
						fresh = false
					}
				}
				if fresh && n > 0 {
					return "local:new" + g.Name()
				}
			}
		}
	}
	if t, ok := e.env[v]; ok {
		return t.String()
	}
	return "?" + v.Name()
}

func (e *evaluator) eval(v ssa.Value) *term {
	if t, ok := e.env[v]; ok {
		return t
	}
	if t, ok := e.cache[v]; ok {
		return t
	}
	t := e.eval1(v)
	e.cache[v] = t
	return t
}

func (e *evaluator) eval1(v ssa.Value) *term {
	switch x := v.(type) {
	case *ssa.Const:
		if x.Value != nil && x.Value.Kind() == constant.Int {
			if i, ok := constant.Int64Val(x.Value); ok {
				return K(i)
			}
			if u, ok := constant.Uint64Val(x.Value); ok {
				return K(int64(u))
			}
		}
		if x.Value != nil && x.Value.Kind() == constant.Bool {
			if constant.BoolVal(x.Value) {
				return S("true")
			}
			return S("false")
		}
		if x.IsNil() {
			return S("nil")
		}
		if x.Value == nil {
			return S("zero:" + x.Type().String()) // zero value of a struct / array type
		}
		return S("const:" + x.Value.ExactString())
	case *ssa.Parameter:
		return S(x.Name())
	case *ssa.FreeVar:
		return S("free:" + x.Name())
	case *ssa.BinOp:
		a, b := e.eval(x.X), e.eval(x.Y)
		w := e.width(x.Type())
		wrap := func(r *term, fits bool) *term {
			// arithmetic in a type narrower than 32 bits wraps: keep it visible unless it provably fits
			if w > 0 && w < 32 && !fits && !isK(r) {
				return ON("wrap", fmt.Sprint(w), r)
			}
			return r
		}
		switch x.Op {
		case token.ADD:
			if isStringType(x.Type()) {
				return ON("concat", "", a, b)
			}
			return wrap(O("add", a, b), maxInt(e.bits(x.X), e.bits(x.Y))+1 <= w)
		case token.SUB:
			return wrap(O("add", a, mulTerms(K(-1), b)), false)
		case token.MUL:
			return wrap(mulTerms(a, b), e.bits(x.X)+e.bits(x.Y) <= w)
		case token.SHL:
			if k, ok := constInt(x.Y); ok && w > 0 {
				// index arithmetic in 32/64-bit types is assumed not to overflow
				if w >= 32 || e.bits(x.X)+int(k) <= w {
					return O("shl", a, b)
				}
				// bits are shifted out of the type
				return ON("shlw", fmt.Sprint(w), a, b)
			}
			return O("shl", a, b)
		case token.SHR:
			name := "u"
			if isSigned(x.X.Type()) {
				name = "s"
			}
			r := O("shr", a, b)
			if r.op == "shr" {
				r = &term{op: "shr", name: name, args: r.args}
			}
			return r
		case token.AND:
			return O("and", a, b)
		case token.OR:
			// the bits of the operands cannot overlap (x<<k | y with y narrower than k bits): or is add
			lowZeros := func(v ssa.Value) int {
				for {
					if cv, ok := v.(*ssa.Convert); ok {
						v = cv.X
						continue
					}
					break
				}
				if sh, ok := v.(*ssa.BinOp); ok && sh.Op == token.SHL {
					if k, ok := constInt(sh.Y); ok && k > 0 {
						return int(k)
					}
				}
				return 0
			}
			if z := lowZeros(x.X); z > 0 && e.bits(x.Y) <= z && !strings.Contains(a.String(), "shlw") {
				return O("add", a, b)
			}
			if z := lowZeros(x.Y); z > 0 && e.bits(x.X) <= z && !strings.Contains(b.String(), "shlw") {
				return O("add", a, b)
			}
			return O("or", a, b)
		case token.XOR:
			return O("xor", a, b)
		case token.AND_NOT:
			return O("andnot", a, b)
		case token.QUO:
			if isK(b) && b.c > 0 && b.c&(b.c-1) == 0 && !isSigned(x.X.Type()) {
				sh := int64(0)
				for c := b.c; c > 1; c >>= 1 {
					sh++
				}
				return &term{op: "shr", name: "u", args: []*term{a, K(sh)}}
			}
			return ON("div", "", a, b)
		case token.EQL, token.NEQ, token.LSS, token.GTR, token.LEQ, token.GEQ:
			return ON("cmp", x.Op.String(), a, b)
		}
		return ON("binop", x.Op.String(), a, b)
	case *ssa.Convert:
		a := e.eval(x.X)
		fs, ts := intBytes(x.X.Type()), intBytes(x.Type())
		if fs != 0 && ts != 0 {
			if isK(a) {
				return a
			}
			if ts < fs {
				return ON("conv", x.Type().Underlying().String(), a) // narrowing kept
			}
			if ts > fs && isSigned(x.X.Type()) && !e.nonNegative(x.X) && !termNonNeg(a) {
				return ON("sext", x.X.Type().Underlying().String(), a) // sign extension kept
			}
			if ts == fs && isSigned(x.X.Type()) != isSigned(x.Type()) {
				return a // same width: bit pattern preserved
			}
			return a // widening of unsigned / known non-negative: transparent
		}
		if fs == 0 && ts == 0 {
			return ON("convert", x.Type().String(), a)
		}
		return ON("convert", x.Type().String(), a)
	case *ssa.ChangeType:
		return e.eval(x.X)
	case *ssa.MakeInterface:
		return e.eval(x.X)
	case *ssa.Phi:
		if e.expandPhi {
			if e.phiBusy == nil {
				e.phiBusy = map[*ssa.Phi]bool{}
			}
			if !e.phiBusy[x] && len(e.phiBusy) < 6 {
				e.phiBusy[x] = true
				var args []*term
				cyc := false
				for _, ed := range x.Edges {
					t := e.eval1(ed)
					if strings.Contains(t.String(), "phi:"+x.Comment+"@") {
						cyc = true
					}
					args = append(args, t)
				}
				delete(e.phiBusy, x)
				if !cyc {
					sortTerms(args)
					return &term{op: "phi", args: args}
				}
			}
		}
		return S("phi:" + x.Comment + "@" + x.Parent().Name() + "." + fmt.Sprint(x.Block().Index))
	case *ssa.Field:
		if bt := e.eval(x.X); bt.op == "sym" && strings.HasPrefix(bt.name, "rec:") {
			if st, ok := x.X.Type().Underlying().(*types.Struct); ok && x.Field < st.NumFields() {
				if v, ok := e.recFields[bt.name+"."+st.Field(x.Field).Name()]; ok {
					return v
				}
			}
		}
		return ON("field", fmt.Sprint(x.Field), e.eval(x.X))
	case *ssa.UnOp:
		switch x.Op {
		case token.MUL:
			// bitmap.Mask[i] / bitmap.Bit[i]
			if ia, ok := x.X.(*ssa.IndexAddr); ok {
				if g, ok := ia.X.(*ssa.Global); ok && pkgPathOfGlobal(g) == lowPath+"/bitmap" {
					switch g.Name() {
					case "Mask":
						return &term{op: "mask", args: []*term{e.eval(ia.Index)}}
					case "Bit":
						return &term{op: "pow2", args: []*term{e.eval(ia.Index)}}
					}
				}
				// indexing a reslice: x[lo:hi][j] == x[lo+j]
				if sl, ok := ia.X.(*ssa.Slice); ok {
					lo := K(0)
					if sl.Low != nil {
						lo = e.eval(sl.Low)
					}
					return ON("idx", "", S(e.pathOrTerm(sl.X)), O("add", lo, e.eval(ia.Index)))
				}
				// indexing a value bound to a term (a helper's result expanded by E11): look through a reslice
				if bt, ok := e.env[ia.X]; ok && bt.op == "slice" {
					return idxOf(bt, e.eval(ia.Index))
				}
				return ON("idx", "", S(e.path(ia.X)), e.eval(ia.Index))
			}
			pth := e.path(x.X)
			if v, ok := e.recFields[pth]; ok {
				return v
			}
			if fa, ok := x.X.(*ssa.FieldAddr); ok {
				if v := e.constructedField(fa); v != nil {
					return v
				}
			}
			return S(pth)
		case token.SUB:
			return mulTerms(K(-1), e.eval(x.X))
		case token.XOR:
			a := e.eval(x.X)
			if isK(a) {
				return K(^a.c)
			}
			return ON("not", "", a)
		case token.NOT:
			return ON("lnot", "", e.eval(x.X))
		}
		return ON("unop", x.Op.String(), e.eval(x.X))
	case *ssa.Index:
		return ON("idx", "", e.eval(x.X), e.eval(x.Index))
	case *ssa.Lookup:
		return ON("idx", "", e.eval(x.X), e.eval(x.Index))
	case *ssa.Slice:
		args := []*term{S(e.pathOrTerm(x.X))}
		for _, b := range []ssa.Value{x.Low, x.High} {
			if b == nil {
				args = append(args, S("_"))
			} else {
				args = append(args, e.eval(b))
			}
		}
		return &term{op: "slice", args: args}
	case *ssa.Extract:
		if c, ok := x.Tuple.(*ssa.Call); ok {
			if rs := e.inline(c); rs != nil && x.Index < len(rs) {
				return rs[x.Index]
			}
		}
		return ON("extract", fmt.Sprint(x.Index), e.eval(x.Tuple))
	case *ssa.Call:
		if rs := e.inline(x); len(rs) == 1 {
			return rs[0]
		}
		var args []*term
		for _, a := range x.Call.Args {
			args = append(args, e.eval(a))
		}
		name := "dyn"
		if c := x.Call.StaticCallee(); c != nil {
			name = funcID(c)
			// binary.LittleEndian.UintN(b) is the little-endian assembly of b[0..N/8)
			for _, n := range []int64{2, 4, 8} {
				if name == fmt.Sprintf("(encoding/binary.littleEndian).Uint%d", 8*n) && len(args) == 2 {
					var parts []*term
					for j := int64(0); j < n; j++ {
						parts = append(parts, mulTerms(K(int64(1)<<uint(8*j)), idxOf(args[1], K(j))))
					}
					return O("or", parts...)
				}
			}
			if strings.HasPrefix(name, "math/bits.OnesCount") && len(args) == 1 {
				return &term{op: "popcnt", args: args}
			}
		} else if b, ok := x.Call.Value.(*ssa.Builtin); ok {
			name = b.Name()
			if name == "len" && len(args) == 1 {
				return ON("len", "", S(e.pathOrTerm(stripBytesConv(x.Call.Args[0]))))
			}
		} else if x.Call.IsInvoke() {
			name = "invoke." + x.Call.Method.Name()
			args = append([]*term{e.eval(x.Call.Value)}, args...)
		} else {
			// a call through a function value that is bound (by E11, through a parameter) or defined
			// right here as a method value: the call of that method on its bound receiver
			if bt := e.eval(x.Call.Value); bt != nil && bt.op == "boundmethod" {
				return ON("call", bt.name, append(append([]*term{}, bt.args...), args...)...)
			}
		}
		return ON("call", name, args...)
	case *ssa.MakeClosure:
		// a method value x.M: the synthetic bound-method wrapper with the receiver as its only binding
		if fn, ok := x.Fn.(*ssa.Function); ok && strings.Contains(fn.Synthetic, "bound method wrapper") && len(x.Bindings) == 1 {
			if obj, ok := fn.Object().(*types.Func); ok {
				if m := e.p.Prog.FuncValue(obj); m != nil {
					return &term{op: "boundmethod", name: funcID(m), args: []*term{e.eval(x.Bindings[0])}}
				}
			}
		}
	case *ssa.Function:
		// a function value / method expression ((*T).M): a call through it is a call of that function
		// with the receiver as first argument
		fn := x
		if fn.Synthetic != "" {
			if obj, ok := fn.Object().(*types.Func); ok {
				if m := e.p.Prog.FuncValue(obj); m != nil {
					fn = m
				}
			}
		}
		return &term{op: "boundmethod", name: funcID(fn)}
	case *ssa.FieldAddr, *ssa.IndexAddr, *ssa.Global, *ssa.Alloc:
		return S("&" + e.path(v))
	case *ssa.TypeAssert:
		return ON("assert", x.AssertedType.String(), e.eval(x.X))
	}
	return S("?" + v.Name() + ":" + fmt.Sprintf("%T", v))
}

// convBits: width in bits of the target type named in a conv/sext term.
func convBits(name string) int {
	switch {
	case strings.HasSuffix(name, "int8"), name == "byte":
		return 8
	case strings.HasSuffix(name, "int16"):
		return 16
	case strings.HasSuffix(name, "int32"):
		return 32
	}
	return 64
}

// termNonNeg: the term is known to be >= 0.
func termNonNeg(t *term) bool {
	switch t.op {
	case "const":
		return t.c >= 0
	case "mask", "popcnt", "pow2", "len":
		return true
	case "and":
		for _, a := range t.args {
			if isK(a) && a.c >= 0 {
				return true
			}
			if termNonNeg(a) {
				return true
			}
		}
	case "shr":
		return t.name == "u"
	}
	return false
}

// idxOf builds base[i], looking through a reslice: x[lo:hi][i] == x[lo+i].
func idxOf(base *term, i *term) *term {
	if base.op == "slice" && len(base.args) == 3 {
		lo := base.args[1]
		if lo.op == "sym" && lo.name == "_" {
			lo = K(0)
		}
		return ON("idx", "", base.args[0], O("add", lo, i))
	}
	return ON("idx", "", base, i)
}

func maxInt(a, b int) int {
	if a > b {
		return a
	}
	return b
}

// width of an integer type in bits (0 if not an integer).
func (e *evaluator) width(t types.Type) int {
	b, ok := t.Underlying().(*types.Basic)
	if !ok || b.Info()&types.IsInteger == 0 {
		return 0
	}
	if e.p != nil && e.p.Sizes != nil {
		return int(e.p.Sizes.Sizeof(t)) * 8
	}
	return int(intBytes(t)) * 8
}

func bitLen(c int64) int {
	n := 0
	for u := uint64(c); u > 0; u >>= 1 {
		n++
	}
	return n
}

// bits: upper bound on the number of significant bits of an integer value.
func (e *evaluator) bits(v ssa.Value) int {
	w := e.width(v.Type())
	if w == 0 {
		return 64
	}
	if e.bitsBusy == nil {
		e.bitsBusy = map[ssa.Value]bool{}
	}
	if e.bitsBusy[v] || len(e.bitsBusy) > 64 {
		return w // cycle (loop-carried value) or too deep: only the type bounds it
	}
	e.bitsBusy[v] = true
	defer delete(e.bitsBusy, v)
	switch x := v.(type) {
	case *ssa.Const:
		if c, ok := constInt(x); ok && c >= 0 {
			return bitLen(c)
		}
	case *ssa.Convert:
		if e.width(x.X.Type()) > 0 && (!isSigned(x.X.Type()) || e.nonNegative(x.X)) {
			if b := e.bits(x.X); b < w {
				return b
			}
		}
	case *ssa.BinOp:
		switch x.Op {
		case token.AND:
			b := maxInt(e.bits(x.X), e.bits(x.Y))
			if c, ok := constInt(x.Y); ok && c >= 0 && bitLen(c) < b {
				b = bitLen(c)
			}
			if c, ok := constInt(x.X); ok && c >= 0 && bitLen(c) < b {
				b = bitLen(c)
			}
			if e.bits(x.X) < b {
				b = e.bits(x.X)
			}
			if e.bits(x.Y) < b {
				b = e.bits(x.Y)
			}
			return b
		case token.SHR:
			if k, ok := constInt(x.Y); ok && !isSigned(x.X.Type()) {
				return maxInt(e.bits(x.X)-int(k), 0)
			}
		case token.SHL:
			if k, ok := constInt(x.Y); ok {
				if b := e.bits(x.X) + int(k); b < w {
					return b
				}
			}
		case token.OR, token.XOR:
			if b := maxInt(e.bits(x.X), e.bits(x.Y)); b < w {
				return b
			}
		case token.ADD:
			if b := maxInt(e.bits(x.X), e.bits(x.Y)) + 1; b < w {
				return b
			}
		case token.MUL:
			bx, by := e.bits(x.X), e.bits(x.Y)
			// x*c < 2^bits(x) * 2^ceil(log2 c)
			if c, ok := constInt(x.Y); ok && c > 0 {
				by = bitLen(c - 1)
			}
			if c, ok := constInt(x.X); ok && c > 0 {
				bx = bitLen(c - 1)
			}
			if b := bx + by; b < w {
				return b
			}
		}
	case *ssa.Phi:
		b := 0
		for _, ed := range x.Edges {
			if ed == v {
				continue
			}
			if _, isPhi := ed.(*ssa.Phi); isPhi {
				return w
			}
			if y := e.bits(ed); y > b {
				b = y
			}
		}
		if b < w {
			return b
		}
	}
	return w
}

// stripBytesConv: len([]byte(s)) == len(s)
func stripBytesConv(v ssa.Value) ssa.Value {
	if cv, ok := v.(*ssa.Convert); ok {
		if (isStringType(cv.X.Type()) || isByteSlice(cv.X.Type())) && (isStringType(cv.Type()) || isByteSlice(cv.Type())) {
			return cv.X
		}
	}
	return v
}

func pkgPathOfGlobal(g *ssa.Global) string {
	if g.Pkg != nil {
		return g.Pkg.Pkg.Path()
	}
	return ""
}

// nonNegative: the value is known to be >= 0 (so widening is transparent).
func (e *evaluator) nonNegative(v ssa.Value) bool {
	switch x := v.(type) {
	case *ssa.Const:
		i, ok := constInt(x)
		return ok && i >= 0
	case *ssa.BinOp:
		if x.Op == token.AND {
			if c, ok := constInt(x.Y); ok && c >= 0 {
				return true
			}
			if c, ok := constInt(x.X); ok && c >= 0 {
				return true
			}
		}
		if x.Op == token.SHR && !isSigned(x.X.Type()) {
			return true
		}
	case *ssa.Convert:
		return !isSigned(x.X.Type()) && intBytes(x.X.Type()) < intBytes(x.Type())
	}
	return false
}

func (e *evaluator) pathOrTerm(v ssa.Value) string {
	if u, ok := v.(*ssa.UnOp); ok && u.Op == token.MUL {
		if wp := wirePathOf(u); wp != "" {
			return wp
		}
		return e.path(u.X)
	}
	if t, ok := e.env[v]; ok {
		return t.String()
	}
	return e.eval(v).String()
}

// inline a static call to a single-block, side-effect-free function of the
// analysed set (bmBit, bitmap.Rank64, getLeafIndex ...).
func (e *evaluator) inline(c *ssa.Call) []*term {
	callee := c.Call.StaticCallee()
	if callee == nil || len(callee.Blocks) != 1 || e.depth > 3 || !inAnalysed(callee) {
		return nil
	}
	for _, in := range callee.Blocks[0].Instrs {
		switch x := in.(type) {
		case *ssa.Store:
			// a by-value record parameter spilled to the stack is not an effect
			if _, isAl := x.Addr.(*ssa.Alloc); isAl {
				if prm, isPrm := x.Val.(*ssa.Parameter); isPrm {
					if _, isStruct := prm.Type().Underlying().(*types.Struct); isStruct {
						continue
					}
				}
			}
			return nil
		case *ssa.MapUpdate, *ssa.Panic, *ssa.Defer, *ssa.Go:
			return nil
		}
	}
	sub := &evaluator{p: e.p, env: map[ssa.Value]*term{}, cache: map[ssa.Value]*term{}, depth: e.depth + 1, recFields: e.recFields}
	for i, prm := range callee.Params {
		if i >= len(c.Call.Args) {
			return nil
		}
		a := c.Call.Args[i]
		if _, isBasic := a.Type().Underlying().(*types.Basic); isBasic {
			sub.env[prm] = e.eval(a)
		} else {
			sub.env[prm] = S(e.pathOrTerm(a))
			// a constructed local record handed over by value: its fields travel with it
			if st, isStruct := a.Type().Underlying().(*types.Struct); isStruct {
				if ld, ok := a.(*ssa.UnOp); ok && ld.Op == token.MUL {
					if al, ok := ld.X.(*ssa.Alloc); ok {
						for fi := 0; fi < st.NumFields(); fi++ {
							if v := e.constructedFieldOf(al, fi); v != nil {
								nm := map[string]*term{}
								for k, t := range sub.recFields {
									nm[k] = t
								}
								nm[sub.env[prm].name+"."+st.Field(fi).Name()] = v
								sub.recFields = nm
							}
						}
					}
				}
			}
		}
	}
	ret, ok := lastInstr(callee.Blocks[0]).(*ssa.Return)
	if !ok {
		return nil
	}
	var out []*term
	for _, r := range ret.Results {
		out = append(out, sub.eval(r))
	}
	return out
}

// bindFrames evaluates v (a value of the innermost function) with parameters
// bound through the given chain of call sites (outermost first).
func bindFrames(p *Program, v ssa.Value, frames []*ssa.Call) *term {
	e := newEval(p)
	if len(frames) > 0 {
		site := frames[len(frames)-1]
		callee := site.Call.StaticCallee()
		for i, prm := range callee.Params {
			if i < len(site.Call.Args) {
				e.env[prm] = bindFrames(p, site.Call.Args[i], frames[:len(frames)-1])
			}
		}
	}
	return e.eval(v)
}

// containsTerm: sub occurs in t.
func containsTerm(t, sub *term) bool {
	if t.String() == sub.String() {
		return true
	}
	for _, a := range t.args {
		if containsTerm(a, sub) {
			return true
		}
	}
	return false
}

// mapSyms renames symbols and renormalises (so that argument order is canonical again).
func mapSyms(t *term, f func(string) string) *term {
	if t.op == "sym" {
		if n := f(t.name); n != t.name {
			return S(n)
		}
		return t
	}
	if len(t.args) == 0 {
		return t
	}
	args := make([]*term, len(t.args))
	for i, a := range t.args {
		args[i] = mapSyms(a, f)
	}
	return norm(&term{op: t.op, name: t.name, c: t.c, args: args})
}

// substitute replaces occurrences of symbol name by repl.
func substitute(t *term, name string, repl *term) *term {
	if t.op == "sym" {
		if t.name == name {
			return repl
		}
		return t
	}
	if len(t.args) == 0 {
		return t
	}
	args := make([]*term, len(t.args))
	for i, a := range t.args {
		args[i] = substitute(a, name, repl)
	}
	return norm(&term{op: t.op, name: t.name, c: t.c, args: args})
}

// soleCopySource: the local is written exactly once, as a whole, with a value
// loaded from memory (a struct copy), and its address does not escape to calls
// or stores; returns the address it was copied from.
func soleCopySource(al *ssa.Alloc) ssa.Value {
	if al.Referrers() == nil {
		return nil
	}
	if _, isStruct := al.Type().Underlying().(*types.Pointer).Elem().Underlying().(*types.Struct); !isStruct {
		return nil
	}
	var src ssa.Value
	n := 0
	for _, ref := range *al.Referrers() {
		switch x := ref.(type) {
		case *ssa.Store:
			if x.Addr != ssa.Value(al) {
				return nil // the address itself is stored somewhere
			}
			n++
			// a by-value record parameter spilled to the stack (func (l located) m() { ... l.found ... })
			if prm, isPrm := x.Val.(*ssa.Parameter); isPrm {
				src = prm
				continue
			}
			ld, ok := x.Val.(*ssa.UnOp)
			if !ok || ld.Op != token.MUL {
				return nil
			}
			src = ld.X
		case *ssa.FieldAddr:
			// field reads only: a store through the field address makes it a distinct object
			for _, r2 := range *x.Referrers() {
				if st, ok := r2.(*ssa.Store); ok && st.Addr == ssa.Value(x) {
					return nil
				}
				if _, ok := r2.(*ssa.UnOp); !ok {
					if _, isDbg := r2.(*ssa.DebugRef); !isDbg {
						return nil
					}
				}
			}
		case *ssa.UnOp, *ssa.DebugRef:
		default:
			return nil
		}
	}
	if n != 1 {
		return nil
	}
	return src
}

// constructedField: fa addresses field k of a local record that is assigned exactly once, as a whole, the
// result of a single-block constructor of the analysed packages ("at := addrOf(i)" with "func addrOf(i
// int32) bitAddr { return bitAddr{word: i >> 6, bit: i & 63} }"): the term the constructor stores into
// field k, with its parameters bound to the call's arguments.
func (e *evaluator) constructedField(fa *ssa.FieldAddr) *term {
	al, ok := fa.X.(*ssa.Alloc)
	if !ok {
		return nil
	}
	return e.constructedFieldOf(al, fa.Field)
}

func (e *evaluator) constructedFieldOf(al *ssa.Alloc, field int) *term {
	if al.Referrers() == nil || e.depth > 3 {
		return nil
	}
	var call *ssa.Call
	n := 0
	for _, ref := range *al.Referrers() {
		switch x := ref.(type) {
		case *ssa.Store:
			if x.Addr == ssa.Value(al) {
				n++
				call, _ = x.Val.(*ssa.Call)
			}
		case *ssa.FieldAddr:
			for _, r2 := range *x.Referrers() {
				if st, ok := r2.(*ssa.Store); ok && st.Addr == ssa.Value(x) {
					return nil // a field is assigned separately
				}
			}
		}
	}
	if n != 1 || call == nil {
		return nil
	}
	h := calleeOf(call)
	if h == nil || !inAnalysed(h) || len(h.Blocks) != 1 {
		return nil
	}
	ret, ok := lastInstr(h.Blocks[0]).(*ssa.Return)
	if !ok || len(ret.Results) != 1 {
		return nil
	}
	ld, ok := ret.Results[0].(*ssa.UnOp)
	if !ok || ld.Op != token.MUL {
		return nil
	}
	lit, ok := ld.X.(*ssa.Alloc)
	if !ok {
		return nil
	}
	sub := &evaluator{p: e.p, env: map[ssa.Value]*term{}, cache: map[ssa.Value]*term{}, depth: e.depth + 1, recFields: e.recFields}
	for i, prm := range h.Params {
		if i >= len(call.Call.Args) {
			return nil
		}
		a := call.Call.Args[i]
		if _, isBasic := a.Type().Underlying().(*types.Basic); isBasic {
			sub.env[prm] = e.eval(a)
		} else {
			sub.env[prm] = S(e.pathOrTerm(a))
		}
	}
	var val *term
	stores := 0
	for _, in := range h.Blocks[0].Instrs {
		st, ok := in.(*ssa.Store)
		if !ok {
			continue
		}
		f2, ok := st.Addr.(*ssa.FieldAddr)
		if !ok || f2.X != ssa.Value(lit) {
			return nil // some other store: not a plain constructor
		}
		if f2.Field == field {
			val = sub.eval(st.Val)
			stores++
		}
	}
	if stores == 1 {
		return val
	}
	if stores == 0 {
		// a field the literal does not mention
		if st, ok := lit.Type().Underlying().(*types.Pointer).Elem().Underlying().(*types.Struct); ok && field < st.NumFields() && isIntType(st.Field(field).Type()) {
			return K(0)
		}
	}
	return nil
}
