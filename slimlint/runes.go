package main

// Keys are byte strings. A for-range over a string decodes UTF-8: for a byte
// >= 0x80 it yields a rune value (or U+FFFD) and skips indexes, so code that
// walks key material this way compares or copies something other than the
// key's bytes. The rule reports every string range (ssa.Range over a string)
// in the functions reachable from the given entry points whose operand can
// hold key material: the key parameter, a session's key, a stored prefix
// converted to string — i.e. any string that is not a constant.

import (
	"fmt"
	"sort"

	"golang.org/x/tools/go/ssa"
)

type runeSite struct {
	fn *ssa.Function
	in *ssa.Range
}

func runeRangeSites(fns []*ssa.Function) []runeSite {
	var out []runeSite
	for _, f := range fns {
		if f.Synthetic != "" || len(f.Blocks) == 0 {
			continue
		}
		instrsOf(f, func(_ *ssa.BasicBlock, in ssa.Instruction) {
			rg, ok := in.(*ssa.Range)
			if !ok || !isStringType(rg.X.Type()) {
				return
			}
			if _, isConst := rg.X.(*ssa.Const); isConst {
				return
			}
			out = append(out, runeSite{f, rg})
		})
	}
	return out
}

func checkNoRuneWalk(p *Program, r *Report, rule string, entries ...*ssa.Function) {
	r.Rule(rule, "SSA", "key material is never walked by runes (for-range over a string)", 0)
	var es []*ssa.Function
	for _, e := range entries {
		if e != nil {
			es = append(es, e)
		}
	}
	reach := trieReach(es...)
	var fns []*ssa.Function
	for f := range reach {
		if trieScope(f) {
			fns = append(fns, f)
		}
	}
	sort.Slice(fns, func(i, j int) bool { return fns[i].String() < fns[j].String() })
	sites := runeRangeSites(fns)
	ord := map[*ssa.Function]int{}
	for _, s := range sites {
		ord[s.fn]++
		r.Func(shortFn(s.fn))
		r.Bad(fmt.Sprintf("string range #%d in %s", ord[s.fn], shortFn(s.fn)), p.Pos(s.in.Pos()),
			"a for-range over a string decodes UTF-8: for key bytes >= 0x80 it yields rune values and skips indexes, so what is compared or copied is not the key's bytes (ASCII-only tests cannot see it)")
	}
	if len(sites) == 0 {
		r.Note("%s: no for-range over a non-constant string in %d functions", rule, len(fns))
	}
}

func controlNoRuneWalk(fx *Program, r *Report, rule string) {
	pkg := fx.FxPkg("runewalk")
	if pkg == nil {
		r.Control(rule, "fixtures/runewalk", false, "fixture package not loaded")
		return
	}
	for _, tc := range []struct {
		fn   string
		want bool
	}{{"CmpByRunes", true}, {"CmpByBytes", false}} {
		f := pkg.Func(tc.fn)
		if f == nil {
			r.Control(rule, "runewalk."+tc.fn, false, "function not found")
			continue
		}
		n := len(runeRangeSites([]*ssa.Function{f}))
		r.Control(rule, "runewalk."+tc.fn, (n > 0) == tc.want, fmt.Sprintf("expected flagged=%v: %d string range(s)", tc.want, n))
	}
}
