package main

// E12 — bit-provenance evaluation of word-straddling extractions.
//
// A short inner node is stored as ShortSize bits at an arbitrary bit offset
// `from` of Slim.Inners.Words and is expanded through Slim.ShortTable. The
// extraction is hand-written shift/mask code with a word-straddling case; it
// goes wrong only for particular (offset mod 64, size) pairs, which the suite's
// tries seldom produce (a node that ends exactly on a 64-bit boundary at the
// very end of the bitmap).
//
// The rule is an abstract interpretation of the E11 guarded summary of every
// function that indexes Slim.ShortTable, over a finite case split:
//
//	j = from & 63 ∈ [0,63]     n = ShortSize ∈ [1,16]    (a short node is shorter than a 17-bit node)
//
// with from = 64·Q + j for a symbolic word number Q. Integers are affine in Q
// with concrete coefficients; 64-bit words are vectors of 64 *bit provenances*
// (constant 0/1, "bit k of Words[Q+d]", unknown). Shifts move provenances,
// and/or combine them bit-wise, mask(n) and the derived ShortMask are constant
// vectors. For every (j,n) the paths whose evaluable conditions hold must
// index the table with exactly
//
//	bit k (k<n)  = bit (j+k)&63 of Words[Q + (j+k)>>6],      bit k (k>=n) = 0
//
// and may read only words that hold a bit of the node (Q, and Q+1 only when
// j+n > 64): the node may be the last thing in the bitmap, so one word further
// is an index out of range. Nothing is executed; no solver is involved.

import (
	"fmt"
	"sort"
	"strconv"
	"strings"
	"sync"

	"golang.org/x/tools/go/ssa"
)

// ---- condition registry: canonical condition string -> term with polarity

type pcond struct {
	t   *term
	neg bool
}

var (
	condRegMu sync.Mutex
	condReg   = map[string]pcond{}
)

func registerCond(t *term, neg bool) string {
	s := canonCond(t, neg)
	condRegMu.Lock()
	condReg[s] = pcond{t, neg}
	condRegMu.Unlock()
	return s
}

func lookupCond(s string) (pcond, bool) {
	condRegMu.Lock()
	defer condRegMu.Unlock()
	c, ok := condReg[s]
	return c, ok
}

// ---- abstract values

type bprov struct {
	k   int8 // 0 zero, 1 one, 2 word bit, 3 unknown, 4 a combination of different word bits
	d   int64
	bit int8
}

type bval struct {
	kind int // 0 unknown, 1 integer a*Q+b, 2 bit vector
	a, b int64
	bits [64]bprov
}

var bUnknown = bval{}

func bInt(a, b int64) bval { return bval{kind: 1, a: a, b: b} }

func (v bval) isConst() bool { return v.kind == 1 && v.a == 0 }

func constBits(c uint64) bval {
	r := bval{kind: 2}
	for i := 0; i < 64; i++ {
		if c>>uint(i)&1 == 1 {
			r.bits[i] = bprov{k: 1}
		}
	}
	return r
}

func (v bval) toBits() (bval, bool) {
	switch {
	case v.kind == 2:
		return v, true
	case v.isConst():
		return constBits(uint64(v.b)), true
	}
	return bUnknown, false
}

// toConst: a bit vector made of constants only is an integer.
func (v bval) toConst() (int64, bool) {
	if v.isConst() {
		return v.b, true
	}
	if v.kind != 2 {
		return 0, false
	}
	var c uint64
	for i, b := range v.bits {
		switch b.k {
		case 0:
		case 1:
			c |= 1 << uint(i)
		default:
			return 0, false
		}
	}
	return int64(c), true
}

func unknownBits() bval {
	r := bval{kind: 2}
	for i := range r.bits {
		r.bits[i] = bprov{k: 3}
	}
	return r
}

type bitEval struct {
	from    string           // term string that plays the start offset (= 64Q + j)
	j, n    int64            // case
	effects map[string]*term // symbol -> stored value on the path (for fields read back)
	reads   map[int64]bool   // word offsets (relative to Q) read
	words   string           // the words array (term string) of the reads recognised
	busy    map[string]bool
	opaque  []string
}

func typeBits(name string) (int, bool) {
	name = strings.TrimPrefix(name, "u")
	switch name {
	case "int8", "byte":
		return 8, true
	case "int16":
		return 16, true
	case "int32", "rune":
		return 32, true
	case "int64", "int", "intptr":
		return 64, true
	}
	return 0, false
}

func (e *bitEval) eval(t *term) bval {
	if t.String() == e.from {
		return bInt(64, e.j)
	}
	switch t.op {
	case "const":
		return bInt(0, t.c)
	case "sym":
		switch {
		case t.name == "Slim.ShortSize":
			return bInt(0, e.n)
		case strings.HasSuffix(t.name, ".ShortMask"):
			// derived constant: C01.layout checks that it is stored as mask(Slim.ShortSize)
			return constBits(1<<uint(e.n) - 1)
		}
		if v, ok := e.effects[t.name]; ok && !e.busy[t.name] {
			e.busy[t.name] = true
			r := e.eval(v)
			delete(e.busy, t.name)
			return r
		}
		e.opaque = append(e.opaque, t.name)
		return bUnknown
	case "add":
		var a, b int64
		for _, x := range t.args {
			v := e.eval(x)
			if c, ok := v.toConst(); ok {
				b += c
				continue
			}
			if v.kind != 1 {
				return bUnknown
			}
			a += v.a
			b += v.b
		}
		return bInt(a, b)
	case "mul":
		a, b := int64(0), int64(1)
		for _, x := range t.args {
			v := e.eval(x)
			if c, ok := v.toConst(); ok {
				a, b = a*c, b*c
				continue
			}
			if v.kind != 1 || a != 0 {
				return bUnknown
			}
			a, b = b*v.a, b*v.b
		}
		return bInt(a, b)
	case "shr", "shl":
		if len(t.args) != 2 {
			return bUnknown
		}
		x, kv := e.eval(t.args[0]), e.eval(t.args[1])
		k, ok := kv.toConst()
		if !ok || k < 0 {
			return bUnknown
		}
		if x.kind == 1 && !(x.isConst() && x.b < 0) {
			if t.op == "shl" {
				if k >= 62 {
					return bUnknown
				}
				return bInt(x.a<<uint(k), x.b<<uint(k))
			}
			if k < 62 && x.a%(1<<uint(k)) == 0 && x.b >= 0 {
				return bInt(x.a>>uint(k), x.b>>uint(k))
			}
			return bUnknown
		}
		xb, ok := x.toBits()
		if !ok {
			return bUnknown
		}
		r := bval{kind: 2}
		for i := 0; i < 64; i++ {
			var src int64
			if t.op == "shl" {
				src = int64(i) - k
			} else {
				src = int64(i) + k
			}
			if src >= 0 && src < 64 {
				r.bits[i] = xb.bits[src]
			}
		}
		if t.op == "shr" && t.name == "s" && xb.bits[63].k != 0 {
			return bUnknown // arithmetic shift of a possibly negative value
		}
		return r
	case "and", "or":
		// and(63, from): the offset inside the word
		if t.op == "and" && len(t.args) == 2 {
			x, y := e.eval(t.args[0]), e.eval(t.args[1])
			for _, pr := range [][2]bval{{x, y}, {y, x}} {
				if c, ok := pr[0].toConst(); ok && pr[1].kind == 1 && pr[1].a != 0 && c >= 0 && (c+1)&c == 0 && pr[1].a%(c+1) == 0 && pr[1].b >= 0 {
					return bInt(0, pr[1].b&c)
				}
			}
		}
		var acc bval
		for i, x := range t.args {
			v, ok := e.eval(x).toBits()
			if !ok {
				v = unknownBits()
			}
			if i == 0 {
				acc = v
				continue
			}
			for k := 0; k < 64; k++ {
				p, q := acc.bits[k], v.bits[k]
				abs, neu := int8(0), int8(1) // and: 0 absorbs, 1 is neutral
				if t.op == "or" {
					abs, neu = 1, 0
				}
				switch {
				case p.k == abs || q.k == abs:
					acc.bits[k] = bprov{k: abs}
				case p.k == neu:
					acc.bits[k] = q
				case q.k == neu:
					acc.bits[k] = p
				case p == q:
				case p.k == 2 && q.k == 2:
					acc.bits[k] = bprov{k: 4} // two different stored bits combined: not a copy of any one bit
				default:
					acc.bits[k] = bprov{k: 3}
				}
			}
		}
		if c, ok := acc.toConst(); ok {
			return bInt(0, c)
		}
		return acc
	case "mask", "pow2":
		if len(t.args) != 1 {
			return bUnknown
		}
		k, ok := e.eval(t.args[0]).toConst()
		if !ok || k < 0 {
			return bUnknown
		}
		if t.op == "pow2" {
			if k >= 64 {
				return bInt(0, 0)
			}
			return constBits(1 << uint(k))
		}
		if k >= 64 {
			return constBits(^uint64(0))
		}
		return constBits(1<<uint(k) - 1)
	case "conv", "sext", "convert":
		if len(t.args) != 1 {
			return bUnknown
		}
		v := e.eval(t.args[0])
		w, ok := typeBits(t.name)
		if !ok {
			return bUnknown
		}
		if v.kind == 1 {
			return v // offsets and sizes: no wrap-around in range (int32 bit offsets)
		}
		if v.kind == 2 && w < 64 {
			for i := w; i < 64; i++ {
				v.bits[i] = bprov{}
			}
		}
		return v
	case "idx":
		if len(t.args) != 2 {
			return bUnknown
		}
		base := t.args[0].String()
		i := e.eval(t.args[1])
		if strings.HasSuffix(base, ".Words") && i.kind == 1 && i.a == 1 {
			if e.words == "" {
				e.words = base
			}
			if base != e.words {
				return unknownBits()
			}
			e.reads[i.b] = true
			r := bval{kind: 2}
			for k := 0; k < 64; k++ {
				r.bits[k] = bprov{k: 2, d: i.b, bit: int8(k)}
			}
			return r
		}
		return bUnknown
	case "cmp":
		if len(t.args) != 2 {
			return bUnknown
		}
		x, y := e.eval(t.args[0]), e.eval(t.args[1])
		if cx, ok := x.toConst(); ok {
			x = bInt(0, cx)
		}
		if cy, ok := y.toConst(); ok {
			y = bInt(0, cy)
		}
		if x.kind != 1 || y.kind != 1 || x.a != y.a {
			return bUnknown
		}
		var r bool
		switch t.name {
		case "==":
			r = x.b == y.b
		case "!=":
			r = x.b != y.b
		case "<":
			r = x.b < y.b
		case "<=":
			r = x.b <= y.b
		case ">":
			r = x.b > y.b
		case ">=":
			r = x.b >= y.b
		default:
			return bUnknown
		}
		if r {
			return bInt(0, 1)
		}
		return bInt(0, 0)
	case "lnot":
		if len(t.args) == 1 {
			if c, ok := e.eval(t.args[0]).toConst(); ok {
				return bInt(0, 1-c)
			}
		}
	}
	return bUnknown
}

// findTableIndexes collects the index terms of every idx(Slim.ShortTable, X) inside t.
func findTableIndexes(t *term, out *[]*term) {
	if t.op == "idx" && len(t.args) == 2 && t.args[0].String() == "Slim.ShortTable" {
		*out = append(*out, t.args[1])
	}
	for _, a := range t.args {
		findTableIndexes(a, out)
	}
}

// sliceStart: the offset term F of the extraction, read off shr:u(idx(W, shr:s(F,6)), and(63,F))
// (or the unshifted idx(W, shr:s(F,6)) when nothing else is found).
func sliceStart(t *term) string {
	var best string
	var walk func(x *term)
	walk = func(x *term) {
		if x.op == "shr" && len(x.args) == 2 && x.args[0].op == "idx" && len(x.args[0].args) == 2 {
			ix := x.args[0].args[1]
			if ix.op == "shr" && len(ix.args) == 2 && isK(ix.args[1]) && ix.args[1].c == 6 {
				f := ix.args[0].String()
				if strings.Contains(x.args[1].String(), f) && best == "" {
					best = f
				}
			}
		}
		for _, a := range x.args {
			walk(a)
		}
	}
	walk(t)
	return best
}

func shortTableReaders(p *Program) []*ssa.Function {
	var out []*ssa.Function
	for _, f := range p.FuncsOf(triePath) {
		if f.Synthetic != "" || !trieScope(f) {
			continue
		}
		found := false
		instrsOf(f, func(_ *ssa.BasicBlock, in ssa.Instruction) {
			ia, ok := in.(*ssa.IndexAddr)
			if !ok {
				return
			}
			if ld, ok := ia.X.(*ssa.UnOp); ok {
				if _, fv, fa := fieldOfAddr(ld.X); fa != nil && fv.Name() == "ShortTable" {
					// reads only: the element address is loaded, not stored to
					for _, ref := range *ia.Referrers() {
						if u, ok := ref.(*ssa.UnOp); ok && u.X == ia {
							found = true
						}
					}
				}
			}
		})
		if found {
			out = append(out, f)
		}
	}
	sort.Slice(out, func(i, j int) bool { return funcID(out[i]) < funcID(out[j]) })
	return out
}

type sliceVerdict struct {
	status  Status
	detail  string
	opaque  bool // undecided only because free symbols (parameters) hide the offsets
	cases   int
	sites   int
	covered bool
}

// judgeBitSlice evaluates every table read of f's guarded summary (helpers of package trie expanded).
func judgeBitSlice(p *Program, f *ssa.Function) sliceVerdict {
	paths, why := flatten(p, f, nil, func(g *ssa.Function) bool { return pkgPathOf(g) == triePath })
	if why != "" {
		return sliceVerdict{status: Undecided, detail: "cannot summarise: " + why}
	}
	type site struct {
		fp fpath
		x  *term
	}
	var sites []site
	for _, fp := range paths {
		var xs []*term
		for _, ef := range fp.effects {
			findTableIndexes(ef.val, &xs)
		}
		for _, res := range fp.results {
			findTableIndexes(res, &xs)
		}
		seen := map[string]bool{}
		for _, x := range xs {
			if !seen[x.String()] {
				seen[x.String()] = true
				sites = append(sites, site{fp, x})
			}
		}
	}
	if len(sites) == 0 {
		return sliceVerdict{status: Undecided, detail: "the table read does not reach a stored or returned value of the summary"}
	}
	var bad []string
	undecided := ""
	opaque := false
	covered := map[[2]int64]bool{}
	for _, s := range sites {
		from := sliceStart(s.x)
		if from == "" {
			undecided = "no word of a bitmap indexed by offset>>6 and shifted by offset&63 in the table index " + abbreviate(s.x.String())
			break
		}
		eff := map[string]*term{}
		for _, ef := range s.fp.effects {
			if ef.path != from {
				eff[ef.path] = ef.val
			}
		}
		for n := int64(1); n <= 16 && undecided == ""; n++ {
			for j := int64(0); j < 64 && undecided == ""; j++ {
				e := &bitEval{from: from, j: j, n: n, effects: eff, reads: map[int64]bool{}, busy: map[string]bool{}}
				// path conditions that can be evaluated must hold
				feasible := true
				for _, c := range s.fp.pc {
					pc, ok := lookupCond(c)
					if !ok {
						continue
					}
					if cv, ok := e.eval(pc.t).toConst(); ok && (cv != 0) == pc.neg {
						feasible = false
						break
					}
				}
				if !feasible {
					continue
				}
				e.opaque = nil
				v := e.eval(s.x)
				vb, ok := v.toBits()
				if !ok {
					vb = unknownBits()
				}
				for k := int64(0); k < 64; k++ {
					want := bprov{}
					if k < n {
						want = bprov{k: 2, d: (j + k) >> 6, bit: int8((j + k) & 63)}
					}
					if vb.bits[k] != want {
						if vb.bits[k].k == 3 {
							undecided = fmt.Sprintf("bit %d of the table index %s is not determined for offset&63=%d, ShortSize=%d (opaque: %s)", k, abbreviate(s.x.String()), j, n, strings.Join(dedupStrings(e.opaque), ","))
							opaque = len(e.opaque) > 0
						} else if len(bad) < 4 {
							bad = append(bad, fmt.Sprintf("offset&63=%d ShortSize=%d: bit %d of the table index is %s, want %s", j, n, k, provString(vb.bits[k]), provString(want)))
						}
						break
					}
				}
				last := (j + n - 1) >> 6
				for d := range e.reads {
					if (d < 0 || d > last) && len(bad) < 4 {
						bad = append(bad, fmt.Sprintf("offset&63=%d ShortSize=%d: reads word %+d of %s although the node ends in word %+d (index out of range when the node is the last of the bitmap)", j, n, d, e.words, last))
					}
				}
				covered[[2]int64{j, n}] = true
			}
		}
		if undecided != "" {
			break
		}
	}
	sv := sliceVerdict{cases: len(covered), sites: len(sites)}
	switch {
	case len(bad) > 0:
		sort.Strings(bad)
		sv.status, sv.detail = Violated, strings.Join(dedupStrings(bad), "; ")
	case undecided != "":
		sv.status, sv.detail, sv.opaque = Undecided, undecided, opaque
	case len(covered) < 64*16:
		sv.status, sv.detail = Undecided, "only "+strconv.Itoa(len(covered))+" of 1024 (offset, size) cases reach a table read"
	default:
		sv.status = Discharged
		sv.detail = fmt.Sprintf("%d (offset&63, ShortSize) cases over %d extraction path(s): exact bits, no read beyond the node", len(covered), len(sites))
	}
	return sv
}

func trieCallersOf(p *Program, g *ssa.Function) []*ssa.Function {
	set := map[*ssa.Function]bool{}
	for _, f := range p.FuncsOf(triePath) {
		if f.Synthetic != "" || !trieScope(f) {
			continue
		}
		instrsOf(f, func(_ *ssa.BasicBlock, in ssa.Instruction) {
			if c, ok := in.(ssa.CallInstruction); ok && calleeOf(c) == g {
				set[f] = true
			}
		})
	}
	var out []*ssa.Function
	for f := range set {
		out = append(out, f)
	}
	sort.Slice(out, func(i, j int) bool { return funcID(out[i]) < funcID(out[j]) })
	return out
}

// checkBitSlice: rule <prop>.bitslice.
func checkBitSlice(p *Program, r *Report, rule string) {
	r.Rule(rule, "E12", "the short-node extraction yields bits [from, from+ShortSize) for every offset and size, and reads no word beyond the node", 1)
	fns := shortTableReaders(p)
	if len(fns) == 0 {
		r.Unk("short-node extraction", "", "no function of package trie reads Slim.ShortTable")
		return
	}
	var judge func(f *ssa.Function, depth int) sliceVerdict
	judge = func(f *ssa.Function, depth int) sliceVerdict {
		sv := judgeBitSlice(p, f)
		if sv.status != Undecided || !sv.opaque || depth >= 3 {
			return sv
		}
		// a helper that takes the offsets as parameters is judged expanded in each of its callers
		callers := trieCallersOf(p, f)
		if len(callers) == 0 {
			return sv
		}
		total := 0
		for _, c := range callers {
			cv := judge(c, depth+1)
			if cv.status != Discharged {
				cv.detail = "as expanded in " + shortFn(c) + ": " + cv.detail
				return cv
			}
			total += cv.cases
			r.Func(shortFn(c))
		}
		return sliceVerdict{status: Discharged, cases: total, detail: fmt.Sprintf("judged at its %d call site(s): %d (offset&63, ShortSize) cases, exact bits, no read beyond the node", len(callers), total)}
	}
	for _, f := range fns {
		construct := "short bitmap extraction in " + shortFn(f)
		r.Func(shortFn(f))
		sv := judge(f, 0)
		r.add(sv.status, construct, p.Pos(f.Pos()), sv.detail)
	}
}

func provString(b bprov) string {
	switch b.k {
	case 0:
		return "0"
	case 1:
		return "1"
	case 2:
		return fmt.Sprintf("Words[Q%+d].bit%d", b.d, b.bit)
	case 4:
		return "a combination of two different stored bits"
	}
	return "?"
}
