package main

import (
	"fmt"
	"go/token"
	"go/types"
	"sort"
	"strings"

	"golang.org/x/tools/go/ssa"
)

var scanAPI = []string{"ScanFrom", "ScanFromTo", "NewIter"}

// optionWitnesses: message-pointer wire paths that the builder stores only if
// the option is true (every store under opt:O+ and under no opt:O-).
func optionWitnesses(bf *builderFlow, opt string) map[string]bool {
	out := map[string]bool{}
	for _, wf := range bf.sortedWire() {
		if !wf.ptr || len(wf.stores) == 0 {
			continue
		}
		all := true
		for _, ev := range wf.stores {
			if !ev.onlyIfOpt(opt) {
				all = false
			}
		}
		if all {
			out[wf.path] = true
		}
	}
	return out
}

type guardInfo struct {
	path  string
	block *ssa.BasicBlock
	pos   string
}

// guardsIn finds nil tests of wire paths whose nil branch ends in panic.
func guardsIn(p *Program, f *ssa.Function) []guardInfo {
	_, abortOnly := postDom(f, nil)
	var out []guardInfo
	for _, b := range f.Blocks {
		iff, ok := lastInstr(b).(*ssa.If)
		if !ok {
			continue
		}
		// a branch on a boolean assembled from nil tests ("ok := A != nil && A.B != nil; if !ok { panic }"):
		// every nil test that is an edge value of the phi guards its pointer when the phi's false side aborts
		{
			cond := iff.Cond
			neg := false
			for {
				if u, ok := cond.(*ssa.UnOp); ok && u.Op == token.NOT {
					cond, neg = u.X, !neg
					continue
				}
				break
			}
			if ph, ok := cond.(*ssa.Phi); ok && ph.Block() == b {
				falseSucc := 1
				if neg {
					falseSucc = 0
				}
				if abortOnly[b.Succs[falseSucc].Index] || edgeLeadsToAbort(b, falseSucc, abortOnly) {
					for _, ed := range ph.Edges {
						if x, nilSucc, ok := nilTest(ed); ok && nilSucc == 1 {
							if path := wirePathOf(x); path != "" {
								out = append(out, guardInfo{path: path, block: b, pos: p.Pos(iff.Cond.Pos())})
							}
						}
					}
				}
			}
		}
		x, nilSucc, ok := nilTest(iff.Cond)
		if !ok {
			continue
		}
		path := wirePathOf(x)
		if path == "" {
			continue
		}
		if abortOnly[b.Succs[nilSucc].Index] || edgeLeadsToAbort(b, nilSucc, abortOnly) {
			out = append(out, guardInfo{path: path, block: b, pos: p.Pos(iff.Cond.Pos())})
		}
	}
	return out
}

// ensuredBy: witness paths that are known non-nil whenever f returns normally:
// nil tests of f whose nil branch panics and whose block lies on every path
// from entry to a normal return, plus what the callees called on every such
// path ensure.
func ensuredBy(p *Program, f *ssa.Function, depth int) []guardInfo {
	if f == nil || depth > 3 || len(f.Blocks) == 0 {
		return nil
	}
	var out []guardInfo
	for _, g := range guardsIn(p, f) {
		if blockPostDominatesEntry(f, g.block) {
			out = append(out, g)
		}
	}
	for _, c := range callsIn(f) {
		if g := calleeOf(c); takesTrie(g) && blockPostDominatesEntry(f, c.Block()) {
			out = append(out, ensuredBy(p, g, depth+1)...)
		}
	}
	return out
}

// refusalGuards returns the guards that protect every traversal call of f:
// nil tests in f that dominate them, what a leading helper call ensures, or
// (wrappers) the guards of the first traversal call itself.
func refusalGuards(p *Program, f *ssa.Function, depth int) ([]guardInfo, string) {
	if depth > 3 {
		return nil, "call chain too deep"
	}
	var trav []ssa.CallInstruction
	for _, c := range callsIn(f) {
		if g := calleeOf(c); takesTrie(g) {
			// an emptiness predicate (st.isEmpty()) reads a flag; it does not walk the trie
			if call, ok := c.(*ssa.Call); ok {
				if _, isPred := predicateNilTarget(call); isPred {
					continue
				}
			}
			// neither does a helper that only compares wire pointers with nil (a session constructor
			// that refuses an empty trie)
			if !walksWire(g, 0) && len(ensuredBy(p, g, 0)) == 0 {
				continue
			}
			trav = append(trav, c)
		}
	}
	if len(trav) == 0 {
		return nil, "no traversal call in " + shortFn(f)
	}
	var good []guardInfo
	for _, g := range guardsIn(p, f) {
		all := true
		for _, c := range trav {
			if !(g.block.Dominates(c.Block()) && g.block != c.Block()) {
				all = false
			}
		}
		if all {
			good = append(good, g)
		}
	}
	// leading helper calls: a call that dominates every other traversal call and ensures witnesses
	for _, c := range trav {
		ens := ensuredBy(p, calleeOf(c), 0)
		if len(ens) == 0 {
			continue
		}
		dom := true
		for _, d := range trav {
			if d != c && !instrDominates(c, d) {
				// another guard helper before it is fine
				if len(ensuredBy(p, calleeOf(d), 0)) > 0 && instrDominates(d, c) {
					continue
				}
				dom = false
			}
		}
		if dom {
			good = append(good, ens...)
		}
	}
	if len(good) > 0 {
		return good, ""
	}
	// the first traversal call must dominate all others and be guarded itself
	var first ssa.CallInstruction
	for _, c := range trav {
		dom := true
		for _, d := range trav {
			if d != c && !instrDominates(c, d) {
				dom = false
			}
		}
		if dom {
			first = c
		}
	}
	if first == nil {
		return nil, "no traversal call of " + shortFn(f) + " dominates the others"
	}
	return refusalGuards(p, calleeOf(first), depth+1)
}

func checkC04(p *Program, r *Report) {
	r.Explanation = "Decided clauses: (refusal) for each scan API a nil test of a witness of option InnerPrefix and one of option LeafPrefix — a message pointer the builder stores only if the option is true, computed by the labelled flow analysis of the builder — leads to panic and dominates every traversal call; (every value encoder) leaf value bytes handed out by scans are located only through the same decoder of the leaf array that Get uses, never by indexing Leaves.Bytes directly, and no Encoder.GetEncodedSize(nil) (a fixed-width belief) is reachable from a scan or lookup API; (stop) a false callback result leaves ScanFrom without another callback or iterator call, and ScanFromTo's wrapper returns constant false or the callback's own result; (delegation) every path of ScanFromTo/ScanFrom/NewIter passes through the seek and iterator construction; (exhaustion) an exhausted iterator performs no write, so it stays exhausted."
	r.NotCovered = "Order, uniqueness and completeness of the yielded keys, inclusivity of bounds, key reassembly."
	r.Trusted = []string{"go/ssa; E2 pure-function summaries"}

	entries := map[string]*ssa.Function{}
	r.Rule("C04.entry", "anchors", "scan API resolves", len(scanAPI))
	for _, n := range scanAPI {
		f := p.Method(p.Trie, "SlimTrie", n)
		if f == nil {
			r.Unk("(*trie.SlimTrie)."+n, "", "scan API not found")
			continue
		}
		r.OK("(*trie.SlimTrie)."+n, p.Pos(f.Pos()), "entry")
		entries[n] = f
	}

	// ---- guard
	bf := newBuilderFlow(p)
	r.Rule("C04.guard", "E2+E3", "scan APIs refuse tries lacking either prefix option before any traversal", 2*len(scanAPI))
	if !flowProblems(bf, r, "C04.guard") {
		for k := range bf.it.ctxs {
			r.Func(shortFn(bf.it.ctxs[k].fn))
		}
		wit := map[string]map[string]bool{"InnerPrefix": optionWitnesses(bf, "InnerPrefix"), "LeafPrefix": optionWitnesses(bf, "LeafPrefix")}
		for o, w := range wit {
			r.Note("witnesses of option %s (message pointers stored only if the option is true): %v", o, sortedKeys(w))
		}
		for _, n := range scanAPI {
			f := entries[n]
			if f == nil {
				continue
			}
			gs, why := refusalGuards(p, f, 0)
			var tested []string
			for _, g := range gs {
				tested = append(tested, g.path)
			}
			for _, o := range []string{"InnerPrefix", "LeafPrefix"} {
				construct := fmt.Sprintf("(*trie.SlimTrie).%s refuses tries built without %s", n, o)
				if len(wit[o]) == 0 {
					r.Unk(construct, p.Pos(f.Pos()), "the builder has no message pointer that witnesses option "+o)
					continue
				}
				hit := ""
				for _, g := range gs {
					if wit[o][g.path] {
						hit = g.path + " at " + g.pos
					}
				}
				if hit != "" {
					r.OK(construct, p.Pos(f.Pos()), "panics unless "+hit+" is non-nil, before any traversal")
				} else {
					d := fmt.Sprintf("the nil tests guarding the traversal cover %v, none of which witnesses option %s (witnesses: %v); such a trie is scanned and yields keys that were never indexed", tested, o, sortedKeys(wit[o]))
					if why != "" {
						d += "; " + why
					}
					r.Bad(construct, p.Pos(f.Pos()), d)
				}
			}
		}
	}

	scanReach := trieReach(entries["ScanFrom"], entries["ScanFromTo"], entries["NewIter"])
	for f := range scanReach {
		r.Func(shortFn(f))
	}

	// ---- value bytes
	r.Rule("C04.valuebytes", "dataflow origin", "scan value bytes come from the leaf array's own decoder; no fixed-width belief", 2)
	get := p.Method(p.Trie, "SlimTrie", "Get")
	getReach := trieReach(get)
	decoders := func(reach map[*ssa.Function]bool) (map[string]bool, []string) {
		dec := map[string]bool{}
		var direct []string
		var fs []*ssa.Function
		for f := range reach {
			fs = append(fs, f)
		}
		sort.Slice(fs, func(i, j int) bool { return fs[i].String() < fs[j].String() })
		for _, f := range fs {
			if !trieScope(f) {
				continue
			}
			instrsOf(f, func(_ *ssa.BasicBlock, in ssa.Instruction) {
				switch x := in.(type) {
				case *ssa.Call:
					g := calleeOf(x)
					if g != nil && g.Signature.Recv() != nil && isNamed(g.Signature.Recv().Type(), triePath, "VLenArray") && len(x.Call.Args) > 0 {
						if wirePathOf(x.Call.Args[0]) == "Slim.Leaves" && !strings.HasPrefix(g.Name(), "Get") {
							dec[funcID(g)] = true
						}
					}
				case *ssa.Slice:
					if wirePathOf(x.X) == "Slim.Leaves.Bytes" {
						direct = append(direct, p.Pos(x.Pos())+" ("+shortFn(f)+")")
					}
				case *ssa.IndexAddr:
					if wirePathOf(x.X) == "Slim.Leaves.Bytes" {
						direct = append(direct, p.Pos(x.Pos())+" ("+shortFn(f)+")")
					}
				}
			})
		}
		return dec, direct
	}
	if get == nil {
		r.Unk("(*trie.SlimTrie).Get", "", "anchor not found")
	} else {
		gd, _ := decoders(getReach)
		sd, sdirect := decoders(scanReach)
		if len(gd) == 0 {
			r.Unk("leaf decoder used by Get", p.Pos(get.Pos()), "Get does not locate leaf bytes through a method of the leaf array (anchor not found)")
		} else {
			extra := []string{}
			for d := range sd {
				if !gd[d] {
					extra = append(extra, d)
				}
			}
			sort.Strings(extra)
			switch {
			case len(sdirect) > 0:
				r.Bad("scan value bytes located by the leaf array decoder", sdirect[0][:strings.Index(sdirect[0], " ")], "scan code indexes Leaves.Bytes directly at "+strings.Join(sdirect, ", ")+" instead of using "+strings.Join(sortedKeys(gd), ",")+": presence bitmap / variable width are bypassed")
			case len(extra) > 0:
				r.Bad("scan value bytes located by the leaf array decoder", "", "scan uses "+strings.Join(extra, ",")+" while Get uses "+strings.Join(sortedKeys(gd), ","))
			case len(sd) == 0:
				r.Unk("scan value bytes located by the leaf array decoder", "", "scan code never calls the leaf array decoder "+strings.Join(sortedKeys(gd), ","))
			default:
				r.OK("scan value bytes located by the leaf array decoder", "", "scan and Get both use "+strings.Join(sortedKeys(sd), ","))
			}
		}
	}
	// GetEncodedSize(nil) on read paths
	var readRoots []*ssa.Function
	for _, n := range readAPI {
		if f := p.Method(p.Trie, "SlimTrie", n); f != nil {
			readRoots = append(readRoots, f)
		}
	}
	readReach := trieReach(readRoots...)
	var beliefs []string
	for f := range readReach {
		for _, c := range callsIn(f) {
			if invokeIs(c, encPath, "GetEncodedSize") && len(c.Common().Args) == 1 && isNilConst(c.Common().Args[0]) {
				beliefs = append(beliefs, p.Pos(c.Pos())+" ("+shortFn(f)+")")
			}
		}
	}
	sort.Strings(beliefs)
	r.Check(len(beliefs) == 0, "no fixed-width belief on read paths", "", fmt.Sprintf("no Encoder.GetEncodedSize(nil) in %d functions reachable from the read API", len(readReach)),
		"Encoder.GetEncodedSize(nil) assumes fixed-width values (the interface documents variable length) at "+strings.Join(beliefs, ", "))

	// ---- stop
	r.Rule("C04.stop", "E3", "a false callback result ends the scan at once", 2)
	if sf := entries["ScanFrom"]; sf != nil {
		checkStop(p, r, sf)
	}
	if sft := entries["ScanFromTo"]; sft != nil {
		checkWrapper(p, r, sft, entries["ScanFrom"])
	}

	// ---- delegation
	r.Rule("C04.delegate", "E3", "every path of a scan API passes through the seek / the wrapped scan", 3)
	for _, n := range scanAPI {
		f := entries[n]
		if f == nil {
			continue
		}
		var trav []ssa.CallInstruction
		for _, c := range callsIn(f) {
			if takesTrie(calleeOf(c)) {
				trav = append(trav, c)
			}
		}
		if len(trav) == 0 {
			r.Unk("(*trie.SlimTrie)."+n+" delegates", p.Pos(f.Pos()), "no trie call found")
			continue
		}
		var missing []string
		for _, c := range trav {
			if !blockPostDominatesEntry(f, c.Block()) {
				missing = append(missing, shortFn(calleeOf(c))+" at "+p.Pos(c.Pos()))
			}
		}
		r.Check(len(missing) == 0, "(*trie.SlimTrie)."+n+" delegates on every path", p.Pos(f.Pos()),
			fmt.Sprintf("all %d trie calls lie on every path from entry to return", len(trav)),
			"some path returns without calling "+strings.Join(missing, ", ")+": start/end combinations on that path are answered without seeking (and without the refusal check)")
	}

	// ---- exhaustion
	r.Rule("C04.exhaust", "E3", "an exhausted iterator performs no write and reports (nil, nil)", 1)
	var iters []*ssa.Function
	for f := range scanReach {
		if f.Synthetic != "" {
			continue
		}
		sig := f.Signature
		if sig.Params().Len() == 0 && sig.Results().Len() == 2 && isByteSlice(sig.Results().At(0).Type()) && isByteSlice(sig.Results().At(1).Type()) {
			iters = append(iters, f)
		}
	}
	sort.Slice(iters, func(i, j int) bool { return iters[i].String() < iters[j].String() })
	for _, f := range iters {
		checkExhaust(p, r, f)
	}
	// every value encoder, variable width included (shared with C01): the layout of the value array
	// the scan reads value bytes from is decided per element
	checkVLenWidth(p, r, "C04.vlen-width")
	checkLabelBound(p, r, "C04.label-bound")
	// the iterator decodes every node into a session it reuses (shared with C10)
	checkSessionTypestate(p, r, "C04.session-valid")
	r.Explanation += " (capacity) a presence bitmap whose entries are ordinals is built with a capacity that covers every ordinal its readers probe: last counter-derived ordinal plus one, or the bound of the loop whose indexes are listed."
	checkCapacity(p, r, "C04.capacity")
}

// checkStop: in ScanFrom, from the branch taken when the callback returns
// false no call through a function value (callback or iterator) is reachable.
func checkStop(p *Program, r *Report, sf *ssa.Function) {
	var fnParam *ssa.Parameter
	for _, prm := range sf.Params {
		if _, ok := prm.Type().Underlying().(*types.Signature); ok {
			fnParam = prm
		}
	}
	if fnParam == nil {
		r.Unk("(*trie.SlimTrie).ScanFrom stops on false", p.Pos(sf.Pos()), "callback parameter not found")
		return
	}
	found := false
	for _, c := range callsIn(sf) {
		if c.Common().Value != fnParam {
			continue
		}
		call, ok := c.(*ssa.Call)
		if !ok {
			continue
		}
		found = true
		// the If that consumes the result
		var iff *ssa.If
		for _, ref := range *call.Referrers() {
			if i, ok := ref.(*ssa.If); ok {
				iff = i
			}
		}
		if iff == nil {
			r.Bad("(*trie.SlimTrie).ScanFrom stops on false", p.Pos(call.Pos()), "the callback's result does not control a branch: the scan cannot be stopped")
			continue
		}
		falseSucc := iff.Block().Succs[1]
		bad := ""
		for b := range reachableFrom(falseSucc, nil) {
			for _, in := range b.Instrs {
				if ci, ok := in.(ssa.CallInstruction); ok {
					if _, isB := ci.Common().Value.(*ssa.Builtin); isB {
						continue
					}
					if ci.Common().StaticCallee() == nil {
						bad = p.Pos(ci.Pos())
					}
				}
			}
		}
		r.Check(bad == "", "(*trie.SlimTrie).ScanFrom stops on false", p.Pos(call.Pos()), "the false branch reaches the exit without another callback or iterator call",
			"after the callback returned false a callback/iterator call at "+bad+" is still reachable")
	}
	if !found {
		r.Unk("(*trie.SlimTrie).ScanFrom stops on false", p.Pos(sf.Pos()), "no call of the callback found")
	}
	// exhaustion is signalled by a nil key; the empty key "" is a legitimate entry (a non-nil,
	// zero-length slice), so the loop must test the key against nil, not its length
	// the key values: result #0 of every iterator call, and the phis merging them (a three-clause
	// loop calls the iterator in its init and post statements)
	keyVals := map[ssa.Value]bool{}
	var firstCall *ssa.Call
	for _, c := range callsIn(sf) {
		call, ok := c.(*ssa.Call)
		if !ok || call.Common().StaticCallee() != nil || call.Common().Value == ssa.Value(fnParam) {
			continue
		}
		if _, isB := call.Common().Value.(*ssa.Builtin); isB {
			continue
		}
		sig, ok := call.Common().Value.Type().Underlying().(*types.Signature)
		if !ok || sig.Results().Len() != 2 {
			continue
		}
		for _, ref := range *call.Referrers() {
			if ex, ok := ref.(*ssa.Extract); ok && ex.Index == 0 {
				keyVals[ex] = true
				if firstCall == nil {
					firstCall = call
				}
			}
		}
	}
	for changed := true; changed; {
		changed = false
		for v := range keyVals {
			for _, ref := range *v.Referrers() {
				if ph, ok := ref.(*ssa.Phi); ok && !keyVals[ph] {
					keyVals[ph] = true
					changed = true
				}
			}
		}
	}
	if firstCall != nil {
		nilTested, lenTested := false, ""
		for v := range keyVals {
			for _, r2 := range *v.Referrers() {
				switch x := r2.(type) {
				case *ssa.BinOp:
					if _, _, ok := nilTest(x); ok {
						nilTested = true
					}
				case *ssa.Call:
					if bi, ok := x.Call.Value.(*ssa.Builtin); ok && bi.Name() == "len" {
						for _, r3 := range *x.Referrers() {
							if b, ok := r3.(*ssa.BinOp); ok {
								for _, r4 := range *b.Referrers() {
									if _, ok := r4.(*ssa.If); ok {
										lenTested = p.Pos(b.Pos())
									}
								}
							}
						}
					}
				}
			}
		}
		r.Check(nilTested && lenTested == "", "(*trie.SlimTrie).ScanFrom ends on a nil key only", p.Pos(firstCall.Pos()), "the key is compared with nil; its length controls no branch",
			"the scan loop branches on the length of the key ("+lenTested+") or never tests it against nil: the retained key \"\" (a non-nil empty slice) is taken for exhaustion")
	}
}

// checkWrapper: the closure ScanFromTo hands to ScanFrom returns constant false
// or the user callback's own result, never constant true.
func checkWrapper(p *Program, r *Report, sft, sf *ssa.Function) {
	var closure *ssa.Function
	instrsOf(sft, func(_ *ssa.BasicBlock, in ssa.Instruction) {
		if mc, ok := in.(*ssa.MakeClosure); ok {
			closure = mc.Fn.(*ssa.Function)
		}
	})
	construct := "(*trie.SlimTrie).ScanFromTo wrapper propagates stop"
	if closure == nil {
		r.Unk(construct, p.Pos(sft.Pos()), "no wrapper closure found")
		return
	}
	// the wrapper may be a method value (b.walk) of a small record holding end, includeEnd and the
	// callback: the closure is then the synthetic bound-method wrapper; judge the method itself
	boundRecv := false
	if closure.Synthetic != "" && strings.Contains(closure.Synthetic, "bound method wrapper") {
		if obj, ok := closure.Object().(*types.Func); ok {
			if m := p.Prog.FuncValue(obj); m != nil && len(m.Blocks) > 0 {
				closure = m
				boundRecv = true
			}
		}
	}
	var userCalls []ssa.Value
	for _, c := range callsIn(closure) {
		cv := c.Common().Value
		if ld, ok := deref(cv); ok {
			cv = ld
		}
		isUser := false
		if fv, ok := cv.(*ssa.FreeVar); ok {
			t := fv.Type()
			if pt, ok := t.Underlying().(*types.Pointer); ok {
				t = pt.Elem()
			}
			if _, isSig := t.Underlying().(*types.Signature); isSig {
				isUser = true
			}
		}
		// a function-typed field of the receiver record
		if fa, ok := cv.(*ssa.FieldAddr); ok && boundRecv && len(closure.Params) > 0 && fa.X == ssa.Value(closure.Params[0]) {
			if _, isSig := c.Common().Value.Type().Underlying().(*types.Signature); isSig {
				isUser = true
			}
		}
		if isUser {
			if v, ok := c.(ssa.Value); ok {
				userCalls = append(userCalls, v)
			}
		}
	}
	var bad []string
	var visit func(v ssa.Value, seen map[ssa.Value]bool, pos string)
	visit = func(v ssa.Value, seen map[ssa.Value]bool, pos string) {
		if seen[v] {
			return
		}
		seen[v] = true
		if b, ok := constBool(v); ok {
			if b {
				bad = append(bad, pos+": returns constant true")
			}
			return
		}
		for _, u := range userCalls {
			if v == u {
				return
			}
		}
		if ph, ok := v.(*ssa.Phi); ok {
			for _, e := range ph.Edges {
				visit(e, seen, pos)
			}
			return
		}
		bad = append(bad, pos+": returns a value that is neither false nor the callback's result")
	}
	for _, ret := range returnsOf(closure) {
		if len(ret.Results) == 1 {
			visit(ret.Results[0], map[ssa.Value]bool{}, p.Pos(ret.Pos()))
		}
	}
	if len(userCalls) == 0 {
		bad = append(bad, "the wrapper never calls the user's callback")
	}
	r.Check(len(bad) == 0, construct, p.Pos(closure.Pos()), "every return is constant false or the callback's result", strings.Join(bad, "; "))
	// the end-bound test is a function of the current key alone: whether a key lies beyond `end` must
	// not depend on the keys seen before (a cursor or flag carried across callbacks goes stale once the
	// scan has crossed `end`), so the wrapper writes no captured variable
	var stateful []string
	instrsOf(closure, func(_ *ssa.BasicBlock, in ssa.Instruction) {
		st, ok := in.(*ssa.Store)
		if !ok {
			return
		}
		a := st.Addr
		for d := 0; d < 4; d++ {
			switch x := a.(type) {
			case *ssa.FieldAddr:
				a = x.X
				continue
			case *ssa.IndexAddr:
				a = x.X
				continue
			}
			break
		}
		if fv, ok := a.(*ssa.FreeVar); ok {
			stateful = append(stateful, fmt.Sprintf("%s is written at %s", fv.Name(), p.Pos(st.Pos())))
		}
		if prm, ok := a.(*ssa.Parameter); ok && boundRecv && len(closure.Params) > 0 && prm == closure.Params[0] {
			stateful = append(stateful, fmt.Sprintf("a field of the wrapper record is written at %s", p.Pos(st.Pos())))
		}
	})
	r.Check(len(stateful) == 0, "(*trie.SlimTrie).ScanFromTo wrapper decides from the current key alone", p.Pos(closure.Pos()), "the wrapper writes no captured variable",
		"the end-bound test keeps state across callbacks ("+strings.Join(stateful, "; ")+"): once a key beyond the bound has been seen the carried state no longer describes the current key, and keys beyond `end` can be yielded")
}

// checkExhaust: the iterator closure starts by testing captured state; the
// exhausted branch returns (nil, nil) without any store or call.
func checkExhaust(p *Program, r *Report, f *ssa.Function) {
	construct := "iterator " + shortFn(f) + " stays exhausted"
	entry := f.Blocks[0]
	iff, ok := lastInstr(entry).(*ssa.If)
	if !ok {
		r.Unk(construct, p.Pos(f.Pos()), "the closure does not start with an exhaustion test")
		return
	}
	for _, in := range entry.Instrs {
		switch in.(type) {
		case *ssa.Store, *ssa.MapUpdate:
			r.Bad(construct, p.Pos(in.Pos()), "state is written before the exhaustion test")
			return
		case ssa.CallInstruction:
			r.Bad(construct, p.Pos(in.Pos()), "a call precedes the exhaustion test")
			return
		}
	}
	okBranch := false
	for _, s := range iff.Block().Succs {
		ret, isRet := lastInstr(s).(*ssa.Return)
		if !isRet || len(ret.Results) != 2 || !isNilConst(ret.Results[0]) || !isNilConst(ret.Results[1]) {
			continue
		}
		clean := true
		for _, in := range s.Instrs {
			switch in.(type) {
			case *ssa.Store, *ssa.MapUpdate, ssa.CallInstruction:
				clean = false
			}
		}
		if clean {
			okBranch = true
		}
	}
	r.Check(okBranch, construct, p.Pos(iff.Cond.Pos()), "the first branch returns (nil, nil) without any write or call when the captured cursor says exhausted", "no branch of the initial test returns (nil, nil) without side effects")
}

func init() { checks["C04"] = checkC04 }

// edgeLeadsToAbort: the edge b -> b.Succs[k] reaches only aborting blocks once the boolean phis it feeds
// are folded ("ok := A != nil && A.B != nil; if ok && C != nil { return }; panic(...)": from the nil edge
// of the first test, ok is the constant false and the next branch goes to the panic).
func edgeLeadsToAbort(b *ssa.BasicBlock, k int, abortOnly []bool) bool {
	pred, cur := b, b.Succs[k]
	for steps := 0; steps < 6; steps++ {
		if abortOnly[cur.Index] {
			return true
		}
		iff, ok := lastInstr(cur).(*ssa.If)
		if !ok {
			return false
		}
		cond := iff.Cond
		neg := false
		for {
			if u, ok := cond.(*ssa.UnOp); ok && u.Op == token.NOT {
				cond, neg = u.X, !neg
				continue
			}
			break
		}
		ph, ok := cond.(*ssa.Phi)
		if !ok || ph.Block() != cur {
			return false
		}
		idx := -1
		for i, pp := range cur.Preds {
			if pp == pred {
				idx = i
			}
		}
		if idx < 0 {
			return false
		}
		c, ok := constBool(ph.Edges[idx])
		if !ok {
			return false
		}
		if neg {
			c = !c
		}
		next := cur.Succs[1]
		if c {
			next = cur.Succs[0]
		}
		pred, cur = cur, next
	}
	return false
}

// walksWire: g, or a function of package trie it calls (to depth 2), indexes, slices or ranges over
// a wire array, or hands wire data to another package. A function that does none of this reads no
// trie content: calling it is not a traversal.
func walksWire(g *ssa.Function, depth int) bool {
	if g == nil || len(g.Blocks) == 0 {
		return true
	}
	if depth > 2 {
		return true
	}
	walks := false
	instrsOf(g, func(_ *ssa.BasicBlock, in ssa.Instruction) {
		if walks {
			return
		}
		switch x := in.(type) {
		case *ssa.IndexAddr:
			walks = walks || wirePathOf(x.X) != ""
		case *ssa.Index:
			walks = walks || wirePathOf(x.X) != ""
		case *ssa.Slice:
			walks = walks || wirePathOf(x.X) != ""
		case *ssa.Range:
			walks = walks || wirePathOf(x.X) != ""
		case *ssa.Lookup:
			walks = walks || wirePathOf(x.X) != ""
		case ssa.CallInstruction:
			cm := x.Common()
			h := calleeOf(x)
			if h == nil {
				if _, isBuiltin := cm.Value.(*ssa.Builtin); isBuiltin {
					for _, a := range cm.Args {
						if wirePathOf(a) != "" {
							walks = true
						}
					}
					return
				}
				walks = true // dynamic call
				return
			}
			if trieScope(h) {
				if call, ok := x.(*ssa.Call); ok {
					if _, isPred := predicateNilTarget(call); isPred {
						return
					}
				}
				walks = walksWire(h, depth+1)
				return
			}
			for _, a := range cm.Args {
				if wirePathOf(a) != "" {
					walks = true
				}
			}
			if cm.IsInvoke() {
				walks = true
			}
		}
	})
	return walks
}
