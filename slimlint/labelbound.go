package main

// C04.label-bound — the label cursor of the scan. A scan keeps, per node on its
// stack, a copy of the node's bit range [from,to) and the index of the current
// label inside it; all size-1 label bits of a node must be reachable: bit 16 of
// a 17-bit node and bit 256 (the byte 0xff) of a 257-bit node included. Where
// the cursor is compared with a constant, the first index the comparison
// declares exhausted must be a node size (17 or 257): "labelBit > 0xff" cuts
// the label 0xff off — only keys with that byte at a wide node are lost, and
// the suite's keys are ASCII.
//
// Roles are inferred: the record is a struct of package trie with two integer
// fields stored from a query session's from / to; the cursor is the field of
// that record that is added to the record's from field (bit index into Inners)
// or assigned a difference with it.

import (
	"fmt"
	"go/token"
	"go/types"
	"sort"

	"golang.org/x/tools/go/ssa"
)

func checkLabelBound(p *Program, r *Report, rule string) {
	r.Rule(rule, "SSA roles", "a label cursor is compared only with node sizes", 0)
	type rec struct {
		st       *types.Struct
		from, to *types.Var
	}
	loadField := func(v ssa.Value) (*types.Struct, *types.Var, ssa.Value) {
		if ld, ok := v.(*ssa.UnOp); ok && ld.Op == token.MUL {
			if st, fv, fa := fieldOfAddr(ld.X); fa != nil {
				return st, fv, fa.X
			}
		}
		return nil, nil, nil
	}
	recs := map[*types.Struct]*rec{}
	var fns []*ssa.Function
	for _, f := range p.FuncsOf(triePath) {
		if f.Synthetic == "" && len(f.Blocks) > 0 && trieScope(f) {
			fns = append(fns, f)
		}
	}
	sort.Slice(fns, func(i, j int) bool { return funcID(fns[i]) < funcID(fns[j]) })
	for _, f := range fns {
		instrsOf(f, func(_ *ssa.BasicBlock, in ssa.Instruction) {
			st, ok := in.(*ssa.Store)
			if !ok {
				return
			}
			dst, dfv, dfa := fieldOfAddr(st.Addr)
			if dfa == nil || dst == nil || isSessionType(dfa.X.Type()) {
				return
			}
			_, sfv, base := loadField(st.Val)
			if sfv == nil || base == nil || !isSessionType(base.Type()) {
				return
			}
			rc := recs[dst]
			if rc == nil {
				rc = &rec{st: dst}
				recs[dst] = rc
			}
			switch sfv.Name() {
			case curSess.from:
				rc.from = dfv
			case curSess.to:
				rc.to = dfv
			}
		})
	}
	cursors := map[*types.Var]bool{}
	for _, f := range fns {
		instrsOf(f, func(_ *ssa.BasicBlock, in ssa.Instruction) {
			switch x := in.(type) {
			case *ssa.BinOp:
				if x.Op != token.ADD {
					return
				}
				for _, pr := range [][2]ssa.Value{{x.X, x.Y}, {x.Y, x.X}} {
					sa, fa, _ := loadField(pr[0])
					sb, fb, _ := loadField(pr[1])
					if sa != nil && sa == sb {
						if rc := recs[sa]; rc != nil && rc.from != nil && fa == rc.from && fb != rc.to {
							cursors[fb] = true
						}
					}
				}
			case *ssa.Store:
				dst, dfv, dfa := fieldOfAddr(x.Addr)
				if dfa == nil {
					return
				}
				if bo, ok := x.Val.(*ssa.BinOp); ok && bo.Op == token.SUB {
					if sb, fb, _ := loadField(bo.Y); sb != nil && sb == dst {
						if rc := recs[dst]; rc != nil && rc.from != nil && fb == rc.from && dfv != rc.to {
							cursors[dfv] = true
						}
					}
				}
			}
		})
	}
	if len(cursors) == 0 {
		r.Note("%s: no record with a copy of a node's bit range and a label cursor found (nothing to check)", rule)
		return
	}
	n := 0
	for _, f := range fns {
		var bad []string
		cnt := 0
		instrsOf(f, func(_ *ssa.BasicBlock, in ssa.Instruction) {
			bo, ok := in.(*ssa.BinOp)
			if !ok {
				return
			}
			switch bo.Op {
			case token.EQL, token.NEQ, token.LSS, token.LEQ, token.GTR, token.GEQ:
			default:
				return
			}
			for _, pr := range [][2]ssa.Value{{bo.X, bo.Y}, {bo.Y, bo.X}} {
				_, fv, _ := loadField(pr[0])
				k, isK := constInt(pr[1])
				if fv == nil || !cursors[fv] || !isK || k <= 0 {
					continue
				}
				op := bo.Op
				if pr[0] == bo.Y { // K op cursor  ->  cursor op' K
					switch op {
					case token.LSS:
						op = token.GTR
					case token.LEQ:
						op = token.GEQ
					case token.GTR:
						op = token.LSS
					case token.GEQ:
						op = token.LEQ
					}
				}
				first := k // first index on the "exhausted" side
				switch op {
				case token.GTR, token.LEQ:
					first = k + 1
				}
				cnt++
				if first != 17 && first != 257 {
					bad = append(bad, fmt.Sprintf("%s: the cursor %s is cut at %d, which is not a node size (17 or 257): the labels from bit %d on of a wider node are never visited", p.Pos(bo.Pos()), fv.Name(), first, first))
				}
			}
		})
		if cnt == 0 {
			continue
		}
		n += cnt
		r.Func(shortFn(f))
		r.Check(len(bad) == 0, "label cursor bounds in "+shortFn(f), p.Pos(f.Pos()), fmt.Sprintf("%d comparison(s) with a constant, each cutting at a node size", cnt), joinStrings(dedupStrings(bad), "; "))
	}
	r.Note("%s: %d label cursor field(s), %d comparison(s) with constants", rule, len(cursors), n)
}

func joinStrings(ss []string, sep string) string {
	out := ""
	for i, s := range ss {
		if i > 0 {
			out += sep
		}
		out += s
	}
	return out
}
