// slimlint — static checker for the semantic properties of openacid/slim.
//
//	slimlint -prop C11 -tier quick|thorough [-repo /repo] [-verif /verif] [-configs default,debug,386]
//
// Exit 0: every obligation discharged. Exit 1: a line
// "VIOLATION property=<id> replay=<path>". Exit 2: the checker or the tree is
// broken (load failure, positive control not flagged, panic).
package main

import (
	"flag"

	"fmt"
	"golang.org/x/tools/go/ssa"
	"os"
	"runtime/debug"
	"sort"
	"strconv"
	"strings"
	"time"
)

type checkFn func(p *Program, r *Report)

var checks = map[string]checkFn{}

// controlsFn runs the positive controls of a property against the fixture
// packages; registered per property.
var controlFns = map[string]func(fx *Program, r *Report){}

func main() {
	prop := flag.String("prop", "", "property id (C01..C20)")
	tier := flag.String("tier", "quick", "quick or thorough")
	repo := flag.String("repo", "/repo", "repository to analyse")
	verif := flag.String("verif", "/verif", "verification directory (evidence, known findings)")
	cfgList := flag.String("configs", "", "comma separated build configurations (default: quick=default; thorough=default,debug,386)")
	noEvidence := flag.Bool("no-evidence", false, "do not write evidence (used by the mutant audit)")
	list := flag.Bool("list", false, "list properties with a check")
	dump := flag.String("dump", "", "debug: dump an engine's view (flow, vers, sym)")
	multi := flag.String("props", "", "audit mode: comma separated property ids (or 'all'); loads the tree once, runs each check without evidence or fixtures, prints '--- <id> exit=<n>' per property")
	flag.Parse()
	if *multi != "" {
		os.Exit(runMulti(*repo, *multi))
	}
	if *dump != "" {
		p, err := Load(*repo, configs["default"])
		if err != nil {
			fmt.Println("ERROR:", err)
			os.Exit(2)
		}
		dumpEngine(p, *dump)
		return
	}
	if *list {
		var ids []string
		for id := range checks {
			ids = append(ids, id)
		}
		sort.Strings(ids)
		fmt.Println(strings.Join(ids, " "))
		return
	}
	fn, ok := checks[*prop]
	if !ok {
		fmt.Printf("ERROR: no check for property %q\n", *prop)
		os.Exit(2)
	}
	seed := 0
	if s := os.Getenv("VERIF_SEED"); s != "" {
		seed, _ = strconv.Atoi(s)
	}
	names := []string{"default"}
	if *tier == "thorough" {
		names = []string{"default", "debug", "386"}
	}
	if *cfgList != "" {
		names = strings.Split(*cfgList, ",")
	}
	start := time.Now()
	code := 2
	func() {
		defer func() {
			if e := recover(); e != nil {
				fmt.Printf("ERROR: analyser panic: %v\n%s\n", e, debug.Stack())
				code = 2
			}
		}()
		var reps []*Report
		for _, n := range names {
			cfg, ok := configs[n]
			if !ok {
				fmt.Printf("ERROR: unknown config %q\n", n)
				code = 2
				return
			}
			p, err := Load(*repo, cfg)
			if err != nil {
				if _, ok := err.(*loadError); ok {
					// the tree does not build in this configuration: nothing can be decided
					fmt.Printf("ERROR: cannot load %s [%s]: %v\n", *repo, n, err)
					code = 2
					return
				}
				fmt.Printf("ERROR: %v\n", err)
				code = 2
				return
			}
			r := NewReport(*prop, n)
			fn(p, r)
			if cf, ok := controlFns[*prop]; ok && n == names[0] {
				fx, err := LoadFixtures(*verif)
				if err != nil {
					fmt.Printf("ERROR: cannot load fixtures: %v\n", err)
					code = 2
					return
				}
				cf(fx, r)
			}
			reps = append(reps, r)
			p = nil
			debug.FreeOSMemory()
		}
		if *noEvidence {
			code = summarize(*prop, reps)
			return
		}
		var extra map[string]interface{}
		if *tier == "thorough" && os.Getenv("SLIMLINT_NO_AUDIT") == "" {
			extra = map[string]interface{}{"sensitivity_audit": sensitivityAudit(*verif, *prop)}
		}
		code = finish(*prop, *tier, seed, reps, *verif, time.Since(start).Seconds(), extra)
	}()
	os.Exit(code)
}

// runMulti is the audit mode used by bin/mutcheck and the audit tools: one
// load of the (scratch) tree, every requested check on it. Fixture controls
// do not depend on the analysed tree and are skipped here; registered checks
// never use this mode.
func runMulti(repo, list string) int {
	var ids []string
	if list == "all" {
		for id := range checks {
			ids = append(ids, id)
		}
		sort.Strings(ids)
	} else {
		ids = strings.Split(list, ",")
	}
	p, err := Load(repo, configs["default"])
	if err != nil {
		fmt.Printf("ERROR: cannot load %s: %v\n", repo, err)
		return 2
	}
	rc := 0
	for _, id := range ids {
		fn, ok := checks[id]
		if !ok {
			fmt.Printf("--- %s exit=2\nERROR: no check\n", id)
			rc = 2
			continue
		}
		code := 2
		var buf strings.Builder
		func() {
			old := os.Stdout
			rd, wr, _ := os.Pipe()
			os.Stdout = wr
			done := make(chan struct{})
			go func() {
				b := make([]byte, 65536)
				for {
					n, err := rd.Read(b)
					buf.Write(b[:n])
					if err != nil {
						break
					}
				}
				close(done)
			}()
			defer func() {
				if e := recover(); e != nil {
					fmt.Printf("ERROR: analyser panic: %v\n%s\n", e, debug.Stack())
					code = 2
				}
				wr.Close()
				<-done
				os.Stdout = old
			}()
			r := NewReport(id, "default")
			fn(p, r)
			code = summarize(id, []*Report{r})
		}()
		fmt.Printf("--- %s exit=%d\n%s", id, code, buf.String())
		if code != 0 && rc == 0 {
			rc = 1
		}
	}
	return rc
}

// summarize prints non-discharged obligations without touching evidence.
func summarize(prop string, reps []*Report) int {
	bad := 0
	for _, r := range reps {
		r.finishFloors()
		for _, o := range r.Obls {
			if o.Status != Discharged {
				bad++
				fmt.Printf("%s %s: [%s/%s] %s — %s\n", o.Pos, o.Rule, o.Status, o.Config, o.Construct, o.Detail)
			}
		}
		for _, c := range r.Controls {
			if !c.Flagged {
				fmt.Printf("ERROR: positive control not flagged: %s %s\n", c.Rule, c.Fixture)
				return 2
			}
		}
	}
	if bad > 0 {
		fmt.Printf("VIOLATION property=%s replay=-\n", prop)
		return 1
	}
	fmt.Printf("OK property=%s\n", prop)
	return 0
}

func init() {
	checks["C11"] = checkC11
}

func dumpEngine(p *Program, what string) {
	switch what {
	case "flow":
		newBuilderFlow(p).dump(p)
	case "vers":
		vt := buildVersTable(p)
		fmt.Println("compat:", vt.ve.compat, "current:", vt.current, "problems:", vt.problems)
		for _, v := range append(append([]string{}, vt.compatVer...), "0.5.13", "0.5.12-rc1", "garbage") {
			fmt.Printf("== %q\n", v)
			for _, pa := range vt.pathsOf(v) {
				fmt.Println("   ", pa.String())
			}
		}
		fmt.Println("undecided:", vt.ve.undecided)
	case "sym":
		dumpSym(p)
	case "flat":
		for _, f := range p.FuncsOf(slimPath) {
			for _, w := range strings.Split(os.Getenv("FN"), ",") {
				if w != "" && strings.Contains(funcID(f), w) && f.Synthetic == "" {
					ps, why := flatten(p, f, nil, func(g *ssa.Function) bool { return pkgPathOf(g) == pkgPathOf(f) })
					fmt.Println("==", funcID(f), why)
					for _, x := range ps {
						fmt.Println("   [", x.pcKey(), "] =>", x.resKey(), x.panics)
						for _, ef := range x.effects {
							fmt.Println("        effect:", ef.path, ":=", ef.val)
						}
					}
				}
			}
		}
	case "block":
		var n int
		fmt.Sscan(os.Getenv("BLOCK"), &n)
		newBuilderFlow(p).dumpBlock(p, os.Getenv("FN"), n)
	case "ctl":
		newBuilderFlow(p).dumpCtl(p, os.Getenv("FN"))
	}
}
