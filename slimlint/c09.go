package main

import (
	"fmt"
	"go/token"
	"regexp"
	"strings"

	"golang.org/x/tools/go/ssa"
)

// canonSession renames the session object in a term to QR, whatever local it lives in.
func canonSession(t string) string {
	for _, f := range []string{curSess.from, curSess.to} {
		re := regexp.MustCompile(`(local:[A-Za-z0-9_]+|[a-z][A-Za-z0-9_]*)\.` + regexp.QuoteMeta(f) + `\b`)
		t = re.ReplaceAllString(t, "QR."+f)
	}
	return t
}

// canonSessionTerm: the same on the term (symbols renamed, then re-normalised, so that argument order does
// not depend on the local's name or on a leading address-of left by helper expansion).
func canonSessionTerm(t *term) string {
	re := regexp.MustCompile(`^&?(local:[A-Za-z0-9_]+|[a-z][A-Za-z0-9_]*)\.(` + regexp.QuoteMeta(curSess.from) + `|` + regexp.QuoteMeta(curSess.to) + `)$`)
	return mapSyms(t, func(n string) string {
		if m := re.FindStringSubmatch(n); m != nil {
			return "QR." + m[2]
		}
		return n
	}).String()
}

func checkC09(p *Program, r *Report) {
	r.Explanation = "Decided structural necessary conditions of exact neighbours, for every trie and query: (map) Search returns, position by position, the leaf value of the left / equal / right id of the three-way descent exactly when that id is not -1 and nil otherwise — no id is dropped, swapped or looked up through another function; (extremes) the bounds the descent uses to accept a left or right neighbour candidate are, as normalised terms over (Inners, from, to) of the session, the very child ids the extreme-leaf walks follow: first child = rank(Inners, from) + 1 as in the left-most walk, last child = rank(Inners, to-1) + bit(to-1) as in the right-most walk — one definition of a node's first and last child; (route) the neighbour ids are finished by the right-most walk on the left candidate and the left-most walk on the right candidate."
	r.NotCovered = "Which candidate is chosen at each level, the comparisons with stored prefixes and tails, and everything that depends on rank values and key bytes at run time — i.e. most of the property. Filter-mode false positives on absent keys are by design."
	r.Trusted = []string{"go/ssa", "openacid/low/bitmap.Rank128 (inlined symbolically)"}
	checkDescentNeighboursAs(p, r, "C09")
	checkCodecsAs(p, r, "C09")
	r.Explanation += " (capacity) presence bitmaps of the value array cover every leaf ordinal (rule shared with C01)."
	checkCapacity(p, r, "C09.capacity")
}

// checkDescentNeighboursAs: the neighbour rules of the three-way descent (map, extremes, route,
// candidates) under the name of a property that rests on that descent: C09 (Search) and C02 (RangeGet on
// a key that was de-duplicated away returns the value of the left neighbour found by the same descent
// and finished by the right-most walk).
func checkDescentNeighboursAs(p *Program, r *Report, pfx string) {
	saved := r.curRule
	defer func() {
		if pfx != "C09" {
			r.curRule = saved
		}
	}()
	search := p.Method(p.Trie, "SlimTrie", "Search")
	r.Rule(pfx+".map", "E11", "Search maps the three ids to the three results", 1)
	r.Rule(pfx+".extremes", "E6", "one definition of a node's first and last child", 2)
	r.Rule(pfx+".route", "call graph", "left candidate -> right-most walk, right candidate -> left-most walk", 1)
	r.Rule(pfx+".candidates", "CFG dominance", "a child id becomes a neighbour candidate only inside the node's child range", 2)
	setRule := func(name string) {
		for _, ri := range r.Rules {
			if ri.Name == name {
				r.curRule = ri
			}
		}
	}
	setRule(pfx + ".map")
	if search == nil {
		r.Unk("(*trie.SlimTrie).Search", "", "anchor not found")
		return
	}
	r.Func(shortFn(search))
	// the three-way descent: the trie function Search calls on its key that returns three int32
	var descent *ssa.Function
	for _, c := range callsIn(search) {
		if g := calleeOf(c); g != nil && trieScope(g) && g.Signature.Results().Len() == 3 {
			descent = g
		}
	}
	if descent == nil {
		r.Unk("(*trie.SlimTrie).Search", p.Pos(search.Pos()), "Search does not call a three-result descent (anchor not found)")
		return
	}
	r.Func(shortFn(descent))
	key := keyParamOf(search)
	bind := map[ssa.Value]*term{search.Params[0]: S("ST")}
	if key != nil {
		bind[key] = S("KEY")
	}
	ps, why := flatten(p, search, bind, func(g *ssa.Function) bool { return false })
	if why != "" {
		r.Unk("(*trie.SlimTrie).Search", p.Pos(search.Pos()), "cannot summarise: "+why)
	} else {
		dcall := "call:" + funcID(descent) + "(ST,KEY)"
		var bad []string
		// the function that turns the equal id into a value: the one used at position 1; all three must use it
		leafFn := ""
		for _, fp := range ps {
			if fp.panics || len(fp.results) != 3 {
				bad = append(bad, "a path does not return three values")
				continue
			}
			for k := 0; k < 3; k++ {
				id := fmt.Sprintf("extract:%d(%s)", k, dcall)
				absent, present := false, false
				for _, c := range fp.pc {
					if c == "(-1 == "+id+")" {
						absent = true
					}
					if c == "(-1 != "+id+")" {
						present = true
					}
				}
				v := fp.results[k].String()
				switch {
				case absent && v != "nil":
					bad = append(bad, fmt.Sprintf("result #%d is %s although id #%d is -1", k, abbreviate(v), k))
				case present:
					suffix := "(ST," + id + ")"
					if !strings.HasPrefix(v, "call:") || !strings.HasSuffix(v, suffix) || strings.Contains(v[5:len(v)-len(suffix)], "extract:") {
						bad = append(bad, fmt.Sprintf("result #%d is %s, not the leaf value of id #%d", k, abbreviate(v), k))
					} else {
						fn := v[5 : len(v)-len(suffix)]
						if leafFn == "" {
							leafFn = fn
						} else if leafFn != fn {
							bad = append(bad, fmt.Sprintf("result #%d is looked up with %s, the others with %s", k, fn, leafFn))
						}
					}
				case !absent && !present:
					bad = append(bad, fmt.Sprintf("result #%d does not depend on id #%d being -1 or not", k, k))
				}
			}
		}
		r.Check(len(bad) == 0 && len(ps) > 0, "(*trie.SlimTrie).Search result mapping", p.Pos(search.Pos()), fmt.Sprintf("%d paths: result k = leaf(id k) iff id k != -1, else nil", len(ps)), strings.Join(firstN(dedupStrings(sortStr(bad)), 4), "; "))
	}

	// ---- extremes: walks
	setRule(pfx + ".extremes")
	type walk struct {
		f      *ssa.Function
		next   string // canonical term of the next node id
		dirIdx int    // index of the bool parameter that selects this walk (-1: the function walks one way only)
		dirVal bool
	}
	var walks []walk
	for _, c := range callsIn(descent) {
		g := calleeOf(c)
		if g == nil || !trieScope(g) || len(g.Blocks) == 0 || g.Signature.Results().Len() != 1 {
			continue
		}
		// a walk: a loop whose index phi is fed back with a rank-derived term
		e := newEval(p)
		for _, b := range g.Blocks {
			for _, in := range b.Instrs {
				ph, ok := in.(*ssa.Phi)
				if !ok || !isIntType(ph.Type()) {
					continue
				}
				for i, ed := range ph.Edges {
					if !b.Dominates(b.Preds[i]) {
						continue
					}
					// one walker with a direction parameter: the fed-back value merges the two child choices
					if inner, ok := ed.(*ssa.Phi); ok && len(inner.Edges) == 2 {
						for k, alt := range inner.Edges {
							t := canonSessionTerm(e.eval(alt))
							if !strings.Contains(t, "Slim.Inners") {
								continue
							}
							// the branch on a bool parameter that leads to this alternative
							pred := inner.Block().Preds[k]
							dirIdx, dirVal := -1, false
							for _, blk := range g.Blocks {
								iff, ok := lastInstr(blk).(*ssa.If)
								if !ok {
									continue
								}
								cond := iff.Cond
								neg := false
								if u, ok := cond.(*ssa.UnOp); ok && u.Op == token.NOT {
									cond, neg = u.X, true
								}
								for pi, prm := range g.Params {
									if cond == ssa.Value(prm) {
										for si, sb := range blk.Succs {
											if sb == pred || sb.Dominates(pred) {
												dirIdx = pi
												dirVal = (si == 0) != neg
											}
										}
									}
								}
							}
							walks = append(walks, walk{g, t, dirIdx, dirVal})
						}
						continue
					}
					t := canonSessionTerm(e.eval(ed))
					if strings.Contains(t, "Slim.Inners") {
						// both branches of "if toRight" may jump straight back to the header: the direction
						// is read off the branch that dominates this back edge's source
						dirIdx, dirVal := -1, false
						pred := b.Preds[i]
						for _, blk := range g.Blocks {
							iff, ok := lastInstr(blk).(*ssa.If)
							if !ok {
								continue
							}
							cond := iff.Cond
							neg := false
							if u, ok := cond.(*ssa.UnOp); ok && u.Op == token.NOT {
								cond, neg = u.X, true
							}
							for pi, prm := range g.Params {
								if cond == ssa.Value(prm) {
									for si, sb := range blk.Succs {
										if len(sb.Preds) == 1 && (sb == pred || sb.Dominates(pred)) {
											dirIdx = pi
											dirVal = (si == 0) != neg
										}
									}
								}
							}
						}
						walks = append(walks, walk{g, t, dirIdx, dirVal})
					}
				}
			}
		}
	}
	var first, last *walk
	for i := range walks {
		w := &walks[i]
		if strings.Contains(w.next, "QR."+curSess.from) && !strings.Contains(w.next, "QR."+curSess.to) {
			first = w
		}
		if strings.Contains(w.next, "QR."+curSess.to) {
			last = w
		}
	}
	if first == nil || last == nil {
		r.Unk("extreme-leaf walks under "+shortFn(descent), p.Pos(descent.Pos()), fmt.Sprintf("found %d walk(s); need one following the first child (from) and one following the last child (to)", len(walks)))
	} else {
		r.Func(shortFn(first.f))
		r.Func(shortFn(last.f))
		// bounds in the descent: conditions P >= X and P <= Y
		e := newEval(p)
		lows, highs := map[string]bool{}, map[string]bool{}
		instrsOf(descent, func(_ *ssa.BasicBlock, in ssa.Instruction) {
			bo, ok := in.(*ssa.BinOp)
			if !ok {
				return
			}
			x, y := canonSessionTerm(e.eval(bo.X)), canonSessionTerm(e.eval(bo.Y))
			switch bo.Op {
			case token.GEQ:
				if strings.Contains(y, "Slim.Inners") {
					lows[y] = true
				}
			case token.LEQ:
				if strings.Contains(y, "Slim.Inners") {
					highs[y] = true
				}
				if strings.Contains(x, "Slim.Inners") {
					lows[x] = true
				}
			case token.LSS, token.GTR:
				if strings.Contains(x, "Slim.Inners") || strings.Contains(y, "Slim.Inners") {
					lows["strict comparison with a child bound"] = true
				}
			}
		})
		// the acceptance test may sit in a helper that is handed the candidates and the bounds
		// (offerSiblings(left, right, firstChild, lastChild)): its comparisons, parameters bound at the call
		for _, c := range callsIn(descent) {
			call, ok := c.(*ssa.Call)
			h := calleeOf(c)
			if !ok || h == nil || !trieScope(h) || len(h.Blocks) == 0 || hasLoop(h) || h == first.f || h == last.f {
				continue
			}
			instrsOf(h, func(_ *ssa.BasicBlock, in ssa.Instruction) {
				bo, ok := in.(*ssa.BinOp)
				if !ok {
					return
				}
				switch bo.Op {
				case token.GEQ, token.LEQ, token.LSS, token.GTR:
				default:
					return
				}
				x, y := canonSessionTerm(bindFrames(p, bo.X, []*ssa.Call{call})), canonSessionTerm(bindFrames(p, bo.Y, []*ssa.Call{call}))
				switch bo.Op {
				case token.GEQ:
					if strings.Contains(y, "Slim.Inners") {
						lows[y] = true
					}
					if strings.Contains(x, "Slim.Inners") {
						highs[x] = true
					}
				case token.LEQ:
					if strings.Contains(y, "Slim.Inners") {
						highs[y] = true
					}
					if strings.Contains(x, "Slim.Inners") {
						lows[x] = true
					}
				case token.LSS, token.GTR:
					if strings.Contains(x, "Slim.Inners") || strings.Contains(y, "Slim.Inners") {
						lows["strict comparison with a child bound"] = true
					}
				}
			})
		}
		okLow := len(lows) == 1 && lows[first.next]
		okHigh := len(highs) == 1 && highs[last.next]
		r.Check(okLow, "lower bound of neighbour candidates in "+shortFn(descent), p.Pos(descent.Pos()), "the first child id the left-most walk follows: "+abbreviate(first.next),
			fmt.Sprintf("the descent accepts candidates >= %v but %s follows %s", abbreviate(strings.Join(sortedKeys(lows), " | ")), shortFn(first.f), abbreviate(first.next)))
		r.Check(okHigh, "upper bound of neighbour candidates in "+shortFn(descent), p.Pos(descent.Pos()), "the last child id the right-most walk follows: "+abbreviate(last.next),
			fmt.Sprintf("the descent accepts candidates <= %v but %s follows %s", abbreviate(strings.Join(sortedKeys(highs), " | ")), shortFn(last.f), abbreviate(last.next)))
		// ---- route: the value returned at position 0 comes from the last-child walk, position 2 from the first-child walk
		setRule(pfx + ".route")
		var bad []string
		n := 0
		for _, ret := range returnsOf(descent) {
			if len(ret.Results) != 3 {
				continue
			}
			if k, ok := constInt(ret.Results[0]); ok && k == -1 {
				if k2, ok := constInt(ret.Results[2]); ok && k2 == -1 {
					continue // the empty-trie answer
				}
			}
			n++
			if !mayComeFromCallDir(ret.Results[0], last.f, last.dirIdx, last.dirVal, 0) {
				bad = append(bad, "the left id returned at "+p.Pos(ret.Pos())+" is not finished by the last-child walk of "+shortFn(last.f))
			}
			if !mayComeFromCallDir(ret.Results[2], first.f, first.dirIdx, first.dirVal, 0) {
				bad = append(bad, "the right id returned at "+p.Pos(ret.Pos())+" is not finished by the first-child walk of "+shortFn(first.f))
			}
			if mayComeFromCallDir(ret.Results[0], first.f, first.dirIdx, first.dirVal, 0) || mayComeFromCallDir(ret.Results[2], last.f, last.dirIdx, last.dirVal, 0) {
				bad = append(bad, "the walks are applied to the wrong side at "+p.Pos(ret.Pos()))
			}
		}
		r.Check(len(bad) == 0 && n > 0, "neighbour ids of "+shortFn(descent), p.Pos(descent.Pos()), "left = "+shortFn(last.f)+"(candidate), right = "+shortFn(first.f)+"(candidate)", strings.Join(bad, "; "))
		// ---- candidates: a child id (rank-derived) that flows into the left (right) result is assigned
		// only under a comparison with the node's first (last) child id: the id before the first child
		// belongs to another node, the id after the last child to the next node.
		setRule(pfx + ".candidates")
		checkNeighbourCandidates(p, r, descent, first.f, last.f)
	}
}

// checkNeighbourCandidates: see C09.candidates.
func checkNeighbourCandidates(p *Program, r *Report, descent, firstWalk, lastWalk *ssa.Function) {
	// the current-node phi: a phi that is passed as node id to a call taking the session
	curNode := map[*ssa.Phi]bool{}
	for _, c := range callsIn(descent) {
		hasSess := false
		for _, a := range c.Common().Args {
			if isSessionPtr(a) {
				hasSess = true
			}
		}
		if !hasSess {
			continue
		}
		for _, a := range c.Common().Args {
			if ph, ok := a.(*ssa.Phi); ok && isIntType(ph.Type()) {
				curNode[ph] = true
			}
		}
	}
	// ... and every phi the exact-match result is made of: "lID = eqID" hands on the current node, not a child id
	for _, ret := range returnsOf(descent) {
		if len(ret.Results) == 3 {
			for v := range phiClosure(ret.Results[1]) {
				if ph, ok := v.(*ssa.Phi); ok {
					curNode[ph] = true
				}
			}
		}
	}
	// child-derived: the value is (up to additions) result #0 of a call, i.e. a rank
	var childDerived func(v ssa.Value, d int) bool
	childDerived = func(v ssa.Value, d int) bool {
		if d > 4 {
			return false
		}
		switch x := v.(type) {
		case *ssa.Extract:
			_, isCall := x.Tuple.(*ssa.Call)
			return isCall && x.Index == 0
		case *ssa.BinOp:
			if x.Op == token.ADD {
				return childDerived(x.X, d+1) || childDerived(x.Y, d+1)
			}
		case *ssa.Convert:
			return childDerived(x.X, d+1)
		}
		return false
	}
	e := newEval(p)
	// true-edge dominance of a comparison "v OP bound" (bound is a child-range term)
	boundedBy := func(b *ssa.BasicBlock, v ssa.Value, lower bool) bool {
		for d := b; d != nil; d = d.Idom() {
			id := d.Idom()
			if id == nil {
				break
			}
			iff, ok := lastInstr(id).(*ssa.If)
			if !ok {
				continue
			}
			bo, ok := iff.Cond.(*ssa.BinOp)
			if !ok {
				continue
			}
			onTrue := id.Succs[0] == d && len(d.Preds) == 1
			onFalse := id.Succs[1] == d && len(d.Preds) == 1
			if !onTrue && !onFalse {
				continue
			}
			op, x, y := bo.Op, bo.X, bo.Y
			if onFalse {
				switch op {
				case token.LSS:
					op = token.GEQ
				case token.GTR:
					op = token.LEQ
				default:
					continue
				}
			}
			// normalise to v OP bound
			if y == v {
				x, y = y, x
				switch op {
				case token.GEQ:
					op = token.LEQ
				case token.LEQ:
					op = token.GEQ
				}
			}
			if x != v {
				continue
			}
			if !strings.Contains(e.eval(y).String(), "Slim.Inners") {
				continue
			}
			if (lower && op == token.GEQ) || (!lower && op == token.LEQ) {
				return true
			}
		}
		return false
	}
	type cand struct {
		v    ssa.Value
		from *ssa.BasicBlock
	}
	collect := func(res ssa.Value) []cand {
		var out []cand
		seen := map[ssa.Value]bool{}
		var walk func(v ssa.Value, from *ssa.BasicBlock)
		walk = func(v ssa.Value, from *ssa.BasicBlock) {
			switch x := v.(type) {
			case *ssa.Phi:
				if seen[x] || curNode[x] {
					return
				}
				seen[x] = true
				for i, ed := range x.Edges {
					walk(ed, x.Block().Preds[i])
				}
			case *ssa.Call:
				// the finishing walk: its argument is the candidate
				if g := calleeOf(x); g == firstWalk || g == lastWalk {
					for _, a := range x.Call.Args {
						if isIntType(a.Type()) {
							walk(a, x.Block())
						}
					}
				}
			default:
				if childDerived(v, 0) && from != nil {
					out = append(out, cand{v, from})
				}
			}
		}
		walk(res, nil)
		return out
	}
	nl, nr := 0, 0
	var bad, badR []string
	posOf := func(c cand) string {
		for _, in := range c.from.Instrs {
			if in.Pos().IsValid() {
				return p.Pos(in.Pos())
			}
		}
		if id := c.from.Idom(); id != nil {
			if iff, ok := lastInstr(id).(*ssa.If); ok {
				if bo, ok := iff.Cond.(*ssa.BinOp); ok && bo.Pos().IsValid() {
					return p.Pos(bo.Pos())
				}
			}
			for i := len(id.Instrs) - 1; i >= 0; i-- {
				if id.Instrs[i].Pos().IsValid() {
					return p.Pos(id.Instrs[i].Pos())
				}
			}
		}
		return p.Pos(descent.Pos())
	}
	for _, ret := range returnsOf(descent) {
		if len(ret.Results) != 3 {
			continue
		}
		for _, c := range collect(ret.Results[0]) {
			nl++
			if !boundedBy(c.from, c.v, true) {
				bad = append(bad, "the child id assigned as left candidate at "+posOf(c)+" is not compared (>=) with the node's first child id: the id before the first child belongs to another node")
			}
		}
		for _, c := range collect(ret.Results[2]) {
			nr++
			if !boundedBy(c.from, c.v, false) {
				badR = append(badR, "the child id assigned as right candidate at "+posOf(c)+" is not compared (<=) with the node's last child id: the id after the last child belongs to the next node")
			}
		}
	}
	// the ids may live in a local record handed to helper methods (nb.offerSiblings(left, right, first,
	// last)): stores into the fields returned at positions 0 and 2, in the descent and in the loop-free
	// helpers it hands the record to, of values that are child ids at the call site
	for _, ret := range returnsOf(descent) {
		if len(ret.Results) != 3 {
			continue
		}
		for pos, lower := range map[int]bool{0: true, 2: false} {
			ld, ok := ret.Results[pos].(*ssa.UnOp)
			if !ok || ld.Op != token.MUL {
				continue
			}
			fa, ok := ld.X.(*ssa.FieldAddr)
			if !ok {
				continue
			}
			al, ok := fa.X.(*ssa.Alloc)
			if !ok {
				continue
			}
			for _, c := range callsIn(descent) {
				call, ok := c.(*ssa.Call)
				h := calleeOf(c)
				if !ok || h == nil || !trieScope(h) || len(h.Blocks) == 0 || hasLoop(h) {
					continue
				}
				recIdx := -1
				for i, a := range call.Call.Args {
					if a == ssa.Value(al) {
						recIdx = i
					}
				}
				if recIdx < 0 || recIdx >= len(h.Params) {
					continue
				}
				argOf := func(v ssa.Value) ssa.Value {
					for i, prm := range h.Params {
						if v == ssa.Value(prm) && i < len(call.Call.Args) {
							return call.Call.Args[i]
						}
					}
					return nil
				}
				instrsOf(h, func(b *ssa.BasicBlock, in ssa.Instruction) {
					st, ok := in.(*ssa.Store)
					if !ok {
						return
					}
					fa2, ok := st.Addr.(*ssa.FieldAddr)
					if !ok || fa2.X != ssa.Value(h.Params[recIdx]) || fa2.Field != fa.Field {
						return
					}
					arg := argOf(st.Val)
					if arg == nil || !childDerived(arg, 0) {
						return
					}
					// a dominating comparison of the stored parameter with a parameter bound to a child bound
					okB := false
					for d := b; d != nil && !okB; d = d.Idom() {
						id := d.Idom()
						if id == nil {
							break
						}
						iff, isIf := lastInstr(id).(*ssa.If)
						if !isIf || len(d.Preds) != 1 || id.Succs[0] != d {
							continue
						}
						bo, isBo := iff.Cond.(*ssa.BinOp)
						if !isBo {
							continue
						}
						var other ssa.Value
						op := bo.Op
						switch {
						case bo.X == st.Val:
							other = bo.Y
						case bo.Y == st.Val:
							other = bo.X
							switch op {
							case token.GEQ:
								op = token.LEQ
							case token.LEQ:
								op = token.GEQ
							}
						default:
							continue
						}
						if (lower && op != token.GEQ) || (!lower && op != token.LEQ) {
							continue
						}
						if oa := argOf(other); oa != nil && strings.Contains(e.eval(oa).String(), "Slim.Inners") {
							okB = true
						}
					}
					where := p.Pos(st.Pos())
					if lower {
						nl++
						if !okB {
							bad = append(bad, "the child id stored as left candidate at "+where+" (in "+shortFn(h)+") is not compared (>=) with the node's first child id")
						}
					} else {
						nr++
						if !okB {
							badR = append(badR, "the child id stored as right candidate at "+where+" (in "+shortFn(h)+") is not compared (<=) with the node's last child id")
						}
					}
				})
			}
		}
	}
	bad, badR = dedupStrings(bad), dedupStrings(badR)
	if nl == 0 || nr == 0 {
		r.Unk("neighbour candidates of "+shortFn(descent), p.Pos(descent.Pos()), fmt.Sprintf("found %d left and %d right child-id candidates; need at least one each", nl, nr))
		return
	}
	r.Check(len(bad) == 0, "left neighbour candidates of "+shortFn(descent)+" lie in the node's child range", p.Pos(descent.Pos()), fmt.Sprintf("%d assignment(s) under candidate >= first child", nl), strings.Join(bad, "; "))
	r.Check(len(badR) == 0, "right neighbour candidates of "+shortFn(descent)+" lie in the node's child range", p.Pos(descent.Pos()), fmt.Sprintf("%d assignment(s) under candidate <= last child", nr), strings.Join(badR, "; "))
}

// mayComeFromCallDir: v is (through phis) the result of a call of f whose direction argument (when the
// walker has one) is the given constant.
func mayComeFromCallDir(v ssa.Value, f *ssa.Function, dirIdx int, dirVal bool, d int) bool {
	if d > 6 {
		return false
	}
	switch x := v.(type) {
	case *ssa.Call:
		if calleeOf(x) != f {
			return false
		}
		if dirIdx < 0 {
			return true
		}
		if dirIdx < len(x.Call.Args) {
			if b, ok := constBool(x.Call.Args[dirIdx]); ok {
				return b == dirVal
			}
		}
		return false
	case *ssa.Phi:
		for _, e := range x.Edges {
			if mayComeFromCallDir(e, f, dirIdx, dirVal, d+1) {
				return true
			}
		}
	case *ssa.UnOp:
		// the ids live in a local record (nb.l): whatever the function stores into that field
		for _, sv := range localFieldStores(x) {
			if mayComeFromCallDir(sv, f, dirIdx, dirVal, d+1) {
				return true
			}
		}
	}
	return false
}

// localFieldStores: for a load of field k of a local record (an Alloc of this function), the values
// the function itself stores into that field.
func localFieldStores(ld *ssa.UnOp) []ssa.Value {
	if ld.Op != token.MUL {
		return nil
	}
	fa, ok := ld.X.(*ssa.FieldAddr)
	if !ok {
		return nil
	}
	al, ok := fa.X.(*ssa.Alloc)
	if !ok {
		return nil
	}
	var out []ssa.Value
	instrsOf(al.Parent(), func(_ *ssa.BasicBlock, in ssa.Instruction) {
		if st, ok := in.(*ssa.Store); ok {
			if fa2, ok := st.Addr.(*ssa.FieldAddr); ok && fa2.X == ssa.Value(al) && fa2.Field == fa.Field {
				out = append(out, st.Val)
			}
		}
	})
	return out
}

// mayComeFromCall: v is (through phis) the result of a call of f.
func mayComeFromCall(v ssa.Value, f *ssa.Function, d int) bool {
	if d > 6 {
		return false
	}
	switch x := v.(type) {
	case *ssa.Call:
		return calleeOf(x) == f
	case *ssa.Phi:
		for _, e := range x.Edges {
			if mayComeFromCall(e, f, d+1) {
				return true
			}
		}
	}
	return false
}

func init() { checks["C09"] = checkC09 }
