package main

import (
	"fmt"
	"go/token"
	"strings"

	"golang.org/x/tools/go/ssa"
)

// checkVLenWidth: the decision to lay a value array out with a fixed element
// size is a universally quantified per-element fact ("all non-empty elements
// have the same size"). It must be computed by a per-element fold: a flag that
// starts true and is cleared inside the element loop under a comparison of the
// current element's size with a loop-carried previous size. A test on
// aggregates (sum of sizes, last size, count) is only a necessary condition of
// equal sizes and mis-detects value lists whose sizes average out — values are
// then sliced at wrong offsets.
func checkVLenWidth(p *Program, r *Report, rule string) {
	r.Rule(rule, "SSA fold pattern", "fixed-width layout of a value array is decided per element, not from aggregates", 1)
	n := 0
	for _, f := range p.FuncsOf(triePath) {
		if f.Synthetic != "" {
			continue
		}
		// the function stores both FixedSize and PositionBM of a locally built VLenArray
		var fixedStore, posStore *ssa.Store
		instrsOf(f, func(_ *ssa.BasicBlock, in ssa.Instruction) {
			st, ok := in.(*ssa.Store)
			if !ok {
				return
			}
			_, fv, fa := fieldOfAddr(st.Addr)
			if fa == nil || !isNamed(fa.X.Type(), triePath, "VLenArray") {
				return
			}
			if _, isAlloc := fa.X.(*ssa.Alloc); !isAlloc {
				return
			}
			switch fv.Name() {
			case "FixedSize":
				// only a size taken from the data (a constant width is a format decision, not a detection)
				if _, isConst := st.Val.(*ssa.Const); !isConst {
					fixedStore = st
				}
			case "PositionBM":
				posStore = st
			}
		})
		if fixedStore == nil || posStore == nil {
			continue
		}
		n++
		r.Func(shortFn(f))
		construct := "fixed-vs-variable width decision in " + shortFn(f)
		why := vlenDecision(p, f, fixedStore, posStore)
		r.Check(why == "", construct, p.Pos(fixedStore.Pos()), "a flag initialised true and cleared in the element loop under size(current) != size(previous)", why)
	}
	if n == 0 {
		r.Unk("value array builder", "", "no function chooses between FixedSize and PositionBM for a value array it builds")
	}
}

func vlenDecision(p *Program, f *ssa.Function, fixedStore, posStore *ssa.Store) string {
	// the branch that separates the two stores
	var iff *ssa.If
	for d := fixedStore.Block(); d != nil; d = d.Idom() {
		i, ok := lastInstr(d).(*ssa.If)
		if !ok {
			continue
		}
		a := reachableFrom(d.Succs[0], nil)
		b := reachableFrom(d.Succs[1], nil)
		if (a[fixedStore.Block()] && !a[posStore.Block()] && b[posStore.Block()] && !b[fixedStore.Block()]) ||
			(b[fixedStore.Block()] && !b[posStore.Block()] && a[posStore.Block()] && !a[fixedStore.Block()]) {
			iff = i
			break
		}
	}
	if iff == nil {
		// the flag-less form: a scan over the element sizes that leaves with the variable-size layout at the
		// first size that differs, and falls out of the loop into the fixed-size layout
		if why, handled := vlenScanDecision(p, f, fixedStore, posStore); handled {
			return why
		}
		return "cannot find the branch that chooses between the fixed-size and the variable-size layout"
	}
	cond := iff.Cond
	for {
		if u, ok := cond.(*ssa.UnOp); ok && u.Op == token.NOT {
			cond = u.X
			continue
		}
		break
	}
	flag, ok := cond.(*ssa.Phi)
	if !ok {
		// the flag may live in a field of a local record, possibly filled by a helper that scans the elements
		if g, base, field, okc := flagCell(cond, f); okc {
			return vlenCellDecision(p, g, base, field)
		}
		// the flag may be folded into a helper's result: "common size, or a negative sentinel if two
		// elements differ"; the caller separates the sentinel from every size by a constant comparison
		if why, handled := vlenSentinelDecision(p, cond); handled {
			return why
		}
		e := newEval(p)
		return "the layout is chosen by " + abbreviate(e.eval(cond).String()) + ", computed from aggregates after the element loop, not by a per-element flag: value lists whose sizes differ but satisfy it are laid out as fixed-size and sliced at wrong offsets"
	}
	// the phi family of the flag
	fam := map[*ssa.Phi]bool{}
	var falseEdges []*ssa.BasicBlock
	hasTrue := false
	var walk func(ph *ssa.Phi) string
	walk = func(ph *ssa.Phi) string {
		if fam[ph] {
			return ""
		}
		fam[ph] = true
		for i, ed := range ph.Edges {
			switch x := ed.(type) {
			case *ssa.Phi:
				if w := walk(x); w != "" {
					return w
				}
			case *ssa.Const:
				b, ok := constBool(x)
				if !ok {
					return "the layout flag is not a boolean constant fold"
				}
				if b {
					hasTrue = true
				} else {
					falseEdges = append(falseEdges, ph.Block().Preds[i])
				}
			default:
				e := newEval(p)
				return "the layout flag is assigned " + abbreviate(e.eval(ed).String()) + " (not a per-element fold of true/false)"
			}
		}
		return ""
	}
	if w := walk(flag); w != "" {
		return w
	}
	if !hasTrue || len(falseEdges) == 0 {
		return "the layout flag is never cleared (or never initialised true)"
	}
	// each clearing site is inside a loop and guarded by size(current) != carried size
	for _, b := range falseEdges {
		header := loopHeaderOf(b)
		if header == nil {
			return "the layout flag is cleared outside the element loop (decided from aggregates) at " + p.Pos(lastInstr(b).Pos())
		}
		isCarried := func(v ssa.Value, cur ssa.Value) bool {
			ph, ok := stripConv(v).(*ssa.Phi)
			return ok && ph.Block() == header
		}
		if !clearedUnderSizeCompare(p, f, b, isCarried) {
			return fmt.Sprintf("the layout flag is cleared at %s but not under a comparison of the current element's size with the previous one", p.Pos(lastInstr(b).Pos()))
		}
	}
	return ""
}

func stripConv(v ssa.Value) ssa.Value {
	for {
		if cv, ok := v.(*ssa.Convert); ok {
			v = cv.X
			continue
		}
		return v
	}
}

// clearedUnderSizeCompare: block b is control dependent, on the "differs" side,
// on a comparison of the current element's size (a len term) with a carried size.
func clearedUnderSizeCompare(p *Program, f *ssa.Function, b *ssa.BasicBlock, isCarried func(v, cur ssa.Value) bool) bool {
	e := newEval(p)
	okGuard := false
	cds := controlDeps(f, nil)
	seen := map[*ssa.BasicBlock]bool{}
	var chain func(x *ssa.BasicBlock)
	chain = func(x *ssa.BasicBlock) {
		if seen[x] {
			return
		}
		seen[x] = true
		for _, d := range cds[x] {
			gi, ok := lastInstr(d.branch).(*ssa.If)
			if !ok {
				continue
			}
			if bo, ok := gi.Cond.(*ssa.BinOp); ok && (bo.Op == token.NEQ || bo.Op == token.EQL) {
				x1, y1 := e.eval(bo.X).String(), e.eval(bo.Y).String()
				isCur := func(t string) bool { return strings.Contains(t, "len(") }
				if (isCur(x1) && isCarried(bo.Y, bo.X)) || (isCur(y1) && isCarried(bo.X, bo.Y)) {
					// cleared on the "differs" side
					differs := 0
					if bo.Op == token.EQL {
						differs = 1
					}
					if d.succ == differs {
						okGuard = true
					}
				}
			}
			if d.branch != x {
				chain(d.branch)
			}
		}
	}
	chain(b)
	return okGuard
}

// flagCell resolves a condition that loads a boolean field of a local record:
// returns the function in which the record is filled (f itself, or the helper
// whose result is stored into the local), the record's allocation there and
// the field index.
func flagCell(cond ssa.Value, f *ssa.Function) (*ssa.Function, *ssa.Alloc, int, bool) {
	ld, ok := cond.(*ssa.UnOp)
	if !ok || ld.Op != token.MUL {
		return nil, nil, 0, false
	}
	fa, ok := ld.X.(*ssa.FieldAddr)
	if !ok {
		return nil, nil, 0, false
	}
	al, ok := fa.X.(*ssa.Alloc)
	if !ok {
		return nil, nil, 0, false
	}
	// is the whole record stored from a call?
	for _, ref := range *al.Referrers() {
		st, ok := ref.(*ssa.Store)
		if !ok || st.Addr != ssa.Value(al) {
			continue
		}
		call, ok := st.Val.(*ssa.Call)
		if !ok {
			return nil, nil, 0, false
		}
		h := calleeOf(call)
		if h == nil || !trieScope(h) || len(h.Blocks) == 0 {
			return nil, nil, 0, false
		}
		// h returns *B for a local record B
		var base *ssa.Alloc
		for _, ret := range returnsOf(h) {
			if len(ret.Results) != 1 {
				return nil, nil, 0, false
			}
			l2, ok := ret.Results[0].(*ssa.UnOp)
			if !ok || l2.Op != token.MUL {
				return nil, nil, 0, false
			}
			b2, ok := l2.X.(*ssa.Alloc)
			if !ok || (base != nil && base != b2) {
				return nil, nil, 0, false
			}
			base = b2
		}
		if base == nil {
			return nil, nil, 0, false
		}
		return h, base, fa.Field, true
	}
	return f, al, fa.Field, true
}

// vlenCellDecision: the flag is field `field` of the local record base in g:
// it is stored only boolean constants, true at least once, and every false
// store sits in a loop under a comparison of the current element's size with a
// size carried in a phi or in another field of the same record that the loop
// updates with the current size.
func vlenCellDecision(p *Program, g *ssa.Function, base *ssa.Alloc, field int) string {
	hasTrue := false
	var falseStores []*ssa.Store
	bad := ""
	instrsOf(g, func(_ *ssa.BasicBlock, in ssa.Instruction) {
		st, ok := in.(*ssa.Store)
		if !ok {
			return
		}
		fa, ok := st.Addr.(*ssa.FieldAddr)
		if !ok || fa.X != ssa.Value(base) || fa.Field != field {
			return
		}
		b, isB := constBool(st.Val)
		if !isB {
			e := newEval(p)
			bad = "the layout flag is assigned " + abbreviate(e.eval(st.Val).String()) + " (not a per-element fold of true/false)"
			return
		}
		if b {
			hasTrue = true
		} else {
			falseStores = append(falseStores, st)
		}
	})
	if bad != "" {
		return bad
	}
	if !hasTrue || len(falseStores) == 0 {
		return "the layout flag is never cleared (or never initialised true)"
	}
	for _, st := range falseStores {
		b := st.Block()
		header := loopHeaderOf(b)
		if header == nil {
			return "the layout flag is cleared outside the element loop (decided from aggregates) at " + p.Pos(st.Pos())
		}
		isCarried := func(v, cur ssa.Value) bool {
			v = stripConv(v)
			if ph, ok := v.(*ssa.Phi); ok && ph.Block() == header {
				return true
			}
			// a field of the same record that the loop sets to the current size
			ld, ok := v.(*ssa.UnOp)
			if !ok || ld.Op != token.MUL {
				return false
			}
			fa, ok := ld.X.(*ssa.FieldAddr)
			if !ok || fa.X != ssa.Value(base) {
				return false
			}
			updated := false
			instrsOf(g, func(bb *ssa.BasicBlock, in ssa.Instruction) {
				s2, ok := in.(*ssa.Store)
				if !ok {
					return
				}
				fa2, ok := s2.Addr.(*ssa.FieldAddr)
				if !ok || fa2.X != ssa.Value(base) || fa2.Field != fa.Field {
					return
				}
				if stripConv(s2.Val) == stripConv(cur) && loopHeaderOf(bb) == header {
					updated = true
				}
			})
			return updated
		}
		if !clearedUnderSizeCompare(p, g, b, isCarried) {
			return fmt.Sprintf("the layout flag is cleared at %s but not under a comparison of the current element's size with the previous one", p.Pos(st.Pos()))
		}
	}
	return ""
}

// vlenSentinelDecision: cond compares result #k of a trie helper h with a constant; in h every return
// yields for that result either one negative constant (the sentinel) or a size, chosen by a branch on a
// boolean fold over the element loop (either polarity: "all equal" cleared, or "mixed" set, under a
// comparison of the current element's size with a loop-carried size).
func vlenSentinelDecision(p *Program, cond ssa.Value) (string, bool) {
	bo, ok := cond.(*ssa.BinOp)
	if !ok {
		return "", false
	}
	var res ssa.Value
	var k int64
	var resLeft bool
	if c, isK := constInt(bo.Y); isK {
		res, k, resLeft = bo.X, c, true
	} else if c, isK := constInt(bo.X); isK {
		res, k, resLeft = bo.Y, c, false
	} else {
		return "", false
	}
	res = stripConv(res)
	idx := 0
	var call *ssa.Call
	switch x := res.(type) {
	case *ssa.Extract:
		idx = x.Index
		call, _ = x.Tuple.(*ssa.Call)
	case *ssa.Call:
		call = x
	}
	if call == nil {
		return "", false
	}
	h := calleeOf(call)
	if h == nil || !trieScope(h) || len(h.Blocks) == 0 {
		return "", false
	}
	evalCmp := func(v int64) bool {
		a, b := v, k
		if !resLeft {
			a, b = k, v
		}
		switch bo.Op {
		case token.EQL:
			return a == b
		case token.NEQ:
			return a != b
		case token.LSS:
			return a < b
		case token.LEQ:
			return a <= b
		case token.GTR:
			return a > b
		case token.GEQ:
			return a >= b
		}
		return false
	}
	var sentinel *int64
	var sentRets, sizeRets []*ssa.Return
	for _, ret := range returnsOf(h) {
		if idx >= len(ret.Results) {
			return "", false
		}
		if c, isK := constInt(stripConv(ret.Results[idx])); isK && c < 0 {
			if sentinel != nil && *sentinel != c {
				return "the helper " + shortFn(h) + " returns different negative sentinels", true
			}
			cc := c
			sentinel = &cc
			sentRets = append(sentRets, ret)
		} else {
			sizeRets = append(sizeRets, ret)
		}
	}
	if sentinel == nil || len(sizeRets) == 0 {
		return "", false
	}
	// the caller's comparison separates the sentinel from every size
	ts := evalCmp(*sentinel)
	for _, v := range []int64{0, 1, 2, 255, 65536, 1 << 30} {
		if evalCmp(v) == ts {
			return fmt.Sprintf("the comparison with %d does not separate the sentinel %d of %s from every size (size %d falls on the sentinel's side)", k, *sentinel, shortFn(h), v), true
		}
	}
	// the branch in h that separates sentinel returns from size returns tests a boolean fold
	var flag *ssa.Phi
	for _, sr := range sentRets {
		for d := sr.Block(); d != nil && flag == nil; d = d.Idom() {
			id := d.Idom()
			if id == nil {
				break
			}
			iff, ok := lastInstr(id).(*ssa.If)
			if !ok {
				continue
			}
			c := iff.Cond
			for {
				if u, ok := c.(*ssa.UnOp); ok && u.Op == token.NOT {
					c = u.X
					continue
				}
				break
			}
			if ph, ok := c.(*ssa.Phi); ok && isBoolType(ph.Type()) {
				flag = ph
			}
		}
	}
	if flag == nil {
		return "the helper " + shortFn(h) + " does not choose its sentinel by a per-element boolean flag", true
	}
	return boolFoldOverSizes(p, h, flag), true
}

// boolFoldOverSizes: flag is a phi family holding only boolean constants; the constant on edges from
// outside every loop is the initial value; every edge carrying the other value comes from a block that
// is inside a loop and control dependent, on the "differs" side, on a comparison of the current element's
// size with a loop-carried size.
func boolFoldOverSizes(p *Program, f *ssa.Function, flag *ssa.Phi) string {
	fam := map[*ssa.Phi]bool{}
	type edge struct {
		val  bool
		pred *ssa.BasicBlock
	}
	var edges []edge
	var walk func(ph *ssa.Phi) string
	walk = func(ph *ssa.Phi) string {
		if fam[ph] {
			return ""
		}
		fam[ph] = true
		for i, ed := range ph.Edges {
			switch x := ed.(type) {
			case *ssa.Phi:
				if w := walk(x); w != "" {
					return w
				}
			case *ssa.Const:
				b, ok := constBool(x)
				if !ok {
					return "the layout flag is not a boolean constant fold"
				}
				edges = append(edges, edge{b, ph.Block().Preds[i]})
			default:
				e := newEval(p)
				return "the layout flag is assigned " + abbreviate(e.eval(ed).String()) + " (not a per-element fold of true/false)"
			}
		}
		return ""
	}
	if w := walk(flag); w != "" {
		return w
	}
	var init *bool
	for _, ed := range edges {
		if loopHeaderOf(ed.pred) == nil {
			v := ed.val
			if init != nil && *init != v {
				return "the layout flag has two different initial values"
			}
			init = &v
		}
	}
	if init == nil {
		return "the layout flag has no initial value outside the element loop"
	}
	flips := 0
	for _, ed := range edges {
		if ed.val == *init {
			continue
		}
		flips++
		header := loopHeaderOf(ed.pred)
		if header == nil {
			return "the layout flag is changed outside the element loop (decided from aggregates) at " + p.Pos(lastInstr(ed.pred).Pos())
		}
		isCarried := func(v ssa.Value, cur ssa.Value) bool {
			ph, ok := stripConv(v).(*ssa.Phi)
			return ok && loopHeaderOf(ph.Block()) != nil
		}
		if !clearedUnderSizeCompare(p, f, ed.pred, isCarried) {
			return fmt.Sprintf("the layout flag is changed at %s but not under a comparison of the current element's size with a carried size", p.Pos(lastInstr(ed.pred).Pos()))
		}
	}
	if flips == 0 {
		return "the layout flag never changes"
	}
	return ""
}

// vlenScanDecision: the variable-size layout is stored inside a loop over the elements, on the "differs"
// side of a comparison of the current element's size with one reference size taken from the same size
// list before the loop, and that side never reaches the fixed-size store; the fixed-size store lies after
// the loop and stores that reference size.
func vlenScanDecision(p *Program, f *ssa.Function, fixedStore, posStore *ssa.Store) (string, bool) {
	// the variable-size store sits in an exit block of the loop: the loop is the one of the branch above it
	var header *ssa.BasicBlock
	for d := posStore.Block(); d != nil && header == nil; d = d.Idom() {
		header = loopHeaderOf(d)
	}
	if header == nil || loopHeaderOf(fixedStore.Block()) == header {
		return "", false
	}
	// sizes: values that are a length of an element, or an element of a local list filled with lengths
	e := newEval(p)
	isSizeList := func(v ssa.Value) bool {
		mk, ok := v.(*ssa.MakeSlice)
		if !ok {
			return false
		}
		okAll, n := true, 0
		for _, ref := range *mk.Referrers() {
			ia, ok := ref.(*ssa.IndexAddr)
			if !ok {
				continue
			}
			for _, r2 := range *ia.Referrers() {
				if st, ok := r2.(*ssa.Store); ok && st.Addr == ssa.Value(ia) {
					n++
					if !strings.Contains(e.eval(st.Val).String(), "len(") {
						okAll = false
					}
				}
			}
		}
		return okAll && n > 0
	}
	isSize := func(v ssa.Value) bool {
		v = stripConv(v)
		if strings.Contains(e.eval(v).String(), "len(") {
			return true
		}
		if ld, ok := v.(*ssa.UnOp); ok && ld.Op == token.MUL {
			if ia, ok := ld.X.(*ssa.IndexAddr); ok && isSizeList(ia.X) {
				return true
			}
		}
		return false
	}
	// the comparison that controls the variable-size store
	var ref ssa.Value
	found := false
	for d := posStore.Block(); d != nil && d != header.Idom(); d = d.Idom() {
		id := d.Idom()
		if id == nil {
			break
		}
		iff, ok := lastInstr(id).(*ssa.If)
		if !ok || len(d.Preds) != 1 {
			continue
		}
		bo, ok := iff.Cond.(*ssa.BinOp)
		if !ok || (bo.Op != token.NEQ && bo.Op != token.EQL) {
			continue
		}
		differs := 0
		if bo.Op == token.EQL {
			differs = 1
		}
		if id.Succs[differs] != d {
			continue
		}
		inLoop := func(v ssa.Value) bool {
			in, ok := v.(ssa.Instruction)
			return ok && loopHeaderOf(in.Block()) == header
		}
		switch {
		case isSize(bo.X) && inLoop(stripConv(bo.X)) && isSize(bo.Y) && !inLoop(stripConv(bo.Y)):
			ref, found = bo.Y, true
		case isSize(bo.Y) && inLoop(stripConv(bo.Y)) && isSize(bo.X) && !inLoop(stripConv(bo.X)):
			ref, found = bo.X, true
		}
	}
	if !found {
		return "the variable-size layout is chosen inside a loop, but not under a comparison of the current element's size with a reference size taken before the loop", true
	}
	// the differing side never reaches the fixed-size store
	if reachableFrom(posStore.Block(), nil)[fixedStore.Block()] {
		return "after a size that differs was found the fixed-size layout can still be stored", true
	}
	// the fixed size stored is the reference size
	if stripConv(fixedStore.Val) != stripConv(ref) {
		return "the fixed size stored is not the size every element was compared with", true
	}
	// the loop is a plain range/index loop: an index from a constant start in steps of one
	okLoop := false
	for _, in := range header.Instrs {
		ph, ok := in.(*ssa.Phi)
		if !ok || !isIntType(ph.Type()) {
			continue
		}
		step := false
		for i, ed := range ph.Edges {
			if header.Dominates(header.Preds[i]) {
				if bo, ok := ed.(*ssa.BinOp); ok && bo.Op == token.ADD && bo.X == ssa.Value(ph) {
					if k, isK := constInt(bo.Y); isK && k == 1 {
						step = true
					}
				}
			}
		}
		if step {
			okLoop = true
		}
	}
	if !okLoop {
		return "the scan over the element sizes does not advance by one element per iteration", true
	}
	return "", true
}
