package main

import (
	"fmt"
	"go/types"
	"strings"

	"golang.org/x/tools/go/ssa"
)

func checkC12(p *Program, r *Report) {
	r.Explanation = "Decided for every record set and query: in index.(*SlimIndex).Get and RangeGet every return is either the constant (\"\", false) taken exactly when the trie reports not-found, or the unmodified result pair of DataReader.Read(offset, key), where key is the method's own parameter and offset is the value the trie returned for that key, type-asserted to the type the index encoder produces; Get routes to (*SlimTrie).Get and RangeGet to (*SlimTrie).RangeGet; the index is built with an encoder whose Decode boxes exactly the asserted type, from the offsets of the caller's items in order. Since the trie alone has false positives, answering only through the key-verifying reader is necessary for exactness."
	r.NotCovered = "The trie's own answers for indexed keys (C01/C02) and the reader's verification (user code)."
	r.Trusted = []string{"go/ssa, go/types"}
	r.Assumptions = []string{"the DataReader verifies the record key as the interface documents"}
	r.Rule("C12.verify", "E3", "every positive answer is the reader's own result for (trie offset, query key)", 2)
	r.Rule("C12.route", "call graph", "Get -> SlimTrie.Get, RangeGet -> SlimTrie.RangeGet", 2)
	r.Rule("C12.type", "types", "offset type produced by the index encoder = type asserted on lookup", 2)
	rule := func(name string) {
		for _, ri := range r.Rules {
			if ri.Name == name {
				r.curRule = ri
			}
		}
	}
	var asserted []types.Type
	inIndex := func(g *ssa.Function) bool { return pkgPathOf(g) == indexPath }
	indexReach := func(f *ssa.Function) map[*ssa.Function]bool {
		seen := map[*ssa.Function]bool{}
		var walk func(g *ssa.Function)
		walk = func(g *ssa.Function) {
			if g == nil || seen[g] || !inIndex(g) || len(g.Blocks) == 0 {
				return
			}
			seen[g] = true
			for _, c := range callsIn(g) {
				walk(calleeOf(c))
			}
		}
		walk(f)
		return seen
	}
	for _, m := range []string{"Get", "RangeGet"} {
		f := p.Method(p.Index, "SlimIndex", m)
		tf := p.Method(p.Trie, "SlimTrie", m)
		rule("C12.verify")
		if f == nil || tf == nil {
			r.Unk("(*index.SlimIndex)."+m, "", "anchor not found")
			continue
		}
		r.Func(shortFn(f))
		reach := indexReach(f)
		// routing: the only trie lookups under this method (helpers of package index included) are tf(key)
		var lookups, others []string
		for g := range reach {
			r.Func(shortFn(g))
			for _, c := range callsIn(g) {
				h := calleeOf(c)
				if h == nil || !inSlim(h) || inIndex(h) {
					continue
				}
				if h == tf {
					lookups = append(lookups, shortFn(g))
				} else {
					others = append(others, shortFn(h))
				}
			}
			instrsOf(g, func(_ *ssa.BasicBlock, in ssa.Instruction) {
				if ta, ok := in.(*ssa.TypeAssert); ok && !ta.CommaOk {
					asserted = append(asserted, ta.AssertedType)
				}
			})
		}
		rule("C12.route")
		r.Check(len(lookups) == 1 && len(others) == 0, "(*index.SlimIndex)."+m+" routing", p.Pos(f.Pos()), "the only library lookup is (*SlimTrie)."+m,
			fmt.Sprintf("lookups of (*SlimTrie).%s: %v; other library calls: %v", m, lookups, others))
		rule("C12.verify")
		// guarded summary: [!found] -> ("", false) ; [found] -> Read(assert(value), key)
		key := keyParamOf(f)
		ps, why := flatten(p, f, nil, inIndex)
		construct := "(*index.SlimIndex)." + m + " answers through the reader"
		if why != "" || key == nil {
			r.Unk(construct, p.Pos(f.Pos()), "cannot summarise: "+why)
			continue
		}
		lookupT := "call:" + funcID(tf) + "("
		var bad []string
		nNF, nF := 0, 0
		foundCond := ""
		for _, fp := range ps {
			if fp.panics {
				bad = append(bad, "a path panics")
				continue
			}
			if len(fp.results) != 2 || len(fp.pc) != 1 {
				bad = append(bad, "path ["+abbreviate(fp.pcKey())+"] => "+abbreviate(fp.resKey())+" is not one of the two expected cases")
				continue
			}
			pc := fp.pc[0]
			fl := "extract:1(" + lookupT
			switch {
			case strings.HasPrefix(pc, "!"+fl) && strings.HasSuffix(pc, ","+key.Name()+"))"):
				nNF++
				if fp.results[0].String() != "const:\"\"" || fp.results[1].String() != "false" {
					bad = append(bad, "the trie's not-found case returns ("+fp.resKey()+"), want (\"\", false)")
				}
			case strings.HasPrefix(pc, fl) && strings.HasSuffix(pc, ","+key.Name()+"))"):
				nF++
				foundCond = pc
				lk := strings.TrimPrefix(pc, "extract:1(")
				lk = strings.TrimSuffix(lk, ")")
				r0, r1 := fp.results[0].String(), fp.results[1].String()
				okRead := strings.HasPrefix(r0, "extract:0(call:invoke.Read(") && strings.HasPrefix(r1, "extract:1(call:invoke.Read(") &&
					strings.TrimPrefix(r0, "extract:0(") == strings.TrimPrefix(r1, "extract:1(")
				okArgs := strings.Contains(r0, "(extract:0("+lk+"))") && strings.HasSuffix(r0, ","+key.Name()+"))") && strings.Contains(r0, ",assert:")
				if !okRead {
					bad = append(bad, "the found case returns "+abbreviate(fp.resKey())+", not the reader's own result pair: an answer without key verification")
				} else if !okArgs {
					bad = append(bad, "the reader is not called with (the value the trie returned for the key, the key): "+abbreviate(r0))
				}
			default:
				bad = append(bad, "path condition ["+abbreviate(pc)+"] is not the found flag of (*SlimTrie)."+m+"(key)")
			}
		}
		_ = foundCond
		if nNF != 1 || nF != 1 {
			bad = append(bad, fmt.Sprintf("%d not-found and %d found cases, want one each", nNF, nF))
		}
		r.Check(len(bad) == 0, construct, p.Pos(f.Pos()), "not found -> (\"\", false); found -> DataReader.Read(value.(T), key) unchanged", strings.Join(dedupStrings(sortStr(bad)), "; "))
	}

	// ---- type agreement
	rule("C12.type")
	ctor := p.Index.Func("NewSlimIndex")
	if ctor == nil {
		r.Unk("index.NewSlimIndex", "", "anchor not found")
		return
	}
	r.Func(shortFn(ctor))
	var encT types.Type
	var valuesT types.Type
	for _, c := range callsIn(ctor) {
		call, ok := c.(*ssa.Call)
		if !ok || calleeOf(call) != p.Trie.Func("NewSlimTrie") {
			continue
		}
		if mi, ok := call.Call.Args[0].(*ssa.MakeInterface); ok {
			encT = mi.X.Type()
		}
		if mi, ok := call.Call.Args[2].(*ssa.MakeInterface); ok {
			valuesT = mi.X.Type()
		}
	}
	if encT == nil {
		r.Unk("index encoder", p.Pos(ctor.Pos()), "NewSlimIndex does not pass a concrete encoder to NewSlimTrie")
		return
	}
	n, _ := encT.(*types.Named)
	var boxed types.Type
	if n != nil {
		if dec := encMethod(p, n, "Decode"); dec != nil {
			for _, ret := range returnsOf(dec) {
				if len(ret.Results) == 2 {
					if mi, ok := ret.Results[1].(*ssa.MakeInterface); ok {
						boxed = mi.X.Type()
					}
				}
			}
		}
	}
	okT := boxed != nil && len(asserted) >= 1
	for _, a := range asserted {
		if boxed == nil || !types.Identical(a, boxed) {
			okT = false
		}
	}
	r.Check(okT, "offset type: encoder "+encT.String()+" vs lookup assertions", p.Pos(ctor.Pos()), "Decode boxes "+fmt.Sprint(boxed)+", which both lookups assert",
		fmt.Sprintf("the encoder's Decode boxes %v but the lookups assert %v: the first hit would panic", boxed, asserted))
	okV := false
	if sl, ok := valuesT.(*types.Slice); ok && boxed != nil {
		okV = types.Identical(sl.Elem(), boxed)
	}
	r.Check(okV, "offset slice element type", p.Pos(ctor.Pos()), "[]"+fmt.Sprint(boxed)+" is what the encoder's Encode asserts", fmt.Sprintf("values of type %v are handed to an encoder for %v", valuesT, boxed))
}

func init() { checks["C12"] = checkC12 }
