#!/usr/bin/env python3
"""Generates /verif/MANIFEST.json from the table below (kept in one place so that
the manifest stays valid and consistent with the checks slimlint registers)."""
import json, os, subprocess, sys

VERIF = os.path.dirname(os.path.dirname(os.path.abspath(__file__)))

TRUST = ("Trusted base: go/packages + go/types + go/ssa of golang.org/x/tools v0.29.0 (vendored), the Go toolchain's "
         "type checker, the external summary table of slimlint (std, protobuf 1.3.1, openacid/errors, blang/semver, testify; "
         "each entry justified by reading the pinned source), and blang/semver v3.5.1 for evaluating version ranges on constants. "
         "Nothing of /repo is executed. User-supplied encoders, callbacks and data readers are outside every claim.")

CLAIMS = {
 "C11": dict(
   technique="whole-program points-to / write-effect analysis (custom Andersen over go/ssa)",
   text=("Structural clause decided for ALL schedules: no function reachable from any read API of *SlimTrie or SlimIndex "
         "(15+2 entry points, every iterator closure included) contains an unsynchronised write whose target may be memory "
         "reachable from the receiver, a package-level variable (or whatever it was initialised with: memo tables) or string data; in-place rewriters of loaded data are reachable "
         "only from Unmarshal. This is the mechanism the property states (immutable under reads); it does not decide that a call "
         "returns what it returns alone beyond that (determinism of the callee code is assumed)."),
   design="4/C11"),
 "C20": dict(
   technique="whole-program points-to / write-effect and retention analysis (custom Andersen over go/ssa)",
   text=("Decided for every input and layout: Unmarshal has no write effect on its argument's backing array and the array is "
         "not reachable from the receiver or any global at the points-to fixpoint; the slice Marshal returns points only to "
         "memory allocated during the call (not taken from a sync.Pool) and nothing is stored into the receiver; NewSlimTrie/NewSlimIndex have no write "
         "effect on the caller's keys, values, option struct, the bools it points to, or the encoder, and nothing the caller can still write "
         "is in the contents closure of the returned trie (identity encoders of the analysed packages followed)."),
   design="4/C20"),

 "C02": dict(
   technique="labelled information-flow analysis of the builder (context-cloned abstract interpretation over go/ssa) + call-graph routing",
   text=("Structural necessary condition decided for all key/value lists: the bit position at which a node's labels are cut and its "
         "children split carries no keep-mask/value/DedupValue label given the node's key range, is the value recorded as the node's "
         "prefix end, and the significant-bit index is built over the caller's whole key slice — the mechanism by which a de-duplicated "
         "key falls to its left neighbour; plus SlimIndex.RangeGet -> SlimTrie.RangeGet routing and one shared three-way descent. "
         "The keep mask compares every adjacent pair of encoded values (values are not sorted); every record's bytes are the encoder's output for that "
         "record, from an encoder whose results are independent; leaf bytes are reached only through the leaf array's decoder. Does not decide the three-way search itself (rank values at run time)."),
   design="4/C02"),
 "C04": dict(
   technique="labelled flow (option witnesses) + CFG dominance/post-dominance gates + sibling-decoder agreement",
   text=("Decides the refusal clause (a nil test of a builder-computed witness of EACH prefix option panics before any traversal, for "
         "all three scan APIs), the every-value-encoder clause (scan value bytes are located only by the leaf array decoder Get uses; no "
         "GetEncodedSize(nil) fixed-width belief on read paths), the stop clause (false callback result ends ScanFrom; ScanFromTo's "
         "wrapper returns false or the callback's result; the scan loop ends on a nil key, never on its length; the end-bound wrapper keeps no state across callbacks), delegation on every path and stickiness of exhaustion; the layout of the value array scans read is decided per element; session fields assigned on some decoder paths only are read under their discriminator, and never outside their producers when no discriminator exists. Does not decide order/"
         "uniqueness/completeness of yielded keys or bound inclusivity (runtime rank values)."),
   design="4/C04"),
 "C13": dict(
   technique="labelled information-flow analysis of the builder (noninterference of prefix options on shape wire fields)",
   text=("Decided for all inputs: no shape field of the wire message (node types, label bitmaps, short table, step presence, leaves) "
         "depends by data or control flow on option InnerPrefix, LeafPrefix or Complete, so all modes with equal DedupValue build the same "
         "trie shape and retained key set and prefix options only add payload. This is the mechanism and a necessary condition of "
         "monotonicity; on the guarded summary of the option normalisation every path on which Complete can be true ends with InnerPrefix and "
         "LeafPrefix pointing to true and no flag left nil, and no path without Complete == true stores true into a prefix option; no wire field of one prefix section depends on the other prefix option; stored prefixes are "
         "decoded under their validity discriminators with a length that reads the marker byte. It does not decide that the query side uses the payload only to reject."),
   design="4/C13"),
 "C17": dict(
   technique="labelled information-flow analysis of the builder (key-material taint to wire fields and store events) + translation-class dataflow over key bit positions (shift invariance of construction decisions)",
   text=("Decided for every key set: values that can hold key bytes are stored into builder state or the returned message only on "
         "paths where option InnerPrefix or LeafPrefix is known true (must-condition from transitive control dependence), and reach only "
         "InnerPrefixes.Bytes / LeafPrefixes.Bytes; hence in filter mode nothing proportional to key length is stored; the element width of every "
         "per-node array outside the payload sections and the decision to build a per-node section at all carry no key-content label (the "
         "documented empty-trie marker excepted); a node is made 257-bit only under a lower bound (> K, K >= 4) on its own child count; the build uses no "
         "process-wide state; no construction decision compares an absolute key bit position (or a quantity scaled from one) with a constant — positions are used only modulo their alignment, in differences and against other positions, so prepending a common prefix of whole bytes cannot change the shape; a prefix option is switched on only by the caller's own flag or by Complete being true. Does not decide the numeric bound of 8 bytes/key + 256 itself."),
   design="4/C17"),

 "C05": dict(
   technique="determinism lint over SSA (map-range/sort discipline) + per-version definite-reassignment dataflow on the semver-specialised CFG + nil-test lint over slice-typed wire fields",
   text=("Decides necessary conditions of byte-stable Marshal (no map-order leak: collect-then-sort with a comparator that reads the map key; "
         "no random/clock/goroutine/%p; no map in wire structs), the no-residue clause (for each of the compatible versions every "
         "non-configuration field of SlimTrie is stored on every success path of the version-specialised Unmarshal before any load that could "
         "observe its old value, derived fields computed after the last message write; Reset likewise), proto.Size = len(Marshal()) by method "
         "set, that the stamped version is loadable without fix-up, that every bitmap is read with the index kind it is built or loaded with, that the "
         "stream Marshal returns is fresh (not pooled, not kept) and that the build uses no process-wide state (sync.Pool, package-level variables). "
         "No decision rests on the nil-ness of a bytes/repeated wire field (proto3 drops empty ones: built and loaded tries would differ). "
         "Does not decide that a loaded trie answers identically."),
   design="4/C05"),
 "C06": dict(
   technique="finite version-table evaluation: semver predicates folded on constants, per-version CFG specialisation and path events",
   text=("Decides the dispatch for every version in the compatible list: the version-specialised Unmarshal has success paths and each performs "
         "exactly the loader family of that layout (three sections in order + rebuild + store + init / one Slim section + prefix re-encoding + leaf "
         "array reconstruction + init / one Slim section + init), fix-up functions identified by the wire fields they write and no other in-place rewrite "
         "on a success path; loaders driven by constant tables are unrolled; no bitmap word is trimmed in place with, or overwritten by, mask(n&63) unguarded; helpers handed parts of the loaded message count as rewrites of it; the legacy "
         "loader never decides emptiness from the children array alone; no part of a split multi-byte quantity is modified in its own width "
         "before recombination (lost carry); legacy arrays are "
         "ranked over their own (Bitmaps, Offsets); guarded accesses to local fixed-size scratch arrays fit the array for the largest value their guards admit. Does not decide the conversions' arithmetic on arbitrary old streams."),
   design="4/C06"),
 "C07": dict(
   technique="finite version-table evaluation (blang/semver on constants) + CFG reachability with cut error edges",
   text=("Decides, for ALL version strings and ALL cut points: the compatible set is a finite list of exact released versions (spec shape + probe "
         "set incl. pre-releases/successors/malformed), the version tested is the header's, incompatible versions have no success path, parse "
         "nothing and return an error derived from ErrIncompatible; after every stream read only an error return is reachable unless the err==nil "
         "edge of that read's nil test is taken (so every strict prefix is rejected, given pbcmpl's exact-size reads, re-checked on the pinned source; "
         "no direct protobuf decode of the remaining bytes); a fresh message is stored before the first early return and error paths leave it "
         "untouched; a cached emptiness flag in the derived-constants record is replaced on every rejected load. Panics inside protobuf on corrupted (not truncated) bodies are not covered."),
   design="4/C07"),

 "C14": dict(
   technique="guarded result summaries (gated-SSA view with helpers expanded) + symbolic normalisation of SSA terms (byte assembly, offsets)",
   text=("Decides the found-flag clause completely (every not-found answer of a typed getter is (0,false) under exactly Get's own not-found "
         "condition id == -1 on the same id term, every found answer under its negation and nothing else), that the leaf ordinal is what a "
         "function on Get's value path computes from that id, and that the returned value is, as a normalised "
         "term, the W-byte little-endian assembly of Leaves.Bytes at W*ordinal with W = Sizeof(intW) = size of encode.I{8W} (shifts that lose "
         "bits in a narrower type are kept visible). Does not decide that Leaves of an integer trie is dense (a data fact established by the builder)."),
   design="4/C14"),
 "C15": dict(
   technique="symbolic size terms + width-preserving conversion-chain check around encoding/binary calls (resolved callees)",
   text=("For I8..U64 a complete proof given encoding/binary: every conversion between d.(T) and LittleEndian.PutUintN / UintN and the boxed "
         "result is between integers of equal width N=8*Sizeof(T), buffer N/8 bytes, same N both ways => Decode(Encode(v))=v and the fixed-width "
         "little-endian layout for every value. All encoders: the four size reports are one normalised term (String16: 2+len and 2+256*b0+b1 with "
         "the header written as len>>8, len; no bits lost in narrow shifts). TypeEncoder: Encode/Decode only through binary.Write/Read with the "
         "receiver's Endian, constructors return a fresh encoder with the requested order, no in-memory (padded) size reaches its Size for a kind that "
         "can have padding; no codec panics explicitly on a value of its domain (String16: 0..65535 bytes). TypeEncoder field layout is encoding/binary's."),
   design="4/C15"),
 "C16": dict(
   technique="symbolic term equality between sibling accessors (Rank64 inlined) + CFG reachability for reject-before-effect + store-before-delegation and provenance of the packed element buffer",
   text=("Decided for every array state and index: each typed Get has the same presence test and the same byte-offset polynomial as the "
         "generic Base.GetBytes with eltsize=Sizeof(elt), decodes with LittleEndian.UintN of that width, returns (0,false) when absent; "
         "InitIndex/Init cannot reach their sentinel-error return after a receiver store or a use of the list other than the validation, every "
         "non-panicking path of Init carries the validation's success condition or returns the sentinel, every element is encoded in a unit-step loop "
         "over all elements and appended unconditionally (no goroutines), and "
         "constructors return nil with the error; wrappers store nothing into their receiver before delegating to the validating initialiser; Elts is only ever the appended output of the element encoder; every array type is exactly Base->Array32 and Base holds nothing but the wire message and the element encoder. Rank offsets' own correctness and the protobuf "
         "round trip are not decided."),
   design="4/C16"),
 "C18": dict(
   technique="symbolic identity at construction sites + field-mapping terms + per-version definite-reassignment dataflow",
   text=("Proves for every trie that each level record is built with leaf = total - inner (incl. the all-zero record), that Stat maps "
         "(total,inner,leaf)->(Total,Inner,Leaf) and takes NodeCnt/KeyCnt from the last record (0 keys when empty), that rank queries at the last "
         "bitmap position add the bit of that position, and that every receiver field Stat reads is replaced by every successful Unmarshal of every "
         "compatible version, and that the level walk locates nodes with the same layout polynomial as the query path. Does not decide KeyCnt = number of "
         "retained keys or monotonicity (runtime ranks)."),
   design="4/C18"),

 "C08": dict(
   technique="CFG/dominance + symbolic induction-variable terms (order check) and call-chain-bound narrowing analysis with guard implication + translation-class dataflow over key bit positions (closed set of rejection reasons)",
   text=("Decides that out-of-order input is always rejected: the construction function compares keys[a] with keys[a+1] as Go strings for "
         "a = 0..len-2 unconditionally, returns (nil, ErrKeyOutOfOrder-derived) exactly on >=, and the loop exit dominates every consumer of "
         "the keys; and that no accepted input stores a silently truncated quantity: every narrowing to 8/16 bits reachable from NewSlimTrie or "
         "the legacy rebuild is bounded locally, by operand widths through the call chain, or by an error guard on the same term that lies on "
         "every path on which the conversion can execute (option-polarity aware). The reasons for refusing input form a closed set: every error return under NewSlimTrie is the order violation, an error handed up, or is controlled by a comparison of a branch-free run length (difference of two key bit positions of one node) with a constant that rejects only runs the 16-bit step cannot hold (>= 2^18 bits); in-place rewrites of node sizes are confined to ordinals >= BigInnerCnt. "
         "Does not decide that accepted lists are indexed correctly (C01)."),
   design="4/C08"),
 "C12": dict(
   technique="guarded result summaries: every positive answer is the reader's own result; type agreement via go/types; bound analysis of offset narrowing",
   text=("Decided for every record set and query: SlimIndex.Get/RangeGet return (\"\",false) exactly on the trie's not-found branch and otherwise "
         "the unmodified result of DataReader.Read(offset.(T), key) with key the query and offset the trie's value for it; routing Get->Get, "
         "RangeGet->RangeGet; for every trie the constructor can build, T is the type its encoder's Decode boxes, the element type of the offsets "
         "handed to it and a type both lookups handle; no offset is narrowed without bound tests that fit the narrower type; every item's key and offset "
         "reach the trie (the item loop appends unconditionally). Necessary for "
         "exactness because the trie alone has false positives; the trie's own answers for indexed keys are C01/C02."),
   design="4/C12"),

 "C01": dict(
   technique="typestate of bitmap index kinds (writer/reader agreement over wire field paths) + symbolic sibling agreement + interval evaluation with wrap-around + CFG bounds on in-place rewrites + bit-provenance abstract interpretation of the short-node extraction",
   text=("Decides necessary conditions of no-false-negatives that hold for every key set: every rank/select site (library calls and the inlined "
         "idiom, receiver-relative sites bound at call sites) assumes exactly the index kind its wire bitmap is built with and pairs words with "
         "the index of the same bitmap; every copy of the node-layout computation yields the same normalised from/to/short-bitmap terms and "
         "guards, derived constants and the builder's (4,17)/(8,257) size pairs agree; the query-byte-to-label-index function has value ranges "
         "exactly {0}, [1,16], [1,256] per branch under wrap-around interval evaluation (all bytes 0x00-0xff addressable, no sign extension); presence "
         "bitmaps are sized by the last ordinal plus one in the same builder counters; the value-array width is decided per element; in-place "
         "rewrites of node sizes touch only ordinals >= BigInnerCnt; every Encoder's Encode returns memory of its own (the builder keeps all results); the index into the short-node table is, by bit-provenance "
         "evaluation over all (offset mod 64, ShortSize) cases, exactly the stored bits of the node, with no read beyond the node's last word; a rank query at a position T-1 uses the bit it returns. "
         "Does not decide that ranks select the right child."),
   design="4/C01"),
 "C10": dict(
   technique="CFG dominance/reachability guards (overrun, key index, empty trie incl. sentinel-correlated guards) + symbolic sibling agreement + typestate of conditionally assigned session fields + bit-provenance abstract interpretation of the short-node extraction",
   text=("Decides the guards the lookups' totality rests on and the by-construction part of consistency: step-mode cursor advances are checked "
         "against the key length on every path to the next label lookup; the only key byte read is dominated by cursor<keyBitLen and sessions "
         "are created with keyBitLen=8*len(key); lookups never dereference the node-type bitmap of an empty trie (nil tests or the callee's own "
         "empty-trie sentinel); the lookup node decoder agrees with its sibling copies incl. the guard of the straddled word; Get/GetI* share one "
         "GetID, RangeGet/Search one descent, both descents update the cursor with identical terms; session fields the node decoders assign only "
         "for some nodes (bm, innerPrefix, leafPrefix) are assigned exactly when their discriminator says valid and read only under it, so a "
         "reused session never leaks a previous node's value, and the bit length of a stored prefix reads its marker byte; both descents compare the leaf "
         "tail under the same section tests; no lookup, scan or build code ranges over key material by runes; the short-node extraction reads no word beyond the node for any offset and size (bit-provenance evaluation); a descent without step handling is reached only under a witness of stored inner prefixes; guarded accesses to local fixed-size arrays fit the array for the largest value their guards admit. No-panic in general needs data invariants "
         "and is not decided."),
   design="4/C10"),
 "C03": dict(
   technique="guarded result summaries of the loop-free tail after the descent loop + CFG reachability of found answers + option-normalisation effects + session-field typestate",
   text=("Decides structural necessary conditions of 'no false positives in Complete mode' for the exact-match descent (Get/GetID), for every trie "
         "and query: Complete forces both prefix kinds to be stored; every branch of the descent that depends on a comparison with the node's stored "
         "prefix tests a three-way result for (in)equality with 0 and has exactly one side from which no found answer is reachable (a mismatch cannot be "
         "ignored); after the descent a found answer is given only if no leaf tails are stored at all, or the key ended exactly at a leaf without a "
         "tail, or the stored tail compared equal with the rest of the key; stored prefix and tail are read only under their validity discriminators; every "
         "query byte value 0x00-0xff is addressable as a label; key material is never walked by runes; the value array layout is decided per element and nodes are decoded with the size they were built with; everything GetID reads from the instance is replaced by every successful load. "
         "It does NOT decide that the comparisons are right for every byte string, nor anything about RangeGet/Search, ordering or neighbour "
         "bookkeeping (rank values and key bytes at run time) — most of the property's behaviour is outside this claim."),
   design="4/C03"),
 "C09": dict(
   technique="guarded result summary of Search + symbolic sibling agreement of first/last-child terms + call-graph routing of the neighbour walks + CFG dominance of neighbour-candidate assignments",
   text=("Decides structural necessary conditions of exact neighbours, for every trie and query: Search returns, position by position, the leaf "
         "value of the left / equal / right id of the three-way descent exactly when that id is not -1 (nil otherwise), all three through the same "
         "leaf accessor; the bounds within which the descent accepts a left or right neighbour candidate are, as normalised terms, the very child ids "
         "the extreme-leaf walks follow (first child = rank(Inners, from)+1, last child = rank(Inners, to-1)+bit) — one definition of a node's first "
         "and last child; the left candidate is finished by the right-most walk and the right candidate by the left-most walk; a child id becomes a left (right) neighbour candidate only under a comparison with the node's first (last) child id. It does NOT decide "
         "which candidate is chosen at each level nor anything that depends on rank values and key bytes at run time — most of the property's "
         "behaviour is outside this claim."),
   design="4/C09"),
 "C19": dict(
   technique="provenance typing of []uint64 values (bitmap words vs label path lists) through returns/tuples + map-range/sort discipline + session-field typestate + rank-position terms (no rank at a node's exclusive end)",
   text=("Decides the clause whose violation made String() panic on tries with table-compressed nodes: no path list flows into a bitmap "
         "parameter, (bitmap,size) pairs carry the size the words were cut with on every return, each bmtree.Decode gets that size; labels are "
         "rendered from a sorted slice; String on an empty trie returns first; the label decoder reads conditionally assigned session fields only under "
         "their validity discriminator (the renderer decodes every node into one reused session); every field String() reads is replaced by every successful "
         "Unmarshal; no rank query is made at the exclusive end of a node's bit range (out of range for the last node of a bitmap ending on a word boundary); the value array layout is decided per element. The rest of the rendering (each node once, child ids, label string order) is not decided."),
   design="4/C19"),
}

NA = {
}

PENDING = "no claim yet: the static rule set for this property is still under construction in this session (design in DESIGN.md section 4); it is not decided by any registered check"

# Rules shared across properties (same decision procedure registered under the name of every property
# of which the decided fact is a necessary condition); appended to the claim text of each.
CODEC = (" (codec) The value codecs are decided as in C15 — size reports agree, I8..U64 are width-preserving bijections around LittleEndian "
         "Put/Get, String16's header is written and read as a big-endian 16-bit length, TypeEncoder goes only through encoding/binary with "
         "its configured order and type: returning the value that was supplied presupposes Decode(Encode(v)) = v.")
EXTRA = {
 "C01": CODEC + " The builder keeps no state from one construction to the next (build-stateless) and the options in force are the normalised ones (options).",
 "C02": CODEC,
 "C10": CODEC,
 "C14": CODEC + " (trim) 'including loaded tries': bitmap words assembled by hand under Unmarshal are not trimmed with an unguarded mask(n&63) (rule shared with C06).",
 "C18": " (empty-legacy) 'KeyCnt is preserved when an equivalent legacy stream is loaded': no branch of the legacy loader decides emptiness from the children array alone (rule shared with C06).",
 "C16": CODEC,
 "C12": (" (trie) SlimIndex.Get is SlimTrie.Get followed by the reader, so the lookup mechanisms decided for C01 (bigzone, bitslice, labelrange, "
         "rank-last-bit) and the acceptance/narrowing rules of C08 (no silent truncation of a step, construction refused only for disorder or "
         "an over-long run) are registered here as well."),
 "C13": (" (narrow) Only the modes without stored inner prefixes narrow the step to 16 bits: every narrowing conversion on the construction "
         "path is bounded (rule shared with C08), so no mode silently loses retained keys that another mode finds."),
}
ALIGN = (" (align) wherever the position at which the builder cuts labels (bmtree.PathsOf/PathOf) is aligned by a constant mask, the mask clears "
         "log2(w) low bits for every label word size w that can reach the same call with it (leaves paired per phi edge and helper return).")
CAPACITY = (" (capacity) presence bitmaps cover every ordinal their readers probe: capacity = last counter-derived ordinal + 1, or the bound of the loop whose indexes are listed (rule shared with C01).")
EXTRA["C01"] += ALIGN
EXTRA["C03"] = CODEC + ALIGN
EXTRA["C08"] = ALIGN
EXTRA["C12"] += CODEC + ALIGN
EXTRA["C13"] += CODEC
EXTRA["C09"] = CODEC
EXTRA["C04"] = CAPACITY
EXTRA["C10"] += CAPACITY
SIGNEXT = " (sign-extend) no quantity decoded from bytes is assembled in a signed type it can fill and then widened (a stored step never decodes as a negative number)."
EXTRA["C06"] = SIGNEXT
EXTRA["C10"] += SIGNEXT + " The array-bound rule also covers indexes that count the iterations of a loop no exit of which compares a counter with a bound."
EXTRA["C07"] = " (value-after-error) under Unmarshal no pointer or interface result of a (value, error) call is used on the edge where that error is non-nil."
EXTRA["C16"] += " (elt-type) every construction of the element encoder in package array starts from an element value, not from the static element type."
EXTRA["C17"] = " (fields) every protobuf field of the message types is in the analysed set; a field added to the serialized form leaves the obligation undecided. (options) DedupValue keeps its documented default."
EXTRA["C18"] += " (options) the option normalisation leaves DedupValue true whenever the caller did not set it (rule shared with C13)."
EXTRA["C19"] = CAPACITY
EXTRA["C02"] += CAPACITY
EXTRA["C03"] += CAPACITY
EXTRA["C09"] += CAPACITY
EXTRA["C01"] += " (narrow) every narrowing conversion on the construction path is bounded (rule shared with C08)."
EXTRA["C01"] += " (step-mode) a descent without step handling is reached only under a witness of stored inner prefixes (rule of C10, taken over)."
EXTRA["C02"] += " (descent) the neighbour rules of the three-way descent RangeGet shares with Search — one definition of first/last child, candidates inside the child range, left candidate finished by the right-most walk (rules of C09)."
EXTRA["C05"] = " (stat) Stat maps its report from the level table that NewSlimTrie and Unmarshal derive from the message alike (rules C18.mapping/identity, taken over)."
EXTRA["C14"] += " (load-routing) each compatible version is routed to the loader and fix-ups of its layout (rule C06.routing, taken over)."
EXTRA["C19"] += " (bitslice) the short-node table index is exactly the stored bits of the node (rule shared with C01/C10)."
EXTRA["C18"] += " (single-leaf) the rank query that yields the node total runs for every trie with at least one inner node; the constant total is for a single leaf only."
for _k, _v in EXTRA.items():
    CLAIMS[_k]["text"] = CLAIMS[_k]["text"] + _v

def main():
    props = [json.loads(l) for l in open(os.path.join(VERIF, "properties.jsonl"))]
    checks, na = [], []
    for p in props:
        pid = p["id"]
        if pid in CLAIMS:
            c = CLAIMS[pid]
            checks.append({
                "property_id": pid,
                "quick_cmd": f"bin/check {pid} quick",
                "thorough_cmd": f"bin/check {pid} thorough",
                "evidence_file": f"/verif/evidence/{pid}.json",
                "replay_cmd_template": f"bin/check {pid} --replay {{path}}",
                "engine": "slimlint",
                "level_claimed": {"category": "other", "text": c["text"], "design_ref": c["design"]},
                "level_note": TRUST,
                "technique": c["technique"],
            })
        elif pid in NA:
            na.append({"property_id": pid, "reason": NA[pid]})
        else:
            na.append({"property_id": pid, "reason": PENDING})
    m = {
        "version": 1,
        "setup_cmd": "bin/check --build",
        "hooks": {
            "guard": "verif",
            "enable": "none needed: the checks analyse source and never build /repo with hooks (no hook commits exist)",
            "baseline_off_cmd": "cd /repo && GOFLAGS=-mod=mod go test -vet=off -count=1 ./...",
            "source_commits": [],
            "add_only": True,
        },
        "engines": [{
            "name": "slimlint",
            "path": "/verif/slimlint",
            "serves_properties": sorted(CLAIMS),
            "kind_free_text": "purpose-built static analyser over go/packages + go/ssa: points-to/effects (E1), labelled information flow (E2), CFG gates (E3), version-table evaluation (E4), symbolic layout terms (E6), typestate of bitmap index kinds (E7) and more; see DESIGN.md section 3",
        }],
        "checks": checks,
        "not_applicable": na,
        "notes": ("Technique family: static analysis only. All claims are at level 'other': each decides named structural clauses "
                  "(necessary conditions or complete proofs of a clause) of its property from the current source of /repo, for all "
                  "inputs/schedules/cut points, and says what it does not decide. Genuine defects found: five, all repaired by "
                  "'fix:' commits in /repo and recorded in KNOWN_FINDINGS.txt."),
    }
    json.dump(m, open(os.path.join(VERIF, "MANIFEST.json"), "w"), indent=1)
    print("claimed:", sorted(CLAIMS), "n/a:", [x["property_id"] for x in na])

if __name__ == "__main__":
    main()
