// Package sharedcache is a positive control for rule C11.nowrite: three read
// methods that each write memory other goroutines can see. The checker must
// flag all three on every run.
package sharedcache

import "sync"

type session struct {
	key  string
	from int32
}

type inner struct {
	Bytes   []byte
	Prefix  []byte
	Convert bool
}

// T mimics a trie with a receiver-cached query session, a receiver-owned scan
// buffer and a lazily converted legacy prefix array.
type T struct {
	in      *inner
	cache   *session
	scanBuf []byte
}

// GetCached caches the per-query session in the receiver.
func (t *T) GetCached(key string) int32 {
	if t.cache == nil {
		t.cache = &session{}
	}
	qr := t.cache
	qr.key = key
	qr.from = int32(len(key))
	return qr.from + int32(len(t.in.Bytes))
}

// ScanShared reuses a buffer stored in the receiver.
func (t *T) ScanShared(fn func([]byte) bool) {
	t.scanBuf = append(t.scanBuf[:0], t.in.Bytes...)
	fn(t.scanBuf)
}

// GetLazy converts loaded data in place on the first query.
func (t *T) GetLazy(key string) byte {
	if !t.in.Convert {
		convert(t.in)
	}
	return t.in.Prefix[0]
}

func convert(in *inner) {
	copy(in.Prefix, in.Bytes)
	in.Convert = true
}

// GetPure is the negative control: it writes only call-local memory.
func (t *T) GetPure(key string) int32 {
	qr := &session{}
	qr.key = key
	qr.from = int32(len(key))
	buf := make([]byte, 0, 8)
	buf = append(buf, t.in.Bytes...)
	return qr.from + int32(len(buf))
}

var bufPool = sync.Pool{New: func() interface{} { return make([]byte, 0, 64) }}

// IterPoolEarly hands its key buffer back to the pool in the same call that
// returns it: the next iterator overwrites a key the caller still reads.
func (t *T) IterPoolEarly() func() []byte {
	buf := bufPool.Get().([]byte)[:0]
	i := 0
	return func() []byte {
		if i >= len(t.in.Bytes) {
			return nil
		}
		buf = append(buf[:0], t.in.Bytes[i])
		i++
		if i == len(t.in.Bytes) {
			bufPool.Put(buf)
		}
		return buf
	}
}

// IterPoolProper releases the buffer only when it reports exhaustion.
func (t *T) IterPoolProper() func() []byte {
	buf := bufPool.Get().([]byte)[:0]
	i := 0
	return func() []byte {
		if i >= len(t.in.Bytes) {
			if buf != nil {
				b := buf
				buf = nil
				bufPool.Put(b)
			}
			return nil
		}
		buf = append(buf[:0], t.in.Bytes[i])
		i++
		return buf
	}
}

// labelCache is a process-wide memo table initialised by the package
// initialiser (which no read API reaches): a read that fills it is a write to
// memory shared by all readers.
var labelCache = make(map[uint64][]string)

// GetGlobalMemo must be flagged: unsynchronised update of a package-level map.
func (t *T) GetGlobalMemo(key string) []string {
	k := uint64(len(key))
	v, ok := labelCache[k]
	if !ok {
		v = []string{key}
		labelCache[k] = v
	}
	return v
}

var smallTable = [4]int32{1, 2, 3, 4}

// GetGlobalRead must not be flagged: package-level data is only read.
func (t *T) GetGlobalRead(key string) int32 {
	if vs, ok := labelCache[uint64(len(key))]; ok {
		return int32(len(vs))
	}
	return smallTable[len(key)&3]
}
