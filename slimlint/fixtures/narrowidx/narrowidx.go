// Package narrowidx is a positive control for the offset-narrowing rule
// (C12.narrow): a builder that stores 64-bit offsets in 32-bit leaves.
package narrowidx

import "math"

// Build32Wrong narrows when every offset is below 2^32: offsets in
// [2^31, 2^32) wrap negative in the signed 32-bit leaf.
func Build32Wrong(offsets []int64) []int32 {
	fit := len(offsets) > 0
	for _, o := range offsets {
		if o < 0 || o > math.MaxUint32 {
			fit = false
		}
	}
	if !fit {
		return nil
	}
	out := make([]int32, 0, len(offsets))
	for _, o := range offsets {
		out = append(out, int32(o))
	}
	return out
}

// Build32Right is the negative control: the bound is the signed maximum.
func Build32Right(offsets []int64) []int32 {
	fit := len(offsets) > 0
	for _, o := range offsets {
		if o < 0 || o > math.MaxInt32 {
			fit = false
		}
	}
	if !fit {
		return nil
	}
	out := make([]int32, 0, len(offsets))
	for _, o := range offsets {
		out = append(out, int32(o))
	}
	return out
}

// Build32Unguarded narrows with no test at all.
func Build32Unguarded(offsets []int64) []int32 {
	out := make([]int32, 0, len(offsets))
	for _, o := range offsets {
		out = append(out, int32(o))
	}
	return out
}
