#!/bin/bash
# refactor_audit.sh [-j N] <dir-with-variants> : runs all claimed checks against behaviour-preserving
# patches (each in <dir>/<variant>/patch.diff) on scratch copies; any VIOLATION is a false alarm.
set -u
VERIF=$(cd "$(dirname "$0")/.." && pwd)
jobs=6
if [ "${1:-}" = "-j" ]; then jobs=$2; shift 2; fi
dir=$1
props=$(python3 -c "import json;print(' '.join(c['property_id'] for c in json.load(open('$VERIF/MANIFEST.json'))['checks']))")
one() {
  v=$1
  out=$(MUTLINES=400 "$VERIF/bin/mutcheck" "$dir/$v/patch.diff" $props 2>&1)
  alarms=$(echo "$out" | grep -c "^VIOLATION")
  echo "== $v alarms=$alarms"
  echo "$out" | grep "violated/\|undecided/\|ERROR\|SKIP" | cut -c1-330
}
export -f one; export VERIF dir props
ls "$dir" | while read v; do [ -f "$dir/$v/patch.diff" ] && echo "$v"; done | xargs -P "$jobs" -I{} bash -c 'one {}' 
