// Package masktrim is a positive control for the last-word trimming rule:
// clearing the bits above the n-th of a bitmap's last word with mask(n&63)
// clears the whole word when n is a multiple of 64.
package masktrim

var mask [65]uint64

func init() {
	for i := range mask {
		mask[i] = (uint64(1) << uint(i)) - 1
	}
}

// AllOnesWrong builds n consecutive one bits; the last word becomes 0 when n%64 == 0.
func AllOnesWrong(n int32) []uint64 {
	words := make([]uint64, (n+63)>>6)
	for i := range words {
		words[i] = ^uint64(0)
	}
	if len(words) > 0 {
		words[len(words)-1] &= (uint64(1) << uint(n&63)) - 1
	}
	return words
}

// AllOnesRight guards the trim.
func AllOnesRight(n int32) []uint64 {
	words := make([]uint64, (n+63)>>6)
	for i := range words {
		words[i] = ^uint64(0)
	}
	if n&63 != 0 {
		words[len(words)-1] &= (uint64(1) << uint(n&63)) - 1
	}
	return words
}

// StoreWrong writes the last word as mask(n&63): 0 when n%64 == 0, although the
// slice has (n+63)>>6 words and the last one is then completely used.
func StoreWrong(n int32) []uint64 {
	words := make([]uint64, (n+63)>>6)
	for i := range words {
		words[i] = ^uint64(0)
	}
	if len(words) > 0 {
		words[len(words)-1] = (uint64(1) << uint(n&63)) - 1
	}
	return words
}

// StoreRight writes the partial last word only when there is one.
func StoreRight(n int32) []uint64 {
	words := make([]uint64, (n+63)>>6)
	for i := range words {
		words[i] = ^uint64(0)
	}
	if n&63 != 0 {
		words[len(words)-1] = (uint64(1) << uint(n&63)) - 1
	}
	return words
}

// StoreSpare has one word more than full words: mask(0) = 0 is right for it.
func StoreSpare(n int32) []uint64 {
	words := make([]uint64, n>>6+1)
	for i := range words {
		words[i] = ^uint64(0)
	}
	words[len(words)-1] = (uint64(1) << uint(n&63)) - 1
	return words
}
