#!/bin/bash
# mkpatch.sh <name> <python-edit-script>: applies a python edit script to a scratch copy of /repo,
# checks that it builds and (optionally, RUNTESTS=regex) passes tests, writes mutants/<name>.patch
set -eu
name=$1; script=$2
d=$(mktemp -d /tmp/slimlint-mut-XXXXXX); trap 'rm -rf "$d"' EXIT
rsync -a --exclude .git /repo/ "$d"/
cd "$d"; git init -q .; git add -A >/dev/null; git commit -qm base >/dev/null
python3 "$script"
export GOFLAGS=-mod=mod GOPROXY=off GOSUMDB=off GOTOOLCHAIN=local
gofmt -l trie array encode index | head -3
go build ./... 
if [ -n "${RUNTESTS:-}" ]; then go test -vet=off -count=1 -run "$RUNTESTS" ./... 2>&1 | tail -5; fi
git add -N . >/dev/null 2>&1; git diff > /verif/mutants/$name.patch
echo "wrote $name ($(wc -l < /verif/mutants/$name.patch) lines)"
