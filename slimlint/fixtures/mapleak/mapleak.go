// Package mapleak is a positive control for rule C05.determinism.maprange:
// ways in which map iteration order leaks into a result. The checker must flag
// Unsorted, NoTieBreak and FirstMatch and accept Sorted on every run.
package mapleak

import "sort"

type elt struct {
	key uint64
	cnt int32
}

// Unsorted collects map entries and never sorts them.
func Unsorted(m map[uint64]int32) []elt {
	var out []elt
	for k, v := range m {
		out = append(out, elt{k, v})
	}
	return out
}

// NoTieBreak sorts by count only: entries with equal counts keep map order.
func NoTieBreak(m map[uint64]int32) []elt {
	out := make([]elt, 0, len(m))
	for k, v := range m {
		out = append(out, elt{k, v})
	}
	sort.Slice(out, func(i, j int) bool { return out[i].cnt > out[j].cnt })
	return out
}

// FirstMatch returns the first entry with a positive count.
func FirstMatch(m map[uint64]int32) uint64 {
	for k, v := range m {
		if v > 0 {
			return k
		}
	}
	return 0
}

// Sorted is the negative control: total order on (count, key).
func Sorted(m map[uint64]int32) []elt {
	out := make([]elt, 0, len(m))
	for k, v := range m {
		out = append(out, elt{k, v})
	}
	sort.Slice(out, func(i, j int) bool {
		if out[i].cnt == out[j].cnt {
			return out[i].key > out[j].key
		}
		return out[i].cnt > out[j].cnt
	})
	return out
}
