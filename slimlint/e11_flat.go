package main

// E11 — guarded result summaries (gated form of loop-free accessors).
//
// For a loop-free function the results are summarised as a finite set of
// (path condition, result terms) pairs: branch conditions are normalised E6
// terms, loop-free callees of the analysed set are expanded in place with
// their parameters bound, phis are resolved by the incoming edge and branches
// whose condition folds to a constant under the bindings are followed on one
// side only. This is the gated-single-assignment view of the function; rules
// stated on it are insensitive to extracting or inlining helpers, inverting
// branches or reordering independent statements. Functions with loops are not
// summarised (ok=false).

import (
	"fmt"
	"go/types"
	"sort"
	"strings"
	"sync"

	"golang.org/x/tools/go/ssa"
)

type fpath struct {
	pc      []string
	results []*term
	panics  bool
	effects []effect // stores to non-local memory, in program order (helpers expanded)
}

// effect is one store on a path: the normalised address path and value term
// (stores to locals included: a by-value parameter is a local).
type effect struct {
	path string
	val  *term
}

// finalEffects: the last value stored to each address path on the path.
func (fp fpath) finalEffects() map[string]string {
	m := map[string]string{}
	for _, e := range fp.effects {
		m[e.path] = e.val.String()
	}
	return m
}

func (fp fpath) pcKey() string {
	s := append([]string{}, fp.pc...)
	sort.Strings(s)
	return strings.Join(dedupStrings(s), " & ")
}

func (fp fpath) resKey() string {
	var s []string
	for _, r := range fp.results {
		s = append(s, r.String())
	}
	return strings.Join(s, " | ")
}

// canonCond renders a condition term with polarity in a canonical form:
// only ==, <, <= remain (operands swapped as needed); negation of == is "!==".
func canonCond(t *term, neg bool) string {
	for t.op == "lnot" && len(t.args) == 1 {
		t = t.args[0]
		neg = !neg
	}
	if t.op == "cmp" && len(t.args) == 2 {
		// one form of a single-bit test: (w >> k) & 1 against 0  ==  w & (1 << k) against 0
		x0, x1 := bitTestForm(t.args[0], t.args[1]), bitTestForm(t.args[1], t.args[0])
		a, b := x0.String(), x1.String()
		op := t.name
		if neg {
			switch op {
			case "==":
				op = "!="
			case "!=":
				op = "=="
			case "<":
				op = ">="
			case "<=":
				op = ">"
			case ">":
				op = "<="
			case ">=":
				op = "<"
			}
		}
		switch op {
		case ">":
			a, b, op = b, a, "<"
		case ">=":
			a, b, op = b, a, "<="
		}
		if op == "==" || op == "!=" {
			if a > b {
				a, b = b, a
			}
		}
		return "(" + a + " " + op + " " + b + ")"
	}
	if neg {
		return "!" + t.String()
	}
	return t.String()
}

// foldCond: 1 true, 0 false, -1 unknown.
func foldCond(t *term) int {
	switch t.op {
	case "sym":
		if t.name == "true" {
			return 1
		}
		if t.name == "false" {
			return 0
		}
	case "lnot":
		if len(t.args) == 1 {
			if v := foldCond(t.args[0]); v >= 0 {
				return 1 - v
			}
		}
	case "cmp":
		if len(t.args) == 2 {
			a, b := t.args[0], t.args[1]
			if isK(a) && isK(b) {
				var r bool
				switch t.name {
				case "==":
					r = a.c == b.c
				case "!=":
					r = a.c != b.c
				case "<":
					r = a.c < b.c
				case "<=":
					r = a.c <= b.c
				case ">":
					r = a.c > b.c
				case ">=":
					r = a.c >= b.c
				default:
					return -1
				}
				if r {
					return 1
				}
				return 0
			}
			if t.name == "==" || t.name == "!=" {
				// a reslice x[lo:hi] of positive constant length is not nil (it would have panicked otherwise)
				for _, pr := range [][2]*term{{a, b}, {b, a}} {
					n, sl := pr[0], pr[1]
					if n.op == "sym" && n.name == "nil" && sl.op == "slice" && len(sl.args) == 3 {
						lo, hi := sl.args[1], sl.args[2]
						if lo.op == "sym" && lo.name == "_" {
							lo = K(0)
						}
						if !(hi.op == "sym" && hi.name == "_") {
							if d := O("add", hi, mulTerms(K(-1), lo)); isK(d) && d.c > 0 {
								if t.name == "==" {
									return 0
								}
								return 1
							}
						}
					}
				}
			}
			if (t.name == "==" || t.name == "!=") && a.op == "sym" && b.op == "sym" {
				isConst := func(s string) bool {
					return s == "true" || s == "false" || s == "nil" || strings.HasPrefix(s, "const:")
				}
				if isConst(a.name) && isConst(b.name) {
					if (a.name == b.name) == (t.name == "==") {
						return 1
					}
					return 0
				}
			}
		}
	}
	return -1
}

type flattener struct {
	recSeq    int
	recFields map[string]*term
	scope     func(*ssa.Function) bool
	p         *Program
	maxPaths  int
	maxDepth  int
	out       []fpath
	fail      string
}

// flatten summarises f; bind gives terms for (some of) its parameters.
func flatten(p *Program, f *ssa.Function, bind map[ssa.Value]*term, scope func(*ssa.Function) bool) ([]fpath, string) {
	fl := &flattener{p: p, maxPaths: 64, maxDepth: 3, scope: scope}
	paths := fl.run(f, bind, 0)
	if fl.fail != "" {
		return nil, fl.fail
	}
	sort.Slice(paths, func(i, j int) bool { return paths[i].pcKey()+paths[i].resKey() < paths[j].pcKey()+paths[j].resKey() })
	return paths, ""
}

func hasLoop(f *ssa.Function) bool {
	for _, h := range f.Blocks {
		for _, pr := range h.Preds {
			if h.Dominates(pr) {
				return true
			}
		}
	}
	return false
}

func (fl *flattener) run(f *ssa.Function, bind map[ssa.Value]*term, depth int) []fpath {
	return fl.runFrom(f, nil, bind, depth)
}

// flattenFrom summarises the loop-free tail of f that starts at block start
// (for instance the code after a descent loop): values defined before start,
// phis of start included, are opaque symbols.
func flattenFrom(p *Program, f *ssa.Function, start *ssa.BasicBlock, bind map[ssa.Value]*term, scope func(*ssa.Function) bool) ([]fpath, string) {
	fl := &flattener{p: p, maxPaths: 64, maxDepth: 3, scope: scope}
	paths := fl.runFrom(f, start, bind, 0)
	if fl.fail != "" {
		return nil, fl.fail
	}
	sort.Slice(paths, func(i, j int) bool { return paths[i].pcKey()+paths[i].resKey() < paths[j].pcKey()+paths[j].resKey() })
	return paths, ""
}

func (fl *flattener) runFrom(f *ssa.Function, start *ssa.BasicBlock, bind map[ssa.Value]*term, depth int) []fpath {
	if start == nil {
		if hasLoop(f) {
			fl.fail = shortFn(f) + " has a loop"
			return nil
		}
	} else {
		region := reachableFrom(start, nil)
		for h := range region {
			for _, pr := range h.Preds {
				if region[pr] && h.Dominates(pr) {
					fl.fail = "the region after " + start.String() + " of " + shortFn(f) + " has a loop"
					return nil
				}
			}
		}
	}
	var out []fpath
	var walk func(b, pred *ssa.BasicBlock, env map[ssa.Value]*term, pc []string, eff []effect, start int)
	walk = func(b, pred *ssa.BasicBlock, env map[ssa.Value]*term, pc []string, eff []effect, start int) {
		if fl.fail != "" || len(out) > fl.maxPaths {
			if len(out) > fl.maxPaths {
				fl.fail = "too many paths in " + shortFn(f)
			}
			return
		}
		ev := func() *evaluator {
			e := newEval(fl.p)
			for k, v := range env {
				e.env[k] = v
			}
			// value records returned by expanded helpers: their fields read back (names are unique per
			// expanded helper path, so one table per summary is enough; callees expanded later see it too)
			e.recFields = fl.recFields
			return e
		}
		if start == 0 && pred != nil {
			// resolve phis by the incoming edge
			idx := -1
			for i, pp := range b.Preds {
				if pp == pred {
					idx = i
				}
			}
			e := ev()
			upd := map[ssa.Value]*term{}
			for _, in := range b.Instrs {
				if ph, ok := in.(*ssa.Phi); ok && idx >= 0 {
					upd[ph] = e.eval(ph.Edges[idx])
				}
			}
			if len(upd) > 0 {
				env = copyEnv(env)
				for k, v := range upd {
					env[k] = v
				}
			}
		}
		for i := start; i < len(b.Instrs); i++ {
			switch in := b.Instrs[i].(type) {
			case *ssa.Store:
				e := ev()
				ap := strings.TrimPrefix(e.path(in.Addr), "&")
				if !strings.HasPrefix(ap, "phi:") {
					eff = append(append([]effect{}, eff...), effect{ap, e.eval(in.Val)})
				}
			case *ssa.Call:
				g := calleeOf(in)
				// a single-block helper that stores through a pointer parameter ("qr.clearInnerPrefix()") has
				// effects the term inliner of E6 does not see: it is always expanded (no new paths arise)
				storesThroughParam := false
				if g != nil && inAnalysed(g) && len(g.Blocks) == 1 && depth < fl.maxDepth {
					for _, gi := range g.Blocks[0].Instrs {
						if st, ok := gi.(*ssa.Store); ok {
							if _, _, fa := fieldOfAddr(st.Addr); fa != nil {
								if _, isPrm := fa.X.(*ssa.Parameter); isPrm {
									storesThroughParam = true
								}
							}
						}
					}
				}
				// ... and so is a single-block constructor of a value record ("addrOf(i) bitAddr")
				if g != nil && inAnalysed(g) && len(g.Blocks) == 1 && depth < fl.maxDepth && g.Signature.Results().Len() == 1 {
					if _, isStruct := g.Signature.Results().At(0).Type().Underlying().(*types.Struct); isStruct {
						if named := namedOf(g.Signature.Results().At(0).Type()); named != nil && named.Obj().Pkg() != nil && strings.HasPrefix(named.Obj().Pkg().Path(), slimPath) {
							storesThroughParam = true
						}
					}
				}
				if !storesThroughParam {
					if g == nil || !inAnalysed(g) || len(g.Blocks) == 0 || depth >= fl.maxDepth || hasLoop(g) || len(g.Blocks) == 1 || (fl.scope != nil && !fl.scope(g)) {
						continue // evaluated as a term (single-block helpers are inlined by E6 itself)
					}
				}
				e := ev()
				gb := map[ssa.Value]*term{}
				for pi, prm := range g.Params {
					if pi < len(in.Call.Args) {
						a := in.Call.Args[pi]
						if _, isFn := a.Type().Underlying().(*types.Signature); isFn {
							gb[prm] = e.eval(a) // a function value keeps its structure (method values)
						} else if pointerLike(a.Type()) && !isStringType(a.Type()) {
							gb[prm] = S(strings.TrimPrefix(e.pathOrTerm(a), "&"))
						} else {
							gb[prm] = e.eval(a)
						}
					}
				}
				subs := fl.run(g, gb, depth+1)
				if fl.fail != "" {
					return
				}
				for _, sp := range subs {
					if sp.panics {
						out = append(out, fpath{pc: append(append([]string{}, pc...), sp.pc...), panics: true})
						continue
					}
					// a helper that returns a record by value (a composite literal of its own): the record gets
					// a name of its own in the caller, and its fields are what the helper stored
					if len(sp.results) == 1 && sp.results[0].op == "sym" && (strings.HasPrefix(sp.results[0].name, "local:") || strings.HasPrefix(sp.results[0].name, "zero:")) {
						if _, isStruct := in.Type().Underlying().(*types.Struct); isStruct {
							fl.recSeq++
							old, nw := sp.results[0].name, fmt.Sprintf("rec:%s#%d", g.Name(), fl.recSeq)
							ren := func(t *term) *term {
								return mapSyms(t, func(n string) string {
									if n == old || strings.HasPrefix(n, old+".") {
										return nw + strings.TrimPrefix(n, old)
									}
									return n
								})
							}
							var effs []effect
							for _, ef := range sp.effects {
								pth := ef.path
								if pth == old || strings.HasPrefix(pth, old+".") {
									pth = nw + strings.TrimPrefix(pth, old)
								}
								effs = append(effs, effect{pth, ren(ef.val)})
								if strings.HasPrefix(pth, nw+".") {
									if fl.recFields == nil {
										fl.recFields = map[string]*term{}
									}
									fl.recFields[pth] = ren(ef.val)
								}
							}
							// fields the literal does not mention are zero
							if st, ok := in.Type().Underlying().(*types.Struct); ok {
								for i := 0; i < st.NumFields(); i++ {
									k := nw + "." + st.Field(i).Name()
									if fl.recFields == nil {
										fl.recFields = map[string]*term{}
									}
									if _, has := fl.recFields[k]; !has {
										switch {
										case isBoolType(st.Field(i).Type()):
											fl.recFields[k] = S("false")
										case isIntType(st.Field(i).Type()):
											fl.recFields[k] = K(0)
										}
									}
								}
							}
							sp = fpath{pc: sp.pc, results: []*term{S(nw)}, effects: effs}
						}
					}
					eff2 := append(append([]effect{}, eff...), sp.effects...)
					env2 := copyEnv(env)
					if len(sp.results) == 1 {
						env2[in] = sp.results[0]
					}
					for _, ref := range *in.Referrers() {
						if ex, ok := ref.(*ssa.Extract); ok && ex.Index < len(sp.results) {
							env2[ex] = sp.results[ex.Index]
						}
					}
					walk(b, pred, env2, append(append([]string{}, pc...), sp.pc...), eff2, i+1)
				}
				return
			case *ssa.If:
				t := resolveDerivedFlag(fl.p, ev().eval(in.Cond))
				switch foldCond(t) {
				case 1:
					walk(b.Succs[0], b, env, pc, eff, 0)
				case 0:
					walk(b.Succs[1], b, env, pc, eff, 0)
				default:
					walk(b.Succs[0], b, env, append(append([]string{}, pc...), registerCond(t, false)), eff, 0)
					walk(b.Succs[1], b, env, append(append([]string{}, pc...), registerCond(t, true)), eff, 0)
				}
				return
			case *ssa.Jump:
				walk(b.Succs[0], b, env, pc, eff, 0)
				return
			case *ssa.Return:
				e := ev()
				var res []*term
				for _, r := range in.Results {
					res = append(res, e.eval(r))
				}
				out = append(out, fpath{pc: append([]string{}, pc...), results: res, effects: eff})
				return
			case *ssa.Panic:
				out = append(out, fpath{pc: append([]string{}, pc...), panics: true})
				return
			}
		}
	}
	env := map[ssa.Value]*term{}
	for k, v := range bind {
		env[k] = v
	}
	if start == nil {
		start = f.Blocks[0]
	}
	walk(start, nil, env, nil, nil, 0)
	return out
}

func copyEnv(env map[ssa.Value]*term) map[ssa.Value]*term {
	c := make(map[ssa.Value]*term, len(env)+4)
	for k, v := range env {
		c[k] = v
	}
	return c
}

func pathsString(ps []fpath) string {
	var s []string
	for _, p := range ps {
		if p.panics {
			s = append(s, "["+p.pcKey()+"] => panic")
		} else {
			s = append(s, "["+p.pcKey()+"] => "+abbreviate(p.resKey()))
		}
	}
	return strings.Join(s, " ;; ")
}

// Derived flags. The record of derived constants (the struct holding ShortMask, filled once by the
// initialiser under Unmarshal/NewSlimTrie) may cache a test of the loaded message in a bool field
// ("WithLeafPrefix: ns.LeafPrefixes != nil"). A branch on such a field is a branch on its defining
// term: the field has exactly one store in the package and the stored value is a comparison.
var (
	derivedFlagsOf = map[*Program]map[string]*term{}
	derivedFlagsMu sync.Mutex
)

func derivedFlags(p *Program) map[string]*term {
	derivedFlagsMu.Lock()
	defer derivedFlagsMu.Unlock()
	if m, ok := derivedFlagsOf[p]; ok {
		return m
	}
	m := map[string]*term{}
	count := map[string]int{}
	for _, f := range p.FuncsOf(triePath) {
		if f.Synthetic != "" {
			continue
		}
		e := newEval(p)
		instrsOf(f, func(_ *ssa.BasicBlock, in ssa.Instruction) {
			st, ok := in.(*ssa.Store)
			if !ok || !isBoolType(st.Val.Type()) {
				return
			}
			stt, fv, fa := fieldOfAddr(st.Addr)
			if fa == nil || stt == nil {
				return
			}
			hasMask := false
			for i := 0; i < stt.NumFields(); i++ {
				if stt.Field(i).Name() == "ShortMask" {
					hasMask = true
				}
			}
			// ... or of the query session, decided once when the session is created
			if !hasMask && !isSessionType(fa.X.Type()) {
				return
			}
			count[fv.Name()]++
			t := e.eval(st.Val)
			if t.op == "cmp" && (hasMask || strings.Contains(t.String(), "Slim.")) {
				m[fv.Name()] = t
			}
		})
	}
	for n, c := range count {
		if c != 1 {
			delete(m, n)
		}
	}
	derivedFlagsOf[p] = m
	return m
}

func resolveDerivedFlag(p *Program, t *term) *term {
	neg := false
	u := t
	for u.op == "lnot" && len(u.args) == 1 {
		u = u.args[0]
		neg = !neg
	}
	if u.op != "sym" {
		return t
	}
	i := strings.LastIndex(u.name, ".")
	if i < 0 {
		return t
	}
	def, ok := derivedFlags(p)[u.name[i+1:]]
	if !ok {
		return t
	}
	if neg {
		return ON("lnot", "", def)
	}
	return def
}

// bitTestForm: when other is the constant 0 and x is and(1, shr:u(w, k)), the equivalent and(w, pow2(k)).
func bitTestForm(x, other *term) *term {
	if !isK(other) || other.c != 0 {
		return x
	}
	if x.op == "and" && len(x.args) == 2 {
		for _, pr := range [][2]*term{{x.args[0], x.args[1]}, {x.args[1], x.args[0]}} {
			if isK(pr[0]) && pr[0].c == 1 && pr[1].op == "shr" && len(pr[1].args) == 2 {
				return O("and", pr[1].args[0], &term{op: "pow2", args: []*term{pr[1].args[1]}})
			}
		}
	}
	return x
}
