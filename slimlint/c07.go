package main

import (
	"fmt"
	"go/types"
	"sort"
	"strings"

	"github.com/blang/semver"
	"golang.org/x/tools/go/ssa"
)

// historical versions the property statements name as loadable
var historical = []string{"1.0.0", "0.5.8", "0.5.9", "0.5.10", "0.5.11"}

// family the statement of C06 assigns to a compatible version.
func familyOf(ver string) string {
	v, err := semver.Parse(ver)
	if err != nil {
		return "?"
	}
	v510 := semver.MustParse("0.5.10")
	v512 := semver.MustParse("0.5.12")
	switch {
	case ver == "1.0.0" || v.LT(v510):
		return "A" // three sections + rebuild
	case v.LT(v512):
		return "B" // one Slim section + two fix-ups
	default:
		return "C" // one Slim section, no fix-up
	}
}

// probeVersions: versions around the compatible set that must be rejected.
func probeVersions(compatVers []string, current string) []string {
	set := map[string]bool{}
	add := func(s string) { set[s] = true }
	for _, s := range []string{"0.5.7", "0.5.13", "0.6.0", "0.6.1", "1.0.1", "1.1.0", "2.0.0", "0.0.0", "0.4.9", "0.5.0", "0.5.4", "0.9.9",
		"garbage", "", "1.0", "v0.5.12", "0.5.12.1", "0.5.x", "0.05.12", "1234567890123456"} {
		add(s)
	}
	for _, cv := range append(append([]string{}, compatVers...), current) {
		v, err := semver.Parse(cv)
		if err != nil {
			continue
		}
		for _, pre := range []string{"-rc1", "-alpha", "-rc.1", "-0"} {
			add(cv + pre)
		}
		add(fmt.Sprintf("%d.%d.%d", v.Major, v.Minor, v.Patch+1))
		add(fmt.Sprintf("%d.%d.%d-rc1", v.Major, v.Minor, v.Patch+1))
		add(fmt.Sprintf("%d.%d.0", v.Major, v.Minor+1))
		add(fmt.Sprintf("%d.0.0", v.Major+1))
		add(fmt.Sprintf("%d.0.0-beta", v.Major+1))
	}
	for i := 0; i <= 40; i++ {
		add(fmt.Sprintf("0.5.%d", i))
	}
	var out []string
	for s := range set {
		out = append(out, s)
	}
	sort.Strings(out)
	return out
}

type versTable struct {
	ve        *versEngine
	compatVer []string // versions named by the compatible list
	current   string
	paths     map[string][]vpath
	problems  []string
}

func buildVersTable(p *Program) *versTable {
	vt := &versTable{ve: newVersEngine(p), paths: map[string][]vpath{}}
	ve := vt.ve
	if ve.un == nil {
		vt.problems = append(vt.problems, "(*trie.SlimTrie).Unmarshal not found")
		return vt
	}
	if ve.noGate {
		// no compatibility gate at all: go on with the versions the property names plus the current one,
		// so that the probe rules can show which incompatible versions are accepted (C07.compat reports
		// the missing gate itself)
		vt.compatVer = append([]string{}, historical...)
		cur, ok := constStringOfFunc(p.Method(p.Trie, "Slim", "GetVersion"))
		if ok {
			vt.current = cur
			vt.compatVer = append(vt.compatVer, cur)
			for _, v := range vt.compatVer {
				ve.compat = append(ve.compat, "=="+v)
			}
		}
		return vt
	}
	if !ve.compatOK {
		vt.problems = append(vt.problems, "the compatible-version list handed to vers.IsCompatible under Unmarshal is not one constant []string (literal, or the single literal a function returns)")
		return vt
	}
	for _, s := range ve.compat {
		v, _ := specVersion(s)
		vt.compatVer = append(vt.compatVer, v)
	}
	cur, ok := constStringOfFunc(p.Method(p.Trie, "Slim", "GetVersion"))
	if !ok {
		vt.problems = append(vt.problems, "(*trie.Slim).GetVersion does not return a constant")
	}
	vt.current = cur
	return vt
}

func (vt *versTable) pathsOf(ver string) []vpath {
	if ps, ok := vt.paths[ver]; ok {
		return ps
	}
	ps, trunc := vt.ve.explore(ver)
	if trunc {
		vt.problems = append(vt.problems, "path enumeration truncated for version "+ver)
	}
	vt.paths[ver] = ps
	return ps
}

func isFixupInnerBytes(e vevent) bool {
	return e.kind == "fixup" && strings.Contains(e.detail, "Slim.InnerPrefixes.Bytes[]")
}

func isFixupLeaves(e vevent) bool {
	return e.kind == "fixup" && strings.Contains(e.detail, "Slim.Leaves.PresenceBM") && strings.Contains(e.detail, "Slim.Leaves.FixedSize")
}

func successPaths(ps []vpath) []vpath {
	var out []vpath
	for _, p := range ps {
		if p.ret == "nil" {
			out = append(out, p)
		}
	}
	return out
}

func eventIndex(p vpath, pred func(vevent) bool) int {
	for i, e := range p.events {
		if pred(e) {
			return i
		}
	}
	return -1
}

func lastEventIndex(p vpath, pred func(vevent) bool) int {
	idx := -1
	for i, e := range p.events {
		if pred(e) {
			idx = i
		}
	}
	return idx
}

func vtProblems(vt *versTable, r *Report) bool {
	if len(vt.problems) > 0 {
		for _, pr := range vt.problems {
			r.Unk("version table", "", pr)
		}
		return true
	}
	return false
}

// ---------------------------------------------------------------------------

func checkC06(p *Program, r *Report) {
	r.Explanation = "Decided: the dispatch. For every version constant in the loader's compatible list, Unmarshal's CFG specialised to that version (version predicates folded on constants with blang/semver) has success paths, and every success path performs exactly the loader family the property statement assigns: 1.0.0/<0.5.10: sections Array32, U16, Array read in this order, rebuild by the builder, store of the rebuilt message, init; 0.5.10-0.5.11: one Slim section, then the in-place rewrite of InnerPrefixes.Bytes and the reconstruction of Leaves.PresenceBM/FixedSize/N (functions identified by the wire fields they write), then init; >=0.5.12: one Slim section, no fix-up, init. The legacy children arrays are read with Rank64 over (Bitmaps, Offsets) of the same array."
	r.NotCovered = "Correctness of the conversions themselves (BFS renumbering, step re-basing, control-byte rewriting) on arbitrary old streams."
	r.Trusted = []string{"go/ssa", "blang/semver v3.5.1 evaluated on constants (the library vers delegates to)"}
	vt := buildVersTable(p)
	r.Rule("C06.routing", "E4+E3", "each compatible version is routed to the loader family of its layout", 3*len(historical))
	if vtProblems(vt, r) {
		return
	}
	r.Func(shortFn(vt.ve.un))
	for _, h := range historical {
		found := false
		for _, cv := range vt.compatVer {
			if cv == h {
				found = true
			}
		}
		if !found {
			r.Bad("historical version "+h+" is loadable", p.Pos(vt.ve.un.Pos()), "the compatible list "+fmt.Sprint(vt.ve.compat)+" no longer names "+h)
		}
	}
	for _, ver := range vt.compatVer {
		fam := familyOf(ver)
		ps := vt.pathsOf(ver)
		succ := successPaths(ps)
		cons := func(what string) string { return fmt.Sprintf("version %s (family %s): %s", ver, fam, what) }
		if len(succ) == 0 {
			r.Bad(cons("loader"), p.Pos(vt.ve.un.Pos()), "no success path exists for this compatible version")
			r.Bad(cons("fix-ups"), p.Pos(vt.ve.un.Pos()), "no success path")
			r.Bad(cons("init"), p.Pos(vt.ve.un.Pos()), "no success path")
			continue
		}
		var loaderBad, fixBad, initBad []string
		for _, sp := range succ {
			var parses []string
			for _, e := range sp.events {
				if e.kind == "parse" {
					parses = append(parses, e.detail)
				}
			}
			ps := strings.Join(parses, ",")
			nInner := 0
			nLeaf := 0
			for _, e := range sp.events {
				switch {
				case isFixupInnerBytes(e):
					nInner++
				case isFixupLeaves(e):
					nLeaf++
				case e.kind == "fixup":
					// any other in-place rewrite of the loaded message changes what the stream encodes
					fixBad = append(fixBad, "unexpected in-place rewrite of loaded data ("+e.detail+") at "+p.Pos(e.pos)+": only the prefix re-encoding and the leaf array reconstruction of the 0.5.10 layout are part of the format")
				}
			}
			hasBuild := sp.has("build", "")
			iInit := lastEventIndex(sp, func(e vevent) bool { return e.kind == "init" })
			iLastInner := lastEventIndex(sp, func(e vevent) bool {
				return (e.kind == "store" && strings.Contains(e.detail, "inner")) || e.kind == "reset" || e.kind == "fixup" || (e.kind == "parse" && strings.HasSuffix(e.detail, "trie.Slim"))
			})
			switch fam {
			case "A":
				if ps != "*array.Array32,*array.U16,*array.Array" {
					loaderBad = append(loaderBad, "sections read: ["+ps+"], want [*array.Array32,*array.U16,*array.Array]")
				}
				iBuild := eventIndex(sp, func(e vevent) bool { return e.kind == "build" })
				iStore := lastEventIndex(sp, func(e vevent) bool { return e.kind == "store" && strings.Contains(e.detail, "inner") })
				if !hasBuild || iStore < iBuild {
					loaderBad = append(loaderBad, "the rebuilt message is not stored into the trie after the rebuild")
				}
				if nInner+nLeaf > 0 {
					fixBad = append(fixBad, "0.5.10-style fix-ups are applied to a rebuilt legacy trie")
				}
			case "B":
				if ps != "*trie.Slim" {
					loaderBad = append(loaderBad, "sections read: ["+ps+"], want [*trie.Slim]")
				}
				if nInner != 1 || nLeaf != 1 {
					fixBad = append(fixBad, fmt.Sprintf("fix-ups applied: prefix re-encoding x%d, leaf array reconstruction x%d, want one each", nInner, nLeaf))
				}
				if hasBuild {
					loaderBad = append(loaderBad, "legacy rebuild on a 0.5.10 layout")
				}
			case "C":
				if ps != "*trie.Slim" {
					loaderBad = append(loaderBad, "sections read: ["+ps+"], want [*trie.Slim]")
				}
				if nInner+nLeaf > 0 {
					fixBad = append(fixBad, "fix-ups applied to a current-format stream")
				}
				if hasBuild {
					loaderBad = append(loaderBad, "legacy rebuild on a current-format stream")
				}
			}
			if iInit < 0 {
				initBad = append(initBad, "derived fields are not initialised on a success path")
			} else if iLastInner > iInit {
				initBad = append(initBad, "the message is written after the derived fields were computed ("+sp.events[iLastInner].String()+" at "+p.Pos(sp.events[iLastInner].pos)+")")
			}
		}
		pos := p.Pos(vt.ve.un.Pos())
		r.Check(len(loaderBad) == 0, cons("loader"), pos, fmt.Sprintf("%d success path(s): %s", len(succ), succ[0].String()), strings.Join(dedupStrings(sortStr(loaderBad)), "; "))
		r.Check(len(fixBad) == 0, cons("fix-ups"), pos, "fix-ups as assigned", strings.Join(dedupStrings(sortStr(fixBad)), "; "))
		r.Check(len(initBad) == 0, cons("init"), pos, "derived fields computed after the last write into the message", strings.Join(dedupStrings(sortStr(initBad)), "; "))
	}
	for _, pr := range vt.ve.undecided {
		r.Unk("version predicate", "", pr)
	}
	if vtProblems(vt, r) {
		return
	}

	// C06.kind: legacy children array read with Rank64 over the same array's (Bitmaps, Offsets)
	r.Rule("C06.kind", "E7", "legacy arrays are read with Rank64 over (Bitmaps, Offsets) of one array", 1)
	reach := trieReach(vt.ve.un)
	n := 0
	for f := range reach {
		if !trieScope(f) {
			continue
		}
		for _, c := range callsIn(f) {
			if !calleeIs(c, "github.com/openacid/low/bitmap.Rank64") || len(c.Common().Args) < 2 {
				continue
			}
			a0, a1 := wirePathOf(c.Common().Args[0]), wirePathOf(c.Common().Args[1])
			if !strings.HasPrefix(a0, "Array32") {
				continue
			}
			n++
			r.Check(a0 == "Array32.Bitmaps" && a1 == "Array32.Offsets" && sameBase(c.Common().Args[0], c.Common().Args[1]),
				"Rank64 on legacy array in "+shortFn(f), p.Pos(c.Pos()), "words="+a0+" index="+a1+" of the same array", "words="+a0+" index="+a1+": not the bitmap and rank index of one array")
		}
	}
	if n == 0 {
		r.Unk("Rank64 on legacy array", "", "no rank query on a legacy array found under Unmarshal")
	}
	// C06.trim: a conversion that assembles bitmap words by hand must not trim the last word with
	// mask(n&63) unguarded (wrong exactly at multiples of 64, which no sample stream has)
	var under []*ssa.Function
	for f := range trieReach(vt.ve.un) {
		under = append(under, f)
	}
	sort.Slice(under, func(i, j int) bool { return under[i].String() < under[j].String() })
	checkMaskTrim(p, r, "C06.trim", under)
	checkArrayBound(p, r, "C06.array-bound")
	checkLegacyEmptiness(p, r, "C06.empty-legacy", under)
	var conv []*ssa.Function
	for _, f := range under {
		if trieScope(f) {
			conv = append(conv, f)
		}
	}
	checkLostCarry(p, r, "C06.carry", conv)
	r.Explanation += " (sign-extend) no quantity decoded from bytes is assembled in a signed type it can fill and then widened (the stored step of the old layouts is 16 bits: a step of 32768 words and more must not come out negative)."
	checkSignExtend(p, r, "C06.sign-extend")
}

// underUnmarshal: the functions reachable from (*SlimTrie).Unmarshal, sorted.
func underUnmarshal(p *Program) []*ssa.Function {
	un := p.Method(p.Trie, "SlimTrie", "Unmarshal")
	if un == nil {
		return nil
	}
	var under []*ssa.Function
	for f := range trieReach(un) {
		under = append(under, f)
	}
	sort.Slice(under, func(i, j int) bool { return under[i].String() < under[j].String() })
	return under
}

// checkLegacyEmptiness (C06.empty-legacy): in the pre-0.5.10 layout a trie
// with a single key has NO children entry (its root is a leaf) and one leaf
// entry. A branch of the legacy loader that decides "nothing to rebuild" from
// the children array alone (its Cnt, or the length of one of its slices,
// compared with 0) loses that trie; emptiness needs the leaves array too.
func checkLegacyEmptiness(p *Program, r *Report, rule string, fns []*ssa.Function) {
	r.Rule(rule, "SSA", "the legacy loader never takes an empty children array for an empty trie", 0)
	isArr := func(v ssa.Value, name string) bool { return isNamed(v.Type(), arrayPath, name) }
	// an emptiness test of an array: (x.Cnt | len(x.F)) cmp 0 where x is a value of the given array type
	emptinessOf := func(cond ssa.Value, typ string) bool {
		bo, ok := cond.(*ssa.BinOp)
		if !ok {
			return false
		}
		for _, pr := range [][2]ssa.Value{{bo.X, bo.Y}, {bo.Y, bo.X}} {
			if k, ok := constInt(pr[1]); !ok || k != 0 {
				continue
			}
			v := pr[0]
			if c, ok := v.(*ssa.Call); ok {
				if bi, ok := c.Call.Value.(*ssa.Builtin); ok && bi.Name() == "len" && len(c.Call.Args) == 1 {
					v = c.Call.Args[0]
				}
			}
			if cv, ok := v.(*ssa.Convert); ok {
				v = cv.X
			}
			ld, ok := v.(*ssa.UnOp)
			if !ok {
				continue
			}
			// x.F or x.Embedded.F
			// the outermost object of the field path decides (Array embeds Base embeds Array32)
			a := ld.X
			var root ssa.Value
			for d := 0; d < 4; d++ {
				fa, ok := a.(*ssa.FieldAddr)
				if !ok {
					break
				}
				root = fa.X
				a = fa.X
			}
			if root != nil && isArr(root, typ) {
				return true
			}
		}
		return false
	}
	n := 0
	for _, f := range fns {
		if f.Synthetic != "" || len(f.Blocks) == 0 {
			continue
		}
		var childTests []*ssa.If
		leavesBlocks := map[*ssa.BasicBlock]bool{} // blocks that compute an emptiness test of the leaves array
		for _, b := range f.Blocks {
			if iff, ok := lastInstr(b).(*ssa.If); ok && emptinessOf(iff.Cond, "Array32") {
				childTests = append(childTests, iff)
			}
			for _, in := range b.Instrs {
				if bo, ok := in.(*ssa.BinOp); ok && emptinessOf(bo, "Array") {
					leavesBlocks[b] = true
				}
			}
		}
		for i, iff := range childTests {
			n++
			r.Func(shortFn(f))
			// the companion test is part of the same && / || expression: computed in a direct
			// successor of this branch, or this branch is a direct successor of it
			b := iff.Block()
			paired := leavesBlocks[b]
			for _, s := range b.Succs {
				if leavesBlocks[s] {
					paired = true
				}
			}
			for _, pr := range b.Preds {
				if leavesBlocks[pr] {
					paired = true
				}
			}
			r.Check(paired, fmt.Sprintf("emptiness test #%d of the legacy children array in %s", i+1, shortFn(f)), p.Pos(iff.Cond.Pos()), "combined with the same test of the leaves array",
				"the loader branches on the children array being empty without looking at the leaves array: a legacy single-key trie has no children entry but one leaf, and is loaded as empty (or its root is never visited)")
		}
	}
	if n == 0 {
		r.Note(rule + ": the legacy loader has no branch on the emptiness of the children array")
	}
}

func init() {
	controlFns["C06"] = func(fx *Program, r *Report) {
		controlMaskTrim(fx, r, "C06.trim")
		controlLostCarry(fx, r, "C06.carry")
		controlArrayBound(fx, r, "C06.array-bound")
		controlSignExtend(fx, r, "C06.sign-extend")
	}
}

func sortStr(s []string) []string { sort.Strings(s); return s }

// sameBase: two field loads go through the same base pointer value.
func sameBase(a, b ssa.Value) bool {
	ba, bb := baseOfLoad(a), baseOfLoad(b)
	return ba != nil && ba == bb
}

func baseOfLoad(v ssa.Value) ssa.Value {
	x, ok := deref(v)
	if !ok {
		return nil
	}
	for {
		_, fv, fa := fieldOfAddr(x)
		if fa == nil {
			return nil
		}
		if fv.Embedded() {
			x = fa.X
			continue
		}
		// strip embedded address chains below
		base := fa.X
		for {
			_, fv2, fa2 := fieldOfAddr(base)
			if fa2 != nil && fv2.Embedded() {
				base = fa2.X
				continue
			}
			break
		}
		return base
	}
}

// ---------------------------------------------------------------------------

func checkC07(p *Program, r *Report) {
	r.Explanation = "Decided for ALL version strings and ALL cut points: (gate) the version tested is the one read from the header of the argument buffer, and for every version outside the compatible set the specialised Unmarshal has no success path, returns an error derived from ErrIncompatible and performs no section parse, fix-up, rebuild or init; (compat) every spec of the compatible list is an exact equality on a plain version not above the current one, the list contains the historical versions, and a probe set (pre-releases, successors, malformed strings) is rejected when evaluated with blang/semver; (errors) after every stream read (header and each section) no success return and no further load step is reachable except through the err==nil edge of a nil test of that read's error — so a strict prefix, which fails one exact-size read, is always rejected; (cleared) a fresh zero message is stored into the trie before the header is read on every path and every error path leaves it untouched afterwards, except for the parse that failed."
	r.NotCovered = "Panics inside protobuf decoding of a corrupted (not truncated) body; pbcmpl's own error propagation is pinned dependency code (read once: both io.ReadFull errors, the nested header error, the header-size mismatch and the protobuf error propagate)."
	r.Trusted = []string{"go/ssa", "blang/semver v3.5.1 on constants", "openacid/low/pbcmpl reads header and body with exact-size io.ReadFull"}
	vt := buildVersTable(p)
	ve := vt.ve
	r.Rule("C07.compat", "E4", "the compatible set is a finite list of exact versions <= current", 6)
	if vtProblems(vt, r) {
		return
	}
	un := ve.un
	r.Func(shortFn(un))
	if ve.noGate {
		r.Bad("compatibility gate", p.Pos(un.Pos()), "nothing under Unmarshal calls vers.IsCompatible on the header's version: which versions load is left to the layout dispatch, whose conditions are wider than the set of released layouts (and vers.Check does not reject unparsable strings)")
	}
	curV, curErr := semver.Parse(vt.current)
	for i, spec := range ve.compat {
		v, exact := specVersion(spec)
		pv, err := semver.Parse(v)
		ok := exact && err == nil && len(pv.Pre) == 0 && (curErr != nil || pv.LTE(curV) || v == "1.0.0")
		r.Check(ok, fmt.Sprintf("compatible spec %q", spec), p.Pos(un.Pos()), "exact equality on a released version not above the current "+vt.current,
			fmt.Sprintf("spec #%d %q is not an exact equality on a plain released version <= %s: it may admit versions the loader cannot interpret (pre-releases sort below their release)", i, spec, vt.current))
	}
	for _, h := range append(append([]string{}, historical...), vt.current) {
		in, _ := semverCheck(h, ve.compat)
		r.Check(in, "version "+h+" is compatible", p.Pos(un.Pos()), "admitted by the list", "the compatible list "+fmt.Sprint(ve.compat)+" does not admit "+h)
	}
	probes := probeVersions(vt.compatVer, vt.current)
	member := map[string]bool{}
	for _, v := range vt.compatVer {
		member[v] = true
	}
	var admitted []string
	nProbe := 0
	for _, pv := range probes {
		if member[pv] {
			continue
		}
		nProbe++
		if in, _ := semverCheck(pv, ve.compat); in {
			admitted = append(admitted, pv)
		}
	}
	r.Check(len(admitted) == 0, "probe versions outside the list are rejected", p.Pos(un.Pos()), fmt.Sprintf("%d probe versions (pre-releases, successors, malformed) evaluated with blang/semver: none admitted", nProbe),
		"the compatible list admits "+strings.Join(admitted, ", "))

	// ---- gate
	r.Rule("C07.gate", "E4+E3", "incompatible versions are rejected before anything is parsed", 3)
	// version source
	srcOK := ""
	if len(un.Params) > 1 {
		if ok, pos := versionSourceOK(un, un.Params[1]); ok {
			srcOK = p.Pos(pos)
		}
		// or in a helper that is handed the argument buffer
		for _, c := range callsIn(un) {
			g := calleeOf(c)
			if g == nil || !trieScope(g) || len(g.Blocks) == 0 {
				continue
			}
			for ai, a := range c.Common().Args {
				if a == ssa.Value(un.Params[1]) && ai < len(g.Params) {
					if ok, pos := versionSourceOK(g, g.Params[ai]); ok {
						srcOK = p.Pos(pos)
					}
				}
			}
		}
	}
	r.Check(srcOK != "", "version under test comes from the header of the argument buffer", p.Pos(un.Pos()), "GetVersion() of pbcmpl.ReadHeader(bytes.NewReader(buf)) at "+srcOK,
		"cannot establish that the version tested is read from the header of Unmarshal's argument")
	var bad []string
	nRejected := 0
	rejectProbes := append([]string{}, probes...)
	for _, pv := range rejectProbes {
		if in, _ := semverCheck(pv, ve.compat); in {
			continue // reported under C07.compat
		}
		nRejected++
		for _, path := range vt.pathsOf(pv) {
			switch {
			case path.ret == "nil":
				bad = append(bad, fmt.Sprintf("version %q: a success path exists: %s", pv, path.String()))
			case path.ret == "panic":
			default:
				// error paths: nothing but resets before the header read and the header read itself may have happened
				iHdr := eventIndex(path, func(e vevent) bool { return e.kind == "header" })
				for i, e := range path.events {
					if i < iHdr {
						continue
					}
					switch e.kind {
					case "parse", "fixup", "build", "init":
						bad = append(bad, fmt.Sprintf("version %q: %s at %s happens before the rejection", pv, e.String(), p.Pos(e.pos)))
					case "store":
						bad = append(bad, fmt.Sprintf("version %q: store to st.%s at %s before the rejection", pv, e.detail, p.Pos(e.pos)))
					}
				}
				if path.has("ok", "header") && path.ret != "err:incompatible" {
					bad = append(bad, fmt.Sprintf("version %q: rejected with an error that is not derived from ErrIncompatible (return at %s)", pv, p.Pos(path.retPos)))
				}
			}
		}
	}
	bad = dedupStrings(sortStr(bad))
	r.Check(len(bad) == 0, "incompatible versions: no success path, nothing parsed, ErrIncompatible", p.Pos(un.Pos()),
		fmt.Sprintf("%d incompatible probe versions: only reject paths", nRejected), strings.Join(firstN(bad, 6), "; "))
	// unfoldable predicates
	for _, pr := range dedupStrings(sortStr(ve.undecided)) {
		r.Unk("version predicate", "", pr)
	}
	// compatible versions all have a success path (the gate does not reject them)
	var noSucc []string
	for _, cv := range vt.compatVer {
		if len(successPaths(vt.pathsOf(cv))) == 0 {
			noSucc = append(noSucc, cv)
		}
	}
	r.Check(len(noSucc) == 0, "compatible versions pass the gate", p.Pos(un.Pos()), "every listed version has a success path", "no success path for "+strings.Join(noSucc, ", "))

	// ---- errors
	r.Rule("C07.errors", "E3", "after a failed stream read nothing but an error return is reachable", 3)
	reach := trieReach(un)
	nReads := 0
	var fs []*ssa.Function
	for f := range reach {
		if trieScope(f) {
			fs = append(fs, f)
		}
	}
	sort.Slice(fs, func(i, j int) bool { return fs[i].String() < fs[j].String() })
	// read-like: the stream reads, and helpers of package trie that perform one and return an error
	readLike := map[*ssa.Function]bool{}
	for ch := true; ch; {
		ch = false
		for _, f := range fs {
			if readLike[f] || f == un {
				continue
			}
			rs := f.Signature.Results()
			if rs.Len() == 0 || !isErrorType(rs.At(rs.Len()-1).Type()) {
				continue
			}
			for _, c := range callsIn(f) {
				if calleeIs(c, idReadHeader, idPbUnmarsh) || readLike[calleeOf(c)] {
					readLike[f] = true
					ch = true
				}
			}
		}
	}
	for _, f := range fs {
		for _, c := range callsIn(f) {
			call, ok := c.(*ssa.Call)
			if !ok || !(calleeIs(call, idReadHeader, idPbUnmarsh) || readLike[calleeOf(call)]) {
				continue
			}
			nReads++
			name := "header read"
			if calleeIs(call, idPbUnmarsh) {
				t, _ := msgTypeOfParse(call)
				name = "section read into " + t
			} else if readLike[calleeOf(call)] {
				name = "read helper " + shortFn(calleeOf(call))
			}
			construct := fmt.Sprintf("%s #%d in %s: error propagates", name, nReads, shortFn(f))
			why := errorDiscipline(p, f, call)
			r.Check(why == "", construct, p.Pos(call.Pos()), "every continuation passes the err==nil edge of a nil test of this read's error", why)
		}
	}
	if nReads == 0 {
		r.Unk("stream reads", p.Pos(un.Pos()), "no pbcmpl.ReadHeader / pbcmpl.Unmarshal call found under Unmarshal")
	}
	// only the stream layer may decode a body: a direct protobuf decode has no exact-size check,
	// so a stream cut at a field boundary would be accepted as a partial index
	var direct []string
	for _, f := range fs {
		for _, c := range callsIn(f) {
			if g := calleeOf(c); g != nil {
				id := funcID(g)
				if strings.HasPrefix(id, "github.com/golang/protobuf/proto.Unmarshal") || strings.HasPrefix(id, "(*github.com/golang/protobuf/proto.Buffer).Unmarshal") ||
					strings.HasPrefix(id, "github.com/golang/protobuf/proto.UnmarshalMerge") || strings.HasPrefix(id, "(*github.com/golang/protobuf/proto.Buffer).DecodeMessage") {
					direct = append(direct, p.Pos(c.Pos())+" ("+shortFn(f)+")")
				}
			}
		}
	}
	sort.Strings(direct)
	r.Check(len(direct) == 0, "bodies are decoded only through the length-checked stream layer", p.Pos(un.Pos()), "no direct protobuf decode under Unmarshal; every body goes through pbcmpl.Unmarshal (exact-size read)",
		"a body is decoded directly at "+strings.Join(direct, ", ")+" without the exact-size read of the stream layer: a stream cut at a protobuf field boundary loads as a partial index")
	// the pinned stream layer itself: exact-size reads whose errors propagate
	checkPbcmpl(p, r)

	// ---- cleared
	r.Rule("C07.cleared", "E4/E5", "the instance is cleared first and error paths leave it cleared", 2)
	var clrBad, errBad []string
	all := append(append([]string{}, vt.compatVer...), "0.5.13", "garbage")
	for _, v := range all {
		for _, path := range vt.pathsOf(v) {
			if path.ret == "panic" {
				continue
			}
			iReset := eventIndex(path, func(e vevent) bool { return e.kind == "reset" && e.detail == "inner" })
			iHeader := eventIndex(path, func(e vevent) bool { return e.kind == "header" })
			if iReset < 0 || (iHeader >= 0 && iHeader < iReset) {
				clrBad = append(clrBad, fmt.Sprintf("version %q: a fresh message is not stored into the trie before the header is read (%s)", v, path.String()))
			}
			if strings.HasPrefix(path.ret, "err") {
				for i, e := range path.events {
					if i <= iReset {
						continue
					}
					switch {
					case e.kind == "store" && strings.Contains(e.detail, "inner"):
						errBad = append(errBad, fmt.Sprintf("version %q: st.inner is stored at %s on a path that ends in an error", v, p.Pos(e.pos)))
					case e.kind == "ok" && strings.HasSuffix(e.detail, "trie.Slim"):
						errBad = append(errBad, fmt.Sprintf("version %q: a section was successfully parsed into the trie at %s on a path that ends in an error (half-loaded)", v, p.Pos(e.pos)))
					case e.kind == "fixup":
						errBad = append(errBad, fmt.Sprintf("version %q: fix-up at %s on a path that ends in an error", v, p.Pos(e.pos)))
					}
				}
			}
		}
	}
	// derived state: when the record of derived constants caches facts about the loaded message that
	// lookups branch on (bool flags with one defining comparison, see E11), a rejected load that replaces
	// st.inner must replace that record too — otherwise the flags describe the previous content
	if flags := derivedFlags(p); len(flags) > 0 {
		holder := ""
		if st := p.NamedType(p.Trie, "SlimTrie"); st != nil {
			if sst, ok := st.Underlying().(*types.Struct); ok {
				for i := 0; i < sst.NumFields(); i++ {
					ft := sst.Field(i).Type()
					if pt, ok := ft.Underlying().(*types.Pointer); ok {
						ft = pt.Elem()
					}
					if rs, ok := ft.Underlying().(*types.Struct); ok {
						for j := 0; j < rs.NumFields(); j++ {
							if rs.Field(j).Name() == "ShortMask" {
								holder = sst.Field(i).Name()
							}
						}
					}
				}
			}
		}
		// only flags that cache the emptiness test itself: every other flag is read behind the
		// emptiness test of the message (C10.empty), which a cleared trie fails first
		var names []string
		for n, def := range flags {
			if strings.Contains(def.String(), "NodeTypeBM") {
				names = append(names, n)
			}
		}
		sort.Strings(names)
		var stale []string
		if holder != "" && len(names) > 0 {
			for _, v := range all {
				for _, path := range vt.pathsOf(v) {
					if !strings.HasPrefix(path.ret, "err") {
						continue
					}
					iReset := eventIndex(path, func(e vevent) bool { return e.kind == "reset" && e.detail == "inner" })
					if iReset < 0 {
						continue
					}
					refreshed := false
					for i, e := range path.events {
						if i > iReset && (e.kind == "store" || e.kind == "init" || e.kind == "reset") && strings.Contains(e.detail, holder) {
							refreshed = true
						}
					}
					if !refreshed {
						stale = append(stale, fmt.Sprintf("version %q: %s", v, path.String()))
					}
				}
			}
		}
		stale = dedupStrings(sortStr(stale))
		if len(names) > 0 {
			r.Check(holder != "" && len(stale) == 0, "error paths leave the cached emptiness flag consistent with the cleared trie", p.Pos(un.Pos()),
				"st."+holder+" (flags "+strings.Join(names, ",")+") is replaced on every rejected load",
				"a rejected load replaces st.inner but leaves st."+holder+", which caches "+strings.Join(names, ",")+" for the lookups, describing the previous content: "+strings.Join(firstN(stale, 2), "; "))
		}
	}
	clrBad = dedupStrings(sortStr(clrBad))
	errBad = dedupStrings(sortStr(errBad))
	r.Check(len(clrBad) == 0, "Unmarshal stores a fresh message before reading", p.Pos(un.Pos()), "on every path of every probed version", strings.Join(firstN(clrBad, 4), "; "))
	r.Check(len(errBad) == 0, "error paths leave the trie cleared", p.Pos(un.Pos()), "no store/parse/fix-up into the trie precedes an error return", strings.Join(firstN(errBad, 4), "; "))
	if vtProblems(vt, r) {
		return
	}
	r.Explanation += " (value-after-error) under Unmarshal no pointer or interface result of a (value, error) call is used on the edge where that error is non-nil."
	checkValueAfterError(p, r, "C07.value-after-error")
}

// errorDiscipline checks one read call: cut the err==nil edges of nil tests on
// its error; then from the call no success return, no later stream read and no
// load step may be reachable. Returns "" if fine, else the reason.
func errorDiscipline(p *Program, f *ssa.Function, call *ssa.Call) string {
	var errVal ssa.Value
	for _, ref := range *call.Referrers() {
		if ex, ok := ref.(*ssa.Extract); ok && isErrorType(ex.Type()) {
			errVal = ex
		}
	}
	if errVal == nil && isErrorType(call.Type()) && len(*call.Referrers()) > 0 {
		errVal = call
	}
	if errVal == nil {
		return "the error result is discarded"
	}
	// a helper's error returned unchanged by the caller ("return helper(...)") propagates by construction
	if errVal == ssa.Value(call) {
		all := true
		for _, ref := range *call.Referrers() {
			if _, ok := ref.(*ssa.Return); !ok {
				all = false
			}
		}
		if all {
			return ""
		}
	}
	// values that are the error (through phis)
	isErr := func(v ssa.Value) bool { return v == errVal }
	type edge struct{ from, to *ssa.BasicBlock }
	cut := map[edge]bool{}
	tested := false
	for _, b := range f.Blocks {
		iff, ok := lastInstr(b).(*ssa.If)
		if !ok {
			continue
		}
		x, nilSucc, ok := nilTest(iff.Cond)
		if ok && isErr(x) {
			cut[edge{b, b.Succs[nilSucc]}] = true
			tested = true
		}
	}
	if !tested {
		return "the error result is never compared with nil"
	}
	// walk from the call
	bad := ""
	seen := map[*ssa.BasicBlock]bool{}
	var scan func(b *ssa.BasicBlock, start int)
	scan = func(b *ssa.BasicBlock, start int) {
		if bad != "" {
			return
		}
		for _, in := range b.Instrs[start:] {
			switch x := in.(type) {
			case *ssa.Return:
				// success return?
				if len(x.Results) == 0 {
					bad = "a return without error at " + p.Pos(x.Pos()) + " is reachable although this read may have failed"
					return
				}
				last := x.Results[len(x.Results)-1]
				if isErrorType(last.Type()) && isNilConst(last) {
					bad = "a success return at " + p.Pos(x.Pos()) + " is reachable although this read may have failed"
					return
				}
			case *ssa.Call:
				if x == call {
					continue
				}
				if calleeIs(x, idReadHeader, idPbUnmarsh) {
					bad = "the next stream read at " + p.Pos(x.Pos()) + " is reachable although this read may have failed"
					return
				}
				if g := calleeOf(x); g != nil && trieScope(g) {
					ve := &versEngine{}
					if ve.containsRead(g, map[*ssa.Function]bool{}) {
						bad = "the next stream read (in " + shortFn(g) + ") at " + p.Pos(x.Pos()) + " is reachable although this read may have failed"
						return
					}
				}
				if g := calleeOf(x); g != nil && takesTrie(g) {
					bad = "load step " + shortFn(g) + " at " + p.Pos(x.Pos()) + " is reachable although this read may have failed"
					return
				}
			case *ssa.Store:
				if _, fv, fa := fieldOfAddr(x.Addr); fa != nil && isNamed(fa.X.Type(), triePath, "SlimTrie") {
					bad = "store to st." + fv.Name() + " at " + p.Pos(x.Pos()) + " is reachable although this read may have failed"
					return
				}
			}
		}
		for _, s := range b.Succs {
			if cut[edge{b, s}] || seen[s] {
				continue
			}
			seen[s] = true
			scan(s, 0)
		}
	}
	scan(call.Block(), instrIndex(call)+1)
	return bad
}

// checkPbcmpl: in openacid/low/pbcmpl (pinned dependency, analysed from its
// source in the module cache) ReadHeader and Unmarshal read exact sizes with
// io.ReadFull and no success return is reachable after a failed read.
func checkPbcmpl(p *Program, r *Report) {
	var rh, um *ssa.Function
	for _, f := range p.FuncsOf(lowPath + "/pbcmpl") {
		switch funcID(f) {
		case idReadHeader:
			rh = f
		case idPbUnmarsh:
			um = f
		}
	}
	if rh == nil || um == nil {
		r.Unk("openacid/low/pbcmpl stream layer", "", "ReadHeader/Unmarshal bodies not loaded")
		return
	}
	n := 0
	for _, f := range []*ssa.Function{rh, um} {
		r.Func(shortFn(f))
		for _, c := range callsIn(f) {
			call, ok := c.(*ssa.Call)
			if !ok {
				continue
			}
			isRead := calleeIs(call, "io.ReadFull") || calleeIs(call, idReadHeader)
			if !isRead {
				continue
			}
			n++
			name := "io.ReadFull"
			if calleeIs(call, idReadHeader) {
				name = "ReadHeader"
			}
			why := errorDisciplineGeneric(p, f, call)
			r.Check(why == "", fmt.Sprintf("pbcmpl: %s #%d in %s: error propagates", name, n, shortFn(f)), p.Pos(call.Pos()), "no success return after a failed read", why)
			if calleeIs(call, "io.ReadFull") {
				// exact-size: the buffer is a make([]byte, size) whose size comes from the header / the fixed header size
				_, isMake := call.Call.Args[1].(*ssa.MakeSlice)
				r.Check(isMake, fmt.Sprintf("pbcmpl: read #%d in %s is exact-size", n, shortFn(f)), p.Pos(call.Pos()), "io.ReadFull into a freshly made buffer of the announced size", "the read is not an exact-size io.ReadFull into a fresh buffer")
			}
		}
	}
	if n < 3 {
		r.Unk("openacid/low/pbcmpl stream layer", "", fmt.Sprintf("only %d reads found, expected the header read, the nested header read and the body read", n))
	}
}

// errorDisciplineGeneric: like errorDiscipline, for functions whose success
// return has a nil error as last result.
func errorDisciplineGeneric(p *Program, f *ssa.Function, call *ssa.Call) string {
	var errVal ssa.Value
	for _, ref := range *call.Referrers() {
		if ex, ok := ref.(*ssa.Extract); ok && isErrorType(ex.Type()) {
			errVal = ex
		}
	}
	if errVal == nil {
		return "the error result is discarded"
	}
	type edge struct{ from, to *ssa.BasicBlock }
	cut := map[edge]bool{}
	tested := false
	for _, b := range f.Blocks {
		if iff, ok := lastInstr(b).(*ssa.If); ok {
			if x, nilSucc, ok := nilTest(iff.Cond); ok && x == errVal {
				cut[edge{b, b.Succs[nilSucc]}] = true
				tested = true
			}
		}
	}
	if !tested {
		return "the error result is never compared with nil"
	}
	bad := ""
	seen := map[*ssa.BasicBlock]bool{}
	var scan func(b *ssa.BasicBlock, start int)
	scan = func(b *ssa.BasicBlock, start int) {
		if bad != "" {
			return
		}
		for _, in := range b.Instrs[start:] {
			if ret, ok := in.(*ssa.Return); ok && len(ret.Results) > 0 {
				last := ret.Results[len(ret.Results)-1]
				if isErrorType(last.Type()) && isNilConst(last) {
					bad = "a success return at " + p.Pos(ret.Pos()) + " is reachable although this read may have failed"
				}
			}
		}
		for _, s := range b.Succs {
			if cut[edge{b, s}] || seen[s] {
				continue
			}
			seen[s] = true
			scan(s, 0)
		}
	}
	scan(call.Block(), instrIndex(call)+1)
	return bad
}

func init() {
	checks["C06"] = checkC06
	checks["C07"] = checkC07
}
