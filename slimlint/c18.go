package main

import (
	"fmt"
	"go/token"
	"go/types"
	"sort"
	"strings"

	"golang.org/x/tools/go/ssa"
)

const (
	idRank64  = "github.com/openacid/low/bitmap.Rank64"
	idRank128 = "github.com/openacid/low/bitmap.Rank128"
	idSelect  = "github.com/openacid/low/bitmap.Select32R64"
)

func checkC18(p *Program, r *Report) {
	r.Explanation = "Decided for every trie: (identity) at every construction site of a level record the leaf count is, as a normalised term, total - inner (or all three are the constant 0), so every entry satisfies total = inner + leaf, including the (0,0) report of the empty trie; (mapping) Stat copies (total, inner, leaf) of each record to (Total, Inner, Leaf) in this order, NodeCnt/KeyCnt are total/leaf of the last record and KeyCnt is 0 when the node-type bitmap is absent; (inclusive) every rank query made at the last position of a bitmap (64*len(words)-1) uses both the rank and the bit of that position, so the last one bit is counted; (siblings) the level walk locates the first child with the same inner-node offset polynomial as the query path (shared with C01.layout)."
	r.NotCovered = "That KeyCnt equals the number of retained keys and that level totals are monotone (values of rank queries at run time)."
	r.Trusted = []string{"go/ssa", "openacid/low/bitmap.Rank64/Rank128 inlined symbolically"}
	li := levelRecordType(p)
	r.Rule("C18.identity", "E6", "every level record is built with leaf = total - inner", 1)
	if li == nil {
		r.Unk("level record type", "", "Stat reads no slice of records from the trie (anchor not found)")
		return
	}
	type site struct {
		f      *ssa.Function
		base   ssa.Value
		vals   map[string]ssa.Value
		pos    token.Pos
		fields int
	}
	var sites []*site
	for _, f := range p.FuncsOf(triePath) {
		byBase := map[ssa.Value]*site{}
		instrsOf(f, func(_ *ssa.BasicBlock, in ssa.Instruction) {
			st, ok := in.(*ssa.Store)
			if !ok {
				return
			}
			_, fv, fa := fieldOfAddr(st.Addr)
			if fa == nil || namedOf(fa.X.Type()) != li {
				return
			}
			s := byBase[fa.X]
			if s == nil {
				s = &site{f: f, base: fa.X, vals: map[string]ssa.Value{}, pos: st.Pos()}
				byBase[fa.X] = s
				sites = append(sites, s)
			}
			s.vals[fv.Name()] = st.Val
		})
	}
	sort.Slice(sites, func(i, j int) bool { return sites[i].pos < sites[j].pos })
	for i, s := range sites {
		r.Func(shortFn(s.f))
		e := newEval(p)
		construct := fmt.Sprintf("level record #%d built in %s", i+1, shortFn(s.f))
		tv, iv, lv := s.vals["total"], s.vals["inner"], s.vals["leaf"]
		if tv == nil || iv == nil || lv == nil {
			// a composite literal with omitted (zero) fields
			zero := func(v ssa.Value) *term {
				if v == nil {
					return K(0)
				}
				return e.eval(v)
			}
			t, in, l := zero(tv), zero(iv), zero(lv)
			ok := O("add", t, mulTerms(K(-1), in)).String() == l.String()
			r.Check(ok, construct, p.Pos(s.pos), "leaf = total - inner (omitted fields are zero)", fmt.Sprintf("total=%s inner=%s leaf=%s", abbreviate(t.String()), abbreviate(in.String()), abbreviate(l.String())))
			continue
		}
		t, in, l := e.eval(tv), e.eval(iv), e.eval(lv)
		want := O("add", t, mulTerms(K(-1), in))
		r.Check(want.String() == l.String(), construct, p.Pos(s.pos), "leaf is the term total - inner", fmt.Sprintf("leaf = %s is not total - inner = %s", abbreviate(l.String()), abbreviate(want.String())))
	}

	// ---- Stat mapping
	r.Rule("C18.mapping", "E6", "Stat copies the level table faithfully", 3)
	stat := p.Method(p.Trie, "SlimTrie", "Stat")
	if stat == nil {
		r.Unk("(*trie.SlimTrie).Stat", "", "anchor not found")
	} else {
		r.Func(shortFn(stat))
		got := map[string][]string{}
		// the report may be assembled in Stat itself or in a helper it calls
		var sfs []*ssa.Function
		for f := range trieReach(stat) {
			if trieScope(f) {
				sfs = append(sfs, f)
			}
		}
		sort.Slice(sfs, func(i, j int) bool { return sfs[i].String() < sfs[j].String() })
		for _, sf := range sfs {
			e := newEval(p)
			instrsOf(sf, func(_ *ssa.BasicBlock, in ssa.Instruction) {
				if st, ok := in.(*ssa.Store); ok {
					if _, fv, fa := fieldOfAddr(st.Addr); fa != nil {
						switch fv.Name() {
						case "Total", "Inner", "Leaf", "NodeCnt", "KeyCnt":
							got[fv.Name()] = append(got[fv.Name()], e.eval(st.Val).String())
						}
					}
				}
			})
		}
		okLevels := true
		for f, src := range map[string]string{"Total": ".total", "Inner": ".inner", "Leaf": ".leaf"} {
			if len(got[f]) != 1 || !strings.HasSuffix(got[f][0], src) {
				okLevels = false
			}
		}
		r.Check(okLevels, "Stat level entries", p.Pos(stat.Pos()), "Total<-total, Inner<-inner, Leaf<-leaf of the same record", fmt.Sprintf("Total<-%v Inner<-%v Leaf<-%v", got["Total"], got["Inner"], got["Leaf"]))
		last := "st.levels[add(-1,len(st.levels))]"
		okNode := len(got["NodeCnt"]) == 1 && got["NodeCnt"][0] == last+".total"
		r.Check(okNode, "Stat NodeCnt", p.Pos(stat.Pos()), "total of the last record", fmt.Sprintf("NodeCnt<-%v, want %s.total", got["NodeCnt"], last))
		// KeyCnt is the last record's leaf count; an explicit 0 for the empty trie is optional
		// (the report is zero-initialised and the empty level table is all zero)
		okKey := false
		for _, v := range got["KeyCnt"] {
			if v == last+".leaf" {
				okKey = true
			}
		}
		for _, v := range got["KeyCnt"] {
			if v != last+".leaf" && v != "0" {
				okKey = false
			}
		}
		r.Check(okKey, "Stat KeyCnt", p.Pos(stat.Pos()), "leaf of the last record, 0 for the empty trie", fmt.Sprintf("KeyCnt<-%v, want 0 and %s.leaf", got["KeyCnt"], last))
	}

	// ---- freshness: every receiver field Stat reads is replaced by every successful load
	checkFreshFor(p, r, "C18.fresh", stat, "Stat", 2)

	// ---- the level walk locates nodes with the same layout polynomial as the query path (shared with C01.layout)
	checkLayoutSiblings(p, r, "C18.level-locator")

	// ---- inclusive rank at the last position
	r.Rule("C18.inclusive", "E6", "rank at the last bitmap position counts the last bit", 1)
	n := 0
	for _, f := range p.FuncsOf(triePath) {
		for _, c := range callsIn(f) {
			call, ok := c.(*ssa.Call)
			if !ok || len(call.Call.Args) < 3 {
				continue
			}
			weight := 1
			if !calleeIs(call, idRank64, idRank128) {
				// a counting helper that is handed the rank function: every call site passes a library rank
				prm, isPrm := call.Call.Value.(*ssa.Parameter)
				if !isPrm || call.Call.IsInvoke() {
					continue
				}
				idx := -1
				for i, q := range f.Params {
					if q == prm {
						idx = i
					}
				}
				sites, okAll := 0, idx >= 0
				for _, g := range p.FuncsOf(triePath) {
					for _, cc := range callsIn(g) {
						if calleeOf(cc) != f {
							continue
						}
						sites++
						args := cc.Common().Args
						fn, isFn := args[idx].(*ssa.Function)
						if idx >= len(args) || !isFn || !(funcID(fn) == idRank64 || funcID(fn) == idRank128) {
							okAll = false
						}
					}
				}
				if !okAll || sites == 0 {
					continue
				}
				weight = sites
			}
			e := newEval(p)
			pos := e.eval(call.Call.Args[2]).String()
			words := e.pathOrTerm(call.Call.Args[0])
			last := O("add", K(-1), mulTerms(K(64), ON("len", "", S(words))))
			want1 := ON("conv", "int32", last).String()
			want2 := last.String()
			if pos != want1 && pos != want2 {
				continue
			}
			n += weight
			r.Func(shortFn(f))
			var e0, e1 *ssa.Extract
			for _, ref := range *call.Referrers() {
				if ex, ok := ref.(*ssa.Extract); ok {
					if ex.Index == 0 {
						e0 = ex
					} else if ex.Index == 1 {
						e1 = ex
					}
				}
			}
			construct := fmt.Sprintf("total count of ones of %s in %s", words, shortFn(f))
			if e0 == nil || e1 == nil {
				r.Bad(construct, p.Pos(call.Pos()), "the rank query at the last position discards its bit result: a one in the last bit is not counted")
				continue
			}
			// the two must be summed
			summed := false
			var reach func(v ssa.Value, target ssa.Value, d int) bool
			reach = func(v ssa.Value, target ssa.Value, d int) bool {
				if v == target {
					return true
				}
				if d > 3 {
					return false
				}
				switch x := v.(type) {
				case *ssa.BinOp:
					if x.Op == token.ADD {
						return reach(x.X, target, d+1) || reach(x.Y, target, d+1)
					}
				case *ssa.Phi:
					for _, ed := range x.Edges {
						if reach(ed, target, d+1) {
							return true
						}
					}
				}
				return false
			}
			instrsOf(f, func(_ *ssa.BasicBlock, in ssa.Instruction) {
				if b, ok := in.(*ssa.BinOp); ok && b.Op == token.ADD {
					if (reach(b.X, e0, 0) && reach(b.Y, e1, 0)) || (reach(b.X, e1, 0) && reach(b.Y, e0, 0)) {
						summed = true
					}
				}
			})
			r.Check(summed, construct, p.Pos(call.Pos()), "rank + bit of the last position", "rank and bit of the last position are not added")
		}
	}
	if n == 0 {
		r.Unk("rank at the last position", "", "no rank query at 64*len(words)-1 found (the level walk no longer counts this way)")
	} else if n < 2 {
		// two totals are needed: inner nodes (node-type bitmap) and all nodes (label bitmap); a total read
		// off the index array instead depends on how the stream's index was built (closing entry or not)
		r.Unk("both totals are counted by a rank query at the last position", "", fmt.Sprintf("only %d of the two totals (inner nodes, all nodes) is obtained by a rank query at 64*len(words)-1 plus its bit", n))
	}
	// "KeyCnt is preserved when an equivalent legacy stream is loaded": a legacy single-key trie has no
	// children entry; a loader that takes an empty children array for an empty trie reports 0 keys
	r.Explanation += " (empty-legacy) no branch of the legacy loader decides emptiness from the children array alone (a legacy single-key trie has no children entry and one leaf)."
	checkLegacyEmptiness(p, r, "C18.empty-legacy", underUnmarshal(p))
	// KeyCnt is the number of retained keys, and which keys are retained depends on the de-duplication
	// option in force: the documented default (on) must survive the option normalisation
	r.Explanation += " (options) the option normalisation leaves DedupValue true whenever the caller did not set it, and forces the prefix kinds exactly when Complete is true (rule shared with C13)."
	checkOptNormalisationAs(p, r, "C18.options")
	checkSingleLeafGuard(p, r)
}

func init() { checks["C18"] = checkC18 }

// levelRecordType: the element type of the slice of records Stat reads from
// the trie (today []levelInfo in SlimTrie.levels), identified by use.
func levelRecordType(p *Program) *types.Named {
	stat := p.Method(p.Trie, "SlimTrie", "Stat")
	if stat == nil {
		return p.NamedType(p.Trie, "levelInfo")
	}
	var out *types.Named
	for f := range trieReach(stat) {
		if !trieScope(f) {
			continue
		}
		instrsOf(f, func(_ *ssa.BasicBlock, in ssa.Instruction) {
			ld, ok := in.(*ssa.UnOp)
			if !ok || ld.Op != token.MUL {
				return
			}
			_, _, fa := fieldOfAddr(ld.X)
			if fa == nil || !isNamed(fa.X.Type(), triePath, "SlimTrie") {
				return
			}
			sl, ok := ld.Type().Underlying().(*types.Slice)
			if !ok {
				return
			}
			if n, ok := sl.Elem().(*types.Named); ok && n.Obj().Pkg() != nil && n.Obj().Pkg().Path() == triePath {
				if _, isStruct := n.Underlying().(*types.Struct); isStruct {
					out = n
				}
			}
		})
	}
	if out == nil {
		return p.NamedType(p.Trie, "levelInfo")
	}
	return out
}

// checkFreshFor: every field of the trie that the given reader (and what it
// calls inside package trie) reads, and that anybody stores, is replaced by
// every successful Unmarshal of every compatible version before it can be
// observed (E5 on the version-specialised CFG) — a memo or derived table that
// survives a load makes the reader describe the previous contents.
func checkFreshFor(p *Program, r *Report, rule string, reader *ssa.Function, what string, floor int) {
	r.Rule(rule, "E5 on E4", "the state "+what+" reads is replaced by Unmarshal for every compatible version", floor)
	if reader == nil {
		return
	}
	vt := buildVersTable(p)
	if vtProblems(vt, r) {
		return
	}
	reads := map[string]bool{}
	for f := range trieReach(reader) {
		instrsOf(f, func(_ *ssa.BasicBlock, in ssa.Instruction) {
			if fa, ok := in.(*ssa.FieldAddr); ok && isNamed(fa.X.Type(), triePath, "SlimTrie") {
				_, fv, _ := fieldOfAddr(fa)
				// a pure store target is not a read
				onlyStores := true
				for _, ref := range *fa.Referrers() {
					if st, ok := ref.(*ssa.Store); !ok || st.Addr != fa {
						onlyStores = false
					}
				}
				if !onlyStores {
					reads[fv.Name()] = true
				}
			}
		})
	}
	un := vt.ve.un
	stored := map[string]bool{}
	for k := range vt.ve.effects(un).stStores {
		stored[k] = true
	}
	if reset := p.Method(p.Trie, "SlimTrie", "Reset"); reset != nil {
		for k := range vt.ve.effects(reset).stStores {
			stored[k] = true
		}
	}
	for k := range vt.ve.effects(reader).stStores {
		stored[k] = true
	}
	if stN := p.NamedType(p.Trie, "SlimTrie"); stN != nil {
		for k := range computedStateFields(p, stN) {
			stored[k] = true
		}
	}
	var fields []string
	for f := range reads {
		if stored[f] {
			fields = append(fields, f)
		}
	}
	sort.Strings(fields)
	for _, f := range fields {
		var bad []string
		for _, ver := range vt.compatVer {
			re := newResEngine(vt.ve, ver)
			fr := &vframe{fn: un, verVals: map[ssa.Value]bool{}, stVals: map[ssa.Value]bool{un.Params[0]: true}}
			markVersionValues(un, fr.verVals)
			sum := re.summarize(fr, true, fields)
			if !sum.must[f] || len(sum.early[f]) > 0 {
				bad = append(bad, ver)
			}
		}
		r.Check(len(bad) == 0, what+" reads st."+f+": replaced by every successful Unmarshal", p.Pos(reader.Pos()), fmt.Sprintf("for all %d compatible versions", len(vt.compatVer)),
			"st."+f+" is read by "+what+" but a successful Unmarshal of version(s) "+strings.Join(bad, ",")+" does not replace it: "+what+" can report the previous contents")
	}
}

// checkSingleLeafGuard (C18.single-leaf): the node total is read off the label bitmaps (rank of
// Slim.Inners at its last position) — except for a trie without any inner node, whose single leaf is
// reported as the constant total. Where that rank query is guarded by a comparison of the inner-node
// total (a rank of Slim.NodeTypeBM at its last position) with a constant, the guard must admit every
// trie with at least one inner node: the constant fallback is for "no inner node" only. A guard that
// starts at two reports a trie whose keys all part at the root as one node and no key.
func checkSingleLeafGuard(p *Program, r *Report) {
	saved := r.curRule
	defer func() { r.curRule = saved }()
	r.Rule("C18.single-leaf", "CFG + intervals", "the constant node total is used only for a trie without inner nodes", 0)
	r.Explanation += " (single-leaf) where the rank query that yields the node total is guarded by a comparison of the inner-node total with a constant, the guard admits every trie with at least one inner node."
	judged := 0
	for _, f := range p.FuncsOf(triePath) {
		if f.Synthetic != "" || len(f.Blocks) == 0 {
			continue
		}
		e := newEval(p)
		fromTypeRank := func(v ssa.Value) bool {
			found := false
			for x := range phiClosure(v) {
				var stack []ssa.Value
				stack = append(stack, x)
				for d := 0; len(stack) > 0 && d < 32; d++ {
					y := stack[len(stack)-1]
					stack = stack[:len(stack)-1]
					switch z := y.(type) {
					case *ssa.BinOp:
						stack = append(stack, z.X, z.Y)
					case *ssa.Convert:
						stack = append(stack, z.X)
					case *ssa.Extract:
						if c, ok := z.Tuple.(*ssa.Call); ok && calleeIs(c, idRank64, idRank128) && len(c.Call.Args) >= 1 {
							if strings.HasSuffix(e.pathOrTerm(c.Call.Args[0]), "NodeTypeBM.Words") {
								found = true
							}
						}
					}
				}
			}
			return found
		}
		for _, c := range callsIn(f) {
			call, ok := c.(*ssa.Call)
			if !ok || !calleeIs(call, idRank64, idRank128) || len(call.Call.Args) < 3 {
				continue
			}
			if !strings.HasSuffix(e.pathOrTerm(call.Call.Args[0]), "Inners.Words") {
				continue
			}
			words := e.pathOrTerm(call.Call.Args[0])
			last := O("add", K(-1), mulTerms(K(64), ON("len", "", S(words))))
			pos := e.eval(call.Call.Args[2]).String()
			if pos != last.String() && pos != ON("conv", "int32", last).String() {
				continue
			}
			// the controlling comparison
			b := call.Block()
			id := b.Idom()
			if id == nil || len(b.Preds) != 1 {
				continue
			}
			iff, ok := lastInstr(id).(*ssa.If)
			if !ok {
				continue
			}
			op, cx, cy, cpos, ok := cmpOf(iff.Cond)
			if !ok {
				continue
			}
			onTrue := id.Succs[0] == b
			var X ssa.Value
			var k int64
			if kv, isK := constInt(cy); isK {
				X, k = cx, kv
			} else if kv, isK := constInt(cx); isK {
				X, k = cy, kv
				switch op {
				case token.LSS:
					op = token.GTR
				case token.LEQ:
					op = token.GEQ
				case token.GTR:
					op = token.LSS
				case token.GEQ:
					op = token.LEQ
				}
			} else {
				continue
			}
			if !fromTypeRank(X) {
				continue
			}
			if !onTrue {
				switch op {
				case token.LSS:
					op = token.GEQ
				case token.LEQ:
					op = token.GTR
				case token.GTR:
					op = token.LEQ
				case token.GEQ:
					op = token.LSS
				case token.EQL:
					op = token.NEQ
				case token.NEQ:
					op = token.EQL
				}
			}
			// the smallest inner-node total for which the rank query runs (totals are >= 0)
			lowest := int64(-1)
			switch op {
			case token.GTR:
				lowest = k + 1
			case token.GEQ:
				lowest = k
			case token.NEQ:
				if k == 0 {
					lowest = 1
				}
			}
			judged++
			r.Func(shortFn(f))
			construct := "guard of the node-total rank query in " + shortFn(f)
			if lowest < 0 {
				r.Bad(construct, p.Pos(cpos), "the rank query runs only for small inner-node totals: tries with inner nodes get the constant total of a single leaf")
				continue
			}
			r.Check(lowest <= 1, construct, p.Pos(cpos), "the rank query runs for every trie with at least one inner node",
				fmt.Sprintf("the rank query runs only from %d inner nodes on: a trie with fewer (e.g. keys that all part at the root) is reported with the constant total of a single leaf — NodeCnt 1, KeyCnt 0", lowest))
		}
	}
	if judged == 0 {
		r.Note("C18.single-leaf: no constant-guarded rank query for the node total found (not judged)")
	}
}
