package main

import (
	"fmt"
	"go/token"
	"go/types"
	"strings"

	"golang.org/x/tools/go/ssa"
)

func checkC12(p *Program, r *Report) {
	r.Explanation = "Decided for every record set and query: in index.(*SlimIndex).Get and RangeGet every return is either the constant (\"\", false) taken exactly when the trie reports not-found, or the unmodified result pair of DataReader.Read(offset, key), where key is the method's own parameter and offset is the value the trie returned for that key, type-asserted to the type the index encoder produces; Get routes to (*SlimTrie).Get and RangeGet to (*SlimTrie).RangeGet; the index is built with an encoder whose Decode boxes exactly the asserted type, from the offsets of the caller's items in order. Conversion helpers with several type cases are accepted when the extra path conditions are type tests of the trie's value and the offset is built from that value alone; every trie the constructor can build has an encoder whose boxed type both lookups handle; (narrow) no int64 offset is narrowed without constant bound tests, in the same function, whose accepted region around 0 fits the target type (or the round-trip idiom). Since the trie alone has false positives, answering only through the key-verifying reader is necessary for exactness."
	r.NotCovered = "The trie's own answers for indexed keys (C01/C02) and the reader's verification (user code)."
	r.Trusted = []string{"go/ssa, go/types"}
	r.Assumptions = []string{"the DataReader verifies the record key as the interface documents"}
	r.Rule("C12.verify", "E3", "every positive answer is the reader's own result for (trie offset, query key)", 2)
	r.Rule("C12.route", "call graph", "Get -> SlimTrie.Get, RangeGet -> SlimTrie.RangeGet", 2)
	r.Rule("C12.type", "types", "offset type produced by the index encoder = type asserted on lookup", 2)
	r.Rule("C12.narrow", "E9", "no offset is narrowed without a bound that fits the narrower type", 0)
	r.Rule("C12.all-items", "CFG", "every indexed item's key and offset are handed to the trie", 1)
	rule := func(name string) {
		for _, ri := range r.Rules {
			if ri.Name == name {
				r.curRule = ri
			}
		}
	}
	assertedBy := map[string][]types.Type{}
	inIndex := func(g *ssa.Function) bool { return pkgPathOf(g) == indexPath }
	indexReach := func(f *ssa.Function) map[*ssa.Function]bool {
		seen := map[*ssa.Function]bool{}
		var walk func(g *ssa.Function)
		walk = func(g *ssa.Function) {
			if g == nil || seen[g] || !inIndex(g) || len(g.Blocks) == 0 {
				return
			}
			seen[g] = true
			for _, c := range callsIn(g) {
				walk(calleeOf(c))
			}
		}
		walk(f)
		return seen
	}
	for _, m := range []string{"Get", "RangeGet"} {
		f := p.Method(p.Index, "SlimIndex", m)
		tf := p.Method(p.Trie, "SlimTrie", m)
		rule("C12.verify")
		if f == nil || tf == nil {
			r.Unk("(*index.SlimIndex)."+m, "", "anchor not found")
			continue
		}
		r.Func(shortFn(f))
		reach := indexReach(f)
		// routing: the only trie lookups under this method (helpers of package index included) are tf(key)
		var lookups, others []string
		for g := range reach {
			r.Func(shortFn(g))
			for _, h := range libraryTargets(p, g) {
				if !inSlim(h) || inIndex(h) {
					continue
				}
				if h == tf {
					lookups = append(lookups, shortFn(g))
				} else {
					others = append(others, shortFn(h))
				}
			}
			instrsOf(g, func(_ *ssa.BasicBlock, in ssa.Instruction) {
				if ta, ok := in.(*ssa.TypeAssert); ok {
					assertedBy[m] = append(assertedBy[m], ta.AssertedType)
				}
			})
		}
		rule("C12.route")
		r.Check(len(lookups) == 1 && len(others) == 0, "(*index.SlimIndex)."+m+" routing", p.Pos(f.Pos()), "the only library lookup is (*SlimTrie)."+m,
			fmt.Sprintf("lookups of (*SlimTrie).%s: %v; other library calls: %v", m, lookups, others))
		rule("C12.verify")
		// guarded summary: [!found] -> ("", false) ; [found] -> Read(assert(value), key)
		key := keyParamOf(f)
		ps, why := flatten(p, f, nil, inIndex)
		construct := "(*index.SlimIndex)." + m + " answers through the reader"
		if why != "" || key == nil {
			r.Unk(construct, p.Pos(f.Pos()), "cannot summarise: "+why)
			continue
		}
		lookupT := "call:" + funcID(tf) + "("
		var bad []string
		nNF, nF := 0, 0
		flag := "extract:1(" + lookupT
		isLookupFlag := func(c string) (neg, ok bool) {
			c0 := strings.TrimPrefix(c, "!")
			if strings.HasPrefix(c0, flag) && strings.HasSuffix(c0, ","+key.Name()+"))") && !strings.Contains(c0, "assert:") {
				return c0 != c, true
			}
			return false, false
		}
		for _, fp := range ps {
			if fp.panics {
				bad = append(bad, "a path panics")
				continue
			}
			if len(fp.results) != 2 {
				bad = append(bad, "path ["+abbreviate(fp.pcKey())+"] => "+abbreviate(fp.resKey())+" is not one of the two expected cases")
				continue
			}
			// exactly one conjunct is the trie's found flag for the key; any other conjunct may only be a
			// dynamic type test of the value the trie returned (a conversion helper with several cases)
			nFlag, neg := 0, false
			lk := ""
			var other []string
			for _, c := range dedupStrings(append([]string{}, fp.pc...)) {
				if ng, ok := isLookupFlag(c); ok {
					nFlag++
					neg = ng
					lk = strings.TrimSuffix(strings.TrimPrefix(strings.TrimPrefix(c, "!"), "extract:1("), ")")
					continue
				}
				other = append(other, c)
			}
			if nFlag != 1 {
				bad = append(bad, "path condition ["+abbreviate(fp.pcKey())+"] is not the found flag of (*SlimTrie)."+m+"(key)")
				continue
			}
			for _, c := range other {
				c0 := strings.TrimPrefix(c, "!")
				if !(strings.HasPrefix(c0, "extract:1(assert:") && strings.Contains(c0, "(extract:0("+lk+"))")) {
					bad = append(bad, "the answer also depends on ["+abbreviate(c)+"], which is neither the trie's found flag nor a type test of its value")
				}
			}
			r0, r1 := fp.results[0].String(), fp.results[1].String()
			if neg {
				nNF++
				if r0 != "const:\"\"" || r1 != "false" {
					bad = append(bad, "the trie's not-found case returns ("+fp.resKey()+"), want (\"\", false)")
				}
				continue
			}
			nF++
			okRead := strings.HasPrefix(r0, "extract:0(call:invoke.Read(") && strings.HasPrefix(r1, "extract:1(call:invoke.Read(") &&
				strings.TrimPrefix(r0, "extract:0(") == strings.TrimPrefix(r1, "extract:1(")
			okArgs := strings.Contains(r0, "(extract:0("+lk+"))") && strings.HasSuffix(r0, ","+key.Name()+"))") && strings.Contains(r0, "assert:")
			if okArgs {
				// the offset argument is built from the trie's value and nothing else
				arg := strings.TrimSuffix(strings.TrimPrefix(r0, "extract:0(call:invoke.Read("), ","+key.Name()+"))")
				if i := strings.Index(arg, ","); i >= 0 {
					arg = arg[i+1:]
				}
				rest := strings.Replace(arg, "extract:0("+lk+")", "V", -1)
				if strings.Contains(rest, "call:") || strings.Contains(rest, key.Name()) {
					okArgs = false
				}
			}
			if !okRead {
				bad = append(bad, "the found case returns "+abbreviate(fp.resKey())+", not the reader's own result pair: an answer without key verification")
			} else if !okArgs {
				bad = append(bad, "the reader is not called with (the value the trie returned for the key, the key): "+abbreviate(r0))
			}
		}
		if nNF < 1 || nF < 1 {
			bad = append(bad, fmt.Sprintf("%d not-found and %d found cases, want at least one each", nNF, nF))
		}
		r.Check(len(bad) == 0, construct, p.Pos(f.Pos()), "not found -> (\"\", false); found -> DataReader.Read(value.(T), key) unchanged", strings.Join(dedupStrings(sortStr(bad)), "; "))
	}

	// ---- type agreement
	rule("C12.type")
	ctor := p.Index.Func("NewSlimIndex")
	if ctor == nil {
		r.Unk("index.NewSlimIndex", "", "anchor not found")
		return
	}
	r.Func(shortFn(ctor))
	// every trie the constructor can build: its encoder's boxed type is the element type of the values it
	// is given and a type both lookups handle
	nBuilds := 0
	for _, c := range callsIn(ctor) {
		call, ok := c.(*ssa.Call)
		if !ok || calleeOf(call) != p.Trie.Func("NewSlimTrie") {
			continue
		}
		nBuilds++
		var encT, valuesT types.Type
		if mi, ok := call.Call.Args[0].(*ssa.MakeInterface); ok {
			encT = mi.X.Type()
		}
		if mi, ok := call.Call.Args[2].(*ssa.MakeInterface); ok {
			valuesT = mi.X.Type()
		}
		if encT == nil {
			r.Unk("index encoder", p.Pos(call.Pos()), "NewSlimIndex does not pass a concrete encoder to NewSlimTrie")
			continue
		}
		n, _ := encT.(*types.Named)
		var boxed types.Type
		if n != nil {
			if dec := encMethod(p, n, "Decode"); dec != nil {
				for _, ret := range returnsOf(dec) {
					if len(ret.Results) == 2 {
						if mi, ok := ret.Results[1].(*ssa.MakeInterface); ok {
							boxed = mi.X.Type()
						}
					}
				}
			}
		}
		okT := boxed != nil
		for _, m := range []string{"Get", "RangeGet"} {
			handled := false
			for _, a := range assertedBy[m] {
				if boxed != nil && types.Identical(a, boxed) {
					handled = true
				}
			}
			if !handled {
				okT = false
			}
		}
		r.Check(okT, "offset type: encoder "+encT.String()+" vs lookup assertions", p.Pos(call.Pos()), "Decode boxes "+fmt.Sprint(boxed)+", which both lookups assert",
			fmt.Sprintf("the encoder's Decode boxes %v but the lookups assert Get:%v RangeGet:%v: a hit would panic", boxed, assertedBy["Get"], assertedBy["RangeGet"]))
		okV := false
		if sl, ok := valuesT.(*types.Slice); ok && boxed != nil {
			okV = types.Identical(sl.Elem(), boxed)
		}
		r.Check(okV, "offset slice element type for "+encT.String(), p.Pos(call.Pos()), "[]"+fmt.Sprint(boxed)+" is what the encoder's Encode asserts", fmt.Sprintf("values of type %v are handed to an encoder for %v", valuesT, boxed))
	}
	if nBuilds == 0 {
		r.Unk("index encoder", p.Pos(ctor.Pos()), "NewSlimIndex does not call NewSlimTrie")
	}

	// ---- every item reaches the trie: the de-duplicating trie chooses its branch positions from ALL keys
	// of a block, also the de-duplicated ones, which is what routes every key of a block to that block.
	// The loop that collects keys and offsets appends one of each on every iteration.
	rule("C12.all-items")
	{
		var bad []string
		nApp := 0
		// the loop may live in the constructor or in a helper of package index it calls; an element may
		// be appended or stored at its index
		isEltStore := func(in ssa.Instruction) bool {
			var elemT types.Type
			switch x := in.(type) {
			case *ssa.Call:
				bi, ok := x.Call.Value.(*ssa.Builtin)
				if !ok || bi.Name() != "append" {
					return false
				}
				sl, ok := x.Type().Underlying().(*types.Slice)
				if !ok {
					return false
				}
				elemT = sl.Elem()
			case *ssa.Store:
				ia, ok := x.Addr.(*ssa.IndexAddr)
				if !ok {
					return false
				}
				sl, ok := ia.X.Type().Underlying().(*types.Slice)
				if !ok {
					return false
				}
				elemT = sl.Elem()
			default:
				return false
			}
			return isStringType(elemT) || isIntType(elemT)
		}
		// the element stores a per-item helper performs on every path through it (no loop of its own)
		perCall := func(h *ssa.Function) (n int, partial []ssa.Instruction) {
			if h == nil || len(h.Blocks) == 0 || pkgPathOf(h) != indexPath {
				return
			}
			instrsOf(h, func(b *ssa.BasicBlock, in ssa.Instruction) {
				if !isEltStore(in) || loopHeaderOf(b) != nil {
					return
				}
				n++
				for _, e := range h.Blocks {
					if len(e.Instrs) == 0 {
						continue
					}
					if _, ok := e.Instrs[len(e.Instrs)-1].(*ssa.Return); ok && !b.Dominates(e) {
						partial = append(partial, in)
						return
					}
				}
			})
			return
		}
		everyIter := func(b *ssa.BasicBlock, header *ssa.BasicBlock) bool {
			for i := range header.Preds {
				if header.Dominates(header.Preds[i]) && !b.Dominates(header.Preds[i]) {
					return false
				}
			}
			return true
		}
		for g := range indexReach(ctor) {
			instrsOf(g, func(b *ssa.BasicBlock, in ssa.Instruction) {
				header := loopHeaderOf(b)
				if header == nil {
					return
				}
				if isEltStore(in) {
					nApp++
					if !everyIter(b, header) {
						bad = append(bad, "the element stored at "+p.Pos(in.Pos())+" is skipped for some items: keys that never reach the trie are routed by the branch positions of the others")
					}
					return
				}
				if c, ok := in.(*ssa.Call); ok {
					n, partial := perCall(c.Common().StaticCallee())
					if n == 0 {
						return
					}
					nApp += n
					for _, pi := range partial {
						bad = append(bad, "the element stored at "+p.Pos(pi.Pos())+" is skipped on some paths of the per-item helper")
					}
					if !everyIter(b, header) {
						bad = append(bad, "the per-item helper called at "+p.Pos(in.Pos())+" is skipped for some items: keys that never reach the trie are routed by the branch positions of the others")
					}
				}
			})
		}
		r.Check(len(bad) == 0 && nApp >= 2, "index.NewSlimIndex hands every item to the trie", p.Pos(ctor.Pos()), fmt.Sprintf("%d appends in the item loop, each on every iteration", nApp), strings.Join(dedupStrings(sortStr(bad)), "; ")+fmt.Sprintf(" (%d appends found)", nApp))
	}

	// ---- narrowing: offsets are int64; a narrower leaf type needs a bound that fits it
	rule("C12.narrow")
	checkOffsetNarrowing(p, r, p.FuncsOf(indexPath), "index")

	// ---- SlimIndex.Get is SlimTrie.Get followed by the reader: the lookup mechanisms of C01 and the
	// acceptance/narrowing rules of C08 are necessary conditions here as well
	r.Explanation += " (trie) the lookup mechanisms decided for C01 — 257-bit zone, short-node bit slice, label index ranges, rank at the last bit — and the acceptance and step-narrowing rules of C08 are decided here under C12's name: SlimIndex.Get is SlimTrie.Get followed by the reader."
	checkBigZone(p, r, "C12.bigzone")
	checkBitSlice(p, r, "C12.bitslice")
	checkLabelRangeAs(p, r, "C12.labelrange")
	checkRankLastBit(p, r, "C12.rank-last-bit")
	if entry := p.Trie.Func("NewSlimTrie"); entry != nil {
		if F := findBuilder(p, entry); F != nil {
			checkNarrowAs(p, r, "C12.trie-narrow", entry, F)
		}
	}
	checkRejectReasonsAs(p, r, "C12.accept")
	checkCutAlignment(p, r, "C12.align")
	checkCodecsAs(p, r, "C12")
}

func init() { checks["C12"] = checkC12 }

// checkOffsetNarrowing: every integer narrowing conversion in the given
// functions whose operand is not provably small needs, in the same function,
// constant bounds on a value of the operand's type that fit the target type:
// the tightest upper-bound comparison constant must not exceed the target's
// maximum and, for a signed source, a lower bound must not undercut its
// minimum; or the round-trip idiom T(S(x)) == x. An absent or too-wide bound
// is reported.
func checkOffsetNarrowing(p *Program, r *Report, fns []*ssa.Function, what string) int {
	n := 0
	for _, f := range fns {
		if f.Synthetic != "" || len(f.Blocks) == 0 || strings.HasSuffix(p.File(f.Pos()), ".pb.go") {
			continue
		}
		e := newEval(p)
		var sites []*ssa.Convert
		instrsOf(f, func(_ *ssa.BasicBlock, in ssa.Instruction) {
			cv, ok := in.(*ssa.Convert)
			if !ok {
				return
			}
			tb, ok1 := cv.Type().Underlying().(*types.Basic)
			sb, ok2 := cv.X.Type().Underlying().(*types.Basic)
			if !ok1 || !ok2 || tb.Info()&types.IsInteger == 0 || sb.Info()&types.IsInteger == 0 {
				return
			}
			tw, sw := int(8*p.Sizes.Sizeof(tb)), int(8*p.Sizes.Sizeof(sb))
			if sw <= tw {
				return
			}
			if _, isConst := cv.X.(*ssa.Const); isConst {
				return
			}
			if e.bits(cv.X) <= tw-1 {
				return // provably small (length, masked value, ...)
			}
			sites = append(sites, cv)
		})
		if len(sites) == 0 {
			continue
		}
		// cut points established anywhere in the function on values of the source type: a comparison
		// with a constant splits the line in two, whichever way its branches go; the narrow
		// representation is used for small values, so the accepted region is the one containing 0
		cuts := map[string][]int64{}
		roundTrip := map[string]bool{}
		instrsOf(f, func(_ *ssa.BasicBlock, in ssa.Instruction) {
			bo, ok := in.(*ssa.BinOp)
			if !ok {
				return
			}
			kx, isKx := constInt(bo.X)
			ky, isKy := constInt(bo.Y)
			switch {
			case isKy && (bo.Op == token.GTR || bo.Op == token.LEQ): // x > K / x <= K
				cuts[bo.X.Type().String()] = append(cuts[bo.X.Type().String()], ky+1)
			case isKy && (bo.Op == token.GEQ || bo.Op == token.LSS): // x >= K / x < K
				cuts[bo.X.Type().String()] = append(cuts[bo.X.Type().String()], ky)
			case isKx && (bo.Op == token.LSS || bo.Op == token.GEQ): // K < x / K >= x
				cuts[bo.Y.Type().String()] = append(cuts[bo.Y.Type().String()], kx+1)
			case isKx && (bo.Op == token.LEQ || bo.Op == token.GTR): // K <= x / K > x
				cuts[bo.Y.Type().String()] = append(cuts[bo.Y.Type().String()], kx)
			case bo.Op == token.EQL || bo.Op == token.NEQ:
				// round trip: S(T(x)) ==/!= x
				for _, pair := range [][2]ssa.Value{{bo.X, bo.Y}, {bo.Y, bo.X}} {
					if c1, ok := pair[0].(*ssa.Convert); ok {
						if c2, ok := c1.X.(*ssa.Convert); ok && c2.X == pair[1] {
							roundTrip[c2.Type().String()+"<-"+pair[1].Type().String()] = true
						}
					}
				}
			}
		})
		for _, cv := range sites {
			n++
			tb := cv.Type().Underlying().(*types.Basic)
			tw := uint(8 * p.Sizes.Sizeof(tb))
			var max, min int64
			if tb.Info()&types.IsUnsigned != 0 {
				max, min = 1<<tw-1, 0
			} else {
				max, min = 1<<(tw-1)-1, -(1 << (tw - 1))
			}
			construct := fmt.Sprintf("%s: %s(%s) in %s", what, tb.String(), cv.X.Type().String(), shortFn(f))
			if roundTrip[cv.Type().String()+"<-"+cv.X.Type().String()] {
				r.OK(construct, p.Pos(cv.Pos()), "round-trip comparison in the same function")
				continue
			}
			hasUp, hasLo := false, false
			var up, lo int64
			for _, c := range cuts[cv.X.Type().String()] {
				if c > 0 && (!hasUp || c-1 < up) {
					up, hasUp = c-1, true
				}
				if c <= 0 && (!hasLo || c > lo) {
					lo, hasLo = c, true
				}
			}
			switch {
			case !hasUp:
				r.Bad(construct, p.Pos(cv.Pos()), fmt.Sprintf("narrowing to %s without any upper-bound test on a %s in this function: values above %d wrap", tb, cv.X.Type(), max))
			case up > max:
				r.Bad(construct, p.Pos(cv.Pos()), fmt.Sprintf("narrowing to %s, whose maximum is %d, but the tightest bound tested above 0 on a %s in this function is %d: values in (%d, %d] pass the test and wrap", tb, max, cv.X.Type(), up, max, up))
			case hasLo && lo < min:
				r.Bad(construct, p.Pos(cv.Pos()), fmt.Sprintf("narrowing to %s, whose minimum is %d, but the lower bound tested is %d", tb, min, lo))
			default:
				r.OK(construct, p.Pos(cv.Pos()), fmt.Sprintf("values around 0 are cut off at %d, within the range of %s", up, tb))
			}
		}
	}
	return n
}

func controlC12(fx *Program, r *Report) {
	pkg := fx.FxPkg("narrowidx")
	if pkg == nil {
		r.Control("C12.narrow", "fixtures/narrowidx", false, "fixture package not loaded")
		return
	}
	for _, tc := range []struct {
		fn   string
		want bool
	}{{"Build32Wrong", true}, {"Build32Unguarded", true}, {"Build32Right", false}} {
		f := pkg.Func(tc.fn)
		if f == nil {
			r.Control("C12.narrow", "narrowidx."+tc.fn, false, "function not found")
			continue
		}
		tmp := NewReport("C12", "fixtures")
		tmp.Rule("C12.narrow", "E9", "control", 0)
		n := checkOffsetNarrowing(fx, tmp, []*ssa.Function{f}, "fixture")
		bad := 0
		for _, o := range tmp.Obls {
			if o.Status == Violated {
				bad++
			}
		}
		r.Control("C12.narrow", "narrowidx."+tc.fn, n >= 1 && (bad > 0) == tc.want, fmt.Sprintf("expected flagged=%v: %d narrowing site(s), %d violated", tc.want, n, bad))
	}
}

func init() { controlFns["C12"] = controlC12 }

// libraryTargets: the functions g calls statically, plus the methods it turns
// into method values (x.M passed on as a function): a lookup handed to a
// higher-order helper is still a lookup of g.
func libraryTargets(p *Program, g *ssa.Function) []*ssa.Function {
	var out []*ssa.Function
	for _, c := range callsIn(g) {
		if h := calleeOf(c); h != nil {
			out = append(out, h)
		}
	}
	// method expressions / function values handed on as arguments ((*T).M passed to a helper that calls it)
	for _, c := range callsIn(g) {
		for _, a := range c.Common().Args {
			for {
				if ct, isCT := a.(*ssa.ChangeType); isCT {
					a = ct.X
					continue
				}
				break
			}
			fn, ok := a.(*ssa.Function)
			if !ok {
				continue
			}
			if fn.Synthetic != "" {
				if obj, ok := fn.Object().(*types.Func); ok {
					if m := p.Prog.FuncValue(obj); m != nil {
						fn = m
					}
				}
			}
			out = append(out, fn)
		}
	}
	instrsOf(g, func(_ *ssa.BasicBlock, in ssa.Instruction) {
		mc, ok := in.(*ssa.MakeClosure)
		if !ok {
			return
		}
		fn, ok := mc.Fn.(*ssa.Function)
		if !ok || !strings.Contains(fn.Synthetic, "bound method wrapper") {
			return
		}
		if obj, ok := fn.Object().(*types.Func); ok {
			if m := p.Prog.FuncValue(obj); m != nil {
				out = append(out, m)
			}
		}
	})
	return out
}
