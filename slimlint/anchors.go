package main

import (
	"go/token"
	"go/types"
	"strings"

	"golang.org/x/tools/go/ssa"
)

// wirePathOf renders the access path of a value loaded from the wire message,
// e.g. "Slim.InnerPrefixes.PositionBM", following field loads and generated
// protobuf getters back to a value of type *trie.Slim. Returns "" if the value
// is not such a load. For values rooted at a *VLenArray / *Bitmap parameter the
// path starts with "VLenArray" / "Bitmap".
func wirePathOf(v ssa.Value) string {
	return wirePathRec(v, 0)
}

func wireRootName(t types.Type) string {
	n := namedOf(t)
	if n == nil || n.Obj().Pkg() == nil {
		return ""
	}
	if _, ok := t.Underlying().(*types.Pointer); !ok {
		if _, ok2 := t.(*types.Pointer); !ok2 {
			return ""
		}
	}
	switch n.Obj().Pkg().Path() {
	case triePath:
		switch n.Obj().Name() {
		case "Slim", "VLenArray", "Bitmap":
			return n.Obj().Name()
		}
	case arrayPath:
		switch n.Obj().Name() {
		case "Array32", "Base", "Array", "U16", "U32", "U64", "I16", "I32", "I64", "Bits":
			return "Array32"
		}
	}
	return ""
}

func wirePathRec(v ssa.Value, depth int) string {
	if depth > 12 || v == nil {
		return ""
	}
	switch x := v.(type) {
	case *ssa.UnOp:
		if x.Op != token.MUL {
			return ""
		}
		// load of a field
		if _, fv, fa := fieldOfAddr(x.X); fa != nil {
			base := wirePathRec(fa.X, depth+1)
			if base == "" {
				// the message itself: field of type *Slim loaded from a non-wire struct (st.inner)
				if r := wireRootName(x.Type()); r == "Slim" {
					return "Slim"
				} else if r == "Array32" {
					// a legacy array held in a plain record (old.children): the array is its own root
					return "Array32"
				}
				return ""
			}
			if fv.Embedded() {
				return base
			}
			return base + "." + fv.Name()
		}
		// load of a variable captured by a closure: the cell in the enclosing function
		if fv, ok := x.X.(*ssa.FreeVar); ok {
			if al := freeVarCell(fv); al != nil {
				var st *ssa.Store
				n := 0
				for _, ref := range *al.Referrers() {
					if s, ok := ref.(*ssa.Store); ok && s.Addr == ssa.Value(al) {
						st = s
						n++
					}
				}
				if n == 1 {
					return wirePathRec(st.Val, depth+1)
				}
			}
			return ""
		}
		// load of a local variable holding a message pointer: follow single store
		if al, ok := x.X.(*ssa.Alloc); ok {
			var st *ssa.Store
			n := 0
			for _, ref := range *al.Referrers() {
				if s, ok := ref.(*ssa.Store); ok && s.Addr == al {
					st = s
					n++
				}
			}
			if n == 1 {
				return wirePathRec(st.Val, depth+1)
			}
		}
		return ""
	case *ssa.FieldAddr:
		// address of an embedded struct (Base.Array32)
		_, fv, fa := fieldOfAddr(x)
		if fa != nil && fv.Embedded() {
			return wirePathRec(fa.X, depth+1)
		}
		return ""
	case *ssa.Parameter:
		return wireRootName(x.Type())
	case *ssa.FreeVar:
		return ""
	case *ssa.Call:
		// generated getter (*T).GetX()
		f := calleeOf(x)
		if f != nil && f.Signature.Recv() != nil && strings.HasPrefix(f.Name(), "Get") && len(x.Call.Args) == 1 {
			if r := wireRootName(f.Signature.Recv().Type()); r != "" {
				base := wirePathRec(x.Call.Args[0], depth+1)
				if base != "" {
					return base + "." + strings.TrimPrefix(f.Name(), "Get")
				}
			}
		}
		return ""
	case *ssa.Phi:
		// all edges agree
		p := ""
		for i, e := range x.Edges {
			q := wirePathRec(e, depth+1)
			if i == 0 {
				p = q
			} else if q != p {
				return ""
			}
		}
		return p
	case *ssa.Alloc:
		return ""
	}
	if r := wireRootName(v.Type()); r == "Slim" {
		if _, ok := v.(*ssa.Parameter); ok {
			return r
		}
	}
	return ""
}

// wireAddrPath: path of the field whose address v is (for stores).
func wireAddrPath(v ssa.Value) string {
	_, fv, fa := fieldOfAddr(v)
	if fa == nil {
		return ""
	}
	base := wirePathOf(fa.X)
	if base == "" {
		if r := wireRootName(fa.X.Type()); r != "" {
			// store through a locally allocated message
			if _, ok := fa.X.(*ssa.Alloc); ok {
				return r + "(new)." + fv.Name()
			}
			return r + "(?)." + fv.Name()
		}
		return ""
	}
	return base + "." + fv.Name()
}

// trieReach: functions of package trie reachable from roots through static
// calls and closure creation (closures may be returned to the user).
func trieReach(roots ...*ssa.Function) map[*ssa.Function]bool {
	seen := map[*ssa.Function]bool{}
	var walk func(f *ssa.Function)
	walk = func(f *ssa.Function) {
		if f == nil || seen[f] || !inSlim(f) || len(f.Blocks) == 0 {
			return
		}
		seen[f] = true
		instrsOf(f, func(_ *ssa.BasicBlock, in ssa.Instruction) {
			switch x := in.(type) {
			case *ssa.MakeClosure:
				walk(x.Fn.(*ssa.Function))
			case ssa.CallInstruction:
				walk(calleeOf(x))
			}
		})
	}
	for _, f := range roots {
		walk(f)
	}
	return seen
}

// nilTest decodes "X == nil" / "X != nil": returns X and the index of the
// successor taken when X is nil.
func nilTest(cond ssa.Value) (ssa.Value, int, bool) {
	neg := false
	for {
		if u, ok := cond.(*ssa.UnOp); ok && u.Op == token.NOT {
			neg = !neg
			cond = u.X
			continue
		}
		break
	}
	if call, isCall := cond.(*ssa.Call); isCall {
		// an emptiness predicate: a small boolean method that is false only if some wire pointer is non-nil
		if x, ok := predicateNilTarget(call); ok {
			nilSucc := 0
			if neg {
				nilSucc = 1
			}
			return x, nilSucc, true
		}
		if x, when, ok := guardResultNilTarget(calleeOf(call), 0); ok {
			nilSucc := 1
			if !when {
				nilSucc = 0
			}
			if neg {
				nilSucc = 1 - nilSucc
			}
			return x, nilSucc, true
		}
		return nil, 0, false
	}
	if ex, isEx := cond.(*ssa.Extract); isEx {
		// the "ok" result of a helper that hands out something only if a wire pointer is non-nil
		if call, isCall := ex.Tuple.(*ssa.Call); isCall {
			if x, when, ok := guardResultNilTarget(calleeOf(call), ex.Index); ok {
				nilSucc := 1
				if !when {
					nilSucc = 0
				}
				if neg {
					nilSucc = 1 - nilSucc
				}
				return x, nilSucc, true
			}
		}
		return nil, 0, false
	}
	if ld, isLd := cond.(*ssa.UnOp); isLd && ld.Op == token.MUL && curProg != nil {
		// a cached flag of the derived-constants record with one defining nil comparison
		if _, fv, fa := fieldOfAddr(ld.X); fa != nil && isBoolType(ld.Type()) {
			if def, ok := derivedFlagDefsSSA(curProg)[fv.Name()]; ok {
				if x, nilSucc, ok := nilTest(def); ok {
					if neg {
						nilSucc = 1 - nilSucc
					}
					return x, nilSucc, true
				}
			}
		}
		return nil, 0, false
	}
	b, ok := cond.(*ssa.BinOp)
	if !ok || (b.Op != token.EQL && b.Op != token.NEQ) {
		return nil, 0, false
	}
	var x ssa.Value
	switch {
	case isNilConst(b.Y):
		x = b.X
	case isNilConst(b.X):
		x = b.Y
	default:
		return nil, 0, false
	}
	nilSucc := 0
	if b.Op == token.NEQ {
		nilSucc = 1
	}
	if neg {
		nilSucc = 1 - nilSucc
	}
	return x, nilSucc, true
}

// takesTrie: function of package trie with a *SlimTrie receiver or parameter.
func takesTrie(f *ssa.Function) bool {
	if f == nil || !trieScope(f) {
		return false
	}
	for _, p := range f.Params {
		if isNamed(p.Type(), triePath, "SlimTrie") {
			return true
		}
	}
	return false
}

// blockPostDominatesEntry: b lies on every path from entry to a normal return
// (paths ending in panic are ignored).
func blockPostDominatesEntry(f *ssa.Function, b *ssa.BasicBlock) bool {
	d, _ := postDom(f, nil)
	return d.pdom[0][b.Index]
}

// derivedFlagDefsSSA: bool fields of the derived-constants record (the struct holding ShortMask) that
// have exactly one store in package trie, of a comparison: field name -> that comparison.
func derivedFlagDefsSSA(p *Program) map[string]*ssa.BinOp {
	out := map[string]*ssa.BinOp{}
	count := map[string]int{}
	for _, f := range p.FuncsOf(triePath) {
		if f.Synthetic != "" {
			continue
		}
		instrsOf(f, func(_ *ssa.BasicBlock, in ssa.Instruction) {
			st, ok := in.(*ssa.Store)
			if !ok || !isBoolType(st.Val.Type()) {
				return
			}
			stt, fv, fa := fieldOfAddr(st.Addr)
			if fa == nil || stt == nil {
				return
			}
			hasMask := false
			for i := 0; i < stt.NumFields(); i++ {
				if stt.Field(i).Name() == "ShortMask" {
					hasMask = true
				}
			}
			if !hasMask {
				return
			}
			count[fv.Name()]++
			if bo, ok := st.Val.(*ssa.BinOp); ok {
				out[fv.Name()] = bo
			}
		})
	}
	for n, c := range count {
		if c != 1 {
			delete(out, n)
		}
	}
	return out
}

// predicateNilTarget: call is a call of a loop-free boolean function of package trie whose result is
// true on every path unless some wire pointer X is non-nil ("func (st) isEmpty() bool { return st.vars ==
// nil || st.vars.Empty }" with Empty defined once as NodeTypeBM == nil): returns a value that denotes X.
// The false result then establishes X != nil, which is what a guard needs.
func predicateNilTarget(call *ssa.Call) (ssa.Value, bool) {
	h := calleeOf(call)
	if h == nil || curProg == nil || !trieScope(h) || len(h.Blocks) == 0 || len(h.Blocks) > 6 || hasLoop(h) {
		return nil, false
	}
	if rs := h.Signature.Results(); rs.Len() != 1 || !isBoolType(rs.At(0).Type()) {
		return nil, false
	}
	defs := derivedFlagDefsSSA(curProg)
	var target ssa.Value
	okAll := true
	var leaf func(v ssa.Value, d int)
	leaf = func(v ssa.Value, d int) {
		if d > 4 || !okAll {
			okAll = false
			return
		}
		switch x := v.(type) {
		case *ssa.Const:
			if b, ok := constBool(x); !ok || !b {
				okAll = false // "false" without knowing anything about the pointer
			}
		case *ssa.Phi:
			for _, ed := range x.Edges {
				leaf(ed, d+1)
			}
		case *ssa.BinOp:
			// X == nil
			t, nilSucc, ok := nilTest(x)
			if !ok || nilSucc != 0 {
				okAll = false
				return
			}
			if target != nil && wirePathOf(target) != wirePathOf(t) {
				okAll = false
				return
			}
			target = t
		case *ssa.UnOp:
			if x.Op == token.NOT {
				okAll = false
				return
			}
			if _, fv, fa := fieldOfAddr(x.X); fa != nil && x.Op == token.MUL {
				if def, ok := defs[fv.Name()]; ok {
					leaf(def, d+1)
					return
				}
			}
			okAll = false
		default:
			okAll = false
		}
	}
	for _, ret := range returnsOf(h) {
		leaf(ret.Results[0], 0)
	}
	if !okAll || target == nil || wirePathOf(target) == "" {
		return nil, false
	}
	return target, true
}

// guardResultNilTarget: h is a small loop-free function of package trie whose k-th result is a
// boolean constant at every return, and every return with the value "when" lies behind the non-nil
// side of a nil test (direct, cached or through an emptiness predicate) of one wire pointer X:
// result == when establishes X != nil ("func (st) newQuery(key) (*session, bool)" that returns
// (nil, false) for an empty trie). The other value establishes nothing.
var guardResultDepth int

func guardResultNilTarget(h *ssa.Function, k int) (ssa.Value, bool, bool) {
	if h == nil || curProg == nil || !trieScope(h) || len(h.Blocks) < 2 || len(h.Blocks) > 8 || hasLoop(h) || guardResultDepth > 2 {
		return nil, false, false
	}
	rs := h.Signature.Results()
	if k >= rs.Len() || !isBoolType(rs.At(k).Type()) {
		return nil, false, false
	}
	guardResultDepth++
	defer func() { guardResultDepth-- }()
	rets := returnsOf(h)
	behindNonNil := func(b *ssa.BasicBlock) ssa.Value {
		for d := b; d != nil && d.Idom() != nil; d = d.Idom() {
			D := d.Idom()
			iff, ok := lastInstr(D).(*ssa.If)
			if !ok {
				continue
			}
			x, nilSucc, ok := nilTest(iff.Cond)
			if !ok {
				continue
			}
			nn := D.Succs[1-nilSucc]
			if len(nn.Preds) == 1 && nn != D.Succs[nilSucc] && nn.Dominates(b) {
				return x
			}
		}
		return nil
	}
	for _, when := range []bool{true, false} {
		var target ssa.Value
		ok, n := true, 0
		for _, ret := range rets {
			if k >= len(ret.Results) {
				ok = false
				break
			}
			cv, isC := constBool(ret.Results[k])
			if !isC {
				ok = false
				break
			}
			if cv != when {
				continue
			}
			n++
			t := behindNonNil(ret.Block())
			if t == nil || wirePathOf(t) == "" || (target != nil && wirePathOf(target) != wirePathOf(t)) {
				ok = false
				break
			}
			target = t
		}
		if ok && n > 0 && n < len(rets) && target != nil {
			return target, when, true
		}
	}
	return nil, false, false
}

// freeVarCell: the local cell of the enclosing function that a closure's free variable refers to
// (variables are captured by reference): the binding of the (single) MakeClosure of that function.
func freeVarCell(fv *ssa.FreeVar) *ssa.Alloc {
	fn := fv.Parent()
	if fn == nil || fn.Parent() == nil {
		return nil
	}
	idx := -1
	for i, v := range fn.FreeVars {
		if v == fv {
			idx = i
		}
	}
	var cell *ssa.Alloc
	n := 0
	instrsOf(fn.Parent(), func(_ *ssa.BasicBlock, in ssa.Instruction) {
		if mc, ok := in.(*ssa.MakeClosure); ok && mc.Fn == ssa.Value(fn) && idx >= 0 && idx < len(mc.Bindings) {
			n++
			cell, _ = mc.Bindings[idx].(*ssa.Alloc)
		}
	})
	if n != 1 {
		return nil
	}
	return cell
}
